#!/bin/bash
# Builds the analyzer offline from /verif/tool (x/tools v0.50.0 from the module cache, go1.26.8).
set -eu
cd "$(dirname "$0")"
export PATH=/opt/veriftools/go1.26.8/bin:$PATH GOTOOLCHAIN=local GOFLAGS=-mod=mod GOPROXY=off
unset GOWORK || true
mkdir -p bin evidence
if [ ! -x bin/atreelint ] || [ -n "$(find tool -newer bin/atreelint -type f \( -name '*.go' -o -name go.mod -o -name go.sum \) -print -quit)" ]; then
  (cd tool && go build -o ../bin/atreelint .)
fi
echo "atreelint ready: $(ls -la bin/atreelint | awk '{print $5}') bytes"
