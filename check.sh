#!/bin/bash
# usage: ./check.sh <property-id> quick|thorough
#        ./check.sh <property-id> replay <path>
# Static analysis only: loads /repo's current working tree with go/packages,
# builds go/ssa, runs the rules mapped to the property, writes evidence/<id>.json.
set -u
cd "$(dirname "$0")"
export PATH=/opt/veriftools/go1.26.8/bin:$PATH GOTOOLCHAIN=local GOFLAGS=-mod=mod GOPROXY=off
unset GOWORK || true
prop="${1:?property id}"; tier="${2:-quick}"
./setup.sh >/dev/null || { echo "setup failed"; exit 2; }
REPO="${VERIF_REPO:-/repo}"
case "$tier" in
  replay) exec bin/atreelint -prop "$prop" -tier quick -repo "$REPO" -verif "$(pwd)" -no-evidence -replay "${3:?replay file}" ;;
  quick|thorough) exec bin/atreelint -prop "$prop" -tier "$tier" -repo "$REPO" -verif "$(pwd)" ;;
  *) echo "unknown tier $tier"; exit 2 ;;
esac
