#!/bin/bash
# convenience: run every claimed check at the given tier (default quick); prints one line per property
cd "$(dirname "$0")"
tier="${1:-quick}"
rc=0
for p in $(python3 -c "import json;print(' '.join(c['property_id'] for c in json.load(open('MANIFEST.json'))['checks']))"); do
  out=$(./check.sh "$p" "$tier" 2>&1); code=$?
  echo "$p exit=$code $(echo "$out" | grep -c SELFTEST-) selftest-issues :: $(echo "$out" | tail -1)"
  [ $code -ne 0 ] && rc=1
done
exit $rc
