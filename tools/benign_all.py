#!/usr/bin/env python3
"""Development aid: run every benign (behaviour-preserving) seed against ALL rules, not only the rules it names.
Prints the seeds on which any rule reports a new failing obligation (a false alarm)."""
import json, os, subprocess, sys, tempfile, concurrent.futures as cf
ENV = dict(os.environ, PATH='/opt/veriftools/go1.26.8/bin:' + os.environ['PATH'], GOTOOLCHAIN='local', GOFLAGS='-mod=mod', GOPROXY='off')
BIN = '/verif/bin/atreelint'
rules = sorted({r for l in subprocess.run([BIN, '-list'], capture_output=True, text=True, env=ENV).stdout.splitlines()[:20] for r in l.split(':')[1].split()})
RULES = ','.join(rules)
tmp = tempfile.mkdtemp(prefix='ba')
def lint(overlay, tag):
    js = f'{tmp}/{tag}.json'
    cmd = [BIN, '-rules', RULES, '-repo', '/repo', '-verif', tmp, '-no-evidence', '-json', js]
    if overlay: cmd += ['-overlay', overlay]
    p = subprocess.run(cmd, capture_output=True, text=True, env=ENV)
    try: o = json.load(open(js))['obligations']
    except Exception: return None
    return None if o is None else {x['key']: x for x in o}
base = lint(None, 'base'); basefail = {k for k, v in base.items() if v['verdict'] != 'discharged'}
seeds = [s for s in json.load(open('/verif/selftest/seeds.json'))['seeds'] if s.get('benign')]
def one(i_s):
    i, s = i_s
    src = open('/repo/' + s['file']).read()
    if src.count(s['find']) != 1: return s['id'], 'skipped', []
    mut = src.replace(s['find'], s['replace'], 1)
    for ed in s.get('edits', []):
        if mut.count(ed['find']) != 1: return s['id'], 'skipped', []
        mut = mut.replace(ed['find'], ed['replace'], 1)
    mf = f'{tmp}/s{i}.go'; open(mf, 'w').write(mut + s.get('append', ''))
    res = lint(f"{s['file']}={mf}", f's{i}')
    if res is None: return s['id'], 'invalid', []
    new = [(k, v.get('detail', '')[:160]) for k, v in res.items() if v['verdict'] != 'discharged' and k not in basefail]
    return s['id'], 'FALSE-ALARM' if new else 'silent', new
with cf.ThreadPoolExecutor(10) as ex:
    res = list(ex.map(one, enumerate(seeds)))
bad = [r for r in res if r[1] != 'silent']
for r in bad:
    print(r[0], r[1]); [print('    ', k, '|', d) for k, d in r[2][:4]]
print(len(seeds), 'benign seeds;', len(bad), 'not silent')
