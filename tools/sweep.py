#!/usr/bin/env python3
"""Development aid (not a check): applies every single-edit variant listed by bin/sweepgen through a
go/packages overlay and records which rules of atreelint report a new failing obligation.
usage: sweep.py <out.jsonl> [file-substring ...]      (env SWEEP_JOBS, default 12)
Edits nobody notices ("survived") are candidates for reading: is the edit behaviour-preserving,
loud (any test fails at once), outside every property, or a blind spot of the rules?"""
import json, os, subprocess, sys, tempfile, concurrent.futures as cf
ENV = dict(os.environ, PATH='/opt/veriftools/go1.26.8/bin:' + os.environ['PATH'], GOTOOLCHAIN='local', GOFLAGS='-mod=mod', GOPROXY='off')
ENV.pop('GOWORK', None)
REPO = os.environ.get('SWEEP_REPO', '/repo')
BIN = '/verif/bin/atreelint'
out_path = sys.argv[1]; filt = sys.argv[2:]
rules = sorted({r for l in subprocess.run([BIN, '-list'], capture_output=True, text=True, env=ENV).stdout.splitlines()[:20] for r in l.split(':')[1].split()})
RULES = ','.join(rules)
tmp = tempfile.mkdtemp(prefix='sweep')
def lint(overlay=None, tag='base'):
    js = f'{tmp}/{tag}.json'
    cmd = [BIN, '-rules', RULES, '-repo', REPO, '-verif', tmp, '-no-evidence', '-json', js]
    if overlay: cmd += ['-overlay', overlay]
    p = subprocess.run(cmd, capture_output=True, text=True, env=ENV)
    try:
        obl = json.load(open(js))['obligations']
    except Exception:
        return None, (p.stdout + p.stderr)[-400:]
    finally:
        if os.path.exists(js): os.remove(js)
    if obl is None:
        return None, (p.stdout + p.stderr)[-400:]
    return {o['key']: o['verdict'] for o in obl}, p.stdout[-300:]
base, _ = lint()
basefail = {k for k, v in base.items() if v != 'discharged'}
muts = [json.loads(l) for l in subprocess.run(['/verif/bin/sweepgen', REPO], capture_output=True, text=True).stdout.splitlines()]
skipfiles = ('_verify.go', '_dump.go', '_stats.go')
muts = [m for m in muts if not m['file'].endswith(skipfiles) and (not filt or any(f in m['file'] for f in filt))]
srcs = {}
def one(i_m):
    i, m = i_m
    src = srcs.setdefault(m['file'], open(f"{REPO}/{m['file']}", 'rb').read())
    mf = f'{tmp}/m{i}.go'
    open(mf, 'wb').write(src[:m['beg']] + m['repl'].encode() + src[m['end']:])
    res, tail = lint(f"{m['file']}={mf}", f'm{i}')
    os.remove(mf)
    if res is None:
        m['status'] = 'invalid'; m['detail'] = tail; return m
    newfail = sorted(k for k, v in res.items() if v != 'discharged' and k not in basefail)
    # an obligation that disappeared below a floor shows up as a floor failure (a key of its own)
    m['status'] = 'detected' if newfail else 'survived'
    m['rules'] = sorted({k.split(':')[0] for k in newfail}); m['keys'] = newfail[:5]
    return m
n = int(os.environ.get('SWEEP_JOBS', '12'))
with cf.ThreadPoolExecutor(n) as ex, open(out_path, 'w') as out:
    for k, m in enumerate(ex.map(one, enumerate(muts))):
        out.write(json.dumps(m) + '\n'); out.flush()
        if k % 200 == 0: print(k, len(muts), file=sys.stderr, flush=True)
