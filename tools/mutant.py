#!/usr/bin/env python3
"""Confirm a sub-agent mutant and evaluate the checks against it, in a scratch worktree.

usage: mutant.py <property> <dir with patch.diff, demo_test.go, meta.json> <name> [--skip-suite]

Steps (all inside a scratch git worktree of /repo under /tmp/confirm, removed afterwards):
 1. apply patch.diff; go build
 2. run every claimed check (atreelint -prop P -repo <worktree> -no-evidence) and record which report a violation
 3. full pinned suite with the change (no demo file)      -> must pass
 4. demo test with the change                             -> must fail
 5. revert the change; demo test                          -> must pass
Writes /verif/seeded/<name>/{patch.diff,demo_test.go,meta.json}.
"""
import json, os, re, shutil, subprocess, sys, time

prop, src, name = sys.argv[1], sys.argv[2], sys.argv[3]
skip_suite = '--skip-suite' in sys.argv
wt = f'/tmp/confirm/{name}'
env = dict(os.environ, GOFLAGS='-mod=mod', GOPROXY='off')
env.pop('GOSUMDB', None); env.pop('GOTOOLCHAIN', None)

def run(cmd, cwd=None, timeout=3000, e=env):
    p = subprocess.run(cmd, shell=True, cwd=cwd, env=e, capture_output=True, text=True, timeout=timeout)
    return p.returncode, p.stdout + p.stderr

os.makedirs('/tmp/confirm', exist_ok=True)
run(f'git -C /repo worktree remove --force {wt}')
rc, out = run(f'git -C /repo worktree add --detach {wt} HEAD')
assert rc == 0, out
res = {'property': prop, 'name': name}
try:
    rc, out = run(f'git apply {src}/patch.diff', cwd=wt)
    res['patch_applies'] = rc == 0
    if rc != 0:
        res['error'] = out[-2000:]
        raise SystemExit
    rc, out = run('go build ./...', cwd=wt)
    res['builds'] = rc == 0
    # 2. checks
    manifest = json.load(open('/verif/MANIFEST.json'))
    fired = {}
    aenv = dict(env, PATH='/opt/veriftools/go1.26.8/bin:' + env['PATH'], GOTOOLCHAIN='local')
    os.makedirs(f'/tmp/confirm/{name}-verif', exist_ok=True)
    shutil.copy('/verif/known_findings.json', f'/tmp/confirm/{name}-verif/known_findings.json')
    for c in manifest['checks']:
        pid = c['property_id']
        rc, out = run(f'/verif/bin/atreelint -prop {pid} -tier quick -repo {wt} -verif /tmp/confirm/{name}-verif -no-evidence', e=aenv)
        if rc != 0:
            lines = [l for l in out.splitlines() if '[violated]' in l or '[undecided]' in l or l.startswith('ERROR')]
            fired[pid] = [l[:300] for l in lines[:6]]
    res['checks_fired'] = fired
    res['detected_by_own_property'] = prop in fired
    # 3. suite
    if not skip_suite:
        t0 = time.time()
        rc, out = run('go test -vet=off -count=1 -timeout 25m ./...', cwd=wt, timeout=2400)
        res['suite_passes_with_change'] = rc == 0
        res['suite_wall_s'] = round(time.time() - t0)
        if rc != 0:
            res['suite_tail'] = out[-1500:]
    # 4. demo with change
    shutil.copy(f'{src}/demo_test.go', f'{wt}/zz_demo_{name.replace("-","_")}_test.go')
    # run only the tests defined in the demo file
    tests = re.findall(r'^func (Test\w+)\(', open(f'{src}/demo_test.go').read(), re.M)
    pat = '^(' + '|'.join(tests) + ')$'
    rc, out = run(f"go test -vet=off -count=1 -run '{pat}' -timeout 10m .", cwd=wt)
    res['demo_tests'] = tests
    res['demo_fails_with_change'] = rc != 0 and 'FAIL' in out
    res['demo_with_change_tail'] = out[-600:]
    # 5. revert
    run('git apply -R ' + f'{src}/patch.diff', cwd=wt)
    rc, out = run(f"go test -vet=off -count=1 -run '{pat}' -timeout 10m .", cwd=wt)
    res['demo_passes_without_change'] = rc == 0
    if rc != 0:
        res['demo_without_change_tail'] = out[-800:]
finally:
    run(f'git -C /repo worktree remove --force {wt}')
    shutil.rmtree(f'/tmp/confirm/{name}-verif', ignore_errors=True)
    dst = f'/verif/seeded/{name}'
    os.makedirs(dst, exist_ok=True)
    for f in ('patch.diff', 'demo_test.go'):
        if os.path.exists(f'{src}/{f}'):
            shutil.copy(f'{src}/{f}', f'{dst}/{f}')
    meta = {}
    if os.path.exists(f'{src}/meta.json'):
        try:
            meta = json.load(open(f'{src}/meta.json'))
        except Exception:
            meta = {'raw': open(f'{src}/meta.json').read()[:2000]}
    out = {'property': prop, 'what': meta.get('what'), 'needs': meta.get('needs'), 'files': meta.get('files'),
           'author': 'independent sub-agent (saw only the property text and its own worktree)',
           'what_i_ran': 'tools/mutant.py: scratch worktree of /repo HEAD; git apply; go build; every claimed quick check via atreelint -repo <worktree>; full pinned suite with the change; demo test with and without the change',
           'confirmed': {k: res.get(k) for k in ('patch_applies', 'builds', 'suite_passes_with_change', 'demo_fails_with_change', 'demo_passes_without_change')},
           'checks_fired': res.get('checks_fired'), 'detected_by_own_property': res.get('detected_by_own_property'),
           'details': {k: v for k, v in res.items() if k.endswith('_tail') or k in ('suite_wall_s', 'demo_tests', 'error')}}
    json.dump(out, open(f'{dst}/meta.json', 'w'), indent=1)
    print(json.dumps({k: out[k] for k in ('property', 'confirmed', 'detected_by_own_property')}), 'fired:', sorted((res.get('checks_fired') or {}).keys()))
