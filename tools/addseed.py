#!/usr/bin/env python3
"""append seeds (a JSON list on stdin) to selftest/seeds.json; refuses duplicates and anchors that do not occur exactly once in /repo"""
import json, sys
p = '/verif/selftest/seeds.json'
d = json.load(open(p)); ids = {s['id'] for s in d['seeds']}
for s in json.load(sys.stdin):
    assert s['id'] not in ids, s['id']
    src = open('/repo/' + s['file']).read()
    assert src.count(s['find']) == 1, (s['id'], src.count(s['find']))
    s.setdefault('expect', ''); d['seeds'].append(s); ids.add(s['id'])
json.dump(d, open(p, 'w'), indent=1)
print(len(d['seeds']), 'seeds')
