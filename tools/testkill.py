#!/usr/bin/env python3
"""Development aid (not a check): for sweep survivors, find out whether the repository's own tests
notice the edit. Builds the test binary with `go test -c -overlay` (nothing written under the repo)
and runs a subset of the pinned suite with -failfast.
usage: testkill.py <sweep.jsonl> <out.jsonl> <skip-regex> [id-substring ...]   (env TK_JOBS default 6, TK_TIMEOUT default 300)"""
import json, os, subprocess, sys, tempfile, concurrent.futures as cf
ENV = dict(os.environ, GOFLAGS='-mod=mod', GOPROXY='off'); ENV.pop('GOSUMDB', None); ENV.pop('GOTOOLCHAIN', None)
REPO = os.environ.get('SWEEP_REPO', '/repo')
inp, outp, runre = sys.argv[1:4]; filt = sys.argv[4:]
tmp = tempfile.mkdtemp(prefix='tk')
rows = [json.loads(l) for l in open(inp)]
rows = [r for r in rows if r['status'] == 'survived' and (not filt or any(f in r['id'] for f in filt))]
done = set()
if os.path.exists(outp):
    done = {json.loads(l)['id'] for l in open(outp)}
rows = [r for r in rows if r['id'] not in done]
TO = int(os.environ.get('TK_TIMEOUT', '300'))
def one(i_r):
    i, r = i_r
    src = open(f"{REPO}/{r['file']}", 'rb').read()
    mf = f'{tmp}/m{i}.go'; ov = f'{tmp}/ov{i}.json'; tb = f'{tmp}/t{i}.test'
    open(mf, 'wb').write(src[:r['beg']] + r['repl'].encode() + src[r['end']:])
    json.dump({'Replace': {f"{REPO}/{r['file']}": mf}}, open(ov, 'w'))
    p = subprocess.run(['go', 'test', '-c', '-vet=off', f'-overlay={ov}', '-o', tb, '.'], cwd=REPO, env=ENV, capture_output=True, text=True)
    if p.returncode != 0:
        r['tests'] = 'nobuild'; r['tdetail'] = p.stderr[-300:]
    else:
        try:
            q = subprocess.run([tb, '-test.short', '-test.count=1', '-test.failfast', '-test.skip', runre, f'-test.timeout={TO}s'], cwd=REPO, env=ENV, capture_output=True, text=True, timeout=TO + 30)
            r['tests'] = 'pass' if q.returncode == 0 else 'killed'
            if q.returncode != 0:
                import re
                m = re.findall(r'--- FAIL: (\S+)', q.stdout) or re.findall(r'panic: .*', q.stdout + q.stderr)
                r['tdetail'] = (m[0] if m else (q.stdout + q.stderr)[-200:])
        except subprocess.TimeoutExpired:
            r['tests'] = 'killed'; r['tdetail'] = 'timeout'
    for f in (mf, ov, tb):
        if os.path.exists(f): os.remove(f)
    return r
with cf.ThreadPoolExecutor(int(os.environ.get('TK_JOBS', '6'))) as ex, open(outp, 'a') as out:
    for k, r in enumerate(ex.map(one, enumerate(rows))):
        out.write(json.dumps(r) + '\n'); out.flush()
        if k % 50 == 0: print(k, len(rows), file=sys.stderr, flush=True)
