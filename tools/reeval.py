#!/usr/bin/env python3
"""Re-evaluate every confirmed mutant under /verif/seeded against the current analyzer.
Static step only: scratch worktree, git apply, run every claimed quick check with -repo <worktree>.
Keeps the first evaluation in meta.json ("first_evaluation") and updates "checks_fired"."""
import json, os, subprocess, sys, glob
env = dict(os.environ, PATH='/opt/veriftools/go1.26.8/bin:' + os.environ['PATH'], GOTOOLCHAIN='local', GOFLAGS='-mod=mod', GOPROXY='off')
def run(cmd, cwd=None):
    p = subprocess.run(cmd, shell=True, cwd=cwd, env=env, capture_output=True, text=True)
    return p.returncode, p.stdout + p.stderr
manifest = json.load(open('/verif/MANIFEST.json'))
only = sys.argv[1:]
rows = []
for d in sorted(glob.glob('/verif/seeded/*/')):
    name = os.path.basename(d.rstrip('/'))
    if only and name not in only:
        continue
    meta = json.load(open(d + 'meta.json'))
    wt = f'/tmp/reeval/{name}'
    os.makedirs('/tmp/reeval', exist_ok=True)
    run(f'git -C /repo worktree remove --force {wt}')
    rc, out = run(f'git -C /repo worktree add --detach {wt} HEAD')
    try:
        rc, out = run(f'git apply {d}patch.diff', cwd=wt)
        if rc != 0:
            rows.append((name, 'patch does not apply', []))
            continue
        fired = {}
        os.makedirs(f'/tmp/reeval/{name}-verif', exist_ok=True)
        run(f'cp /verif/known_findings.json /tmp/reeval/{name}-verif/')  # open known findings must not count as detections
        for c in manifest['checks']:
            pid = c['property_id']
            rc, out = run(f'/verif/bin/atreelint -prop {pid} -tier quick -repo {wt} -verif /tmp/reeval/{name}-verif -no-evidence')
            if rc != 0:
                fired[pid] = [l[:300] for l in out.splitlines() if '[violated]' in l or '[undecided]' in l or l.startswith('ERROR')][:6]
        if 'first_evaluation' not in meta:
            meta['first_evaluation'] = {'checks_fired': sorted((meta.get('checks_fired') or {}).keys()), 'detected_by_own_property': meta.get('detected_by_own_property')}
        meta['checks_fired'] = fired
        meta['detected_by_own_property'] = meta['property'] in fired
        json.dump(meta, open(d + 'meta.json', 'w'), indent=1)
        rows.append((name, 'own' if meta['property'] in fired else ('other' if fired else 'MISSED'), sorted(fired)))
    finally:
        run(f'git -C /repo worktree remove --force {wt}')
        run(f'rm -rf /tmp/reeval/{name}-verif')
for r in rows:
    print('%-10s %-7s %s' % r)
