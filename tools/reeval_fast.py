#!/usr/bin/env python3
"""Re-evaluate every kept mutant under /verif/seeded against the current analyzer with ONE run of all rules per mutant
(static step only: scratch worktree, git apply, atreelint -rules <all>); obligations that already fail on the unchanged
tree (open known findings) do not count. Updates checks_fired / detected_by_own_property in meta.json (first evaluation kept)."""
import json, os, subprocess, sys, glob, tempfile
ENV = dict(os.environ, PATH='/opt/veriftools/go1.26.8/bin:' + os.environ['PATH'], GOTOOLCHAIN='local', GOFLAGS='-mod=mod', GOPROXY='off')
BIN = '/verif/bin/atreelint'
lst = subprocess.run([BIN, '-list'], capture_output=True, text=True, env=ENV).stdout.splitlines()[:20]
prop_rules = {l.split(':')[0]: l.split(':')[1].split() for l in lst}
RULES = ','.join(sorted({r for v in prop_rules.values() for r in v}))
tmp = tempfile.mkdtemp(prefix='rf')
def lint(repo, tag):
    js = f'{tmp}/{tag}.json'
    subprocess.run([BIN, '-rules', RULES, '-repo', repo, '-verif', tmp, '-no-evidence', '-json', js], capture_output=True, text=True, env=ENV)
    try: o = json.load(open(js))['obligations'] or []
    except Exception: return None
    return {x['key']: x for x in o}
base = lint('/repo', 'base'); basefail = {k for k, v in base.items() if v['verdict'] != 'discharged'}
only = sys.argv[1:]
rows = []
for d in sorted(glob.glob('/verif/seeded/*/')):
    name = os.path.basename(d.rstrip('/'))
    if only and name not in only: continue
    meta = json.load(open(d + 'meta.json'))
    wt = f'{tmp}/wt'
    subprocess.run(f'git -C /repo worktree remove --force {wt}', shell=True, capture_output=True)
    subprocess.run(f'git -C /repo worktree add --detach {wt} HEAD', shell=True, capture_output=True)
    a = subprocess.run(f'git apply {d}patch.diff', shell=True, cwd=wt, capture_output=True, text=True)
    if a.returncode != 0:
        rows.append((name, 'patch does not apply', [])); continue
    res = lint(wt, 'm')
    subprocess.run(f'git -C /repo worktree remove --force {wt}', shell=True, capture_output=True)
    if res is None:
        rows.append((name, 'LOAD FAILED', [])); continue
    new = [v for k, v in res.items() if v['verdict'] != 'discharged' and k not in basefail]
    fired = {}
    for p, rs in prop_rules.items():
        hits = [f"{v.get('pos')} {v['rule']} [{v['verdict']}] {v['key']}: {(v.get('detail') or '')[:220]}" for v in new if v['rule'] in rs]
        if hits: fired[p] = hits[:6]
    if 'first_evaluation' not in meta:
        meta['first_evaluation'] = {'checks_fired': sorted((meta.get('checks_fired') or {}).keys()), 'detected_by_own_property': meta.get('detected_by_own_property')}
    meta['checks_fired'] = fired; meta['detected_by_own_property'] = meta['property'] in fired
    json.dump(meta, open(d + 'meta.json', 'w'), indent=1)
    rows.append((name, 'own' if meta['property'] in fired else ('other' if fired else 'MISSED'), sorted({v['rule'] for v in new})))
for r in rows: print('%-10s %-7s %s' % r)
