#!/usr/bin/env python3
"""Turn a single-file unified diff (patch.diff) into a multi-edit overlay seed and append it to selftest/seeds.json.
usage: patch2seed.py <patch.diff> <seed-id> <rules,comma> [--benign] [--expect <substr>] [--note <text>]"""
import json, re, sys
patch, sid, rules = sys.argv[1], sys.argv[2], sys.argv[3].split(',')
benign = '--benign' in sys.argv
expect = sys.argv[sys.argv.index('--expect') + 1] if '--expect' in sys.argv else ''
note = sys.argv[sys.argv.index('--note') + 1] if '--note' in sys.argv else ''
files = {}
cur = None
for l in open(patch).read().split('\n'):
    if l.startswith('+++ b/'):
        cur = l[6:]; files[cur] = []
    elif l.startswith('@@') and cur:
        m = re.match(r'@@ -(\d+)', l)
        files[cur].append([[], [], int(m.group(1))])
    elif cur and files[cur] and (l.startswith(' ') or l.startswith('-') or l.startswith('+')) and not l.startswith('---') and not l.startswith('+++'):
        h = files[cur][-1]
        if l[0] in ' -': h[0].append(l[1:])
        if l[0] in ' +': h[1].append(l[1:])
assert len(files) == 1, ('single-file patches only', list(files))
f, hunks = next(iter(files.items()))
src = open('/repo/' + f).read()
edits = []
lines = src.split('\n')
for old, new, start in hunks:
    fo, fn = '\n'.join(old) + '\n', '\n'.join(new) + '\n'
    # make the anchor unique by extending it upwards with the source lines that precede the hunk
    up = start - 1  # 0-based index of the hunk's first line
    while src.count(fo) != 1 and up > 0:
        up -= 1
        fo = lines[up] + '\n' + fo
        fn = lines[up] + '\n' + fn
    assert src.count(fo) == 1, (sid, 'hunk anchor not unique', src.count(fo), fo[:80])
    edits.append({'find': fo, 'replace': fn})
edits.reverse()  # bottom-up: an upper hunk's new text cannot disturb the anchors of the hunks below it
seed = {'id': sid, 'rules': rules, 'file': f, 'find': edits[0]['find'], 'replace': edits[0]['replace'], 'expect': expect}
if len(edits) > 1: seed['edits'] = edits[1:]
if benign: seed['benign'] = True
if note: seed['note'] = note
p = '/verif/selftest/seeds.json'; d = json.load(open(p))
assert sid not in {s['id'] for s in d['seeds']}
d['seeds'].append(seed); json.dump(d, open(p, 'w'), indent=1)
print('added', sid, len(edits), 'edit(s)')
