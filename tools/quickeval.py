#!/usr/bin/env python3
"""Development aid: static-only evaluation of candidate patches (dirs with patch.diff) against all rules.
usage: quickeval.py <dir> [<dir> ...]   prints per patch the rules with new failing obligations and the properties that claim them."""
import json, os, subprocess, sys, tempfile
ENV = dict(os.environ, PATH='/opt/veriftools/go1.26.8/bin:' + os.environ['PATH'], GOTOOLCHAIN='local', GOFLAGS='-mod=mod', GOPROXY='off')
BIN = '/verif/bin/atreelint'
lst = subprocess.run([BIN, '-list'], capture_output=True, text=True, env=ENV).stdout.splitlines()[:20]
prop_rules = {l.split(':')[0]: l.split(':')[1].split() for l in lst}
RULES = ','.join(sorted({r for v in prop_rules.values() for r in v}))
tmp = tempfile.mkdtemp(prefix='qe')
def lint(repo, tag):
    js = f'{tmp}/{tag}.json'
    p = subprocess.run([BIN, '-rules', RULES, '-repo', repo, '-verif', tmp, '-no-evidence', '-json', js], capture_output=True, text=True, env=ENV)
    try:
        o = json.load(open(js))['obligations'] or []
    except Exception:
        return None, p.stdout + p.stderr
    return {x['key']: x for x in o}, p.stdout
base, _ = lint('/repo', 'base')
basefail = {k for k, v in base.items() if v['verdict'] != 'discharged'}
for d in sys.argv[1:]:
    d = d.rstrip('/')
    wt = f'{tmp}/wt'
    subprocess.run(f'git -C /repo worktree remove --force {wt}', shell=True, capture_output=True)
    subprocess.run(f'git -C /repo worktree add --detach {wt} HEAD', shell=True, capture_output=True)
    a = subprocess.run(f'git apply {d}/patch.diff', shell=True, cwd=wt, capture_output=True, text=True)
    if a.returncode != 0:
        print(d, 'PATCH DOES NOT APPLY', a.stderr[:200]); continue
    res, out = lint(wt, 'm')
    subprocess.run(f'git -C /repo worktree remove --force {wt}', shell=True, capture_output=True)
    if res is None:
        print(d, 'LOAD FAILED', out[-300:]); continue
    new = [v for k, v in res.items() if v['verdict'] != 'discharged' and k not in basefail]
    rules = sorted({v['rule'] for v in new})
    props = sorted(p for p, rs in prop_rules.items() if set(rs) & set(rules))
    print(f'{d}: rules={rules} props={props}')
    for v in new[:4]:
        print('    ', v['key'], '|', v.get('pos'), '|', (v.get('detail') or '')[:200])
