#!/usr/bin/env python3
# Regenerates the "Property -> rules as registered" table of DESIGN.md section 13.1 from `bin/atreelint -list`.
import re, subprocess, os
root = os.path.dirname(os.path.dirname(os.path.abspath(__file__)))
out = subprocess.check_output([os.path.join(root, 'bin', 'atreelint'), '-list'], text=True)
rows = []
for l in out.splitlines():
    m = re.match(r'^(C\d\d): (.*)$', l)
    if m:
        rows.append('| %s | %s |' % (m.group(1), m.group(2).strip()))
p = os.path.join(root, 'DESIGN.md')
s = open(p).read()
a = s.index('| id | rules |\n|---|---|\n| C01 |')
b = s.index('\n\n', a)
s = s[:a] + '| id | rules |\n|---|---|\n' + '\n'.join(rows) + s[b:]
open(p, 'w').write(s)
print('synced', len(rows), 'rows')
