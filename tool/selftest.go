package main

// Seeded self-validation: each seed is a small source edit applied through a
// go/packages overlay (nothing is written under /repo). The named rules must
// report a failing obligation whose key contains the expected construct.

import (
	"encoding/json"
	"fmt"
	"os"
	"os/exec"
	"path/filepath"
	"sort"
	"strings"
	"sync"
)

type Seed struct {
	ID      string   `json:"id"`
	Rules   []string `json:"rules"`
	File    string   `json:"file"`
	Find    string   `json:"find"`
	Replace string   `json:"replace"`
	Append  string   `json:"append,omitempty"` // text added at the end of the file (new helper functions)
	// More edits of the same file, applied in order after Find/Replace (refactorings with several hunks).
	Edits []struct {
		Find    string `json:"find"`
		Replace string `json:"replace"`
	} `json:"edits,omitempty"`
	Expect  string   `json:"expect"`           // substring of the failing obligation key
	Note    string   `json:"note,omitempty"`
	// Benign seeds are behaviour-preserving edits: the rules must stay silent.
	Benign bool `json:"benign,omitempty"`
}

type SeedResult struct {
	ID       string `json:"id"`
	Rules    string `json:"rules"`
	Status   string `json:"status"` // detected | BLIND | skipped | invalid | silent(benign ok) | FALSE-ALARM
	Detail   string `json:"detail,omitempty"`
	Expected string `json:"expected,omitempty"`
}

func loadSeeds(path string) ([]Seed, error) {
	b, err := os.ReadFile(path)
	if err != nil {
		return nil, err
	}
	var s struct {
		Seeds []Seed `json:"seeds"`
	}
	if err := json.Unmarshal(b, &s); err != nil {
		return nil, err
	}
	return s.Seeds, nil
}

func runSeeds(seeds []Seed, repo string, onlyRules map[string]bool) []SeedResult {
	self, _ := os.Executable()
	tmp, err := os.MkdirTemp("", "atreelint-seeds")
	if err != nil {
		return []SeedResult{{ID: "-", Status: "invalid", Detail: err.Error()}}
	}
	defer os.RemoveAll(tmp)
	results := make([]SeedResult, len(seeds))
	// obligations that already fail on the unchanged tree (open known findings) are not what a seed is judged by
	baseFail := map[string]bool{}
	{
		ruleSet := map[string]bool{}
		for _, sd := range seeds {
			srules := sd.Rules
			if len(srules) == 1 && srules[0] == "all" {
				srules = nil
				if onlyRules != nil && len(onlyRules) > 0 {
					for r := range onlyRules {
						srules = append(srules, r)
					}
				} else {
					srules = allRuleIDs()
				}
			}
			for _, rl := range srules {
				if onlyRules == nil || len(onlyRules) == 0 || onlyRules[rl] {
					ruleSet[rl] = true
				}
			}
		}
		var rl []string
		for k := range ruleSet {
			rl = append(rl, k)
		}
		sort.Strings(rl)
		out := filepath.Join(tmp, "baseline.json")
		cmd := exec.Command(self, "-rules", strings.Join(rl, ","), "-repo", repo, "-no-evidence", "-json", out, "-verif", tmp)
		cmd.Env = os.Environ()
		cmd.CombinedOutput()
		if b, err := os.ReadFile(out); err == nil {
			var jo struct {
				Obls []*Obligation `json:"obligations"`
			}
			json.Unmarshal(b, &jo)
			for _, o := range jo.Obls {
				if o.VerdictS != "discharged" {
					baseFail[o.Key] = true
				}
			}
		}
	}
	var wg sync.WaitGroup
	sem := make(chan struct{}, 8)
	for i, sd := range seeds {
		rules := sd.Rules
		if len(rules) == 1 && rules[0] == "all" {
			// a behaviour-preserving seed checked against every rule of this run
			rules = nil
			if onlyRules != nil && len(onlyRules) > 0 {
				for r := range onlyRules {
					rules = append(rules, r)
				}
			} else {
				for _, r := range allRuleIDs() {
					rules = append(rules, r)
				}
			}
			sort.Strings(rules)
		} else if onlyRules != nil {
			var keep []string
			for _, r := range rules {
				if onlyRules[r] {
					keep = append(keep, r)
				}
			}
			rules = keep
		}
		results[i] = SeedResult{ID: sd.ID, Rules: strings.Join(rules, ","), Expected: sd.Expect}
		if len(rules) == 0 {
			results[i].Status = "skipped"
			results[i].Detail = "no rule of this run"
			continue
		}
		src, err := os.ReadFile(filepath.Join(repo, sd.File))
		if err != nil {
			results[i].Status = "skipped"
			results[i].Detail = err.Error()
			continue
		}
		if n := strings.Count(string(src), sd.Find); n != 1 {
			results[i].Status = "skipped"
			results[i].Detail = fmt.Sprintf("anchor text occurs %d times (seed no longer applies)", n)
			continue
		}
		mut := strings.Replace(string(src), sd.Find, sd.Replace, 1)
		stale := false
		for _, ed := range sd.Edits {
			if strings.Count(mut, ed.Find) != 1 {
				stale = true
				break
			}
			mut = strings.Replace(mut, ed.Find, ed.Replace, 1)
		}
		if stale {
			results[i].Status = "skipped"
			results[i].Detail = "anchor text of a further edit does not occur exactly once (seed no longer applies)"
			continue
		}
		mut += sd.Append
		mf := filepath.Join(tmp, fmt.Sprintf("seed%d.go", i))
		os.WriteFile(mf, []byte(mut), 0o644)
		out := filepath.Join(tmp, fmt.Sprintf("seed%d.json", i))
		wg.Add(1)
		go func(i int, sd Seed, rules []string) {
			defer wg.Done()
			sem <- struct{}{}
			defer func() { <-sem }()
			cmd := exec.Command(self, "-rules", strings.Join(rules, ","), "-repo", repo, "-no-evidence",
				"-overlay", sd.File+"="+mf, "-json", out, "-verif", tmp)
			cmd.Env = os.Environ()
			cmd.CombinedOutput()
			b, err := os.ReadFile(out)
			if err != nil {
				results[i].Status = "invalid"
				results[i].Detail = "no output: " + err.Error()
				return
			}
			var jo struct {
				Errors []string      `json:"errors"`
				Obls   []*Obligation `json:"obligations"`
			}
			json.Unmarshal(b, &jo)
			if len(jo.Errors) > 0 {
				results[i].Status = "invalid"
				results[i].Detail = "seed does not load: " + jo.Errors[0]
				return
			}
			var failing []string
			hit := false
			for _, o := range jo.Obls {
				if o.VerdictS != "discharged" && !baseFail[o.Key] {
					failing = append(failing, o.Key)
					if strings.Contains(o.Key, sd.Expect) {
						hit = true
					}
				}
			}
			switch {
			case sd.Benign && len(failing) == 0:
				results[i].Status = "silent"
			case sd.Benign:
				results[i].Status = "FALSE-ALARM"
				results[i].Detail = strings.Join(failing, " | ")
			case hit:
				results[i].Status = "detected"
			case len(rules) < len(sd.Rules):
				// the seed targets a rule that is not part of this run
				results[i].Status = "skipped"
				results[i].Detail = "no rule of this run is the one the seed targets (needs " + strings.Join(sd.Rules, ",") + ")"
			case len(failing) > 0:
				results[i].Status = "BLIND"
				results[i].Detail = "fails elsewhere: " + strings.Join(failing, " | ")
			default:
				results[i].Status = "BLIND"
			}
		}(i, sd, rules)
	}
	wg.Wait()
	return results
}

func runSelftest(seedsPath, repo, verif, prop, rulesF string) int {
	seeds, err := loadSeeds(seedsPath)
	if err != nil {
		fmt.Fprintln(os.Stderr, err)
		return 2
	}
	var only map[string]bool
	if rulesF != "" {
		only = map[string]bool{}
		for _, r := range strings.Split(rulesF, ",") {
			only[r] = true
		}
	} else if spec := propTable[prop]; spec != nil {
		only = map[string]bool{}
		for _, r := range spec.Rules {
			only[r] = true
		}
	}
	res := runSeeds(seeds, repo, only)
	counts := map[string]int{}
	sort.SliceStable(res, func(i, j int) bool { return res[i].ID < res[j].ID })
	for _, r := range res {
		counts[r.Status]++
		if r.Status == "skipped" && strings.HasPrefix(r.Detail, "no rule") {
			continue
		}
		fmt.Printf("%-12s %-40s %-12s %s\n", r.Status, r.ID, r.Rules, r.Detail)
	}
	fmt.Printf("selftest: %v\n", counts)
	if counts["BLIND"] > 0 || counts["FALSE-ALARM"] > 0 || counts["invalid"] > 0 {
		return 1
	}
	return 0
}

func allRuleIDs() []string {
	var out []string
	for id := range ruleTable {
		out = append(out, id)
	}
	sort.Strings(out)
	return out
}
