package main

// Handle-level rules on *Array / *OrderedMap: R4 notify-parent, R5 callback install,
// R7 detached child materialised, N1-N3, L8 root id preservation, L10 count maintenance.

import (
	"fmt"
	"go/token"
	"go/types"
	"sort"
	"strings"

	"golang.org/x/tools/go/ssa"
)

var handleTypes = []string{"Array", "OrderedMap"}

func isHandleType(name string) bool { return name == "Array" || name == "OrderedMap" }

var slabStateOwners = map[string]bool{
	"ArrayDataSlab": true, "ArrayMetaDataSlab": true, "MapDataSlab": true, "MapMetaDataSlab": true,
	"hkeyElements": true, "singleElements": true, "singleElement": true, "inlineCollisionGroup": true, "externalCollisionGroup": true,
	"ArrayExtraData": true, "MapExtraData": true, "ArraySlabHeader": true, "MapSlabHeader": true, "StorableSlab": true,
}

// containerWrites lists the slab-state / root writes in the transitive effects of f.
func (p *Prog) containerWrites(f *ssa.Function) []string {
	return effectSummary(p.FineEffects(f), func(e Effect) bool {
		if e.Kind != "field" {
			return false
		}
		i := strings.Index(e.What, ".")
		owner := e.What[:i]
		if slabStateOwners[owner] {
			return true
		}
		return isHandleType(owner) && e.What[i+1:] == "root"
	})
}

// isNotifyCall: call of (*H).notifyParentIfNeeded on receiver value recv.
func (p *Prog) isNotifyCall(in ssa.Instruction, recv ssa.Value) bool {
	c, ok := in.(ssa.CallInstruction)
	if !ok {
		return false
	}
	f := c.Common().StaticCallee()
	if f == nil || f.Name() != "notifyParentIfNeeded" || !isHandleType(recvName(f)) {
		return false
	}
	return recv == nil || sameValue(c.Common().Args[0], recv)
}

// mustNotify computes the set of handle methods on whose every success path the receiver's parent is notified.
func (p *Prog) mustNotifySet() map[*ssa.Function]bool {
	set := map[*ssa.Function]bool{}
	var cands []*ssa.Function
	for _, f := range p.TopFuncs() {
		if isHandleType(recvName(f)) && len(f.Params) > 0 {
			cands = append(cands, f)
		}
	}
	for changed := true; changed; {
		changed = false
		for _, f := range cands {
			if set[f] {
				continue
			}
			recv := f.Params[0]
			hit := func(in ssa.Instruction) bool {
				if p.isNotifyCall(in, recv) {
					return true
				}
				if c, ok := in.(ssa.CallInstruction); ok {
					if g := c.Common().StaticCallee(); g != nil && set[g] && len(c.Common().Args) > 0 && sameValue(c.Common().Args[0], recv) {
						return true
					}
				}
				return false
			}
			if successReturnAvoiding(f, nil, hit) == nil {
				set[f] = true
				changed = true
			}
		}
	}
	return set
}

// R4 notify-parent.
func ruleR4(p *Prog, r *Report) {
	const R = "R4"
	must := p.mustNotifySet()
	n := 0
	for _, f := range p.TopFuncs() {
		if !isHandleType(recvName(f)) || !isExportedAPI(f) || len(f.Params) == 0 {
			continue
		}
		w := p.containerWrites(f)
		if len(w) == 0 {
			continue
		}
		name := p.Name(f)
		if f.Name() == "Storable" {
			// the parent-side half of the protocol: Storable() is called by the parent while it (re)sets the child
			r.Ok(R, "mutator:"+name, p.Pos(f.Pos()), "Storable() inlines/uninlines the root at the parent's request; the caller is the parent's own set path")
			continue
		}
		n++
		if must[f] {
			r.Ok(R, "mutator:"+name, p.Pos(f.Pos()), fmt.Sprintf("every success path notifies the parent (writes: %s)", strings.Join(w, " ")))
			continue
		}
		// exemption: the mutation is confined to extra data (outside ByteSize): a standalone container only needs its root stored
		onlyExtra := true
		for _, x := range w {
			if !(strings.Contains(x, "ExtraData.") || strings.HasSuffix(x, ".extraData")) {
				onlyExtra = false
			}
		}
		recv := f.Params[0]
		if onlyExtra {
			hit := func(in ssa.Instruction) bool {
				if p.isNotifyCall(in, recv) {
					return true
				}
				// storeSlab(_, recv.root) on the not-inlined edge
				if c, ok := p.isCallToFunc(in, "storeSlab"); ok {
					if fr, ok := asLoadedField(c.Common().Args[1]); ok && fr.Field == "root" && p.onNotInlinedEdge(f, in.Block(), recv) {
						return true
					}
				}
				return false
			}
			bad := successReturnAvoiding(f, nil, hit)
			r.Decide(bad == nil, R, "mutator:"+name, p.Pos(f.Pos()),
				"extra-data-only mutation: notifies the parent when inlined, stores the root when standalone",
				"a success path neither notifies the parent nor stores the standalone root")
			continue
		}
		bad := successReturnAvoiding(f, nil, func(in ssa.Instruction) bool {
			if p.isNotifyCall(in, recv) {
				return true
			}
			if c, ok := in.(ssa.CallInstruction); ok {
				if g := c.Common().StaticCallee(); g != nil && must[g] && len(c.Common().Args) > 0 && sameValue(c.Common().Args[0], recv) {
					return true
				}
			}
			return false
		})
		pos := p.Pos(f.Pos())
		if bad != nil {
			pos = p.InstrPos(bad)
		}
		r.Bad(R, "mutator:"+name, pos, "exported mutator can return successfully without notifyParentIfNeeded: a change to a nested (inlined) container would not reach its parent slab, its size bookkeeping or the write set (writes: "+strings.Join(w, " ")+")")
	}
	r.Floor(R, "exported mutators of Array/OrderedMap", 8, n)
}

// onNotInlinedEdge: block b is dominated by the false edge of a test of recv.Inlined() / recv.root.Inlined().
func (p *Prog) onNotInlinedEdge(f *ssa.Function, b *ssa.BasicBlock, recv ssa.Value) bool {
	for _, blk := range f.Blocks {
		ifi, ok := blk.Instrs[len(blk.Instrs)-1].(*ssa.If)
		if !ok {
			continue
		}
		c, ok := canon(ifi.Cond).(*ssa.Call)
		if !ok {
			continue
		}
		nm := ""
		if c.Call.IsInvoke() {
			nm = c.Call.Method.Name()
		} else if g := c.Call.StaticCallee(); g != nil {
			nm = g.Name()
		}
		if nm != "Inlined" {
			continue
		}
		if edgeDominates(blk, 1, b) {
			return true
		}
	}
	return false
}

var _ = token.ADD
var _ = types.Typ
var _ = sort.Strings
