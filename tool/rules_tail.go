package main

// L25 a nil written into a slice of slabs / iterator frames is always cut off.
//
// The library drops the last entry of a working slice (the slab merged into its left
// neighbour while building from batch data, the exhausted parent frame of a tree
// iterator) by clearing the entry and then truncating the slice in front of it. The
// clearing store is only harmless because the cleared position leaves the slice:
// a nil written at an index that stays inside the slice replaces a live slab (the
// merged slab that now holds the elements) or a live frame. Obligation per nil store
// into an element of a slice: on every path from the store the same slice is
// truncated to end exactly at the cleared index before the function returns or the
// enclosing loop iterates.

import (
	"fmt"
	"go/token"
	"go/types"

	"golang.org/x/tools/go/ssa"
)

func sameExpr(a, b ssa.Value, depth int) bool {
	if sameValue(a, b) {
		return true
	}
	if depth > 4 {
		return false
	}
	a, b = canon(a), canon(b)
	if ka, ok := cInt(a); ok {
		kb, ok2 := cInt(b)
		return ok2 && ka == kb
	}
	ba, ok1 := a.(*ssa.BinOp)
	bb, ok2 := b.(*ssa.BinOp)
	if ok1 && ok2 && ba.Op == bb.Op {
		return sameExpr(ba.X, bb.X, depth+1) && sameExpr(ba.Y, bb.Y, depth+1)
	}
	return false
}

// sameSliceVar: a and b are the same slice value, or two loads of the same struct field in one block
// with neither a store to that field nor a call between them.
func sameSliceVar(a, b ssa.Value) bool {
	if sameValue(a, b) {
		return true
	}
	fa, ok1 := asLoadedField(a)
	fb, ok2 := asLoadedField(b)
	if !ok1 || !ok2 || fa.Field != fb.Field || fa.Owner != fb.Owner || !sameValue(fa.Base, fb.Base) {
		return false
	}
	la, ok1 := canon(a).(*ssa.UnOp)
	lb, ok2 := canon(b).(*ssa.UnOp)
	if !ok1 || !ok2 || la.Block() != lb.Block() {
		return false
	}
	inside := false
	for _, in := range la.Block().Instrs {
		if in == ssa.Instruction(la) || in == ssa.Instruction(lb) {
			if inside {
				return true
			}
			inside = true
			continue
		}
		if !inside {
			continue
		}
		switch x := in.(type) {
		case *ssa.Store:
			if fr, ok := asFieldAddr(x.Addr); ok && fr.Field == fa.Field {
				return false
			}
		case ssa.CallInstruction:
			if _, isBuiltin := x.Common().Value.(*ssa.Builtin); !isBuiltin {
				return false
			}
		}
	}
	return false
}

func ruleL25(p *Prog, r *Report) {
	const R = "L25"
	n := 0
	count := map[string]int{}
	for _, top := range p.TopFuncs() {
		if p.IsTestFile(top.Pos()) {
			continue
		}
		eachInstrDeep(top, func(fn *ssa.Function, in ssa.Instruction) {
			st, ok := in.(*ssa.Store)
			if !ok || !isNilConst(stripTrivial(st.Val)) {
				return
			}
			ia, ok := st.Addr.(*ssa.IndexAddr)
			if !ok {
				return
			}
			if _, isSlice := ia.X.Type().Underlying().(*types.Slice); !isSlice {
				return
			}
			n++
			count[p.Name(fn)]++
			cons := fmt.Sprintf("cleared-entry-cut-off:%s#%d", p.Name(fn), count[p.Name(fn)])
			// the index names the last entry of this slice ...
			last := false
			if bo, ok := canon(ia.Index).(*ssa.BinOp); ok && bo.Op == token.SUB {
				if k, isK := cInt(bo.Y); isK && k == 1 {
					if a, isLen := isLenOf(bo.X); isLen && sameSliceVar(a, ia.X) {
						last = true
					}
				}
			}
			// ... and the slice is cut to end there on every path
			var escape ssa.Instruction
			head := loopHeadOf(in.Block())
			reachFrom(fn, in, nil, func(y ssa.Instruction) bool {
				if escape != nil {
					return true
				}
				if sl, ok := y.(*ssa.Slice); ok && sl.Low == nil && sl.High != nil && sameSliceVar(sl.X, ia.X) && sameExpr(sl.High, ia.Index, 0) {
					return true
				}
				if _, ok := y.(*ssa.Return); ok {
					escape = y
					return true
				}
				if head != nil && y == head.Instrs[0] && y != in {
					escape = y
					return true
				}
				return false
			})
			switch {
			case !last:
				r.Bad(R, cons, p.InstrPos(in), "nil is written into a slice entry that is not the last entry of that slice (len-1 of the same slice value): a live entry is replaced by nil")
			case escape != nil:
				r.Bad(R, cons, p.InstrPos(in), "the cleared last entry is not cut off: after the nil store the slice is not truncated to end at the cleared index on the path reaching "+p.InstrPos(escape)+", so a nil entry stays among the live slabs / frames")
			default:
				r.Ok(R, cons, p.InstrPos(in), "the cleared entry is the last one and the slice is truncated in front of it on every path")
			}
		})
	}
	r.Floor(R, "nil stores into slice entries", 2, n)
}
