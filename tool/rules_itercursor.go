package main

// I5 an iterator that hands out mutable elements keeps a logical cursor.
//
// The mutable iterators give the caller elements with their parent callback installed:
// between two calls of Next the caller may overwrite the current element or change a
// nested container, which can split, merge or rebalance the slab under the cursor. An
// iterator of that kind must therefore find its place again from the container (by
// index / by key) at every step; a slab kept in the iterator goes stale as soon as the
// tree is restructured (elements are yielded twice and others skipped). Obligation per
// iterator type whose stepping methods reach the installation of a parent callback:
// no field of the type holds a slab (pointer to a slab struct, or a slab interface).

import (
	"go/token"
	"go/types"
	"sort"
	"strings"

	"golang.org/x/tools/go/ssa"
)

func ruleI5(p *Prog, r *Report) {
	const R = "I5"
	n := 0
	for _, nt := range p.rootNamedTypes() {
		st, ok := nt.Underlying().(*types.Struct)
		if !ok || p.IsTestFile(nt.Obj().Pos()) {
			continue
		}
		var steps []*ssa.Function
		for _, nm := range []string{"Next", "NextKey", "NextValue"} {
			if f := p.Method(nt.Obj().Name(), nm); f != nil && recvNamed(f) == nt {
				steps = append(steps, f)
			}
		}
		if len(steps) == 0 {
			continue
		}
		handsOutMutable := false
		for _, f := range steps {
			for g := range p.ReachFine(f) {
				if g.Name() == "setCallbackWithChild" {
					handsOutMutable = true
				}
			}
		}
		if !handsOutMutable {
			continue
		}
		n++
		var slabFields []string
		for i := 0; i < st.NumFields(); i++ {
			ft := st.Field(i).Type()
			if a := rootNamed(ft); a != nil && slabStructs[a.Obj().Name()] {
				slabFields = append(slabFields, st.Field(i).Name())
				continue
			}
			switch typeName(ft) {
			case "ArraySlab", "MapSlab", "Slab":
				slabFields = append(slabFields, st.Field(i).Name())
			}
		}
		sort.Strings(slabFields)
		r.Decide(len(slabFields) == 0, R, "logical-cursor:"+nt.Obj().Name(), p.Pos(nt.Obj().Pos()),
			"the iterator hands out mutable elements and keeps only a logical position (no slab)",
			"the iterator hands out elements the caller may mutate between two steps, yet keeps a slab in field(s) "+strings.Join(slabFields, ", ")+": after a mutation that splits, merges or rebalances that slab the cursor is stale - elements are yielded twice and others skipped")
	}
	r.Floor(R, "iterator types that hand out mutable elements", 2, n)
}

// I6 every iterator constructor hands out a cursor of its own.
//
// Two enumerations of one container that are alive at the same time (nested loops, a comparison in lockstep)
// must not share state: an iterator whose state lives inside the container handle is rewound by the next
// constructor call and advanced by every other user. Obligation per function that returns an iterator
// (a result type whose name ends in Iterator): the returned object is allocated in that function, comes from
// another constructor, or is a package-level empty iterator - not an address inside one of its parameters.
func ruleI6(p *Prog, r *Report) {
	const R = "I6"
	n := 0
	for _, f := range p.TopFuncs() {
		if p.IsTestFile(f.Pos()) || f.Signature.Results().Len() == 0 || len(f.Blocks) == 0 {
			continue
		}
		if !strings.HasSuffix(typeName(f.Signature.Results().At(0).Type()), "Iterator") {
			continue
		}
		n++
		bad := ""
		for _, ret := range returnsOf(f) {
			if cl, _ := classifyReturn(ret); cl == retError {
				continue
			}
			v := canon(stripIface(ret.Results[0]))
			if isNilConst(v) {
				continue
			}
			var inside func(x ssa.Value, d int) bool
			inside = func(x ssa.Value, d int) bool {
				if d > 4 {
					return false
				}
				switch y := x.(type) {
				case *ssa.FieldAddr:
					if _, isPrm := canon(y.X).(*ssa.Parameter); isPrm {
						return true
					}
					return inside(y.X, d+1)
				case *ssa.Phi:
					for _, e := range y.Edges {
						if inside(canon(stripIface(e)), d+1) {
							return true
						}
					}
				}
				return false
			}
			if inside(v, 0) {
				bad = p.InstrPos(ret)
			}
		}
		r.Decide(bad == "", R, "fresh-cursor:"+p.Name(f), p.Pos(f.Pos()), "the iterator handed out is not part of the container handle",
			"the iterator returned at "+bad+" is an address inside the container handle: every enumeration of that container shares one cursor, so a second enumeration started while the first is alive rewinds it and each step advances both (elements are skipped, the outer loop ends early without an error)")
	}
	r.Floor(R, "iterator constructors", 8, n)
}

// I7 the index is re-based at every level of a descent.
//
// (*ArrayMetaDataSlab).childSlabIndexInfo(i) answers, for an index relative to *this* slab, which child holds the
// element and the index relative to *that child*. A routine that walks down must hand each level the index the level
// above returned. Two obligations per call: (a) handed on - after the call, no call that involves another array slab
// (as receiver or argument) is given the un-adjusted index; (b) loop form - when the call sits in a loop whose slab
// changes from round to round, its index argument changes with the loop too (it is, or derives from, a loop phi). A
// descent that keeps using the original index works for trees of one and two levels and reads the wrong slab (or
// fails) from the third level on.
func ruleI7(p *Prog, r *Report) {
	const R = "I7"
	n := 0
	isArraySlabT := func(t types.Type) bool {
		switch typeName(t) {
		case "ArraySlab", "ArrayDataSlab", "ArrayMetaDataSlab":
			return true
		}
		return false
	}
	for _, top := range p.TopFuncs() {
		if p.IsTestFile(top.Pos()) {
			continue
		}
		eachInstrDeep(top, func(fn *ssa.Function, in ssa.Instruction) {
			c, ok := in.(*ssa.Call)
			if !ok || c.Call.StaticCallee() == nil || c.Call.StaticCallee().Name() != "childSlabIndexInfo" || len(c.Call.Args) < 2 {
				return
			}
			n++
			recv, idx := c.Call.Args[0], c.Call.Args[1]
			cons := "index-rebased-on-descent:" + p.Name(fn)
			// (b) loop form
			if h := loopHeadOf(c.Block()); h != nil {
				blocks := loopBlocks(h)
				varies := func(v ssa.Value) bool {
					return sliceContains(v, func(x ssa.Value) bool {
						ph, ok := x.(*ssa.Phi)
						return ok && blocks[ph.Block()]
					}, 0, map[ssa.Value]bool{})
				}
				if varies(recv) && !varies(idx) {
					r.Bad(R, cons, p.InstrPos(in), "the descent loop moves to another slab every round but asks each level with the same index: from the second index level on the index is no longer relative to the slab that is asked, so the wrong child is chosen (or an in-range index is refused)")
					return
				}
			}
			// (a) handed on
			var bad ssa.Instruction
			reachFrom(fn, in, nil, func(z ssa.Instruction) bool {
				if bad != nil {
					return true
				}
				y, ok := z.(ssa.CallInstruction)
				if !ok || z == in {
					return false
				}
				if g := y.Common().StaticCallee(); g != nil && isErrorCtorFunc(g) {
					return false
				}
				vals := append([]ssa.Value{}, y.Common().Args...)
				if y.Common().IsInvoke() {
					vals = append(vals, y.Common().Value)
				}
				other := false
				for _, a := range vals {
					if isArraySlabT(a.Type()) && !sameValue(a, recv) {
						other = true
					}
				}
				if !other {
					return false
				}
				for _, a := range y.Common().Args {
					if bt, ok := a.Type().Underlying().(*types.Basic); ok && bt.Kind() == types.Uint64 && (a == idx || sameValue(canonConv(a), canonConv(idx))) {
						bad = z
						return true
					}
				}
				return false
			})
			r.Decide(bad == nil, R, cons, p.InstrPos(in), "the level below is handed the adjusted index", "the index that was relative to this slab is handed on to a child slab"+func() string {
				if bad != nil {
					return " at " + p.InstrPos(bad)
				}
				return ""
			}()+" instead of the adjusted index childSlabIndexInfo returned: the child looks at the wrong position")
		})
	}
	// (c) what a recursive descent returns is what the level below returned
	for _, top := range p.TopFuncs() {
		if p.IsTestFile(top.Pos()) {
			continue
		}
		hasLookup := false
		eachInstr(top, func(in ssa.Instruction) {
			if c, ok := in.(*ssa.Call); ok && c.Call.StaticCallee() != nil && c.Call.StaticCallee().Name() == "childSlabIndexInfo" {
				hasLookup = true
			}
		})
		if !hasLookup {
			continue
		}
		eachInstr(top, func(in ssa.Instruction) {
			c2, ok := in.(*ssa.Call)
			if !ok || c2.Call.StaticCallee() != top {
				return
			}
			tup, ok := c2.Type().(*types.Tuple)
			if !ok {
				return
			}
			n++
			cons := "descent-returns-leaf-index:" + p.Name(top)
			var bad *ssa.Return
			reachFrom(top, in, nil, func(z ssa.Instruction) bool {
				ret, ok := z.(*ssa.Return)
				if !ok || bad != nil {
					return bad != nil
				}
				if cl, _ := classifyReturn(ret); cl == retError {
					return true
				}
				for j := 0; j < tup.Len() && j < len(ret.Results); j++ {
					bt, ok := tup.At(j).Type().Underlying().(*types.Basic)
					if !ok || bt.Kind() != types.Uint64 {
						continue
					}
					ex, ok := canon(ret.Results[j]).(*ssa.Extract)
					if !ok || ex.Tuple != ssa.Value(c2) || ex.Index != j {
						bad = ret
					}
				}
				return true
			})
			r.Decide(bad == nil, R, cons, p.InstrPos(in), "the index returned with the slab is the one the recursive call returned", "a recursive descent returns the slab found at the bottom together with an index computed at this level: the index is relative to this level's child subtree, not to the slab that is returned (identical for two levels, wrong from three levels on)")
		})
	}
	r.Floor(R, "child-by-index lookups", 5, n)
}

// I8 one cursor per level: cursors made while iterating are pushed on a stack.
//
// The loaded-value iterators walk a slab tree of any depth without recursion. When the walk finds an index slab it
// makes a cursor over that slab's children (a *...LoadedSlabIterator literal created inside a method of the
// iterator); the cursors of the levels above must stay alive until the new one is exhausted. Obligation per such
// literal: it is appended to a slice field of the iterator (the stack), and it is not stored into a scalar field of
// the iterator - a fixed number of cursor fields works for trees of that many levels and silently drops the rest of
// a level beyond it.
func ruleI8(p *Prog, r *Report) {
	const R = "I8"
	n := 0
	for _, top := range p.TopFuncs() {
		if p.IsTestFile(top.Pos()) || !strings.Contains(recvName(top), "LoadedValueIterator") || len(top.Params) == 0 {
			continue
		}
		recv := top.Params[0]
		eachInstr(top, func(in ssa.Instruction) {
			al, ok := in.(*ssa.Alloc)
			if !ok || !al.Heap {
				return
			}
			nt := rootNamed(al.Type())
			if nt == nil || !strings.Contains(nt.Obj().Name(), "LoadedSlabIterator") {
				return
			}
			n++
			cons := "level-cursor-pushed:" + p.Name(top)
			var scalar ssa.Instruction
			pushed := false
			for _, u := range *al.Referrers() {
				st, ok := u.(*ssa.Store)
				if !ok || st.Val != ssa.Value(al) {
					continue
				}
				if fr, ok := asFieldAddr(st.Addr); ok && sameValue(fr.Base, recv) {
					scalar = st
					continue
				}
				// element of the variadic array of an append whose result goes to a slice field of the iterator
				ia, ok := st.Addr.(*ssa.IndexAddr)
				if !ok {
					continue
				}
				arr := ia.X
				eachInstr(top, func(y ssa.Instruction) {
					c, ok := y.(*ssa.Call)
					if !ok {
						return
					}
					if bi, ok := c.Call.Value.(*ssa.Builtin); !ok || bi.Name() != "append" || len(c.Call.Args) != 2 {
						return
					}
					sl, ok := c.Call.Args[1].(*ssa.Slice)
					if !ok || sl.X != arr {
						return
					}
					src, ok := asLoadedField(c.Call.Args[0])
					if !ok || !sameValue(src.Base, recv) {
						return
					}
					for _, u2 := range *c.Referrers() {
						if st2, ok := u2.(*ssa.Store); ok && st2.Val == ssa.Value(c) {
							if fr, ok := asFieldAddr(st2.Addr); ok && sameValue(fr.Base, recv) && fr.Field == src.Field {
								pushed = true
							}
						}
					}
				})
			}
			switch {
			case scalar != nil:
				r.Bad(R, cons, p.InstrPos(scalar), "the cursor over the children of an index slab found during the walk is stored in a single field of the iterator: the cursor of the level above that the field held is lost, so in a tree with more index levels than the iterator has fields the rest of that level is never visited")
			case !pushed:
				r.Bad(R, cons, p.InstrPos(in), "the cursor over the children of an index slab found during the walk is not pushed on the iterator's stack of parents")
			default:
				r.Ok(R, cons, p.InstrPos(in), "the new level's cursor is appended to the iterator's stack of parents")
			}
		})
	}
	r.Floor(R, "level cursors made during a walk", 2, n)
}

// I9 no built-in bound on how deep collision groups nest.
//
// The number of digest levels - and with it the depth to which collision groups nest - belongs to the map's
// DigesterBuilder, not to the library. A walker that creates a nested walker of its own type may carry a depth
// counter, but an error that depends on comparing that counter with a constant rejects legal maps of clients whose
// digester has more levels. Obligation per method that builds a literal of its own receiver type with a field set to
// `receiver.field + k`: no error return in the methods of that type is control dependent on a comparison of that
// field with a constant.
func ruleI9(p *Prog, r *Report) {
	const R = "I9"
	n := 0
	for _, top := range p.TopFuncs() {
		if p.IsTestFile(top.Pos()) || len(top.Params) == 0 || top.Signature.Recv() == nil {
			continue
		}
		rt := rootNamed(top.Params[0].Type())
		if rt == nil {
			continue
		}
		eachInstr(top, func(in ssa.Instruction) {
			al, ok := in.(*ssa.Alloc)
			if !ok || !al.Heap || rootNamed(al.Type()) != rt {
				return
			}
			n++
			// depth fields of the literal
			for _, ref := range *al.Referrers() {
				fa, ok := ref.(*ssa.FieldAddr)
				if !ok {
					continue
				}
				for _, r2 := range *fa.Referrers() {
					st, ok := r2.(*ssa.Store)
					if !ok || st.Addr != ssa.Value(fa) {
						continue
					}
					bo, ok := canonConv(st.Val).(*ssa.BinOp)
					if !ok || bo.Op != token.ADD {
						continue
					}
					src, ok := asLoadedField(bo.X)
					if !ok || !sameValue(src.Base, top.Params[0]) {
						continue
					}
					_, fname := structFieldName(fa.X.Type(), fa.Field)
					if src.Field != fname {
						continue
					}
					// comparisons of that field with a constant that decide an error
					for _, m := range p.TopFuncs() {
						if len(m.Params) == 0 || rootNamed(m.Params[0].Type()) != rt {
							continue
						}
						for _, b := range m.Blocks {
							ifi, ok := b.Instrs[len(b.Instrs)-1].(*ssa.If)
							if !ok {
								continue
							}
							c, ok := ifi.Cond.(*ssa.BinOp)
							if !ok {
								continue
							}
							isF := func(v ssa.Value) bool {
								lf, ok := asLoadedField(v)
								return ok && lf.Field == fname && sameValue(lf.Base, m.Params[0])
							}
							_, kx := cInt(c.X)
							_, ky := cInt(c.Y)
							if !((isF(c.X) && ky) || (isF(c.Y) && kx)) {
								continue
							}
							for si, s := range b.Succs {
								onlyErr := true
								any := false
								reachFrom(m, s.Instrs[0], nil, func(z ssa.Instruction) bool {
									if ret, ok := z.(*ssa.Return); ok {
										any = true
										if cl, _ := classifyReturn(ret); cl != retError {
											onlyErr = false
										}
										return true
									}
									return false
								})
								if ret, ok := s.Instrs[0].(*ssa.Return); ok {
									any = true
									if cl, _ := classifyReturn(ret); cl != retError {
										onlyErr = false
									}
								}
								_ = si
								if any && onlyErr {
									r.Bad(R, "no-built-in-depth-bound:"+p.Name(m), p.InstrPos(ifi), "an error depends on comparing the nesting depth ("+fname+") of this walker with a constant: how deep collision groups nest is decided by the client's digester (its number of levels), so legal maps of a digester with more levels are refused by this walker while lookups and the other iterators accept them")
								}
							}
						}
					}
				}
			}
		})
	}
	r.Decide(true, R, "self-nesting-walkers", "-", "literals of the receiver's own type built in methods (walkers that nest): "+itoa(n)+"; none compares a depth counter with a constant to fail", "")
	r.Floor(R, "self-nesting literals", 1, n)
}

