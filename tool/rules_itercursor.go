package main

// I5 an iterator that hands out mutable elements keeps a logical cursor.
//
// The mutable iterators give the caller elements with their parent callback installed:
// between two calls of Next the caller may overwrite the current element or change a
// nested container, which can split, merge or rebalance the slab under the cursor. An
// iterator of that kind must therefore find its place again from the container (by
// index / by key) at every step; a slab kept in the iterator goes stale as soon as the
// tree is restructured (elements are yielded twice and others skipped). Obligation per
// iterator type whose stepping methods reach the installation of a parent callback:
// no field of the type holds a slab (pointer to a slab struct, or a slab interface).

import (
	"go/types"
	"sort"
	"strings"

	"golang.org/x/tools/go/ssa"
)

func ruleI5(p *Prog, r *Report) {
	const R = "I5"
	n := 0
	for _, nt := range p.rootNamedTypes() {
		st, ok := nt.Underlying().(*types.Struct)
		if !ok || p.IsTestFile(nt.Obj().Pos()) {
			continue
		}
		var steps []*ssa.Function
		for _, nm := range []string{"Next", "NextKey", "NextValue"} {
			if f := p.Method(nt.Obj().Name(), nm); f != nil && recvNamed(f) == nt {
				steps = append(steps, f)
			}
		}
		if len(steps) == 0 {
			continue
		}
		handsOutMutable := false
		for _, f := range steps {
			for g := range p.ReachFine(f) {
				if g.Name() == "setCallbackWithChild" {
					handsOutMutable = true
				}
			}
		}
		if !handsOutMutable {
			continue
		}
		n++
		var slabFields []string
		for i := 0; i < st.NumFields(); i++ {
			ft := st.Field(i).Type()
			if a := rootNamed(ft); a != nil && slabStructs[a.Obj().Name()] {
				slabFields = append(slabFields, st.Field(i).Name())
				continue
			}
			switch typeName(ft) {
			case "ArraySlab", "MapSlab", "Slab":
				slabFields = append(slabFields, st.Field(i).Name())
			}
		}
		sort.Strings(slabFields)
		r.Decide(len(slabFields) == 0, R, "logical-cursor:"+nt.Obj().Name(), p.Pos(nt.Obj().Pos()),
			"the iterator hands out mutable elements and keeps only a logical position (no slab)",
			"the iterator hands out elements the caller may mutate between two steps, yet keeps a slab in field(s) "+strings.Join(slabFields, ", ")+": after a mutation that splits, merges or rebalances that slab the cursor is stale - elements are yielded twice and others skipped")
	}
	r.Floor(R, "iterator types that hand out mutable elements", 2, n)
}
