package main

// I5 an iterator that hands out mutable elements keeps a logical cursor.
//
// The mutable iterators give the caller elements with their parent callback installed:
// between two calls of Next the caller may overwrite the current element or change a
// nested container, which can split, merge or rebalance the slab under the cursor. An
// iterator of that kind must therefore find its place again from the container (by
// index / by key) at every step; a slab kept in the iterator goes stale as soon as the
// tree is restructured (elements are yielded twice and others skipped). Obligation per
// iterator type whose stepping methods reach the installation of a parent callback:
// no field of the type holds a slab (pointer to a slab struct, or a slab interface).

import (
	"go/types"
	"sort"
	"strings"

	"golang.org/x/tools/go/ssa"
)

func ruleI5(p *Prog, r *Report) {
	const R = "I5"
	n := 0
	for _, nt := range p.rootNamedTypes() {
		st, ok := nt.Underlying().(*types.Struct)
		if !ok || p.IsTestFile(nt.Obj().Pos()) {
			continue
		}
		var steps []*ssa.Function
		for _, nm := range []string{"Next", "NextKey", "NextValue"} {
			if f := p.Method(nt.Obj().Name(), nm); f != nil && recvNamed(f) == nt {
				steps = append(steps, f)
			}
		}
		if len(steps) == 0 {
			continue
		}
		handsOutMutable := false
		for _, f := range steps {
			for g := range p.ReachFine(f) {
				if g.Name() == "setCallbackWithChild" {
					handsOutMutable = true
				}
			}
		}
		if !handsOutMutable {
			continue
		}
		n++
		var slabFields []string
		for i := 0; i < st.NumFields(); i++ {
			ft := st.Field(i).Type()
			if a := rootNamed(ft); a != nil && slabStructs[a.Obj().Name()] {
				slabFields = append(slabFields, st.Field(i).Name())
				continue
			}
			switch typeName(ft) {
			case "ArraySlab", "MapSlab", "Slab":
				slabFields = append(slabFields, st.Field(i).Name())
			}
		}
		sort.Strings(slabFields)
		r.Decide(len(slabFields) == 0, R, "logical-cursor:"+nt.Obj().Name(), p.Pos(nt.Obj().Pos()),
			"the iterator hands out mutable elements and keeps only a logical position (no slab)",
			"the iterator hands out elements the caller may mutate between two steps, yet keeps a slab in field(s) "+strings.Join(slabFields, ", ")+": after a mutation that splits, merges or rebalances that slab the cursor is stale - elements are yielded twice and others skipped")
	}
	r.Floor(R, "iterator types that hand out mutable elements", 2, n)
}

// I6 every iterator constructor hands out a cursor of its own.
//
// Two enumerations of one container that are alive at the same time (nested loops, a comparison in lockstep)
// must not share state: an iterator whose state lives inside the container handle is rewound by the next
// constructor call and advanced by every other user. Obligation per function that returns an iterator
// (a result type whose name ends in Iterator): the returned object is allocated in that function, comes from
// another constructor, or is a package-level empty iterator - not an address inside one of its parameters.
func ruleI6(p *Prog, r *Report) {
	const R = "I6"
	n := 0
	for _, f := range p.TopFuncs() {
		if p.IsTestFile(f.Pos()) || f.Signature.Results().Len() == 0 || len(f.Blocks) == 0 {
			continue
		}
		if !strings.HasSuffix(typeName(f.Signature.Results().At(0).Type()), "Iterator") {
			continue
		}
		n++
		bad := ""
		for _, ret := range returnsOf(f) {
			if cl, _ := classifyReturn(ret); cl == retError {
				continue
			}
			v := canon(stripIface(ret.Results[0]))
			if isNilConst(v) {
				continue
			}
			var inside func(x ssa.Value, d int) bool
			inside = func(x ssa.Value, d int) bool {
				if d > 4 {
					return false
				}
				switch y := x.(type) {
				case *ssa.FieldAddr:
					if _, isPrm := canon(y.X).(*ssa.Parameter); isPrm {
						return true
					}
					return inside(y.X, d+1)
				case *ssa.Phi:
					for _, e := range y.Edges {
						if inside(canon(stripIface(e)), d+1) {
							return true
						}
					}
				}
				return false
			}
			if inside(v, 0) {
				bad = p.InstrPos(ret)
			}
		}
		r.Decide(bad == "", R, "fresh-cursor:"+p.Name(f), p.Pos(f.Pos()), "the iterator handed out is not part of the container handle",
			"the iterator returned at "+bad+" is an address inside the container handle: every enumeration of that container shares one cursor, so a second enumeration started while the first is alive rewinds it and each step advances both (elements are skipped, the outer loop ends early without an error)")
	}
	r.Floor(R, "iterator constructors", 8, n)
}
