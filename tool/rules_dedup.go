package main

// L15 dedup-key completeness (C07).
//
// The slab encoder shares one extra-data entry between several inlined
// containers when a string key found in a set of InlinedExtraData already has an
// index. What is shared is the type information (and, for compact maps, the
// field names), so two containers may share an entry only if these are equal:
// the lookup key must be a function of the encoded type information of the
// container, and of every field-name list handed in. The rule follows data
// dependence backwards from the lookup key (through callees of the package,
// where *every* return that is not the empty-list case must carry the
// dependence) and reports the return or the lookup that lost it.

import (
	"fmt"
	"go/token"
	"go/types"
	"sort"

	"golang.org/x/tools/go/ssa"
)

type depQuery struct {
	p    *Prog
	memo map[depKey]int // 0 unknown, 1 in progress, 2 yes, 3 no
	lost map[depKey]ssa.Instruction
}

type depKey struct {
	f *ssa.Function
	i int
}

// dependsOn reports whether v is data dependent on a value satisfying target.
func (q *depQuery) dependsOn(v ssa.Value, target func(ssa.Value) bool, seen map[ssa.Value]bool, depth int) bool {
	if v == nil || depth > 40 || seen[v] {
		return false
	}
	seen[v] = true
	if target(v) {
		return true
	}
	rec := func(x ssa.Value) bool { return q.dependsOn(x, target, seen, depth+1) }
	// content dependence of a reference: a call that receives the object (or an object derived
	// from it, such as an encoder writing into a buffer) together with other operands may write
	// those operands into it. Flow-insensitive: this can only add dependences.
	if isRefLike(v.Type()) && v.Referrers() != nil {
		if _, isParam := v.(*ssa.Parameter); !isParam {
			if q.coOperands(v, rec, 0, map[ssa.Value]bool{}) {
				return true
			}
		}
	}
	switch x := v.(type) {
	case *ssa.Phi:
		// a merged value carries the dependence only if every incoming value does
		for _, e := range x.Edges {
			s2 := map[ssa.Value]bool{}
			for k := range seen {
				s2[k] = true
			}
			if !q.dependsOn(e, target, s2, depth+1) {
				return false
			}
		}
		return len(x.Edges) > 0
	case *ssa.BinOp:
		return rec(x.X) || rec(x.Y)
	case *ssa.UnOp:
		if x.Op == token.MUL {
			if al, ok := x.X.(*ssa.Alloc); ok {
				// local cell: any stored value
				for _, ref := range *al.Referrers() {
					if st, ok := ref.(*ssa.Store); ok && st.Addr == ssa.Value(al) && rec(st.Val) {
						return true
					}
				}
				// fields / elements of a local aggregate
				for _, ref := range *al.Referrers() {
					switch a := ref.(type) {
					case *ssa.FieldAddr:
						for _, r2 := range *a.Referrers() {
							if st, ok := r2.(*ssa.Store); ok && st.Addr == ssa.Value(a) && rec(st.Val) {
								return true
							}
						}
					case *ssa.IndexAddr:
						for _, r2 := range *a.Referrers() {
							if st, ok := r2.(*ssa.Store); ok && st.Addr == ssa.Value(a) && rec(st.Val) {
								return true
							}
						}
					}
				}
				return false
			}
		}
		return rec(x.X)
	case *ssa.FieldAddr:
		if rec(x.X) {
			return true
		}
		// a field of a freshly built object: what was stored into that field
		if al, ok := canon(x.X).(*ssa.Alloc); ok {
			for _, ref := range *al.Referrers() {
				if fa, ok := ref.(*ssa.FieldAddr); ok && fa.Field == x.Field {
					for _, r2 := range *fa.Referrers() {
						if st, ok := r2.(*ssa.Store); ok && st.Addr == ssa.Value(fa) && rec(st.Val) {
							return true
						}
					}
				}
			}
		}
		return false
	case *ssa.Field:
		return rec(x.X)
	case *ssa.IndexAddr:
		return rec(x.X)
	case *ssa.Index:
		return rec(x.X)
	case *ssa.Lookup:
		return rec(x.X) || rec(x.Index)
	case *ssa.Slice:
		return rec(x.X)
	case *ssa.Convert:
		return rec(x.X)
	case *ssa.ChangeType:
		return rec(x.X)
	case *ssa.ChangeInterface:
		return rec(x.X)
	case *ssa.MakeInterface:
		return rec(x.X)
	case *ssa.TypeAssert:
		return rec(x.X)
	case *ssa.Extract:
		return rec(x.Tuple)
	case *ssa.Alloc:
		for _, ref := range *x.Referrers() {
			switch a := ref.(type) {
			case *ssa.Store:
				if a.Addr == ssa.Value(x) && rec(a.Val) {
					return true
				}
			case *ssa.FieldAddr:
				for _, r2 := range *a.Referrers() {
					if st, ok := r2.(*ssa.Store); ok && st.Addr == ssa.Value(a) && rec(st.Val) {
						return true
					}
				}
			}
		}
		return false
	case *ssa.Call:
		cc := x.Common()
		if cc.IsInvoke() {
			// result of a method of a client/own interface: depends on the receiver and arguments
			if rec(cc.Value) {
				return true
			}
			for _, a := range cc.Args {
				if rec(a) {
					return true
				}
			}
			return false
		}
		g := cc.StaticCallee()
		if g != nil && g.Pkg == q.p.RootSSA && len(g.Blocks) > 0 {
			for i, a := range cc.Args {
				if i < len(g.Params) && q.resultDependsOnParam(g, i) && rec(a) {
					return true
				}
			}
			return false
		}
		// library function / builtin: result depends on every argument
		for _, a := range cc.Args {
			if rec(a) {
				return true
			}
		}
		return false
	}
	return false
}

// resultDependsOnParam: every return of g (except those taken only when the
// parameter is an empty list) yields a first result that depends on param i.
func (q *depQuery) resultDependsOnParam(g *ssa.Function, i int) bool {
	k := depKey{g, i}
	switch q.memo[k] {
	case 1, 2:
		return true
	case 3:
		return false
	}
	q.memo[k] = 1
	prm := g.Params[i]
	ok := true
	for _, ret := range returnsOf(g) {
		if len(ret.Results) == 0 {
			continue
		}
		if c, _ := classifyReturn(ret); c != retSuccess {
			continue
		}
		if g.Recover != nil && ret.Block() == g.Recover {
			continue
		}
		if _, isSlice := prm.Type().Underlying().(*types.Slice); isSlice && returnOnlyWhenEmpty(ret, prm) {
			continue
		}
		if !q.dependsOn(ret.Results[0], func(v ssa.Value) bool { return v == ssa.Value(prm) }, map[ssa.Value]bool{}, 0) {
			ok = false
			if q.lost[k] == nil {
				q.lost[k] = ret
			}
		}
	}
	if ok {
		q.memo[k] = 2
	} else {
		q.memo[k] = 3
	}
	return ok
}

// returnOnlyWhenEmpty: ret is dominated by the true edge of len(prm) == 0
// (or the false edge of len(prm) != 0 / > 0).
func returnOnlyWhenEmpty(ret *ssa.Return, prm *ssa.Parameter) bool {
	fn := ret.Parent()
	for _, b := range fn.Blocks {
		ifi, ok := b.Instrs[len(b.Instrs)-1].(*ssa.If)
		if !ok {
			continue
		}
		bo, ok := ifi.Cond.(*ssa.BinOp)
		if !ok {
			continue
		}
		isLen := func(v ssa.Value) bool {
			c, ok := canonConv(v).(*ssa.Call)
			if !ok {
				return false
			}
			bi, ok := c.Call.Value.(*ssa.Builtin)
			return ok && bi.Name() == "len" && canon(c.Call.Args[0]) == ssa.Value(prm)
		}
		isZero := func(v ssa.Value) bool { k, ok := constInt(v); return ok && k == 0 }
		emptyEdge := -1
		switch {
		case bo.Op == token.EQL && ((isLen(bo.X) && isZero(bo.Y)) || (isLen(bo.Y) && isZero(bo.X))):
			emptyEdge = 0
		case bo.Op == token.NEQ && ((isLen(bo.X) && isZero(bo.Y)) || (isLen(bo.Y) && isZero(bo.X))):
			emptyEdge = 1
		case bo.Op == token.GTR && isLen(bo.X) && isZero(bo.Y):
			emptyEdge = 1
		case bo.Op == token.LSS && isLen(bo.X):
			if k, ok := constInt(bo.Y); ok && k == 1 {
				emptyEdge = 0
			}
		}
		if emptyEdge >= 0 && edgeDominates(b, emptyEdge, ret.Block()) {
			return true
		}
	}
	return false
}

func ruleL15(p *Prog, r *Report) {
	const R = "L15"
	n := 0
	q := &depQuery{p: p, memo: map[depKey]int{}, lost: map[depKey]ssa.Instruction{}}
	funcs := p.TopFuncs()
	sort.Slice(funcs, func(i, j int) bool { return p.Name(funcs[i]) < p.Name(funcs[j]) })
	for _, f := range funcs {
		if recvName(f) != "InlinedExtraData" || len(f.Params) < 2 {
			continue
		}
		recv := f.Params[0]
		// dedup lookups: comma-ok lookup in a map field of the receiver that the same function also updates
		eachInstr(f, func(in ssa.Instruction) {
			lk, ok := in.(*ssa.Lookup)
			if !ok || !lk.CommaOk {
				return
			}
			fr, ok := asLoadedField(lk.X)
			if !ok || !sameValue(fr.Base, recv) {
				return
			}
			updated := false
			eachInstr(f, func(y ssa.Instruction) {
				if mu, ok := y.(*ssa.MapUpdate); ok {
					if fr2, ok := asLoadedField(mu.Map); ok && fr2.Field == fr.Field {
						updated = true
					}
				}
			})
			if !updated {
				// ... or a private method of the receiver that f calls updates it (the append-and-register half extracted)
				eachInstr(f, func(y ssa.Instruction) {
					c, ok := y.(*ssa.Call)
					if !ok {
						return
					}
					g := c.Call.StaticCallee()
					if g == nil || g.Pkg != p.RootSSA || len(g.Blocks) == 0 || recvName(g) != recvName(f) || len(c.Call.Args) == 0 || !sameValue(c.Call.Args[0], recv) {
						return
					}
					eachInstr(g, func(z ssa.Instruction) {
						if mu, ok := z.(*ssa.MapUpdate); ok {
							if fr2, ok := asLoadedField(mu.Map); ok && fr2.Field == fr.Field {
								updated = true
							}
						}
					})
				})
			}
			if !updated {
				return
			}
			n++
			cons := "dedup-key:" + p.Name(f) + ":" + fr.Field
			pos := p.InstrPos(in)
			// (a) the type information of the extra data handed in
			isTypeInfo := func(v ssa.Value) bool {
				lf, ok := asLoadedField(v)
				return ok && lf.Field == "TypeInfo"
			}
			if !q.dependsOn(lk.Index, isTypeInfo, map[ssa.Value]bool{}, 0) {
				detail := "the dedup key does not depend on the container's TypeInfo: containers of different types would share one extra-data entry"
				for k, at := range q.lost {
					if at != nil {
						detail += " (dependence lost at " + p.InstrPos(at) + " in " + p.Name(k.f) + ")"
					}
				}
				r.Bad(R, cons, pos, detail)
				return
			}
			// (b) every list of field names handed in
			for _, prm := range f.Params[1:] {
				st, ok := prm.Type().Underlying().(*types.Slice)
				if !ok {
					continue
				}
				if nt := namedOf(st.Elem()); nt == nil || nt.Obj().Name() != "ComparableStorable" {
					continue
				}
				prm := prm
				if !q.dependsOn(lk.Index, func(v ssa.Value) bool { return v == ssa.Value(prm) }, map[ssa.Value]bool{}, 0) {
					detail := "the dedup key does not depend on the field names " + prm.Name() + ": maps with different fields would share one entry"
					for k, at := range q.lost {
						if at != nil {
							detail += " (dependence lost at " + p.InstrPos(at) + " in " + p.Name(k.f) + ")"
						}
					}
					r.Bad(R, cons, pos, detail)
					return
				}
			}
			r.Ok(R, cons, pos, "the dedup key is a function of the encoded type information and of every field-name list handed in")
		})
	}
	// the key must be an injective encoding of the field names: they are client strings of any content, joined with a
	// separator, so each one has to be delimited by its length (otherwise {"a,b","c"} and {"a","b,c"} share an entry)
	keyFuncs := map[*ssa.Function]bool{}
	if mk := p.PkgFunc("makeCompactMapTypeID"); mk != nil {
		for g := range p.ReachableFrom([]*ssa.Function{mk}, nil) {
			keyFuncs[g] = true
		}
	}
	hasLenOf := func(g *ssa.Function, v ssa.Value) bool {
		found := false
		eachInstr(g, func(in ssa.Instruction) {
			if cc, ok := isBuiltinCall(in, "len"); ok && len(cc.Args) == 1 && sameValue(cc.Args[0], v) {
				found = true
			}
		})
		return found
	}
	for _, g := range sortedFuncs(p, keyFuncs) {
		ord := 0
		eachInstr(g, func(in ssa.Instruction) {
			c, ok := in.(*ssa.Call)
			if !ok || !c.Call.IsInvoke() || c.Call.Method.Name() != "ID" || typeName(c.Call.Value.Type()) != "ComparableStorable" {
				return
			}
			n++
			ord++
			cons := "dedup-key-delimited:" + p.Name(g)
			if ord > 1 {
				cons += "#" + string(rune('0'+ord))
			}
			good := hasLenOf(g, c)
			if !good {
				for _, u := range effectiveUses(c) {
					cc, ok := u.(ssa.CallInstruction)
					if !ok {
						continue
					}
					h := staticCallee(cc)
					if h == nil || h.Pkg != p.RootSSA {
						continue
					}
					for i, a := range cc.Common().Args {
						if sameValue(a, c) && i < len(h.Params) && hasLenOf(h, h.Params[i]) {
							good = true
						}
					}
				}
			}
			r.Decide(good, R, cons, p.InstrPos(in), "the field name enters the dedup key together with its length", "a field name (a client string of any content) is concatenated into the dedup key without its length: names containing the separator make different field sets share one extra-data entry, and the slab can no longer be encoded")
		})
	}
	r.Floor(R, "extra-data dedup lookups and key components", 4, n)
}

func isRefLike(t types.Type) bool {
	switch t.Underlying().(type) {
	case *types.Pointer, *types.Interface, *types.Map, *types.Slice:
		return true
	}
	return false
}

// coOperands visits the other operands of every call that receives obj or an object derived from it.
func (q *depQuery) coOperands(obj ssa.Value, rec func(ssa.Value) bool, depth int, seen map[ssa.Value]bool) bool {
	if depth > 2 || seen[obj] || obj.Referrers() == nil {
		return false
	}
	seen[obj] = true
	for _, ref := range *obj.Referrers() {
		switch a := ref.(type) {
		case *ssa.MakeInterface, *ssa.ChangeInterface, *ssa.ChangeType:
			if q.coOperands(a.(ssa.Value), rec, depth, seen) {
				return true
			}
			continue
		}
		c, ok := ref.(*ssa.Call)
		if !ok {
			continue
		}
		cc := c.Common()
		var ops []ssa.Value
		if cc.IsInvoke() {
			ops = append(ops, cc.Value)
		}
		ops = append(ops, cc.Args...)
		uses := false
		for _, o := range ops {
			if o == obj {
				uses = true
			}
		}
		if !uses {
			continue
		}
		for _, o := range ops {
			if o != obj && rec(o) {
				return true
			}
		}
		if isRefLike(c.Type()) && q.coOperands(c, rec, depth+1, seen) {
			return true
		}
	}
	return false
}

// L20 type-info references are resolved for every kind of inlined extra data: the encoder may write the type
// information of any inlined extra data entry as a reference into the slab's shared type-info list, so in the
// function that builds the reference-resolving decoder (decodeTypeInfoRefIfNeeded) every callee that is handed a
// TypeInfoDecoder receives that resolving decoder, not the plain one.
func ruleL20(p *Prog, r *Report) {
	const R = "L20"
	n := 0
	for _, f := range p.TopFuncs() {
		if p.IsTestFile(f.Pos()) {
			continue
		}
		var resolver ssa.Value
		eachInstr(f, func(in ssa.Instruction) {
			if c, ok := in.(*ssa.Call); ok && c.Call.StaticCallee() != nil && c.Call.StaticCallee().Name() == "decodeTypeInfoRefIfNeeded" {
				resolver = c
			}
		})
		if resolver == nil {
			continue
		}
		ord := 0
		seenFn := map[*ssa.Function]bool{}
		var check func(fn *ssa.Function, res ssa.Value, depth int)
		check = func(fn *ssa.Function, res ssa.Value, depth int) {
			if seenFn[fn] || depth > 3 {
				return
			}
			seenFn[fn] = true
			eachInstr(fn, func(in ssa.Instruction) {
				c, ok := in.(*ssa.Call)
				if !ok || ssa.Value(c) == res {
					return
				}
				g := c.Call.StaticCallee()
				if g == nil || g.Pkg != p.RootSSA {
					return
				}
				for i, a := range c.Call.Args {
					if typeName(a.Type()) != "TypeInfoDecoder" {
						continue
					}
					if rc, isCall := res.(*ssa.Call); isCall && !rc.Block().Dominates(c.Block()) {
						continue
					}
					n++
					ord++
					cons := fmt.Sprintf("typeinfo-ref-resolved:%s:%s", p.Name(f), g.Name())
					good := canon(a) == res
					r.Decide(good, R, cons, p.InstrPos(in), "the callee receives the decoder that resolves references into the shared type-info list", "the callee receives the plain type-info decoder: a type information that the encoder wrote as a reference into the slab's shared list cannot be decoded (or decodes to another type) for this kind of extra data")
					// a private dispatcher that hands the decoder on: the same obligation for what it calls
					if good && g.Object() != nil && !g.Object().Exported() && len(g.Blocks) > 0 && i < len(g.Params) {
						check(g, g.Params[i], depth+1)
					}
				}
			})
		}
		check(f, resolver, 0)
	}
	r.Floor(R, "extra data decoders handed a type-info decoder", 3, n)
}
