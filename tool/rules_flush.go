package main

// L29 buffered CBOR output is flushed before the encoder's writer is written to directly.
//
// An Encoder writes in two ways: through its CBOR stream encoder (which buffers) and
// directly through the embedded io.Writer (slab head, sibling id: fixed bytes at fixed
// places). A direct write made while the stream encoder still holds bytes lands in
// front of them: the register is written without error and cannot be decoded. The
// encoders keep the two in order by flushing at the end of every routine that used the
// stream encoder. Decided as a forward may-analysis per encoder value with
// interprocedural summaries:
//
//	state: "the stream encoder may hold unflushed bytes"
//	CBOR.Encode*(..)            -> may hold
//	CBOR.Flush()                -> does not hold
//	Writer.Write(..) while it may hold            -> violation
//	call g(.. enc ..)           -> violation if g may write directly before flushing and the
//	                               state is "may hold"; afterwards: g's exit summary
//	Encode(enc) through an interface (client storables, element lists) -> may hold afterwards
//
// The summary of g for an encoder parameter: may a success return be reached with
// unflushed bytes; may a direct write happen before any flush (so that the caller's
// state matters).

import (
	"fmt"
	"go/token"
	"strings"

	"golang.org/x/tools/go/ssa"
)

type flushSummary struct {
	mayEndDirty bool // some success return is reached with possibly unflushed bytes written by g (or left by its callees)
	rawFirst    bool // a direct write can happen before the first flush: the caller's pending bytes would be overtaken
	passThrough bool // some path reaches a success return without any flush: the caller's state survives the call
	touches     bool
}

type flushKey struct {
	fn  *ssa.Function
	idx int
}

type flushEngine struct {
	p    *Prog
	sum  map[flushKey]*flushSummary
	viol map[ssa.Instruction]string
}

// encoderOf: the Encoder value an instruction operates on, and the kind of event.
func (e *flushEngine) event(in ssa.Instruction, enc ssa.Value) (kind string, callee *ssa.Function, idx int) {
	c, ok := in.(ssa.CallInstruction)
	if !ok {
		return "", nil, 0
	}
	if _, isDefer := in.(*ssa.Defer); isDefer {
		return "", nil, 0
	}
	cc := c.Common()
	isEnc := func(v ssa.Value) bool { return sameValue(v, enc) }
	// direct write through the embedded writer
	if cc.IsInvoke() && cc.Method.Name() == "Write" {
		if fr, ok := asLoadedField(cc.Value); ok && fr.Owner != nil && fr.Owner.Obj().Name() == "Encoder" && isEnc(fr.Base) {
			return "raw", nil, 0
		}
	}
	g := cc.StaticCallee()
	if g != nil && strings.Contains(g.String(), "cbor/v2.StreamEncoder)") && len(cc.Args) > 0 {
		if fr, ok := asLoadedField(cc.Args[0]); ok && fr.Owner != nil && fr.Owner.Obj().Name() == "Encoder" && isEnc(fr.Base) {
			switch {
			case g.Name() == "Flush":
				return "flush", nil, 0
			case strings.HasPrefix(g.Name(), "Encode"):
				return "cbor", nil, 0
			}
		}
		return "", nil, 0
	}
	// the encoder handed to another routine
	for i, a := range cc.Args {
		if !isEncoderPtr(a.Type()) || !isEnc(a) {
			continue
		}
		if cc.IsInvoke() {
			return "invoke", nil, 0
		}
		if g == nil {
			return "invoke", nil, 0
		}
		if g.Pkg != e.p.RootSSA || len(g.Blocks) == 0 {
			return "", nil, 0
		}
		return "call", g, i
	}
	if cc.IsInvoke() && isEncoderPtr(cc.Value.Type()) {
		return "", nil, 0
	}
	return "", nil, 0
}

type flushState struct{ dirty, pending, sawAny bool } // pending: no flush since entry

func (e *flushEngine) analyse(fn *ssa.Function, enc ssa.Value, record bool) *flushSummary {
	out := &flushSummary{}
	in := map[*ssa.BasicBlock]flushState{}
	seenIn := map[*ssa.BasicBlock]bool{}
	work := []*ssa.BasicBlock{fn.Blocks[0]}
	in[fn.Blocks[0]] = flushState{dirty: false, pending: true}
	seenIn[fn.Blocks[0]] = true
	for len(work) > 0 {
		b := work[len(work)-1]
		work = work[:len(work)-1]
		st := in[b]
		for _, x := range b.Instrs {
			kind, g, idx := e.event(x, enc)
			switch kind {
			case "flush":
				st.dirty, st.pending = false, false
				out.touches = true
			case "cbor":
				st.dirty = true
				out.touches = true
			case "raw":
				out.touches = true
				if st.dirty {
					if record {
						e.viol[x] = "a direct write through the encoder's writer while its CBOR stream encoder may hold unflushed bytes"
					}
				}
				if st.pending {
					out.rawFirst = true
				}
			case "invoke":
				out.touches = true
				// an interface call all of whose implementations are routines of this package: their summaries joined
				joined, all := e.joinInvoke(x, enc)
				if all {
					if joined.rawFirst && st.dirty && record {
						e.viol[x] = "an implementation of this call writes directly through the encoder's writer before flushing, and the CBOR stream encoder may hold unflushed bytes here"
					}
					if joined.rawFirst && st.pending {
						out.rawFirst = true
					}
					nd := joined.mayEndDirty || (joined.passThrough && st.dirty)
					st.dirty, st.pending = nd, st.pending && joined.passThrough
				} else {
					st.dirty = true
				}
			case "call":
				s := e.sum[flushKey{g, idx}]
				if s == nil {
					s = &flushSummary{}
				}
				if s.touches {
					out.touches = true
				}
				if s.rawFirst && st.dirty && record {
					e.viol[x] = "the callee " + e.p.Name(g) + " writes directly through the encoder's writer before flushing, and the CBOR stream encoder may hold unflushed bytes here"
				}
				if s.rawFirst && st.pending {
					out.rawFirst = true
				}
				nd := s.mayEndDirty
				if s.passThrough && st.dirty {
					nd = true
				}
				np := st.pending && s.passThrough
				if !s.touches {
					nd, np = st.dirty, st.pending
				}
				st.dirty, st.pending = nd, np
			}
			if ret, ok := x.(*ssa.Return); ok {
				if !flushErrorReturn(ret) {
					if st.dirty {
						out.mayEndDirty = true
					}
					if st.pending {
						out.passThrough = true
					}
				}
			}
		}
		for _, s := range b.Succs {
			old, had := in[s]
			nw := flushState{dirty: old.dirty || st.dirty, pending: old.pending || st.pending}
			if !had || nw != old || !seenIn[s] {
				in[s] = nw
				seenIn[s] = true
				work = append(work, s)
			}
		}
	}
	return out
}

func ruleL29(p *Prog, r *Report) {
	const R = "L29"
	e := &flushEngine{p: p, sum: map[flushKey]*flushSummary{}, viol: map[ssa.Instruction]string{}}
	type site struct {
		fn  *ssa.Function
		enc ssa.Value
		idx int
	}
	var sites []site
	for _, top := range p.TopFuncs() {
		if p.IsTestFile(top.Pos()) || len(top.Blocks) == 0 {
			continue
		}
		for i, prm := range top.Params {
			if isEncoderPtr(prm.Type()) {
				sites = append(sites, site{top, prm, i})
			}
		}
	}
	// summaries to a fixpoint
	for round := 0; round < 8; round++ {
		changed := false
		for _, s := range sites {
			ns := e.analyse(s.fn, s.enc, false)
			k := flushKey{s.fn, s.idx}
			if old := e.sum[k]; old == nil || *old != *ns {
				e.sum[k] = ns
				changed = true
			}
		}
		if !changed {
			break
		}
	}
	// encoders created locally (two-pass element encoders) are analysed as well
	for _, top := range p.TopFuncs() {
		if p.IsTestFile(top.Pos()) || len(top.Blocks) == 0 {
			continue
		}
		eachInstr(top, func(in ssa.Instruction) {
			c, ok := in.(*ssa.Call)
			if !ok || !isEncoderPtr(c.Type()) {
				return
			}
			sites = append(sites, site{top, c, -1})
		})
	}
	n := 0
	for _, s := range sites {
		sm := e.analyse(s.fn, s.enc, true)
		if !sm.touches {
			continue
		}
		n++
	}
	// report per function
	byFn := map[*ssa.Function][]ssa.Instruction{}
	for in := range e.viol {
		byFn[in.Parent()] = append(byFn[in.Parent()], in)
	}
	seen := map[*ssa.Function]bool{}
	for _, s := range sites {
		if seen[s.fn] {
			continue
		}
		seen[s.fn] = true
		sm := e.sum[flushKey{s.fn, s.idx}]
		if s.idx >= 0 && (sm == nil || !sm.touches) {
			continue
		}
		cons := "flush-before-direct-write:" + p.Name(s.fn)
		if v := byFn[s.fn]; len(v) > 0 {
			r.Bad(R, cons, p.InstrPos(v[0]), e.viol[v[0]]+": the directly written bytes land in front of the buffered ones, the register is written without error and no longer decodes")
		} else {
			r.Ok(R, cons, p.Pos(s.fn.Pos()), "no direct write can overtake buffered CBOR output")
		}
	}
	r.Floor(R, "routines that write through an encoder", 20, n)
	_ = fmt.Sprintf
}

// flushErrorReturn: the return hands back a non-nil error: classified so, or it returns a load of the error
// cell that the test guarding this very block found non-nil (an error variable shared with a closure lives in a cell).
func flushErrorReturn(ret *ssa.Return) bool {
	cl, rv := classifyReturn(ret)
	if cl == retError {
		return true
	}
	if cl == retSuccess || rv == nil {
		return false
	}
	u, ok := rv.(*ssa.UnOp)
	if !ok || u.Op != token.MUL {
		return false
	}
	b := ret.Block()
	for _, pr := range b.Preds {
		ifi, ok := pr.Instrs[len(pr.Instrs)-1].(*ssa.If)
		if !ok {
			return false
		}
		ev, nn, ok := errTestOf(ifi)
		if !ok || pr.Succs[nn] != b {
			return false
		}
		tu, ok := ev.(*ssa.UnOp)
		if !ok || tu.Op != token.MUL || tu.X != u.X {
			return false
		}
	}
	return len(b.Preds) > 0
}

// joinInvoke: the joined summary of the package's implementations of an interface call that receives enc; all is
// false when a callee is unknown or outside the package (client storables).
func (e *flushEngine) joinInvoke(in ssa.Instruction, enc ssa.Value) (flushSummary, bool) {
	c, ok := in.(ssa.CallInstruction)
	if !ok {
		return flushSummary{}, false
	}
	// only for the closed family of extra-data encoders: a Storable / element may be a slab whose own Encode
	// writes a head directly when it is not inlined - which form is encoded is not visible here
	if !c.Common().IsInvoke() || typeName(c.Common().Value.Type()) != "ExtraData" {
		return flushSummary{}, false
	}
	callees := e.p.Callees(c)
	if len(callees) == 0 {
		return flushSummary{}, false
	}
	// position of the encoder among the arguments (+1 for the receiver of the implementation)
	pos := -1
	for i, a := range c.Common().Args {
		if isEncoderPtr(a.Type()) && sameValue(a, enc) {
			pos = i
		}
	}
	if pos < 0 {
		return flushSummary{}, false
	}
	if c.Common().IsInvoke() {
		pos++
	}
	var j flushSummary
	for _, g := range callees {
		if g.Pkg != e.p.RootSSA || len(g.Blocks) == 0 {
			return flushSummary{}, false
		}
		s := e.sum[flushKey{g, pos}]
		if s == nil {
			return flushSummary{}, false
		}
		j.mayEndDirty = j.mayEndDirty || s.mayEndDirty
		j.rawFirst = j.rawFirst || s.rawFirst
		j.passThrough = j.passThrough || s.passThrough
		j.touches = j.touches || s.touches
	}
	return j, true
}
