package main

// L6 inline-limit arguments, L9 rebalance decision, L7 co-update of summarised fields.

import (
	"fmt"
	"go/token"
	"sort"
	"strings"

	"golang.org/x/tools/go/ssa"
)

func globalLoadName(v ssa.Value) string {
	u, ok := canon(v).(*ssa.UnOp)
	if !ok || u.Op != token.MUL {
		return ""
	}
	g, ok := u.X.(*ssa.Global)
	if !ok {
		return ""
	}
	return g.Name()
}

// storedIntoField: the storable (result #0 of call) is stored into field `field`; returns the base objects.
func storedIntoField(call *ssa.Call, field string) (bases []ssa.Value) {
	var res ssa.Value
	for _, ref := range *call.Referrers() {
		if ex, ok := ref.(*ssa.Extract); ok && ex.Index == 0 {
			res = ex
		}
	}
	if res == nil {
		return nil
	}
	for _, u := range effectiveUses(res) {
		if st, ok := u.(*ssa.Store); ok {
			if fr, ok := asFieldAddr(st.Addr); ok && fr.Field == field {
				bases = append(bases, fr.Base)
			}
		}
		if mi, ok := u.(*ssa.MakeInterface); ok {
			for _, u2 := range effectiveUses(mi) {
				if st, ok := u2.(*ssa.Store); ok {
					if fr, ok := asFieldAddr(st.Addr); ok && fr.Field == field {
						bases = append(bases, fr.Base)
					}
				}
			}
		}
	}
	return
}

// L6 inline-limit arguments.
func ruleL6(p *Prog, r *Report) {
	const R = "L6"
	n := 0
	for _, top := range p.TopFuncs() {
		eachInstrDeep(top, func(fn *ssa.Function, in ssa.Instruction) {
			c, ok := in.(*ssa.Call)
			if !ok || !c.Call.IsInvoke() || c.Call.Method.Name() != "Storable" || typeName(c.Call.Value.Type()) != "Value" {
				return
			}
			n++
			name := p.Name(fn)
			cons := "storable-limit:" + name
			lim := c.Call.Args[len(c.Call.Args)-1]
			arraySide := strings.Contains(name, "Array")
			switch gl := globalLoadName(lim); gl {
			case "maxInlineArrayElementSize":
				r.Decide(arraySide, R, cons, p.InstrPos(in), "array element materialised with maxInlineArrayElementSize", "maxInlineArrayElementSize used outside array code")
				return
			case "maxInlineMapKeySize":
				isKey := len(storedIntoField(c, "key")) > 0
				r.Decide(!arraySide && isKey, R, cons, p.InstrPos(in), "map key materialised with maxInlineMapKeySize and stored as the element's key", "maxInlineMapKeySize is used for something that does not become an element key")
				return
			case "":
			default:
				r.Bad(R, cons, p.InstrPos(in), "element materialised with "+gl+", which is not the inline limit of this container kind: oversized elements could be stored inline (a full slab may hold fewer than two elements)")
				return
			}
			lc, ok := canon(lim).(*ssa.Call)
			if !ok || lc.Call.StaticCallee() == nil || lc.Call.StaticCallee().Name() != "maxInlineMapValueSize" {
				r.Bad(R, cons, p.InstrPos(in), "inline limit passed to Value.Storable is neither maxInlineArrayElementSize, maxInlineMapKeySize nor maxInlineMapValueSize(size of the key)")
				return
			}
			// argument: ByteSize() of the key storable of the same element
			a := canonConv(lc.Call.Args[0])
			bs, ok := a.(*ssa.Call)
			if !ok || calleeName(bs) != "ByteSize" {
				r.Bad(R, cons, p.InstrPos(in), "maxInlineMapValueSize is not applied to the byte size of the key storable")
				return
			}
			keySt := canon(callRecv(bs))
			good := false
			why := ""
			// (a) the key storable produced in this function with the key limit
			if ex, ok := keySt.(*ssa.Extract); ok && ex.Index == 0 {
				if kc, ok := ex.Tuple.(*ssa.Call); ok && kc.Call.IsInvoke() && kc.Call.Method.Name() == "Storable" && globalLoadName(kc.Call.Args[len(kc.Call.Args)-1]) == "maxInlineMapKeySize" {
					good, why = true, "value limit derived from the size of the key materialised just before"
				}
			}
			// (b) the key field of the element whose value is being replaced
			if fr, ok := asLoadedField(keySt); ok && fr.Field == "key" {
				for _, base := range storedIntoField(c, "value") {
					if sameValue(base, fr.Base) {
						good, why = true, "value limit derived from the key of the very element whose value is replaced"
					}
				}
			}
			r.Decide(!arraySide && good, R, cons, p.InstrPos(in), why, "the value's inline limit is not computed from the size of this element's own key")
		})
	}
	r.Floor(R, "Value.Storable call sites", 6, n)
}

// L9 rebalance decision: after a child mutation in an index slab every success path evaluates the
// split (IsFull) and/or merge (IsUnderflow) decision for that child and refreshes the child's header;
// at handle level the root's IsFull / single-child tests are evaluated.
func ruleL9(p *Prog, r *Report) {
	const R = "L9"
	n := 0
	for _, top := range p.TopFuncs() {
		rn := recvName(top)
		if rn != "ArrayMetaDataSlab" && rn != "MapMetaDataSlab" {
			continue
		}
		if top.Name() != "Set" && top.Name() != "Insert" && top.Name() != "Remove" {
			continue
		}
		name := p.Name(top)
		eachInstr(top, func(in ssa.Instruction) {
			c, ok := in.(*ssa.Call)
			if !ok || !c.Call.IsInvoke() || c.Call.Method.Name() != top.Name() || !isSlabT(c.Call.Value.Type()) {
				return
			}
			child := c.Call.Value
			n++
			// a map removal can grow a slab: an external collision group (a reference) collapses back to its last element
			grows := top.Name() == "Set" || top.Name() == "Insert" || (top.Name() == "Remove" && rn == "MapMetaDataSlab")
			shrinks := top.Name() == "Set" || top.Name() == "Remove"
			isCheck := func(want string) func(ssa.Instruction) bool {
				return func(y ssa.Instruction) bool {
					cc, ok := y.(ssa.CallInstruction)
					if !ok {
						return false
					}
					if calleeName(cc) == want && callRecv(cc) != nil && sameValue(callRecv(cc), child) {
						return true
					}
					// a helper of the same type that is given the child and evaluates the test (or splits) on every success path
					if g := staticCallee(cc); g != nil && recvName(g) == recvName(top) && len(g.Params) > 1 && len(g.Blocks) > 0 {
						for j := 1; j < len(g.Params) && j < len(cc.Common().Args); j++ {
							if !sameValue(cc.Common().Args[j], child) {
								continue
							}
							prm := g.Params[j]
							inner := func(z ssa.Instruction) bool {
								c2, ok := z.(ssa.CallInstruction)
								if !ok {
									return false
								}
								if calleeName(c2) == want && callRecv(c2) != nil && sameValue(callRecv(c2), prm) {
									return true
								}
								return want == "IsUnderflow" && calleeName(c2) == "SplitChildSlab"
							}
							if successReturnAvoiding(g, nil, inner) == nil {
								return true
							}
						}
					}
					return false
				}
			}
			if grows {
				bad := successReturnAvoiding(top, in, isCheck("IsFull"))
				r.Decide(bad == nil, R, "split-decision:"+name, p.InstrPos(in), "every success path after the child mutation evaluates child.IsFull()", "a child that may have grown is not tested with IsFull on some success path: an oversized slab would never be split")
			}
			if shrinks {
				// Set: the underflow test is only needed on paths where the child was not full
				hit := isCheck("IsUnderflow")
				{
					full := isCheck("IsFull")
					hit = func(y ssa.Instruction) bool {
						if isCheck("IsUnderflow")(y) {
							return true
						}
						// the IsFull()==true edge leads to SplitChildSlab: treat the split call as discharging
						if cc, ok := y.(ssa.CallInstruction); ok && calleeName(cc) == "SplitChildSlab" {
							return true
						}
						_ = full
						return false
					}
				}
				bad := successReturnAvoiding(top, in, hit)
				r.Decide(bad == nil, R, "merge-decision:"+name, p.InstrPos(in), "every success path after the child mutation evaluates child.IsUnderflow() (or splits)", "a child that may have shrunk is not tested with IsUnderflow on some success path: an undersized slab would never be merged or rebalanced")
			}
			// header refresh: a.childrenHeaders[i] = child.Header()
			refreshed := func(y ssa.Instruction) bool {
				// a helper of the same type that refreshes the header of the child it is given, on every path
				if cc, ok := y.(ssa.CallInstruction); ok {
					if g := staticCallee(cc); g != nil && recvName(g) == recvName(top) && len(g.Params) > 1 && len(g.Blocks) > 0 {
						for j := 1; j < len(g.Params) && j < len(cc.Common().Args); j++ {
							if !sameValue(cc.Common().Args[j], child) {
								continue
							}
							prm := g.Params[j]
							isRef := func(z ssa.Instruction) bool {
								st, ok := z.(*ssa.Store)
								if !ok {
									return false
								}
								ia, ok := st.Addr.(*ssa.IndexAddr)
								if !ok {
									return false
								}
								fr, ok := asLoadedField(ia.X)
								if !ok || fr.Field != "childrenHeaders" || !sameValue(fr.Base, g.Params[0]) {
									return false
								}
								hc, ok := canon(st.Val).(*ssa.Call)
								return ok && calleeName(hc) == "Header" && sameValue(callRecv(hc), prm)
							}
							escaped := false
							reachFrom(g, nil, nil, func(z ssa.Instruction) bool {
								if isRef(z) {
									return true
								}
								if _, isRet := z.(*ssa.Return); isRet {
									escaped = true
									return true
								}
								return false
							})
							if !escaped {
								return true
							}
						}
					}
				}
				st, ok := y.(*ssa.Store)
				if !ok {
					return false
				}
				ia, ok := st.Addr.(*ssa.IndexAddr)
				if !ok {
					return false
				}
				fr, ok := asLoadedField(ia.X)
				if !ok || fr.Field != "childrenHeaders" {
					return false
				}
				hc, ok := canon(st.Val).(*ssa.Call)
				return ok && calleeName(hc) == "Header" && sameValue(callRecv(hc), child)
			}
			bad := successReturnAvoiding(top, in, refreshed)
			r.Decide(bad == nil, R, "header-refresh:"+name, p.InstrPos(in), "the parent's copy of the child header is refreshed on every success path", "the parent's copy of the child's header (size/count/first key) is not refreshed after the child changed")
		})
	}
	// handle level
	for _, top := range p.TopFuncs() {
		if !isHandleType(recvName(top)) || len(top.Params) == 0 {
			continue
		}
		recv := top.Params[0]
		name := p.Name(top)
		eachInstr(top, func(in ssa.Instruction) {
			c, ok := in.(*ssa.Call)
			if !ok || !c.Call.IsInvoke() || !isRootOf(c.Call.Value, recv) {
				return
			}
			m := c.Call.Method.Name()
			if m != "Set" && m != "Insert" && m != "Remove" {
				return
			}
			n++
			onRoot := func(want string) func(ssa.Instruction) bool {
				return func(y ssa.Instruction) bool {
					cc, ok := y.(ssa.CallInstruction)
					if !ok {
						return false
					}
					if calleeName(cc) == want && callRecv(cc) != nil && isRootOf(callRecv(cc), recv) {
						return true
					}
					// a helper method of the same handle that evaluates the test on its own root on every path
					if g := staticCallee(cc); g != nil && g.Pkg == p.RootSSA && recvName(g) == recvName(top) && len(g.Params) > 0 && len(g.Blocks) > 0 &&
						len(cc.Common().Args) > 0 && sameValue(cc.Common().Args[0], recv) {
						grecv := g.Params[0]
						inner := func(z ssa.Instruction) bool {
							c2, ok := z.(ssa.CallInstruction)
							return ok && calleeName(c2) == want && callRecv(c2) != nil && isRootOf(callRecv(c2), grecv)
						}
						return successReturnAvoiding(g, nil, inner) == nil
					}
					return false
				}
			}
			if m == "Set" || m == "Insert" || recvName(top) == "OrderedMap" {
				bad := successReturnAvoiding(top, in, onRoot("IsFull"))
				r.Decide(bad == nil, R, "root-split-decision:"+name, p.InstrPos(in), "root.IsFull() evaluated on every success path", "the root is not tested with IsFull after it may have grown")
			}
			if m == "Set" || m == "Remove" {
				bad := successReturnAvoiding(top, in, onRoot("IsData"))
				r.Decide(bad == nil, R, "root-promote-decision:"+name, p.InstrPos(in), "single-child promotion test (root.IsData) evaluated on every success path", "the root index slab is not tested for a single remaining child after it may have shrunk")
			}
		})
	}
	// collision groups: after the group's element list changed, the spill decision (size vs per-element limit)
	// is evaluated on every first-level success path, whether the key was new or an existing one was updated
	for _, top := range p.TopFuncs() {
		if recvName(top) != "inlineCollisionGroup" || top.Name() != "Set" {
			continue
		}
		eachInstr(top, func(in ssa.Instruction) {
			bo, ok := in.(*ssa.BinOp)
			if !ok || globalLoadName(bo.Y) != "maxInlineMapElementSize" && globalLoadName(bo.X) != "maxInlineMapElementSize" {
				return
			}
			n++
			clean := true
			why := ""
			cd := controlDeps(top)
			seen := map[*ssa.BasicBlock]bool{}
			var rec func(b *ssa.BasicBlock)
			rec = func(b *ssa.BasicBlock) {
				if seen[b] {
					return
				}
				seen[b] = true
				for a := range cd[b] {
					ifi := a.Instrs[len(a.Instrs)-1].(*ssa.If)
					if _, _, isErr := errTestOf(ifi); !isErr {
						onlyLevel := true
						sliceContains(ifi.Cond, func(v ssa.Value) bool {
							switch x := v.(type) {
							case *ssa.Extract, *ssa.UnOp:
								_ = x
								if _, isConst := v.(*ssa.Const); !isConst {
									if ex, ok := v.(*ssa.Extract); ok && !isErrorType(ex.Type()) {
										// only results of the element update itself (an invoke of Set on the group's element
										// list) make the decision depend on whether a key was added; a level / digest obtained
										// from some helper does not
										if uc, isCall := ex.Tuple.(*ssa.Call); isCall && uc.Call.IsInvoke() && uc.Call.Method.Name() == "Set" {
											onlyLevel = false
										}
									}
								}
							}
							return false
						}, 0, map[ssa.Value]bool{})
						if !onlyLevel {
							clean, why = false, "the comparison with maxInlineMapElementSize is conditioned on a result of the element update at "+p.InstrPos(ifi)
						}
					}
					rec(a)
				}
			}
			rec(in.Block())
			r.Decide(clean, R, "spill-decision:"+p.Name(top), p.InstrPos(in), "the group's size is compared with the per-element limit regardless of whether a key was added or updated", "an inline collision group can outgrow the per-element limit without being moved to its own slab: "+why)
		})
	}
	r.Floor(R, "child/root mutation sites", 10, n)
}

// L7 co-update table.
type coRow struct {
	owner, field string
	kinds        map[string]bool // store kinds that trigger: "assign" (slice header / value), "elem" (element store)
	must         []string        // owner-relative field paths that must also be written
	why          string
}

var coTable = []coRow{
	{"ArrayDataSlab", "elements", map[string]bool{"assign": true, "elem": true}, []string{"header.size"}, "encoded size follows the element list"},
	{"ArrayDataSlab", "elements", map[string]bool{"assign": true}, []string{"header.count"}, "element count follows every change of the list's length"},
	{"ArrayMetaDataSlab", "childrenHeaders", map[string]bool{"assign": true}, []string{"childrenCountSum", "header.size"}, "cumulative counts and size follow the child header table"},
	{"MapMetaDataSlab", "childrenHeaders", map[string]bool{"assign": true}, []string{"header.size"}, "size follows the child header table"},
	{"hkeyElements", "elems", map[string]bool{"assign": true, "elem": true}, []string{"size"}, "cached size follows the element list"},
	{"hkeyElements", "hkeys", map[string]bool{"assign": true}, []string{"elems", "size"}, "digests and elements are parallel lists"},
	{"singleElements", "elems", map[string]bool{"assign": true, "elem": true}, []string{"size"}, "cached size follows the element list"},
	{"singleElement", "value", map[string]bool{"assign": true}, []string{"size"}, "cached size follows the value"},
	{"ArrayDataSlab", "inlined", map[string]bool{"assign": true}, []string{"header.size"}, "prefix size differs between inlined and standalone"},
	{"MapDataSlab", "inlined", map[string]bool{"assign": true}, []string{"header.size"}, "prefix size differs between inlined and standalone"},
	{"MapDataSlab", "elements", map[string]bool{"assign": true}, []string{"header.size"}, "encoded size follows the element list"},
}

// fieldPathOf: for an address rooted at object base (through nested FieldAddr), the dotted field path and base.
func fieldPathOf(addr ssa.Value) (base ssa.Value, path string, ownerName string) {
	var parts []string
	a := addr
	for depth := 0; depth < 6; depth++ {
		fa, ok := a.(*ssa.FieldAddr)
		if !ok {
			break
		}
		n, f := structFieldName(fa.X.Type(), fa.Field)
		parts = append([]string{f}, parts...)
		a = fa.X
		if n != nil && (slabStructs[n.Obj().Name()] || partStructs[n.Obj().Name()]) {
			return canon(a), strings.Join(parts, "."), n.Obj().Name()
		}
	}
	return nil, "", ""
}

func ruleL7(p *Prog, r *Report) {
	const R = "L7"
	nTrig := 0
	for _, top := range p.TopFuncs() {
		if isDiagnosticFile(p.Fset.Position(top.Pos()).Filename) || p.typestate().decode[top] {
			continue
		}
		tn := top.Name()
		if strings.HasPrefix(tn, "copy") || strings.HasPrefix(tn, "Copy") {
			continue // copies build a fresh object field by field
		}
		// writes per (base object, path)
		type wr struct {
			in   ssa.Instruction
			kind string
		}
		writes := map[string][]wr{} // key: baseptr|owner|path
		var order []string
		key := func(base ssa.Value, owner, path string) string { return fmt.Sprintf("%p|%s|%s", base, owner, path) }
		eachInstr(top, func(in ssa.Instruction) {
			st, ok := in.(*ssa.Store)
			if !ok {
				return
			}
			// element store into a slice held in a field
			if ia, ok := st.Addr.(*ssa.IndexAddr); ok {
				if u, ok := ia.X.(*ssa.UnOp); ok && u.Op == token.MUL {
					if base, path, owner := fieldPathOf(u.X); base != nil && !isFreshBase(base) {
						k := key(base, owner, path)
						if len(writes[k]) == 0 {
							order = append(order, k)
						}
						writes[k] = append(writes[k], wr{in, "elem"})
					}
				}
				return
			}
			if base, path, owner := fieldPathOf(st.Addr); base != nil && !isFreshBase(base) {
				k := key(base, owner, path)
				if len(writes[k]) == 0 {
					order = append(order, k)
				}
				writes[k] = append(writes[k], wr{in, "assign"})
			}
		})
		// callee summaries: a call that (transitively, within the same type) writes the required field counts
		calleeWrites := func(base ssa.Value, owner, path string) []ssa.Instruction {
			var out []ssa.Instruction
			eachInstr(top, func(in ssa.Instruction) {
				c, ok := in.(ssa.CallInstruction)
				if !ok {
					return
				}
				recv := callRecv(c)
				if recv == nil || canon(recv) != base {
					return
				}
				for _, g := range p.Callees(c) {
					if recvName(g) != owner {
						continue
					}
					for _, e := range p.FineEffects(g) {
						if e.Kind == "field" && (e.What == owner+"."+path || strings.HasSuffix(path, "."+strings.TrimPrefix(e.What, strings.Split(e.What, ".")[0]+".")) && strings.Contains(e.What, "Header.")) {
							out = append(out, in)
						}
					}
				}
			})
			return out
		}
		for _, k := range order {
			parts := strings.SplitN(k, "|", 3)
			owner, path := parts[1], parts[2]
			for _, row := range coTable {
				if row.owner != owner || row.field != path {
					continue
				}
				for _, w := range writes[k] {
					if !row.kinds[w.kind] {
						continue
					}
					nTrig++
					for _, must := range row.must {
						S := map[ssa.Instruction]bool{}
						for k2, ws := range writes {
							p2 := strings.SplitN(k2, "|", 3)
							if p2[0] == parts[0] && p2[1] == owner && (p2[2] == must || strings.HasPrefix(must, p2[2]+".")) {
								for _, x := range ws {
									S[x.in] = true
								}
							}
						}
						var base ssa.Value
						if st, ok := w.in.(*ssa.Store); ok {
							if ia, ok := st.Addr.(*ssa.IndexAddr); ok {
								base, _, _ = fieldPathOf(ia.X.(*ssa.UnOp).X)
							} else {
								base, _, _ = fieldPathOf(st.Addr)
							}
						}
						for _, ci := range calleeWrites(base, owner, must) {
							S[ci] = true
						}
						// a required write inside a loop: passing the loop's bound test counts (zero iterations = nothing to update)
						for x := range S {
							if h := loopHeadOf(x.Block()); h != nil {
								S[h.Instrs[len(h.Instrs)-1]] = true
							}
						}
						cons := fmt.Sprintf("co-update:%s:%s.%s=>%s", p.Name(top), owner, path, must)
						bad := openPath(top, w.in, S, nil)
						if bad == nil && inErrorHandler(top, w.in.Block()) {
							// a write made while handling a failure (a rollback): the object is handed back to the caller
							// with the error, so the pairing must hold on the error returns too
							var esc *ssa.Return
							reachFrom(top, w.in, nil, func(y ssa.Instruction) bool {
								if esc != nil || S[y] {
									return true
								}
								if ret, ok := y.(*ssa.Return); ok && y != w.in {
									esc = ret
									return true
								}
								return false
							})
							if esc != nil {
								r.Bad(R, cons, p.InstrPos(w.in), fmt.Sprintf("%s.%s is written while a failure is being handled (a rollback) but %s is not brought back with it before the error return at %s: the object the caller keeps using reports a size that no longer matches its content", owner, path, must, p.InstrPos(esc)))
								continue
							}
						}
						if bad == nil {
							r.Ok(R, cons, p.InstrPos(w.in), row.why+": every success path through this write also writes "+must)
							continue
						}
						// exported to the callers inside the same type? accept if every caller (same receiver type) writes it around the call
						if p.callersCoUpdate(top, owner, must) {
							r.Ok(R, cons, p.InstrPos(w.in), row.why+": "+must+" is written by every caller around the call (helper exports the obligation)")
							continue
						}
						r.Bad(R, cons, p.InstrPos(w.in), fmt.Sprintf("%s.%s is written but %s is not updated on the success path returning at %s: %s", owner, path, must, p.InstrPos(bad), row.why))
					}
				}
			}
		}
	}
	r.Floor(R, "co-update trigger sites", 30, nTrig)
}

// callersCoUpdate: every in-package caller of helper (a method of owner) writes field `must` of the same receiver
// on every success path through the call.
func (p *Prog) callersCoUpdate(helper *ssa.Function, owner, must string) bool {
	cs := p.CallersOf(helper)
	if len(cs) == 0 {
		return false
	}
	for _, c := range cs {
		caller := c.Caller
		if p.IsTestFile(caller.Pos()) {
			continue
		}
		in, _ := c.Instr.(ssa.Instruction)
		recv := callRecv(c.Instr)
		if recv == nil {
			return false
		}
		S := map[ssa.Instruction]bool{}
		eachInstr(caller, func(y ssa.Instruction) {
			st, ok := y.(*ssa.Store)
			if !ok {
				return
			}
			base, path, own := fieldPathOf(st.Addr)
			if base != nil && own == owner && path == must && sameValue(base, recv) {
				S[y] = true
			}
		})
		if openPath(caller, in, S, nil) != nil {
			return false
		}
	}
	return true
}

var _ = sort.Strings

// inErrorHandler: block b lies on the non-nil edge of a test of an error value.
func inErrorHandler(f *ssa.Function, b *ssa.BasicBlock) bool {
	for _, x := range f.Blocks {
		ifi, ok := x.Instrs[len(x.Instrs)-1].(*ssa.If)
		if !ok {
			continue
		}
		if _, nn, ok := errTestOf(ifi); ok && edgeDominates(x, nn, b) {
			return true
		}
	}
	return false
}
