package main

// X10 extra-data deduplication keys are complete.
//
// The inlined-extra-data section of a slab stores one entry per distinct extra data;
// an add* method that finds an equal entry returns the index of the existing one, and
// the decoder rebuilds every inlined child that refers to that index from the same
// entry. Two children may therefore share an entry only if every field the decoder
// restores from it is equal: the lookup key of a deduplicating add* method must be
// computed from every field of the extra-data struct it receives (type info, count,
// seed). Fields that the key need not contain are listed with the reason.

import (
	"fmt"
	"go/token"
	"go/types"
	"sort"
	"strings"

	"golang.org/x/tools/go/ssa"
)

// dedupKeyExempt: add-method -> field -> reason the key need not contain it.
var dedupKeyExempt = map[string]map[string]string{
	"addCompactMapExtraData": {
		"Count": "the key contains the sorted field names of the composite; its count is their number",
		"Seed":  "documented exception: same-typed inlined composite maps adopt the shared seed (C07)",
	},
}

// fieldsBehind collects the fields of *prm that v is computed from (backward over operands, calls'
// arguments, and the stores into local cells / struct literals that v loads from).
func fieldsBehind(v ssa.Value, prm *ssa.Parameter, out map[string]bool, seen map[ssa.Value]bool, depth int) {
	if v == nil || seen[v] || depth > 12 {
		return
	}
	seen[v] = true
	if fa, ok := v.(*ssa.FieldAddr); ok && canon(fa.X) == ssa.Value(prm) {
		_, nm := structFieldName(fa.X.Type(), fa.Field)
		out[nm] = true
		return
	}
	switch x := v.(type) {
	case *ssa.Alloc:
		// everything stored into the cell or into its fields
		var visit func(addr ssa.Value, d int)
		visit = func(addr ssa.Value, d int) {
			if addr.Referrers() == nil || d > 3 {
				return
			}
			for _, ref := range *addr.Referrers() {
				switch y := ref.(type) {
				case *ssa.Store:
					if y.Addr == addr {
						fieldsBehind(y.Val, prm, out, seen, depth+1)
					}
				case *ssa.FieldAddr:
					visit(y, d+1)
				case *ssa.IndexAddr:
					visit(y, d+1)
				}
			}
		}
		visit(x, 0)
		return
	case *ssa.Call:
		for _, a := range x.Call.Args {
			fieldsBehind(a, prm, out, seen, depth+1)
		}
		if !x.Call.IsInvoke() {
			if _, isFn := x.Call.Value.(*ssa.Function); !isFn {
				fieldsBehind(x.Call.Value, prm, out, seen, depth+1)
			}
		} else {
			fieldsBehind(x.Call.Value, prm, out, seen, depth+1)
		}
		return
	}
	if in, ok := v.(ssa.Instruction); ok {
		for _, op := range in.Operands(nil) {
			if *op != nil {
				fieldsBehind(*op, prm, out, seen, depth+1)
			}
		}
	}
}

func ruleX10(p *Prog, r *Report) {
	const R = "X10"
	n, nDedup := 0, 0
	for _, f := range p.TopFuncs() {
		if recvName(f) != "InlinedExtraData" || len(f.Params) < 2 || p.IsTestFile(f.Pos()) {
			continue
		}
		prm := f.Params[1]
		pt, ok := prm.Type().(*types.Pointer)
		if !ok {
			continue
		}
		st, ok := pt.Elem().Underlying().(*types.Struct)
		if !ok || !strings.HasSuffix(typeName(pt.Elem()), "ExtraData") {
			continue
		}
		n++
		cons := "dedup-key-complete:" + p.Name(f)
		// deduplicating lookups: comma-ok lookup in a map held by the receiver whose hit edge returns
		var keys []ssa.Value
		eachInstr(f, func(in ssa.Instruction) {
			lk, ok := in.(*ssa.Lookup)
			if !ok || !lk.CommaOk {
				return
			}
			fr, ok := asLoadedField(lk.X)
			if !ok || !sameValue(fr.Base, f.Params[0]) {
				return
			}
			for _, blk := range f.Blocks {
				ifi, ok := blk.Instrs[len(blk.Instrs)-1].(*ssa.If)
				if !ok {
					continue
				}
				c := ifi.Cond
				hit := 0
				if u, isNot := c.(*ssa.UnOp); isNot && u.Op == token.NOT {
					c, hit = u.X, 1
				}
				ex, ok := canon(c).(*ssa.Extract)
				if !ok || ex.Tuple != ssa.Value(lk) || ex.Index != 1 {
					continue
				}
				// a return that the hit edge dominates and that succeeds
				for _, ret := range returnsOf(f) {
					if cl, _ := classifyReturn(ret); cl == retSuccess && edgeDominates(blk, hit, ret.Block()) {
						keys = append(keys, lk.Index)
						return
					}
				}
				// single exit: from the hit edge a success return is reached without appending an entry (no append, no
				// call of a method of the receiver), while the miss edge appends
				reached := false
				first := blk.Succs[hit].Instrs[0]
				visit := func(z ssa.Instruction) bool {
					if reached {
						return true
					}
					if c, ok := z.(*ssa.Call); ok {
						if bi, ok := c.Call.Value.(*ssa.Builtin); ok && bi.Name() == "append" {
							return true
						}
						if g := c.Call.StaticCallee(); g != nil && len(c.Call.Args) > 0 && sameValue(c.Call.Args[0], f.Params[0]) {
							return true
						}
					}
					if ret, ok := z.(*ssa.Return); ok {
						if cl, _ := classifyReturn(ret); cl == retSuccess {
							reached = true
						}
						return true
					}
					return false
				}
				if !visit(first) {
					reachFrom(f, first, nil, visit)
				}
				if reached && blk.Succs[hit] != blk.Succs[1-hit] {
					keys = append(keys, lk.Index)
					return
				}
			}
		})
		if len(keys) == 0 {
			r.Ok(R, cons, p.Pos(f.Pos()), "not deduplicated: every call appends its own entry")
			continue
		}
		nDedup++
		used := map[string]bool{}
		for _, k := range keys {
			fieldsBehind(k, prm, used, map[ssa.Value]bool{}, 0)
		}
		var missing, exempt []string
		for i := 0; i < st.NumFields(); i++ {
			nm := st.Field(i).Name()
			if used[nm] {
				continue
			}
			if why, ok := dedupKeyExempt[f.Name()][nm]; ok {
				exempt = append(exempt, nm+" ("+why+")")
				continue
			}
			missing = append(missing, nm)
		}
		sort.Strings(missing)
		if len(missing) == 0 {
			d := "the deduplication key is computed from every field of the entry"
			if len(exempt) > 0 {
				d += "; not in the key: " + strings.Join(exempt, "; ")
			}
			r.Ok(R, cons, p.Pos(f.Pos()), d)
		} else {
			r.Bad(R, cons, p.Pos(f.Pos()), fmt.Sprintf("the deduplication key does not depend on field(s) %s of the extra data: two inlined children that differ only there share one entry, and after a reload each of them is rebuilt with the first one's %s", strings.Join(missing, ", "), strings.Join(missing, ", ")))
		}
	}
	r.Floor(R, "add-extra-data methods", 3, n)
	r.Floor(R, "deduplicating add-extra-data methods", 2, nDedup)
}
