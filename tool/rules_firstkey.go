package main

// L23 first-digest summary follows the element list (C05, C02).
//
// A map data slab caches the first digest of its element list in header.firstKey;
// the parent index slab copies it and routes lookups by it. The elements API says
// which operand of a list operation may afterwards have a different first element
// (or may have been empty before): that operand's slab must write header.firstKey
// on every success path after the operation.
//
//	Set, Remove, PopIterate   receiver (an element may be added in front / the first one removed / all removed)
//	Merge(right)              receiver (gains elements; it may have been empty)
//	LendToRight(right)        right    (gains elements in front); the receiver only loses its tail: exempt
//	BorrowFromRight(right)    right    (loses its front) and receiver (gains elements; it may have been empty)
//
// The slab an operand belongs to is identified by value flow: the operand is a load of O.elements.

import (
	"golang.org/x/tools/go/ssa"
)

var firstKeyAffects = map[string][2]bool{ // {receiver, argument}
	"Set":             {true, false},
	"Remove":          {true, false},
	"PopIterate":      {true, false},
	"Merge":           {true, false},
	"LendToRight":     {false, true},
	"BorrowFromRight": {true, true},
}

func ruleL23(p *Prog, r *Report) {
	const R = "L23"
	n := 0
	for _, f := range p.TopFuncs() {
		if p.IsTestFile(f.Pos()) || recvName(f) != "MapDataSlab" {
			continue
		}
		if p.typestate().decode[f] {
			continue
		}
		// owner slab of an elements value: load of O.elements
		ownerOf := func(v ssa.Value) ssa.Value {
			if fr, ok := asLoadedField(canon(v)); ok && fr.Field == "elements" && fr.Owner != nil && fr.Owner.Obj().Name() == "MapDataSlab" {
				return fr.Base
			}
			return nil
		}
		eachInstr(f, func(in ssa.Instruction) {
			c, ok := in.(ssa.CallInstruction)
			if !ok || !c.Common().IsInvoke() || typeName(c.Common().Value.Type()) != "elements" {
				return
			}
			aff, ok := firstKeyAffects[c.Common().Method.Name()]
			if !ok {
				return
			}
			var objs []ssa.Value
			var roles []string
			if aff[0] {
				if o := ownerOf(c.Common().Value); o != nil {
					objs = append(objs, o)
					roles = append(roles, "receiver")
				}
			}
			if aff[1] {
				for _, a := range c.Common().Args {
					if typeName(a.Type()) == "elements" {
						if o := ownerOf(a); o != nil {
							objs = append(objs, o)
							roles = append(roles, "argument")
						}
					}
				}
			}
			for i, o := range objs {
				n++
				isFK := func(z ssa.Instruction) bool {
					// a helper method of the same slab type that refreshes its receiver's first digest on every success path
					if cc, ok := z.(ssa.CallInstruction); ok {
						if g := staticCallee(cc); g != nil && g.Pkg == p.RootSSA && recvName(g) == "MapDataSlab" && len(g.Params) > 0 && len(g.Blocks) > 0 &&
							len(cc.Common().Args) > 0 && (sameValue(cc.Common().Args[0], o) || sameObj(cc.Common().Args[0], o)) {
							grecv := g.Params[0]
							inner := func(y ssa.Instruction) bool {
								st, ok := y.(*ssa.Store)
								if !ok {
									return false
								}
								fa, ok := st.Addr.(*ssa.FieldAddr)
								if !ok {
									return false
								}
								if _, fn := structFieldName(fa.X.Type(), fa.Field); fn != "firstKey" {
									return false
								}
								in2, ok := fa.X.(*ssa.FieldAddr)
								return ok && sameValue(in2.X, grecv)
							}
							if successReturnAvoiding(g, nil, inner) == nil {
								return true
							}
						}
						return false
					}
					st, ok := z.(*ssa.Store)
					if !ok {
						return false
					}
					fa, ok := st.Addr.(*ssa.FieldAddr)
					if !ok {
						return false
					}
					if _, fn := structFieldName(fa.X.Type(), fa.Field); fn != "firstKey" {
						return false
					}
					in2, ok := fa.X.(*ssa.FieldAddr)
					if !ok {
						return false
					}
					return sameValue(in2.X, o) || sameObj(in2.X, o)
				}
				bad := successReturnAvoiding(f, in, isFK)
				cons := "first-key-refresh:" + p.Name(f) + ":" + c.Common().Method.Name() + ":" + roles[i]
				r.Decide(bad == nil, R, cons, p.InstrPos(in),
					"the slab whose element list may have a different first element (or was empty) writes header.firstKey on every success path",
					"after elements."+c.Common().Method.Name()+" the "+roles[i]+"'s slab can return successfully without refreshing header.firstKey: the parent's routing table keeps a first digest the slab no longer has (or 0 of a slab that was empty)")
			}
		})
	}
	// index slabs: the right sibling of a lend / borrow gets a different first child
	for _, f := range p.TopFuncs() {
		if p.IsTestFile(f.Pos()) || recvName(f) != "MapMetaDataSlab" || (f.Name() != "LendToRight" && f.Name() != "BorrowFromRight") {
			continue
		}
		eachInstr(f, func(in ssa.Instruction) {
			st, ok := in.(*ssa.Store)
			if !ok {
				return
			}
			fr, ok := asFieldAddr(st.Addr)
			if !ok || fr.Field != "childrenHeaders" || len(f.Params) == 0 || sameValue(fr.Base, f.Params[0]) {
				return
			}
			o := fr.Base
			n++
			isFK := func(z ssa.Instruction) bool {
				s2, ok := z.(*ssa.Store)
				if !ok {
					return false
				}
				fa, ok := s2.Addr.(*ssa.FieldAddr)
				if !ok {
					return false
				}
				if _, fn := structFieldName(fa.X.Type(), fa.Field); fn != "firstKey" {
					return false
				}
				in2, ok := fa.X.(*ssa.FieldAddr)
				return ok && (sameValue(in2.X, o) || sameObj(in2.X, o))
			}
			r.Decide(successReturnAvoiding(f, in, isFK) == nil, R, "first-key-refresh:"+p.Name(f)+":right-sibling", p.InstrPos(in),
				"the right sibling, whose first child changes, writes header.firstKey on every success path",
				"the right sibling's child header table gets a different first entry but its header.firstKey is not refreshed on some success path")
		})
	}
	r.Floor(R, "element-list operations in map data slabs that can change a first digest", 6, n)
}
