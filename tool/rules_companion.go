package main

// S13 companions of the write set move with it.  S14 a scoped flag is cleared on every exit.
//
// S13: a field of the storage that some routine updates together with a change of the
// write set (a counter of owned pending changes kept beside the map, say) is a replica
// of information in the map. Every site that changes the map in the same way must update
// the replica too - a site that does not (one commit path that still deletes the entry
// directly) makes the replica drift from the map, and whatever is answered from the
// replica (pending-change counts, HasUnsavedChanges) is wrong after that path ran.
// The pairs are inferred from the code (field F is written in a function that performs a
// write of kind K on the write set) and then demanded of every site of kind K.
//
// S14: a boolean field that a routine both sets and clears (an in-progress guard) must
// be cleared on every exit that is reachable from the set - an early error return that
// leaves it set turns every later call away (a failed commit could never be retried).

import (
	"fmt"
	"go/types"
	"sort"

	"golang.org/x/tools/go/ssa"
)

func ruleS13(p *Prog, r *Report) {
	const R = "S13"
	type site struct {
		fn   *ssa.Function
		in   ssa.Instruction
		kind string
	}
	var sites []site
	writesOf := map[*ssa.Function]map[string]bool{} // other scalar fields assigned per function
	for _, top := range p.TopFuncs() {
		if p.IsTestFile(top.Pos()) {
			continue
		}
		eachInstrDeep(top, func(fn *ssa.Function, in ssa.Instruction) {
			fw, ok := fieldWriteOf(in)
			if !ok || fw.Ref.Owner == nil || fw.Ref.Owner.Obj().Name() != storageT || isFreshBase(fw.Ref.Base) {
				return
			}
			if fw.Ref.Field == "deltas" {
				sites = append(sites, site{top, in, fw.Kind})
				return
			}
			isCounter := false
			if b, ok := fieldType(fw.Ref).Underlying().(*types.Basic); ok && b.Info()&types.IsInteger != 0 {
				isCounter = true // numeric replicas (counts, byte totals); flags are S14's
			}
			if !storageLayerFields[fw.Ref.Field] && fw.Kind == "assign" && isCounter {
				if writesOf[top] == nil {
					writesOf[top] = map[string]bool{}
				}
				writesOf[top][fw.Ref.Field] = true
			}
		})
	}
	// inferred pairs
	pairs := map[string]map[string]bool{} // field -> kinds
	for _, s := range sites {
		for f := range writesOf[s.fn] {
			if pairs[f] == nil {
				pairs[f] = map[string]bool{}
			}
			pairs[f][s.kind] = true
		}
	}
	var fields []string
	for f := range pairs {
		fields = append(fields, f)
	}
	sort.Strings(fields)
	n := 0
	for _, f := range fields {
		for _, s := range sites {
			if !pairs[f][s.kind] {
				continue
			}
			n++
			cons := fmt.Sprintf("companion-updated:%s:%s:%s", f, s.kind, p.Name(s.fn))
			r.Decide(writesOf[s.fn][f], R, cons, p.InstrPos(s.in),
				"the companion field "+f+" is updated where the write set is changed",
				"the field "+f+" is updated together with a "+s.kind+" of the write set elsewhere, but not at this site: it drifts from the map, and what is answered from it (pending-change counts) is wrong after this path ran")
		}
	}
	r.Ok(R, "companions-inferred", "-", fmt.Sprintf("%d companion field(s) of the write set inferred %v; %d site(s) checked", len(fields), fields, n))
}

func ruleS14(p *Prog, r *Report) {
	const R = "S14"
	n := 0
	for _, top := range p.TopFuncs() {
		if p.IsTestFile(top.Pos()) || len(top.Params) == 0 || top.Signature.Recv() == nil {
			continue
		}
		type fl struct{ sets, clears []ssa.Instruction }
		flags := map[string]*fl{}
		deferredClears := map[string]bool{}
		eachInstrDeep(top, func(fn *ssa.Function, in ssa.Instruction) {
			st, ok := in.(*ssa.Store)
			if !ok {
				return
			}
			fr, ok := asFieldAddr(st.Addr)
			if !ok || fr.Owner == nil || isFreshBase(fr.Base) {
				return
			}
			if b, ok := fieldType(fr).Underlying().(*types.Basic); !ok || b.Kind() != types.Bool {
				return
			}
			c, ok := st.Val.(*ssa.Const)
			if !ok || c.Value == nil {
				return
			}
			key := fr.Owner.Obj().Name() + "." + fr.Field
			if flags[key] == nil {
				flags[key] = &fl{}
			}
			if c.Value.String() == "true" {
				if fn == top {
					flags[key].sets = append(flags[key].sets, in)
				}
			} else {
				flags[key].clears = append(flags[key].clears, in)
				if fn != top {
					// a clear inside a closure that the routine defers
					eachInstr(top, func(y ssa.Instruction) {
						if d, ok := y.(*ssa.Defer); ok && closureOf(d.Call.Value) == fn {
							deferredClears[key] = true
						}
					})
				}
			}
		})
		var keys []string
		for k, f := range flags {
			if len(f.sets) > 0 && len(f.clears) > 0 {
				keys = append(keys, k)
			}
		}
		sort.Strings(keys)
		for _, k := range keys {
			f := flags[k]
			n++
			cons := "scoped-flag-cleared:" + p.Name(top) + ":" + k
			if deferredClears[k] {
				r.Ok(R, cons, p.InstrPos(f.sets[0]), "cleared by a deferred call")
				continue
			}
			var bad ssa.Instruction
			for _, s := range f.sets {
				reachFrom(top, s, nil, func(y ssa.Instruction) bool {
					if bad != nil {
						return true
					}
					for _, c := range f.clears {
						if y == c {
							return true
						}
					}
					if _, ok := y.(*ssa.Return); ok {
						bad = y
						return true
					}
					return false
				})
			}
			if bad != nil {
				r.Bad(R, cons, p.InstrPos(bad), "the routine sets the flag "+k+" and clears it on some exits, but this return is reachable from the set without a clear: after that exit (an early error return) the flag stays set and every later call is turned away - a failed commit could never be retried")
			} else {
				r.Ok(R, cons, p.InstrPos(f.sets[0]), "every return reachable from the set passes a clear")
			}
		}
	}
	r.Ok(R, "scoped-flags-inferred", "-", fmt.Sprintf("%d scoped flag(s) found", n))
}
