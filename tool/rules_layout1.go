package main

// L1 encoder width = size constant (SSA-based abstract interpretation of the encoders).

import (
	"fmt"
	"go/token"
	"go/types"
	"sort"
	"strings"

	"golang.org/x/tools/go/ssa"
)

type encSite struct {
	width int64  // bytes written (fixed), -1 = variable
	kind  string // "uncond" | "cond" | "loop" | "child" | "excluded" | "splice" | "variable"
	cond  []string
	loop  string
	mode  string // "", "inlined", "standalone"
	pos   string
	what  string
}

type encShape struct {
	sites []encSite
	err   string
}

var encShapeCache = map[*ssa.Function]*encShape{}

func isEncoderPtr(t types.Type) bool {
	pt, ok := t.(*types.Pointer)
	if !ok {
		return false
	}
	n := rootNamed(pt.Elem())
	return n != nil && n.Obj().Name() == "Encoder"
}

// constReturn0: the function returns the same integer constant as result 0 on every success return.
func constReturn0(f *ssa.Function) (int64, bool) {
	val := int64(-1)
	for _, ret := range returnsOf(f) {
		if c, _ := classifyReturn(ret); c == retError {
			continue
		}
		k, ok := cInt(ret.Results[0])
		if !ok {
			return 0, false
		}
		if val >= 0 && val != k {
			return 0, false
		}
		val = k
	}
	return val, val >= 0
}

// byteLen: static length of a []byte expression.
func (p *Prog) byteLen(v ssa.Value) (int64, bool) {
	v = canon(v)
	sl, ok := v.(*ssa.Slice)
	if !ok {
		return 0, false
	}
	lo := int64(0)
	if sl.Low != nil {
		k, ok := cInt(sl.Low)
		if !ok {
			return 0, false
		}
		lo = k
	}
	if sl.High != nil {
		if k, ok := cInt(sl.High); ok {
			return k - lo, true
		}
		// n returned by a helper with a constant result (ToRawBytes)
		if ex, ok := canon(sl.High).(*ssa.Extract); ok && ex.Index == 0 {
			if c, ok := ex.Tuple.(*ssa.Call); ok && c.Call.StaticCallee() != nil {
				if k, ok := constReturn0(c.Call.StaticCallee()); ok {
					return k - lo, true
				}
			}
		}
		return 0, false
	}
	if arr, ok := derefArray(sl.X.Type()); ok {
		return arr.Len() - lo, true
	}
	return 0, false
}

func cborHead(n int64) int64 {
	switch {
	case n < 24:
		return 1
	case n < 256:
		return 2
	case n < 65536:
		return 3
	}
	return 5
}

// recvFieldsOf: receiver fields appearing in a condition.
func recvFieldsOf(f *ssa.Function, cond ssa.Value) []string {
	set := map[string]bool{}
	sliceContains(cond, func(v ssa.Value) bool {
		if fr, ok := asLoadedField(v); ok && len(f.Params) > 0 && sameValue(fr.Base, f.Params[0]) {
			set[fr.Field] = true
		}
		if c, ok := v.(*ssa.Call); ok {
			set[calleeName(c)+"()"] = true
		}
		return false
	}, 0, map[ssa.Value]bool{})
	var out []string
	for k := range set {
		out = append(out, k)
	}
	sort.Strings(out)
	return out
}

// encodeShape computes the write structure of an encoder function.
func (p *Prog) encodeShape(f *ssa.Function, depth int) *encShape {
	if s, ok := encShapeCache[f]; ok {
		return s
	}
	sh := &encShape{}
	encShapeCache[f] = sh
	if depth > 6 {
		sh.err = "recursion too deep"
		return sh
	}
	// mode regions: `if recv.inlined { ... }` splits the encoder into an inlined and a standalone form
	var modeIf *ssa.If
	modeTrueSucc := 0
	for _, b := range f.Blocks {
		if len(b.Instrs) == 0 {
			continue
		}
		ifi, ok := b.Instrs[len(b.Instrs)-1].(*ssa.If)
		if !ok {
			continue
		}
		c := ifi.Cond
		neg := false
		if u, ok := c.(*ssa.UnOp); ok && u.Op == token.NOT {
			c, neg = u.X, true
		}
		if fr, ok := asLoadedField(c); ok && fr.Field == "inlined" && len(f.Params) > 0 && sameValue(fr.Base, f.Params[0]) {
			// only a top-level split (the other branch returns)
			modeIf = ifi
			modeTrueSucc = 0
			if neg {
				modeTrueSucc = 1
			}
		}
	}
	modeOf := func(b *ssa.BasicBlock) string {
		if modeIf == nil {
			return ""
		}
		if edgeDominates(modeIf.Block(), modeTrueSucc, b) {
			return "inlined"
		}
		if edgeDominates(modeIf.Block(), 1-modeTrueSucc, b) {
			return "standalone"
		}
		return ""
	}
	var successBlocks []*ssa.BasicBlock
	for _, ret := range returnsOf(f) {
		if ret.Block() == f.Recover {
			continue // the deferred-recover exit is not a path through the encoder body
		}
		if c, _ := classifyReturn(ret); c != retError {
			successBlocks = append(successBlocks, ret.Block())
		}
	}
	classify := func(in ssa.Instruction) (kind string, cond []string, loop string, mode string) {
		b := in.Block()
		mode = modeOf(b)
		if h := loopHeadOf(b); h != nil {
			loop = "?"
			if ifi, ok := h.Instrs[len(h.Instrs)-1].(*ssa.If); ok {
				var keep []string
				for _, x := range recvFieldsOf(f, ifi.Cond) {
					if !strings.HasSuffix(x, "()") {
						keep = append(keep, x)
					}
				}
				if len(keep) > 0 {
					loop = strings.Join(keep, ",")
				}
			}
			return "loop", nil, loop, mode
		}
		// unconditional: every success return of this mode is dominated by the block
		uncond := true
		for _, sb := range successBlocks {
			if m := modeOf(sb); mode != "" && m != "" && m != mode {
				continue
			}
			if !b.Dominates(sb) {
				uncond = false
			}
		}
		if uncond {
			return "uncond", nil, "", mode
		}
		// conditional: the non-error branch conditions whose one edge dominates the block
		for d := b.Idom(); d != nil; d = d.Idom() {
			ifi, ok := d.Instrs[len(d.Instrs)-1].(*ssa.If)
			if !ok || ifi == modeIf {
				continue
			}
			if _, _, isErr := errTestOf(ifi); isErr {
				continue
			}
			if edgeDominates(d, 0, b) || edgeDominates(d, 1, b) {
				for _, x := range recvFieldsOf(f, ifi.Cond) {
					if !strings.HasSuffix(x, "()") {
						cond = append(cond, x)
					}
				}
			}
		}
		sort.Strings(cond)
		return "cond", uniq(cond), "", mode
	}
	add := func(in ssa.Instruction, width int64, what string, forceKind string) {
		kind, cond, loop, mode := classify(in)
		if forceKind != "" && kind != "loop" {
			if forceKind == "child" || forceKind == "excluded" || forceKind == "splice" || forceKind == "variable" {
				sh.sites = append(sh.sites, encSite{width, forceKind, cond, loop, mode, p.InstrPos(in), what})
				return
			}
		}
		if forceKind != "" && kind == "loop" {
			sh.sites = append(sh.sites, encSite{width, "loop-" + forceKind, cond, loop, mode, p.InstrPos(in), what})
			return
		}
		sh.sites = append(sh.sites, encSite{width, kind, cond, loop, mode, p.InstrPos(in), what})
	}
	eachInstr(f, func(in ssa.Instruction) {
		call, ok := in.(ssa.CallInstruction)
		if !ok {
			return
		}
		if _, isDefer := in.(*ssa.Defer); isDefer {
			return
		}
		cc := call.Common()
		// io.Writer.Write through the embedded writer of an Encoder
		if cc.IsInvoke() && cc.Method.Name() == "Write" && len(cc.Args) == 1 {
			if fr, ok := asLoadedField(cc.Value); ok && fr.Owner != nil && fr.Owner.Obj().Name() == "Encoder" {
				if n, ok := p.byteLen(cc.Args[0]); ok {
					add(in, n, "Write", "")
				} else {
					add(in, -1, "Write of unknown length", "variable")
				}
				return
			}
		}
		g := cc.StaticCallee()
		if g != nil && strings.Contains(g.String(), "cbor/v2.StreamEncoder)") {
			switch g.Name() {
			case "EncodeRawBytes":
				if c, ok := canon(cc.Args[1]).(*ssa.Call); ok && c.Call.StaticCallee() != nil && c.Call.StaticCallee().String() == "(*bytes.Buffer).Bytes" {
					add(in, 0, "splice of the element buffer", "splice")
					return
				}
				if n, ok := p.byteLen(cc.Args[1]); ok {
					add(in, n, "EncodeRawBytes", "")
				} else {
					add(in, -1, "EncodeRawBytes of unknown length", "variable")
				}
			case "EncodeBytes":
				if n, ok := p.byteLen(cc.Args[1]); ok {
					add(in, n+cborHead(n), "EncodeBytes", "")
				} else {
					add(in, -1, "EncodeBytes of unknown length", "variable")
				}
			case "Flush":
			default:
				if strings.HasPrefix(g.Name(), "Encode") {
					add(in, -1, g.Name()+" (variable width)", "variable")
				}
			}
			return
		}
		// calls that receive an encoder
		hasEnc := false
		args := cc.Args
		for _, a := range args {
			if isEncoderPtr(a.Type()) {
				hasEnc = true
			}
		}
		if !hasEnc {
			// a private helper of the same type that creates the (element) encoder itself and hands it back
			makesEnc := false
			if g != nil && g.Pkg == p.RootSSA && recvNamed(g) != nil && recvNamed(g) == recvNamed(f) && g.Object() != nil && !g.Object().Exported() {
				res := g.Signature.Results()
				for i := 0; i < res.Len(); i++ {
					if isEncoderPtr(res.At(i).Type()) {
						makesEnc = true
					}
				}
			}
			if !makesEnc {
				return
			}
		}
		if cc.IsInvoke() {
			add(in, -1, typeName(cc.Value.Type())+"."+cc.Method.Name(), "child")
			return
		}
		if g == nil {
			add(in, -1, "dynamic encoder call", "child")
			return
		}
		if g.Pkg != p.RootSSA {
			return
		}
		rn := recvName(g)
		if strings.Contains(rn, "ExtraData") || strings.Contains(g.Name(), "TypeInfo") || strings.Contains(g.Name(), "ExtraData") {
			add(in, -1, p.Name(g)+" (extra-data section, not part of the reported size)", "excluded")
			return
		}
		if g.Name() == "NewEncoder" {
			return
		}
		if g.Name() == "Encode" && recvNamed(g) != recvNamed(f) {
			add(in, -1, p.Name(g)+" (accounts for its own size)", "child")
			return
		}
		// splice in the callee's structure
		sub := p.encodeShape(g, depth+1)
		kind, cond, loop, mode := classify(in)
		for _, s := range sub.sites {
			ns := s
			ns.what = p.Name(g) + ": " + s.what
			if kind == "loop" {
				ns.kind, ns.loop = "loop", loop
			} else if kind == "cond" && (s.kind == "uncond") {
				ns.kind, ns.cond = "cond", cond
			}
			if mode != "" {
				ns.mode = mode
			}
			sh.sites = append(sh.sites, ns)
		}
	})
	return sh
}

// summarise: fixed width, optional groups, per-loop widths for a mode.
func summariseShape(sh *encShape, mode string) (fixed int64, opt map[string]int64, loops map[string]int64, notes []string) {
	opt, loops = map[string]int64{}, map[string]int64{}
	for _, s := range sh.sites {
		if s.mode != "" && mode != "" && s.mode != mode {
			continue
		}
		switch s.kind {
		case "uncond":
			fixed += s.width
		case "cond":
			opt[strings.Join(s.cond, "&")] += s.width
		case "loop":
			if s.width >= 0 {
				loops[s.loop] += s.width
			}
		case "variable":
			notes = append(notes, "variable-width write at "+s.pos+": "+s.what)
		}
	}
	return
}

func ruleL1(p *Prog, r *Report) {
	const R = "L1"
	K := func(n string) int64 {
		v, ok := p.constVal(n)
		if !ok {
			r.Unk(R, "anchor:"+n, "-", "size constant not found")
			return -1
		}
		return v
	}
	type exp struct {
		typ, method, mode string
		fixed             []string          // constants whose sum is the unconditional width
		opt               map[string]string // cond field -> constant name of the optional group width
		total             string            // constant equal to fixed + all optional groups (non-root form)
		loops             map[string]string // loop field -> per-iteration constant
	}
	table := []exp{
		{"ArrayDataSlab", "Encode", "standalone", []string{"arrayRootDataSlabPrefixSize"}, map[string]string{"next": "SlabIDLength"}, "arrayDataSlabPrefixSize", nil},
		{"ArrayDataSlab", "Encode", "inlined", []string{"inlinedArrayDataSlabPrefixSize"}, nil, "", nil},
		{"MapDataSlab", "Encode", "standalone", []string{"mapRootDataSlabPrefixSize"}, map[string]string{"next": "SlabIDLength"}, "mapDataSlabPrefixSize", nil},
		{"MapDataSlab", "encodeAsInlinedMap", "", []string{"inlinedMapDataSlabPrefixSize"}, nil, "", nil},
		{"ArrayMetaDataSlab", "Encode", "", []string{"arrayMetaDataSlabPrefixSize"}, nil, "", map[string]string{"childrenHeaders": "arraySlabHeaderSize"}},
		{"MapMetaDataSlab", "Encode", "", []string{"mapMetaDataSlabPrefixSize"}, nil, "", map[string]string{"childrenHeaders": "mapSlabHeaderSize"}},
		{"hkeyElements", "Encode", "", []string{"hkeyElementsPrefixSize"}, nil, "", map[string]string{"hkeys": "digestSize"}},
		{"singleElements", "Encode", "", []string{"singleElementsPrefixSize"}, nil, "", nil},
		{"singleElement", "Encode", "", []string{"singleElementPrefixSize"}, nil, "", nil},
		{"inlineCollisionGroup", "Encode", "", []string{"inlineCollisionGroupPrefixSize"}, nil, "", nil},
		{"StorableSlab", "Encode", "", []string{"versionAndFlagSize"}, nil, "", nil},
	}
	n := 0
	for _, e := range table {
		f := p.Method(e.typ, e.method)
		if f == nil && e.method != "Encode" {
			// the same encoder written as a package function, or under another name: the one non-compact
			// encoder that the type's inlined entry point hands its *Encoder to
			f = p.PkgFunc(e.method)
			if entry := p.Method(e.typ, "encodeAsInlined"); f == nil && entry != nil {
				var cands []*ssa.Function
				for _, g := range p.calleesDeep(entry) {
					if g.Pkg != p.RootSSA || g == p.PkgFunc("encodeAsInlinedCompactMap") || !lastResultIsError(g) {
						continue
					}
					takesEnc := false
					for _, q := range g.Params {
						if typeName(q.Type()) == "Encoder" && g.Signature.Recv() == nil || (g.Signature.Recv() != nil && q != g.Params[0] && typeName(q.Type()) == "Encoder") {
							takesEnc = true
						}
					}
					if takesEnc && (g.Signature.Recv() == nil || recvName(g) == e.typ) {
						cands = append(cands, g)
					}
				}
				if len(cands) == 1 {
					f = cands[0]
				}
			}
		}
		cons := "encoder-width:" + e.typ + "." + e.method
		if e.mode != "" {
			cons += ":" + e.mode
		}
		if f == nil {
			r.Unk(R, cons, "-", "encoder not found")
			continue
		}
		n++
		sh := p.encodeShape(f, 0)
		fixed, opt, loops, notes := summariseShape(sh, e.mode)
		want := int64(0)
		for _, c := range e.fixed {
			want += K(c)
		}
		var problems []string
		if fixed != want {
			problems = append(problems, fmt.Sprintf("unconditional bytes written = %d but %s = %d", fixed, strings.Join(e.fixed, "+"), want))
		}
		// optional groups
		for cond, cname := range e.opt {
			if opt[cond] != K(cname) {
				problems = append(problems, fmt.Sprintf("optional group on %q writes %d bytes but %s = %d", cond, opt[cond], cname, K(cname)))
			}
		}
		for cond, w := range opt {
			if _, ok := e.opt[cond]; !ok && w != 0 {
				problems = append(problems, fmt.Sprintf("unexpected optional group on %q (%d bytes): only documented savings may be conditional", cond, w))
			}
		}
		if e.total != "" {
			sum := fixed
			for _, w := range opt {
				sum += w
			}
			if sum != K(e.total) {
				problems = append(problems, fmt.Sprintf("fixed + optional = %d but %s = %d", sum, e.total, K(e.total)))
			}
		}
		for lf, cname := range e.loops {
			if loops[lf] != K(cname) {
				problems = append(problems, fmt.Sprintf("per-entry bytes in the loop over %s = %d but %s = %d", lf, loops[lf], cname, K(cname)))
			}
		}
		for lf, w := range loops {
			if _, ok := e.loops[lf]; !ok && w != 0 {
				problems = append(problems, fmt.Sprintf("fixed per-iteration bytes (%d) in the loop over %s are not accounted by any constant", w, lf))
			}
		}
		problems = append(problems, notes...)
		if len(problems) == 0 {
			desc := fmt.Sprintf("fixed %d", fixed)
			for c, w := range opt {
				desc += fmt.Sprintf(", optional[%s] %d", c, w)
			}
			for l, w := range loops {
				desc += fmt.Sprintf(", per-%s %d", l, w)
			}
			r.Ok(R, cons, p.Pos(f.Pos()), "bytes written match the size constants: "+desc)
		} else {
			r.Bad(R, cons, p.Pos(f.Pos()), "encoder and size constant disagree: "+strings.Join(problems, "; "))
		}
	}
	// SlabIDStorable: Encode width == ByteSize constant
	if enc, bs := p.Method("SlabIDStorable", "Encode"), p.Method("SlabIDStorable", "ByteSize"); enc != nil && bs != nil {
		n++
		fixed, _, _, notes := summariseShape(p.encodeShape(enc, 0), "")
		var size int64 = -1
		for _, ret := range returnsOf(bs) {
			if k, ok := cInt(ret.Results[0]); ok {
				size = k
			}
		}
		r.Decide(fixed == size && len(notes) == 0, R, "encoder-width:SlabIDStorable.Encode", p.Pos(enc.Pos()), fmt.Sprintf("writes %d bytes = ByteSize()", fixed), fmt.Sprintf("SlabIDStorable.Encode writes %d bytes but ByteSize() reports %d", fixed, size))
		// external collision group: tag + slab id storable
		if eg := p.Method("externalCollisionGroup", "Encode"); eg != nil {
			n++
			f2, _, _, _ := summariseShape(p.encodeShape(eg, 0), "")
			want := K("externalCollisionGroupPrefixSize")
			r.Decide(f2 == want, R, "encoder-width:externalCollisionGroup.Encode", p.Pos(eg.Pos()), fmt.Sprintf("writes %d fixed bytes = externalCollisionGroupPrefixSize (the slab id storable accounts for itself)", f2), fmt.Sprintf("externalCollisionGroup.Encode writes %d fixed bytes, expected %d", f2, want))
		}
	}
	// compact form of same-typed inlined maps: same inlined prefix; everything else it writes per element is values only,
	// and its fixed bytes do not exceed what the plain form writes (prefix + element-list prefix): bytes can only get fewer
	if cf := p.PkgFunc("encodeAsInlinedCompactMap"); cf != nil {
		n++
		fixed, opt, loops, notes := summariseShape(p.encodeShape(cf, 0), "")
		lim := K("inlinedMapDataSlabPrefixSize") + K("hkeyElementsPrefixSize")
		extra := int64(0)
		for _, w := range opt {
			extra += w
		}
		for _, w := range loops {
			extra += w
		}
		// the only variable-width write allowed is the CBOR array head of the values (1..9 bytes): for n = 0 it is 1 byte
		// (plain form: 8-byte element-list prefix), for n >= 1 at most 9 bytes (plain form: 8 + 9n bytes of prefix, digests, element heads)
		var other []string
		heads := 0
		for _, nt := range notes {
			if strings.Contains(nt, "EncodeArrayHead") {
				heads++
			} else {
				other = append(other, nt)
			}
		}
		notes = other
		good := fixed >= K("inlinedMapDataSlabPrefixSize") && fixed <= lim && extra == 0 && len(notes) == 0 && heads <= 1
		r.Decide(good, R, "encoder-width:encodeAsInlinedCompactMap", p.Pos(cf.Pos()), fmt.Sprintf("compact form writes %d fixed bytes (plain form: %d + element-list prefix %d) and no fixed per-element bytes: it can only be shorter than the reported size", fixed, K("inlinedMapDataSlabPrefixSize"), K("hkeyElementsPrefixSize")),
			fmt.Sprintf("compact inlined-map form writes %d fixed bytes, %d conditional/per-element fixed bytes (limit %d): it could exceed the reported size; %v", fixed, extra, lim, notes))
	}
	// the pooled element buffer is spliced exactly once per two-pass encoder
	for _, tn := range []string{"ArrayDataSlab", "MapDataSlab"} {
		if f := p.Method(tn, "Encode"); f != nil {
			k := 0
			for _, s := range p.encodeShape(f, 0).sites {
				if s.kind == "splice" {
					k++
				}
			}
			r.Decide(k == 1, R, "element-buffer-spliced-once:"+tn, p.Pos(f.Pos()), "the separately encoded elements are emitted exactly once", fmt.Sprintf("the element buffer is emitted %d times", k))
		}
	}
	r.Floor(R, "encoder/constant pairs", 12, n)
}
