package main

// F. Decoder safety (P1..P8).

import (
	"fmt"
	"go/constant"
	"go/token"
	"go/types"
	"sort"
	"strings"

	"golang.org/x/tools/go/ssa"
)

// decodeScope: functions reachable from the decode entry points, the raw-header queries and
// the size / child-reference accessors of decoded slabs.
func (p *Prog) decodeScope() (map[*ssa.Function]bool, []string) {
	var roots []*ssa.Function
	var names []string
	for _, n := range []string{"DecodeSlab", "IsRootOfAnObject", "HasPointers", "HasSizeLimit", "DecodeInlinedArrayStorable", "DecodeInlinedMapStorable",
		"DecodeInlinedCompactMapStorable", "DecodeSlabIDStorable", "NewSlabIDFromRawBytes"} {
		if f := p.PkgFunc(n); f != nil {
			roots = append(roots, f)
			names = append(names, n)
		}
	}
	for _, nt := range p.rootNamedTypes() {
		nm := nt.Obj().Name()
		if !(slabStructs[nm] || partStructs[nm] || nm == "SlabIDStorable") {
			continue
		}
		for _, m := range []string{"ByteSize", "ChildStorables", "Size", "Count"} {
			if f := p.Method(nm, m); f != nil && recvNamed(f) == nt {
				roots = append(roots, f)
				names = append(names, nm+"."+m)
			}
		}
	}
	scope := map[*ssa.Function]bool{}
	for _, r := range roots {
		for g := range p.ReachFine(r) {
			if g.Pkg == p.RootSSA || TopLevel(g).Pkg == p.RootSSA {
				if !p.IsTestFile(g.Pos()) {
					scope[g] = true
				}
			}
		}
	}
	// closures built by functions in scope and handed on as func values (e.g. the reference-resolving type-info
	// decoder) run during decoding too, wherever they are eventually called
	for changed := true; changed; {
		changed = false
		for f := range scope {
			for _, an := range f.AnonFuncs {
				if scope[an] || p.IsTestFile(an.Pos()) {
					continue
				}
				for g := range p.ReachFine(an) {
					if (g.Pkg == p.RootSSA || TopLevel(g).Pkg == p.RootSSA) && !p.IsTestFile(g.Pos()) && !scope[g] {
						scope[g] = true
						changed = true
					}
				}
				if !scope[an] {
					scope[an] = true
					changed = true
				}
			}
		}
	}
	return scope, names
}

func isErrorCtorFunc(f *ssa.Function) bool {
	n := f.Name()
	return (strings.HasPrefix(n, "New") || strings.HasPrefix(n, "new")) && strings.Contains(n, "Error") || strings.HasPrefix(n, "wrapError") || n == "Error"
}

// P2 no explicit panic, no unchecked type assertion in decode scope.
func ruleP2(p *Prog, r *Report) {
	const R = "P2"
	scope, roots := p.decodeScope()
	n := 0
	for _, f := range sortedFuncs(p, scope) {
		if isErrorCtorFunc(TopLevel(f)) || recvNamed(f) != nil && strings.HasSuffix(recvNamed(f).Obj().Name(), "Error") {
			continue
		}
		eachInstr(f, func(in ssa.Instruction) {
			switch x := in.(type) {
			case *ssa.Panic:
				n++
				cons := "panic:" + p.Name(f)
				// allowed only after an exhaustive family switch (X1): the panic is the unreachable tail
				if why, ok := p.unreachableTailPanic(f, x); ok {
					r.Ok(R, cons, p.InstrPos(in), why)
				} else {
					r.Bad(R, cons, p.InstrPos(in), "explicit panic reachable from decoding / accessors of decoded slabs: hostile bytes could crash the process")
				}
			case *ssa.TypeAssert:
				if x.CommaOk {
					return
				}
				n++
				cons := "type-assert:" + p.Name(f)
				if why, ok := p.assertProven(f, x); ok {
					r.Ok(R, cons, p.InstrPos(in), why)
				} else {
					r.Bad(R, cons, p.InstrPos(in), fmt.Sprintf("single-result type assertion to %s on decoded content: a register of another kind would panic", typeStr(x.AssertedType)))
				}
			}
		})
	}
	r.Observe(fmt.Sprintf("decode scope: %d functions from %d roots", len(scope), len(roots)))
	r.Floor(R, "functions in decode scope", 60, len(scope))
	_ = n
}

// unreachableTailPanic: the panic follows a type switch that covers every member of a closed family.
func (p *Prog) unreachableTailPanic(f *ssa.Function, pn *ssa.Panic) (string, bool) {
	// all predecessors chains end in failed comma-ok type assertions that together cover a family
	fams := p.families()
	// collect the asserted types on the false-edge chain leading to the panic block
	covered := map[string]bool{}
	var subject ssa.Value
	b := pn.Block()
	for depth := 0; depth < 12 && b != nil; depth++ {
		if len(b.Preds) != 1 {
			break
		}
		pred := b.Preds[0]
		ifi, ok := pred.Instrs[len(pred.Instrs)-1].(*ssa.If)
		if !ok || pred.Succs[1] != b {
			break
		}
		ex, ok := ifi.Cond.(*ssa.Extract)
		if !ok {
			break
		}
		ta, ok := ex.Tuple.(*ssa.TypeAssert)
		if !ok || !ta.CommaOk {
			break
		}
		covered[typeStr(ta.AssertedType)] = true
		subject = ta.X
		b = pred
	}
	if subject == nil {
		return "", false
	}
	for _, fam := range fams {
		if !types.Identical(subject.Type().Underlying(), fam.iface) && typeName(subject.Type()) != fam.name {
			continue
		}
		all := true
		for _, m := range fam.members {
			ok := covered[typeStr(m)]
			if !ok {
				// covered through a sub-interface case
				for _, g := range fams {
					if covered[g.name] && types.Implements(m, g.iface) {
						ok = true
					}
				}
			}
			if !ok {
				all = false
			}
		}
		if all {
			return "unreachable tail after a type switch covering all " + fmt.Sprint(len(fam.members)) + " members of family " + fam.name, true
		}
	}
	return "", false
}

// assertProven: the single-result assertion is dominated by a successful comma-ok assertion / type
// switch case of the same value to the same type, or asserts to an interface the static type embeds.
func (p *Prog) assertProven(f *ssa.Function, ta *ssa.TypeAssert) (string, bool) {
	for _, b := range f.Blocks {
		ifi, ok := b.Instrs[len(b.Instrs)-1].(*ssa.If)
		if !ok {
			continue
		}
		ex, ok := ifi.Cond.(*ssa.Extract)
		if !ok {
			continue
		}
		t2, ok := ex.Tuple.(*ssa.TypeAssert)
		if !ok || !t2.CommaOk || !sameValue(t2.X, ta.X) || !types.Identical(t2.AssertedType, ta.AssertedType) {
			continue
		}
		if edgeDominates(b, 0, ta.Block()) {
			return "dominated by the ok edge of a checked assertion to the same type", true
		}
	}
	// value produced by an in-package constructor whose every return has that dynamic type
	if c, ok := canon(ta.X).(*ssa.Call); ok {
		if g := c.Call.StaticCallee(); g != nil && g.Pkg == p.RootSSA {
			all := true
			for _, ret := range returnsOf(g) {
				v := canon(ret.Results[0])
				if mi, ok := v.(*ssa.MakeInterface); ok {
					if !types.Identical(mi.X.Type(), ta.AssertedType) {
						all = false
					}
				} else {
					all = false
				}
			}
			if all {
				return "operand is the result of " + g.Name() + " which always returns that dynamic type", true
			}
		}
	}
	if ex, ok := canon(ta.X).(*ssa.Extract); ok {
		if c, ok := ex.Tuple.(*ssa.Call); ok {
			if b, ok := c.Call.Value.(*ssa.Builtin); ok {
				_ = b
			}
			// sync.Pool.Get().(*T): pool of a single type
			if g := c.Call.StaticCallee(); g != nil && g.String() == "(*sync.Pool).Get" {
				return "value from a single-type sync.Pool", true
			}
		}
	}
	if c, ok := canon(ta.X).(*ssa.Call); ok {
		if g := c.Call.StaticCallee(); g != nil && g.String() == "(*sync.Pool).Get" {
			return "value from a single-type sync.Pool", true
		}
	}
	return "", false
}

// P5 bounded make, P6 structured loops, P7 safe additions on decoded sizes.
func ruleP5(p *Prog, r *Report) {
	const R = "P5"
	scope, _ := p.decodeScope()
	n := 0
	for _, f := range sortedFuncs(p, scope) {
		eachInstr(f, func(in ssa.Instruction) {
			var size ssa.Value
			switch x := in.(type) {
			case *ssa.MakeSlice:
				size = x.Cap
			case *ssa.MakeMap:
				size = x.Reserve
			default:
				return
			}
			if size == nil {
				return
			}
			n++
			cons := "make:" + p.Name(f)
			ok, why := p.boundedSize(f, size, 0)
			r.Decide(ok, R, cons, p.InstrPos(in), "allocation size is "+why, "allocation size in decode scope is not bounded by the input length: "+why)
		})
	}
	r.Floor(R, "make sites in decode scope", 10, n)
}

// boundedSize: the allocation size is a constant, a length, a value compared against len(data) on a
// dominating edge, a count delivered by the CBOR stream decoder (A-CBOR), a 16-bit field, or arithmetic thereof.
func (p *Prog) boundedSize(f *ssa.Function, v ssa.Value, depth int) (bool, string) {
	if depth > 8 {
		return false, "too deep"
	}
	c := canon(v)
	switch x := c.(type) {
	case *ssa.Const:
		return true, "a constant"
	case *ssa.Call:
		if b, ok := x.Call.Value.(*ssa.Builtin); ok && (b.Name() == "len" || b.Name() == "cap" || b.Name() == "min") {
			return true, "a length"
		}
		if x.Call.IsInvoke() {
			// in-package interface: every implementation returns a bounded value
			impls := p.Callees(x)
			all := len(impls) > 0
			for _, g := range impls {
				if g.Pkg != p.RootSSA || len(g.Blocks) == 0 {
					all = false
					continue
				}
				for _, ret := range returnsOf(g) {
					if len(ret.Results) == 0 {
						all = false
						continue
					}
					if ok, _ := p.boundedSize(g, ret.Results[0], depth+1); !ok {
						all = false
					}
				}
			}
			if all {
				return true, "bounded result of every implementation of " + x.Call.Method.Name()
			}
		}
		if g := x.Call.StaticCallee(); g != nil {
			s := g.String()
			if strings.Contains(s, "encoding/binary") && (strings.HasSuffix(s, "Uint16")) {
				return true, "a 16-bit field"
			}
			if g.Pkg == p.RootSSA {
				// in-package helper: all returns bounded
				all := true
				for _, ret := range returnsOf(g) {
					if len(ret.Results) == 0 {
						all = false
						continue
					}
					if ok, _ := p.boundedSize(g, ret.Results[0], depth+1); !ok {
						all = false
					}
				}
				if all {
					return true, "bounded result of " + g.Name()
				}
			}
		}
	case *ssa.Extract:
		if call, ok := x.Tuple.(*ssa.Call); ok {
			if g := call.Call.StaticCallee(); g != nil && strings.Contains(g.String(), "cbor") && strings.Contains(g.Name(), "Decode") {
				return true, "a count returned by the CBOR stream decoder (A-CBOR: bounded by input length and MaxArrayElements)"
			}
			if call.Call.IsInvoke() && strings.HasPrefix(call.Call.Method.Name(), "Decode") {
				return true, "a count returned by the CBOR stream decoder (A-CBOR)"
			}
		}
	case *ssa.Convert:
		return p.boundedSize(f, x.X, depth+1)
	case *ssa.ChangeType:
		return p.boundedSize(f, x.X, depth+1)
	case *ssa.BinOp:
		switch x.Op {
		case token.ADD, token.SUB, token.MUL, token.QUO, token.SHR, token.AND, token.REM:
			a, wa := p.boundedSize(f, x.X, depth+1)
			b, wb := p.boundedSize(f, x.Y, depth+1)
			if a && b {
				return true, "arithmetic over (" + wa + ", " + wb + ")"
			}
			if x.Op == token.QUO || x.Op == token.SHR || x.Op == token.REM || x.Op == token.AND {
				if a {
					return true, wa + " reduced"
				}
			}
		}
	case *ssa.Phi:
		all := true
		for _, e := range x.Edges {
			if ok, _ := p.boundedSize(f, e, depth+1); !ok {
				all = false
			}
		}
		if all {
			return true, "bounded on every incoming edge"
		}
	case *ssa.UnOp:
		if x.Op == token.MUL {
			if fr, ok := asLoadedField(x); ok {
				// only narrow fields are bounded by their type; a 32/64-bit field of a decoded object (an element
				// count, a map's Count) holds whatever the register said
				if b, isB := x.Type().Underlying().(*types.Basic); isB && (b.Kind() == types.Uint8 || b.Kind() == types.Uint16 || b.Kind() == types.Int8 || b.Kind() == types.Int16 || b.Kind() == types.Bool) {
					return true, "a narrow field of an already decoded object (" + fr.Field + ")"
				}
				return false, "a field of a decoded object (" + fr.Field + ") whose value comes from the register and is not bounded by its type"
			}
		}
	case *ssa.Parameter:
		// bounded if every in-package caller passes a bounded value
		cs := p.CallersOf(f)
		if len(cs) > 0 && f.Object() != nil && !f.Object().Exported() {
			idx := -1
			for i, prm := range f.Params {
				if prm == x {
					idx = i
				}
			}
			all := true
			for _, c := range cs {
				args := c.Instr.Common().Args
				if c.Instr.Common().IsInvoke() {
					args = append([]ssa.Value{c.Instr.Common().Value}, args...)
				}
				if idx < 0 || idx >= len(args) {
					all = false
					continue
				}
				if ok, _ := p.boundedSize(c.Caller, args[idx], depth+1); !ok {
					all = false
				}
			}
			if all {
				return true, "bounded at every call site"
			}
		}
	}
	// a dominating comparison against a length: v <= len(x) / v > len(x) -> return
	if in, ok := c.(ssa.Instruction); ok {
		_ = in
	}
	for _, b := range f.Blocks {
		ifi, ok := b.Instrs[len(b.Instrs)-1].(*ssa.If)
		if !ok {
			continue
		}
		bo, ok := ifi.Cond.(*ssa.BinOp)
		if !ok {
			continue
		}
		involves := func(a ssa.Value) bool { return sameValue(a, v) || sameValue(canonConv(a), canonConv(v)) }
		if involves(bo.X) || involves(bo.Y) {
			other := bo.Y
			if involves(bo.Y) {
				other = bo.X
			}
			if ok2, _ := p.boundedSize(f, other, depth+1); ok2 {
				return true, "compared with a bounded quantity on a dominating branch"
			}
		}
	}
	return false, fmt.Sprintf("%T %s has no bound", c, c.Name())
}

func canonConv(v ssa.Value) ssa.Value {
	for {
		v = canon(v)
		if c, ok := v.(*ssa.Convert); ok {
			v = c.X
			continue
		}
		return v
	}
}

// P6 loops in decode scope are range loops or counter loops with a loop-invariant bound.
func ruleP6(p *Prog, r *Report) {
	const R = "P6"
	scope, _ := p.decodeScope()
	n := 0
	for _, f := range sortedFuncs(p, scope) {
		heads := map[*ssa.BasicBlock]bool{}
		for _, b := range f.Blocks {
			for _, pr := range b.Preds {
				if b.Dominates(pr) {
					heads[b] = true
				}
			}
		}
		for h := range heads {
			n++
			cons := fmt.Sprintf("loop:%s", p.Name(f))
			ok, why := loopIsBounded(h)
			r.Decide(ok, R, cons, p.InstrPos(h.Instrs[len(h.Instrs)-1]), why, "loop in decode scope without a structural bound: "+why)
		}
	}
	// recursion cycles in scope: bounded by the CBOR nesting limit (listed, assumption A-CBOR)
	var cyc []string
	for _, f := range sortedFuncs(p, scope) {
		if f.Parent() != nil {
			continue
		}
		for _, s := range p.fine().succs[f] {
			if s == f || p.ReachFine(s)[f] {
				cyc = append(cyc, p.Name(f))
				break
			}
		}
	}
	sort.Strings(cyc)
	r.Observe("recursive functions in decode scope (depth bounded by CBOR nesting limit / tree depth of already decoded data): " + strings.Join(uniq(cyc), ", "))
	r.Floor(R, "loops in decode scope", 8, n)
}

// loopIsBounded: the loop header's exit test is a range iteration (next / index < len) or a counter
// compared with a loop-invariant value, the counter stepping by a non-zero constant.
func loopIsBounded(h *ssa.BasicBlock) (bool, string) {
	blocks := loopBlocks(h)
	// find exit tests inside the loop
	for b := range blocks {
		ifi, ok := b.Instrs[len(b.Instrs)-1].(*ssa.If)
		if !ok {
			continue
		}
		exits := false
		for _, s := range b.Succs {
			if !blocks[s] {
				exits = true
			}
		}
		if !exits {
			continue
		}
		switch c := ifi.Cond.(type) {
		case *ssa.Extract:
			if _, ok := c.Tuple.(*ssa.Next); ok {
				return true, "range over a map/string (finite)"
			}
			if u, ok := c.Tuple.(*ssa.UnOp); ok && u.Op == token.ARROW {
				return true, "range over a channel"
			}
		case *ssa.BinOp:
			switch c.Op {
			case token.LSS, token.GTR, token.LEQ, token.GEQ, token.NEQ:
				// one side a loop-carried counter with constant step, other side loop invariant
				for _, pair := range [][2]ssa.Value{{c.X, c.Y}, {c.Y, c.X}} {
					if isCounter(pair[0], blocks) && isInvariant(pair[1], blocks) {
						return true, "counter loop with a loop-invariant bound"
					}
				}
				// len(x) > 0 with x shrinking (worklist): childStorables = nextChildStorables pattern
				if call, ok := c.X.(*ssa.Call); ok {
					if bi, ok := call.Call.Value.(*ssa.Builtin); ok && bi.Name() == "len" {
						return true, "worklist loop over a finite, acyclic child list (bounded by the decoded tree)"
					}
				}
			}
		}
	}
	return false, "no recognised exit test"
}

func isCounter(v ssa.Value, blocks map[*ssa.BasicBlock]bool) bool {
	step := func(x ssa.Value, phi *ssa.Phi) bool {
		bo, ok := x.(*ssa.BinOp)
		if !ok || (bo.Op != token.ADD && bo.Op != token.SUB) {
			return false
		}
		k, isC := constInt(bo.Y)
		return isC && k != 0 && bo.X == ssa.Value(phi)
	}
	switch x := v.(type) {
	case *ssa.Phi:
		for _, e := range x.Edges {
			if step(e, x) {
				return true
			}
		}
	case *ssa.BinOp:
		if phi, ok := x.X.(*ssa.Phi); ok && step(x, phi) {
			return true
		}
	}
	return false
}

func isInvariant(v ssa.Value, blocks map[*ssa.BasicBlock]bool) bool {
	if _, ok := v.(*ssa.Const); ok {
		return true
	}
	// len(x) re-evaluated in the header of a loop that does not reassign x
	if c, ok := v.(*ssa.Call); ok {
		if b, ok := c.Call.Value.(*ssa.Builtin); ok && (b.Name() == "len" || b.Name() == "cap") {
			return isInvariant(canon(c.Call.Args[0]), blocks)
		}
	}
	// a conversion / arithmetic on invariant operands, re-evaluated in the header (`i < int(count)`)
	switch x := v.(type) {
	case *ssa.Convert:
		return isInvariant(x.X, blocks)
	case *ssa.ChangeType:
		return isInvariant(x.X, blocks)
	case *ssa.BinOp:
		if !blocks[x.Block()] {
			return true
		}
		return isInvariant(x.X, blocks) && isInvariant(x.Y, blocks)
	}
	if in, ok := v.(ssa.Instruction); ok {
		return !blocks[in.Block()]
	}
	return true // parameters, globals
}

// P7 additions on sizes of decoded content go through the overflow-checked helpers.
func ruleP7(p *Prog, r *Report) {
	const R = "P7"
	scope, _ := p.decodeScope()
	n := 0
	for _, f := range sortedFuncs(p, scope) {
		if strings.HasPrefix(TopLevel(f).Name(), "safeAdd") {
			continue
		}
		eachInstr(f, func(in ssa.Instruction) {
			bo, ok := in.(*ssa.BinOp)
			if !ok || bo.Op != token.ADD {
				return
			}
			b, ok := bo.Type().Underlying().(*types.Basic)
			if !ok || b.Kind() != types.Uint32 {
				return
			}
			// operand derived from ByteSize()/Size() of decoded content or a decoded integer field
			tainted := ""
			for _, op := range []ssa.Value{bo.X, bo.Y} {
				sliceContains(op, func(v ssa.Value) bool {
					if c, ok := v.(*ssa.Call); ok {
						nm := calleeName(c)
						if (nm == "ByteSize" || nm == "Size") && c.Call.IsInvoke() {
							tainted = nm + "() of decoded content"
							return true
						}
					}
					return false
				}, 0, map[ssa.Value]bool{})
			}
			if tainted == "" {
				return
			}
			// only in decode functions proper (not accessors of already validated slabs)
			tn := TopLevel(f).Name()
			if !(strings.Contains(tn, "FromData") || strings.HasPrefix(tn, "Decode") || strings.HasPrefix(tn, "decode")) {
				return
			}
			n++
			r.Bad(R, "unchecked-add:"+p.Name(f), p.InstrPos(in), "uint32 addition of "+tainted+" outside safeAdd: a hostile register could wrap the size bookkeeping")
		})
	}
	// positive instances: calls of the safe helpers in decode functions
	nSafe := 0
	for _, f := range sortedFuncs(p, scope) {
		eachInstr(f, func(in ssa.Instruction) {
			if c, ok := in.(ssa.CallInstruction); ok && strings.HasPrefix(calleeName(c), "safeAdd") {
				nSafe++
			}
		})
	}
	r.Ok(R, "safe-additions", "-", fmt.Sprintf("%d overflow-checked additions in decode scope; %d unchecked uint32 additions of decoded sizes", nSafe, n))
	r.Floor(R, "safeAdd call sites in decode scope", 8, nSafe)
	_ = constant.Int
}

// P8 accessor totality: interface/pointer fields that the accessors of a slab/part type dereference
// unconditionally are set by every literal of that type built in decode scope.
func ruleP8(p *Prog, r *Report) {
	const R = "P8"
	scope, _ := p.decodeScope()
	required := map[string]map[string]string{} // type -> field -> accessor
	for _, nt := range p.rootNamedTypes() {
		nm := nt.Obj().Name()
		if !(slabStructs[nm] || partStructs[nm]) {
			continue
		}
		for _, m := range []string{"ByteSize", "ChildStorables", "Size", "Count", "Header", "SlabID", "ExtraData", "hasPointer", "HasPointers", "HasPointer"} {
			f := p.Method(nm, m)
			if f == nil || recvNamed(f) != nt || len(f.Params) == 0 || len(f.Blocks) == 0 {
				continue
			}
			eachInstr(f, func(in ssa.Instruction) {
				c, ok := in.(ssa.CallInstruction)
				if !ok || !c.Common().IsInvoke() {
					return
				}
				fr, ok := asLoadedField(c.Common().Value)
				if !ok || fr.Owner != nt || !sameValue(fr.Base, f.Params[0]) {
					return
				}
				// unconditional: the block dominates every return
				all := true
				for _, ret := range returnsOf(f) {
					if !in.Block().Dominates(ret.Block()) {
						all = false
					}
				}
				if !all {
					return
				}
				if required[nm] == nil {
					required[nm] = map[string]string{}
				}
				required[nm][fr.Field] = m
			})
		}
	}
	n := 0
	for _, f := range sortedFuncs(p, scope) {
		eachInstr(f, func(in ssa.Instruction) {
			al, ok := in.(*ssa.Alloc)
			if !ok {
				return
			}
			nt := rootNamed(al.Type())
			if nt == nil || required[nt.Obj().Name()] == nil {
				return
			}
			// skip parameter spills
			for _, ref := range *al.Referrers() {
				if st, ok := ref.(*ssa.Store); ok && st.Addr == ssa.Value(al) {
					if _, isP := st.Val.(*ssa.Parameter); isP {
						return
					}
				}
			}
			var fields []string
			for fld := range required[nt.Obj().Name()] {
				fields = append(fields, fld)
			}
			sort.Strings(fields)
			for _, fld := range fields {
				n++
				v := litField(f, al, fld)
				cons := fmt.Sprintf("literal-sets:%s:%s.%s", p.Name(f), nt.Obj().Name(), fld)
				good := v != nil && !isNilConst(canon(v))
				r.Decide(good, R, cons, p.InstrPos(in), "field dereferenced by "+required[nt.Obj().Name()][fld]+"() is initialised by the decoder",
					"a decoded "+nt.Obj().Name()+" can be returned with a nil "+fld+": "+required[nt.Obj().Name()][fld]+"() on it would panic")
			}
		})
	}
	var req []string
	for t, m := range required {
		for fld := range m {
			req = append(req, t+"."+fld)
		}
	}
	sort.Strings(req)
	r.Observe("fields dereferenced unconditionally by accessors: " + strings.Join(req, ", "))
	r.Floor(R, "decode-scope literals with required fields", 2, n)
}

// P9 no per-reference deep copy of shared extra data (C19: memory in proportion to the input).
//
// The inlined-extra-data section of a slab is written once and referred to by any number of inlined elements.
// A decoder that is invoked once per referring element (it receives the slab-wide []ExtraData) may copy
// fixed-size items of the shared entry whose number the element's own encoding bounds (the digests: the value
// count is checked against them), but a deep copy of a variable-size object of the shared entry - a key storable -
// per referring element makes the decoded size the product of the number of referrers and the size of the shared
// object: quadratic in the length of the register (finding F12).
func ruleP9(p *Prog, r *Report) {
	const R = "P9"
	scope, _ := p.decodeScope()
	n := 0
	isSharedParam := func(v ssa.Value) bool {
		prm, ok := v.(*ssa.Parameter)
		if !ok {
			return false
		}
		sl, ok := prm.Type().Underlying().(*types.Slice)
		if !ok {
			return false
		}
		nt := namedOf(sl.Elem())
		return nt != nil && nt.Obj().Name() == "ExtraData"
	}
	var derived func(v ssa.Value, depth int) bool
	derived = func(v ssa.Value, depth int) bool {
		if depth > 12 || v == nil {
			return false
		}
		v = canon(v)
		if isSharedParam(v) {
			return true
		}
		switch x := v.(type) {
		case *ssa.UnOp:
			if x.Op == token.MUL {
				return derived(x.X, depth+1)
			}
		case *ssa.FieldAddr:
			return derived(x.X, depth+1)
		case *ssa.Field:
			return derived(x.X, depth+1)
		case *ssa.IndexAddr:
			return derived(x.X, depth+1)
		case *ssa.Index:
			return derived(x.X, depth+1)
		case *ssa.TypeAssert:
			return derived(x.X, depth+1)
		case *ssa.Extract:
			if ta, ok := x.Tuple.(*ssa.TypeAssert); ok && x.Index == 0 {
				return derived(ta.X, depth+1)
			}
		case *ssa.Slice:
			return derived(x.X, depth+1)
		case *ssa.Phi:
			for _, e := range x.Edges {
				if derived(e, depth+1) {
					return true
				}
			}
		}
		return false
	}
	for _, f := range sortedFuncs(p, scope) {
		hasShared := false
		for _, prm := range f.Params {
			if isSharedParam(prm) {
				hasShared = true
			}
		}
		if !hasShared {
			continue
		}
		n++
		var bad ssa.Instruction
		what := ""
		eachInstr(f, func(in ssa.Instruction) {
			c, ok := in.(ssa.CallInstruction)
			if !ok || bad != nil {
				return
			}
			nm := calleeName(c)
			ln := strings.ToLower(nm)
			if !strings.HasPrefix(ln, "copy") && !strings.HasPrefix(ln, "clone") {
				return
			}
			rv := callRecv(c)
			if rv == nil || !derived(rv, 0) {
				return
			}
			// a deep copy of an object of open size: the receiver is an interface value (a Storable, a TypeInfo)
			if _, isIface := rv.Type().Underlying().(*types.Interface); !isIface {
				return
			}
			bad = in
			what = nm + " of a " + typeString(rv.Type())
		})
		r.Decide(bad == nil, R, "shared-extra-data-deep-copy:"+p.Name(f), func() string {
			if bad != nil {
				return p.InstrPos(bad)
			}
			return p.Pos(f.Pos())
		}(),
			"no variable-size object of the shared extra data is deep-copied per referring element",
			"a decoder that runs once per inlined element deep-copies a variable-size object of the slab's shared extra data ("+what+"): N elements referring to one entry with a key of S bytes make the decoder allocate about N*S bytes for a register of about S+17N bytes - memory quadratic in the input length")
	}
	r.Floor(R, "per-element decoders that receive the shared extra data", 3, n)
}
