package main

import (
	"go/token"
	"go/types"

	"golang.org/x/tools/go/ssa"
)

// sortCallOf recognises sort.Slice / sort.SliceStable / slices.SortFunc / slices.SortStableFunc
// and returns the sorted slice operand, the comparator closure and the mode.
func sortCallOf(in ssa.Instruction) (slice ssa.Value, cmp ssa.Value, mode string, ok bool) {
	c, isCall := in.(*ssa.Call)
	if !isCall {
		return
	}
	f := c.Call.StaticCallee()
	if f == nil {
		return
	}
	pkg, name := "", f.Name()
	if f.Pkg != nil {
		pkg = f.Pkg.Pkg.Path()
	} else if o := f.Origin(); o != nil && o.Pkg != nil {
		pkg, name = o.Pkg.Pkg.Path(), o.Name()
	}
	switch {
	case pkg == "sort" && (name == "Slice" || name == "SliceStable"):
		s := c.Call.Args[0]
		if mi, isMI := s.(*ssa.MakeInterface); isMI {
			s = mi.X
		}
		return s, c.Call.Args[1], "less", true
	case pkg == "slices" && (name == "SortFunc" || name == "SortStableFunc"):
		return c.Call.Args[0], c.Call.Args[1], "cmp", true
	}
	return
}

// cellOrValue identifies a slice variable: the local cell it is loaded from, or the SSA value itself.
func cellOrValue(v ssa.Value) ssa.Value {
	v = stripTrivial(v)
	if u, ok := v.(*ssa.UnOp); ok && u.Op == token.MUL {
		if _, ok := u.X.(*ssa.Alloc); ok {
			return u.X
		}
	}
	return v
}

// S6 sorted apply in the deterministic commit.
func ruleS6(p *Prog, r *Report) {
	const R = "S6"
	nApply, nSort := 0, 0
	checkedCollector := map[*ssa.Function]bool{}
	for _, top := range p.TopFuncs() {
		if !isCommitEntry(top) || containsFold(top.Name(), "nondeterministic") {
			continue
		}
		// the entry and the private helpers it hands (part of) the apply phase to
		scope := []*ssa.Function{top}
		inScope := map[*ssa.Function]bool{top: true}
		for i := 0; i < len(scope) && i < 8; i++ {
			for _, g := range p.calleesDeep(scope[i]) {
				if g.Pkg == p.RootSSA && !inScope[g] && recvName(g) == storageT && g.Object() != nil && !g.Object().Exported() && len(g.Blocks) > 0 {
					if _, _, isW := p.regWriteWrapper(g); isW {
						continue // a single-id write helper is seen as the write at its call site
					}
					inScope[g] = true
					scope = append(scope, g)
				}
			}
		}
		visit := func(fn *ssa.Function, in ssa.Instruction) {
			_, key, _, ok := p.registerWrite(in)
			if !ok {
				return
			}
			nApply++
			cons := "apply-order:" + p.Name(fn)
			id := canon(key)
			ld, ok := id.(*ssa.UnOp)
			var ia *ssa.IndexAddr
			if ok && ld.Op == token.MUL {
				ia, _ = ld.X.(*ssa.IndexAddr)
			}
			if ia == nil {
				r.Bad(R, cons, p.InstrPos(in), "register write in the deterministic commit is not driven by an element of a key slice (e.g. it ranges over a map or a channel): write order would depend on iteration/arrival order")
				return
			}
			if _, isSlice := ia.X.Type().Underlying().(*types.Slice); !isSlice {
				r.Bad(R, cons, p.InstrPos(in), "keys are not taken from a slice")
				return
			}
			// the loop must walk the slice front to back: index is the rangeindex phi (+1 per iteration from -1) or a counter from 0
			if !ascendingIndex(ia.Index) {
				r.Bad(R, cons, p.InstrPos(in), "the apply loop does not walk the sorted key slice from first to last element")
				return
			}
			src := canon(ia.X)
			// a helper that receives the key slice: the slice its caller in this commit hands over
			for d := 0; d < 3; d++ {
				prm, isPrm := src.(*ssa.Parameter)
				if !isPrm {
					break
				}
				idx := -1
				for i, q := range prm.Parent().Params {
					if q == prm {
						idx = i
					}
				}
				var arg ssa.Value
				for _, cs := range p.CallersOf(prm.Parent()) {
					if inScope[TopLevel(cs.Caller)] && idx >= 0 && idx < len(cs.Instr.Common().Args) {
						arg = cs.Instr.Common().Args[idx]
					}
				}
				if arg == nil {
					break
				}
				src = canon(arg)
			}
			call, ok := src.(*ssa.Call)
			if !ok || call.Call.StaticCallee() == nil || call.Call.StaticCallee().Pkg != p.RootSSA {
				r.Bad(R, cons, p.InstrPos(in), "the key slice driving register writes is not the result of a collector function of this package")
				return
			}
			g := call.Call.StaticCallee()
			r.Ok(R, cons, p.InstrPos(in), "register write driven by elements of "+p.Name(g)+"() in ascending slice order")
			if checkedCollector[g] {
				return
			}
			checkedCollector[g] = true
			// (b) g sorts the slice it returns before returning it on every path
			var sortIn ssa.Instruction
			var sorted, cmpv ssa.Value
			mode := ""
			eachInstr(g, func(x ssa.Instruction) {
				if s, cv, m, ok := sortCallOf(x); ok {
					sortIn, sorted, cmpv, mode = x, s, cv, m
				}
			})
			gc := "collector-sorts:" + p.Name(g)
			if sortIn == nil {
				r.Bad(R, gc, p.Pos(g.Pos()), "the collector of commit keys does not sort them: register writes would follow Go map iteration order")
				return
			}
			nSort++
			if bad := successReturnAvoiding(g, nil, func(x ssa.Instruction) bool { return x == sortIn }); bad != nil {
				r.Bad(R, gc, p.InstrPos(bad), "a return of the key collector is reachable without passing the sort call")
				return
			}
			// returned slice is the sorted one, and nothing is appended after the sort
			okRet := true
			for _, ret := range returnsOf(g) {
				if len(ret.Results) != 1 || cellOrValue(ret.Results[0]) != cellOrValue(sorted) {
					okRet = false
				}
			}
			if !okRet {
				r.Bad(R, gc, p.InstrPos(sortIn), "the slice returned by the key collector is not the slice that was sorted")
				return
			}
			if x := canReach(g, sortIn, func(x ssa.Instruction) bool {
				if st, ok := x.(*ssa.Store); ok && st.Addr == cellOrValue(sorted) {
					return true
				}
				if st, ok := x.(*ssa.Store); ok {
					if ia, ok := st.Addr.(*ssa.IndexAddr); ok && cellOrValue(ia.X) == cellOrValue(sorted) {
						return true
					}
				}
				return false
			}, nil); x != nil {
				r.Bad(R, gc, p.InstrPos(x), "the key slice is modified after it was sorted")
				return
			}
			r.Ok(R, gc, p.InstrPos(sortIn), "every return passes the sort of the returned slice; no modification afterwards")
			// (c) comparator decided by order abstraction
			cf := closureOf(cmpv)
			cc := "comparator:" + p.Name(g)
			if cf == nil {
				r.Unk(R, cc, p.InstrPos(sortIn), "comparator is not a local closure")
				return
			}
			sliceFree := -1
			if mc, ok := cmpv.(*ssa.MakeClosure); ok {
				for i, b := range mc.Bindings {
					if b == cellOrValue(sorted) {
						sliceFree = i
					}
				}
			}
			okc, why := p.decideComparator(cf, mode, sliceFree)
			if okc {
				r.Ok(R, cc, p.Pos(cf.Pos()), why)
			} else if len(why) > 9 && why[:9] == "undecided" {
				r.Unk(R, cc, p.Pos(cf.Pos()), why)
			} else {
				r.Bad(R, cc, p.Pos(cf.Pos()), why)
			}
		}
		for _, sf := range scope {
			eachInstrDeep(sf, visit)
		}
	}
	// the id components' integer views must be big-endian (bytewise order = numeric order)
	for _, name := range []string{"AddressAsUint64", "IndexAsUint64"} {
		f := p.Method("SlabID", name)
		if f == nil {
			continue
		}
		be := false
		eachInstr(f, func(in ssa.Instruction) {
			if c, ok := in.(*ssa.Call); ok && c.Call.StaticCallee() != nil && c.Call.StaticCallee().String() == "(encoding/binary.bigEndian).Uint64" {
				be = true
			}
		})
		r.Decide(be, R, "bigendian-view:"+p.Name(f), p.Pos(f.Pos()), "integer view is big-endian (order-isomorphic to the byte order of the register key)", "integer view of an id component is not big-endian: numeric order differs from register key order")
	}
	r.Floor(R, "register writes in deterministic commit entries", 2, nApply)
	r.Floor(R, "sorted key collectors", 1, nSort)
}

// ascendingIndex: idx is the +1 step of a phi that starts at -1 (range loop) or the phi of a counter from 0 with +1 step.
func ascendingIndex(idx ssa.Value) bool {
	step := func(bo *ssa.BinOp, phi *ssa.Phi) bool {
		if bo.Op != token.ADD {
			return false
		}
		one, ok := constInt(bo.Y)
		return ok && one == 1 && bo.X == ssa.Value(phi)
	}
	switch x := idx.(type) {
	case *ssa.BinOp: // t2 = t1 + 1 with t1 = phi[-1, t2]
		phi, ok := x.X.(*ssa.Phi)
		if !ok || !step(x, phi) {
			return false
		}
		init := false
		for _, e := range phi.Edges {
			if c, ok := constInt(e); ok {
				if c != -1 {
					return false
				}
				init = true
			} else if e != ssa.Value(x) {
				return false
			}
		}
		return init
	case *ssa.Phi: // i = phi[0, i+1]
		init := false
		for _, e := range x.Edges {
			if c, ok := constInt(e); ok {
				if c != 0 {
					return false
				}
				init = true
			} else if bo, ok := e.(*ssa.BinOp); !ok || !step(bo, x) {
				return false
			}
		}
		return init
	}
	return false
}

func containsFold(s, sub string) bool {
	ls, lsub := []byte(s), []byte(sub)
	for i := range ls {
		if ls[i] >= 'A' && ls[i] <= 'Z' {
			ls[i] += 32
		}
	}
	for i := 0; i+len(lsub) <= len(ls); i++ {
		if string(ls[i:i+len(lsub)]) == string(lsub) {
			return true
		}
	}
	return false
}
