package main

// L3 header flags, L4 tag / slab-type / version vocabularies.

import (
	"fmt"
	"go/ast"
	"go/constant"
	"go/token"
	"go/types"
	"sort"
	"strings"

	"golang.org/x/tools/go/ssa"
)

// maskOfSetter: `h[i] |= M` -> (i, M).
func maskOfSetter(f *ssa.Function) (idx, mask int64, ok bool) {
	eachInstr(f, func(in ssa.Instruction) {
		st, isSt := in.(*ssa.Store)
		if !isSt {
			return
		}
		ia, isIA := st.Addr.(*ssa.IndexAddr)
		if !isIA {
			return
		}
		bo, isBo := st.Val.(*ssa.BinOp)
		if !isBo || bo.Op != token.OR {
			return
		}
		i, ok1 := constInt(ia.Index)
		m, ok2 := constInt(bo.Y)
		if ok1 && ok2 {
			idx, mask, ok = i, m, true
		}
	})
	return
}

// maskOfGetter: `h[i] & M` compared with 0 -> (i, M, trueWhenSet).
func maskOfGetter(f *ssa.Function) (idx, mask int64, whenSet bool, ok bool) {
	eachInstr(f, func(in ssa.Instruction) {
		bo, isBo := in.(*ssa.BinOp)
		if !isBo || bo.Op != token.AND {
			return
		}
		m, ok2 := constInt(bo.Y)
		ld, isLd := bo.X.(*ssa.UnOp)
		if !ok2 || !isLd {
			return
		}
		ia, isIA := ld.X.(*ssa.IndexAddr)
		if !isIA {
			return
		}
		i, ok1 := constInt(ia.Index)
		if !ok1 {
			return
		}
		// comparison of the masked value
		for _, ref := range *bo.Referrers() {
			if c, isC := ref.(*ssa.BinOp); isC {
				switch c.Op {
				case token.GTR, token.NEQ:
					idx, mask, whenSet, ok = i, m, true, true
				case token.EQL:
					idx, mask, whenSet, ok = i, m, false, true
				}
			}
		}
	})
	return
}

func ruleL3(p *Prog, r *Report) {
	const R = "L3"
	pairs := []struct {
		set, get   string
		getWhenSet bool
		state      string
	}{
		{"setRoot", "isRoot", true, "extraData"},
		{"setHasPointers", "hasPointers", true, "HasPointer"},
		{"setNoSizeLimit", "hasSizeLimit", false, "anySize"},
		{"setHasInlinedSlabs", "hasInlinedSlabs", true, "hasInlinedExtraData"},
		{"setHasNextSlabID", "hasNextSlabID", true, "next"},
	}
	used := map[[2]int64]string{}
	for _, pr := range pairs {
		s, g := p.Method("head", pr.set), p.Method("head", pr.get)
		if s == nil || g == nil {
			r.Unk(R, "anchor:head."+pr.set+"/"+pr.get, "-", "flag accessor not found")
			continue
		}
		si, sm, ok1 := maskOfSetter(s)
		gi, gm, gw, ok2 := maskOfGetter(g)
		cons := "flag-bit:" + pr.set + "/" + pr.get
		if !ok1 || !ok2 {
			r.Unk(R, cons, p.Pos(s.Pos()), "setter/getter shape not recognised (h[i] |= mask / h[i] & mask)")
			continue
		}
		good := si == gi && sm == gm && gw == pr.getWhenSet && sm != 0 && sm&(sm-1) == 0
		r.Decide(good, R, cons, p.Pos(s.Pos()), fmt.Sprintf("byte %d mask %#x on both sides", si, sm), fmt.Sprintf("setter writes byte %d mask %#x but getter tests byte %d mask %#x (polarity ok=%v): the flag read from raw bytes would not describe the slab", si, sm, gi, gm, gw == pr.getWhenSet))
		if prev, dup := used[[2]int64{si, sm}]; dup {
			r.Bad(R, "flag-bit-unique:"+pr.set, p.Pos(s.Pos()), "flag shares its bit with "+prev)
		}
		used[[2]int64{si, sm}] = pr.set
		// type bits must not overlap: byte 1 low 5 bits carry the slab type, byte 0 high nibble the version
		if si == 1 && sm&0x1f != 0 || si == 0 && sm&0xf0 != 0 {
			r.Bad(R, "flag-bit-disjoint:"+pr.set, p.Pos(s.Pos()), fmt.Sprintf("flag mask %#x overlaps the version / slab-type bits", sm))
		}
	}
	// encoders: each flag is set exactly under the state it describes
	type need struct {
		setter string
		guard  func(f *ssa.Function, in ssa.Instruction) (bool, string)
	}
	fieldNonNil := func(field string) func(*ssa.Function, ssa.Instruction) (bool, string) {
		return func(f *ssa.Function, in ssa.Instruction) (bool, string) {
			for _, b := range f.Blocks {
				ifi, ok := b.Instrs[len(b.Instrs)-1].(*ssa.If)
				if !ok {
					continue
				}
				v, nn, ok := nilTestOf(ifi)
				if ok {
					if fr, ok := asLoadedField(v); ok && fr.Field == field && edgeDominates(b, nn, in.Block()) {
						return true, "set on the " + field + " != nil edge"
					}
				}
				// comparison with SlabIDUndefined for next
				if bo, ok := ifi.Cond.(*ssa.BinOp); ok && (bo.Op == token.NEQ || bo.Op == token.EQL) {
					if fr, ok := asLoadedField(bo.X); ok && fr.Field == field {
						edge := 0
						if bo.Op == token.EQL {
							edge = 1
						}
						if edgeDominates(b, edge, in.Block()) {
							return true, "set on the " + field + " != undefined edge"
						}
					}
				}
				// boolean field
				if fr, ok := asLoadedField(ifi.Cond); ok && fr.Field == field && edgeDominates(b, 0, in.Block()) {
					return true, "set on the " + field + " edge"
				}
			}
			return false, ""
		}
	}
	callTrue := func(names ...string) func(*ssa.Function, ssa.Instruction) (bool, string) {
		return func(f *ssa.Function, in ssa.Instruction) (bool, string) {
			for _, b := range f.Blocks {
				ifi, ok := b.Instrs[len(b.Instrs)-1].(*ssa.If)
				if !ok {
					continue
				}
				if c, ok := canon(ifi.Cond).(*ssa.Call); ok {
					for _, n := range names {
						if calleeName(c) == n && edgeDominates(b, 0, in.Block()) {
							return true, "set on the true edge of " + n + "()"
						}
					}
				}
				// the answer computed by the caller and handed in as a parameter
				if prm, ok := canon(ifi.Cond).(*ssa.Parameter); ok && edgeDominates(b, 0, in.Block()) {
					idx := -1
					for i, q := range f.Params {
						if q == prm {
							idx = i
						}
					}
					sites := p.CallersOf(f)
					all := idx >= 0 && len(sites) > 0
					for _, cs := range sites {
						a := cs.Instr.Common().Args
						good := false
						if idx >= 0 && idx < len(a) {
							if c, ok := canon(a[idx]).(*ssa.Call); ok {
								for _, n := range names {
									if calleeName(c) == n {
										good = true
									}
								}
							}
						}
						if !good {
							all = false
						}
					}
					if all {
						return true, "set on the true edge of " + names[0] + "(), evaluated by every caller"
					}
				}
			}
			return false, ""
		}
	}
	guards := map[string]func(*ssa.Function, ssa.Instruction) (bool, string){
		"setRoot":            fieldNonNil("extraData"),
		"setHasNextSlabID":   fieldNonNil("next"),
		"setHasPointers":     callTrue("HasPointer", "hasPointer", "HasPointers"),
		"setHasInlinedSlabs": callTrue("hasInlinedExtraData"),
		"setNoSizeLimit":     fieldNonNil("anySize"),
	}
	requiredBy := map[string][]string{
		"ArrayDataSlab":     {"setRoot", "setHasPointers", "setHasNextSlabID", "setHasInlinedSlabs"},
		"MapDataSlab":       {"setRoot", "setHasPointers", "setHasNextSlabID", "setHasInlinedSlabs", "setNoSizeLimit"},
		"ArrayMetaDataSlab": {"setRoot"},
		"MapMetaDataSlab":   {"setRoot"},
		"StorableSlab":      {"setNoSizeLimit", "setHasPointers"},
	}
	n := 0
	var types_ []string
	for t := range requiredBy {
		types_ = append(types_, t)
	}
	sort.Strings(types_)
	for _, tn := range types_ {
		enc := p.Method(tn, "Encode")
		if enc == nil {
			r.Unk(R, "anchor:"+tn+".Encode", "-", "encoder not found")
			continue
		}
		found := map[string]ssa.Instruction{}
		foundIn := map[string]*ssa.Function{}
		// the encoder and the private helpers of the same type it calls (a head builder)
		encScope := []*ssa.Function{enc}
		for _, g := range p.calleesDeep(enc) {
			if g.Pkg == p.RootSSA && recvName(g) == tn && g != enc && g.Object() != nil && !g.Object().Exported() && len(g.Blocks) > 0 {
				encScope = append(encScope, g)
			}
		}
		for _, ef := range encScope {
			eachInstr(ef, func(in ssa.Instruction) {
				if c, ok := in.(ssa.CallInstruction); ok {
					if g := c.Common().StaticCallee(); g != nil && recvName(g) == "head" {
						if _, dup := found[g.Name()]; !dup {
							found[g.Name()] = in
							foundIn[g.Name()] = ef
						}
					}
				}
			})
		}
		for _, s := range requiredBy[tn] {
			n++
			cons := "flag-set:" + tn + "." + s
			in := found[s]
			if in == nil {
				r.Bad(R, cons, p.Pos(enc.Pos()), "encoder never sets this header flag: the raw-bytes query would misdescribe the slab")
				continue
			}
			if tn == "StorableSlab" && s == "setNoSizeLimit" {
				// unconditional by design (storable slabs have no size limit)
				uncond := true
				for _, ret := range returnsOf(enc) {
					if c, _ := classifyReturn(ret); c != retError && !in.Block().Dominates(ret.Block()) {
						uncond = false
					}
				}
				r.Decide(uncond, R, cons, p.InstrPos(in), "storable slabs always declare 'no size limit'", "StorableSlab no longer declares 'no size limit' on every path")
				continue
			}
			ok, why := guards[s](foundIn[s], in)
			r.Decide(ok, R, cons, p.InstrPos(in), why, "flag is not set under exactly the state it describes ("+s+")")
		}
	}
	// V1 decoders consult the state-bearing flags
	for _, d := range []struct {
		fn    string
		needs []string
	}{
		{"newArrayDataSlabFromDataV1", []string{"isRoot", "hasNextSlabID", "hasInlinedSlabs"}},
		{"newMapDataSlabFromDataV1", []string{"isRoot", "hasNextSlabID", "hasInlinedSlabs", "hasSizeLimit"}},
		{"newArrayMetaDataSlabFromDataV1", []string{"isRoot"}},
		{"newMapMetaDataSlabFromDataV1", []string{"isRoot"}},
	} {
		f := p.PkgFunc(d.fn)
		if f == nil {
			r.Unk(R, "anchor:"+d.fn, "-", "decoder not found")
			continue
		}
		calls := map[string]bool{}
		// the decoder itself, and private helpers it hands its header to
		var collect func(fn *ssa.Function, depth int)
		collect = func(fn *ssa.Function, depth int) {
			eachInstr(fn, func(in ssa.Instruction) {
				c, ok := in.(ssa.CallInstruction)
				if !ok {
					return
				}
				g := c.Common().StaticCallee()
				if g == nil {
					return
				}
				if recvName(g) == "head" {
					calls[g.Name()] = true
					return
				}
				if depth < 3 && g.Pkg == p.RootSSA && len(g.Blocks) > 0 {
					for _, a := range c.Common().Args {
						if typeName(a.Type()) == "head" {
							collect(g, depth+1)
							break
						}
					}
				}
			})
		}
		collect(f, 0)
		for _, nd := range d.needs {
			n++
			r.Decide(calls[nd], R, "flag-read:"+d.fn+"."+nd, p.Pos(f.Pos()), "decoder consults the flag the encoder sets", "decoder ignores the header flag "+nd+": it would misparse registers in which the flag differs from its assumption")
		}
	}
	// raw-bytes queries return exactly their flag
	for q, g := range map[string]string{"IsRootOfAnObject": "isRoot", "HasPointers": "hasPointers", "HasSizeLimit": "hasSizeLimit"} {
		f := p.PkgFunc(q)
		if f == nil {
			r.Unk(R, "anchor:"+q, "-", "query not found")
			continue
		}
		ok := false
		for _, ret := range returnsOf(f) {
			if c, isC := canon(ret.Results[0]).(*ssa.Call); isC && calleeName(c) == g {
				ok = true
			}
		}
		n++
		r.Decide(ok, R, "query:"+q, p.Pos(f.Pos()), "returns head."+g+"()", "raw-bytes query no longer returns head."+g+"()")
	}
	// truthfulness of the has-pointers source: every HasPointer/hasPointer of a slab or element type looks at
	// every reference-bearing field (the same fields ChildStorables must enumerate), reference kinds answer true
	for _, nt := range p.rootNamedTypes() {
		nm := nt.Obj().Name()
		var f *ssa.Function
		for _, m := range []string{"HasPointer", "hasPointer"} {
			if g := p.Method(nm, m); g != nil && recvNamed(g) == nt {
				f = g
			}
		}
		if f == nil || nm == "head" {
			continue
		}
		n++
		cons := "pointer-source:" + nm
		allTrue := true
		for _, ret := range returnsOf(f) {
			if c, ok := canon(ret.Results[0]).(*ssa.Const); !ok || c.Value == nil || c.Value.String() != "true" {
				allTrue = false
			}
		}
		if nm == "SlabIDStorable" || nm == "externalCollisionGroup" {
			r.Decide(allTrue, R, cons, p.Pos(f.Pos()), "a reference kind always reports has-pointer", "a reference to another slab no longer reports has-pointer: the header flag would claim the slab holds no references")
			continue
		}
		st, ok := nt.Underlying().(*types.Struct)
		if !ok {
			continue
		}
		read := map[string]bool{}
		for g := range p.ReachFine(f) {
			eachInstr(g, func(in ssa.Instruction) {
				switch x := in.(type) {
				case *ssa.FieldAddr:
					if o, fl := structFieldName(x.X.Type(), x.Field); o == nt {
						read[fl] = true
					}
				case *ssa.Field:
					if o, fl := structFieldName(x.X.Type(), x.Field); o == nt {
						read[fl] = true
					}
				}
			})
		}
		var missing []string
		for i := 0; i < st.NumFields(); i++ {
			fl := st.Field(i)
			if !refBearing(fl.Type(), 0) || fl.Name() == "next" || fl.Name() == "header" {
				continue
			}
			if !read[fl.Name()] {
				missing = append(missing, fl.Name())
			}
		}
		r.Decide(len(missing) == 0 && !allTrue || len(missing) == 0, R, cons, p.Pos(f.Pos()), "looks at every field that can hold a reference", "has-pointer computation ignores field(s) "+strings.Join(missing, ",")+" that can hold references to other slabs")
	}
	if hp := p.PkgFunc("hasPointer"); hp != nil {
		n++
		ok := false
		eachInstr(hp, func(in ssa.Instruction) {
			if c, isC := in.(ssa.CallInstruction); isC && c.Common().IsInvoke() && c.Common().Method.Name() == "HasPointer" && typeName(c.Common().Value.Type()) == "ContainerStorable" {
				ok = true
			}
		})
		r.Decide(ok, R, "pointer-source:hasPointer()", p.Pos(hp.Pos()), "delegates to ContainerStorable.HasPointer (inlined containers, wrappers, slab ids)", "hasPointer no longer asks container/wrapper storables whether they hold references")
	}
	r.Floor(R, "flag obligations", 20, n)
}

// constUses: per enclosing top-level function, the named constants (by prefix) referenced.
func (p *Prog) constUses(prefix string) map[string]map[string]bool {
	out := map[string]map[string]bool{}
	for _, file := range p.Root.Syntax {
		if strings.HasSuffix(p.Fset.Position(file.Pos()).Filename, "_test.go") {
			continue
		}
		for _, d := range file.Decls {
			fd, ok := d.(*ast.FuncDecl)
			var scopeName string
			var node ast.Node = d
			if ok {
				scopeName = fd.Name.Name
				if fd.Recv != nil && len(fd.Recv.List) > 0 {
					scopeName = "(" + types.ExprString(fd.Recv.List[0].Type) + ")." + scopeName
				}
			} else {
				scopeName = "<package-level>"
			}
			ast.Inspect(node, func(n ast.Node) bool {
				id, ok := n.(*ast.Ident)
				if !ok {
					return true
				}
				if c, ok := p.Root.TypesInfo.Uses[id].(*types.Const); ok && strings.HasPrefix(c.Name(), prefix) && c.Pkg() == p.Root.Types {
					if out[c.Name()] == nil {
						out[c.Name()] = map[string]bool{}
					}
					out[c.Name()][scopeName] = true
				}
				return true
			})
		}
	}
	return out
}

func ruleL4(p *Prog, r *Report) {
	const R = "L4"
	// classify functions as encode-side / decode-side by name
	side := func(fn string) string {
		l := strings.ToLower(fn)
		switch {
		case strings.Contains(l, "encode") || strings.Contains(fn, "<package-level>"):
			return "enc"
		case strings.Contains(l, "decode") || strings.Contains(l, "fromdata"):
			return "dec"
		}
		return ""
	}
	clientDecoded := map[string]string{
		"CBORTagInlinedArray":      "decoded by the client's StorableDecoder, which calls DecodeInlinedArrayStorable",
		"CBORTagInlinedMap":        "decoded by the client's StorableDecoder, which calls DecodeInlinedMapStorable",
		"CBORTagInlinedCompactMap": "decoded by the client's StorableDecoder, which calls DecodeInlinedCompactMapStorable",
		"CBORTagSlabID":            "decoded by the client's StorableDecoder, which calls DecodeSlabIDStorable",
		"CBORTagTypeInfoRef":       "decoded by the client's TypeInfoDecoder through the inlined type-info reference",
	}
	// helpers called (transitively) from encode-side / decode-side functions belong to that side too, whatever
	// their name (a tag-number table extracted from an encoder)
	helperSide := map[string]string{}
	{
		sideOfFn := map[*ssa.Function]string{}
		for _, f := range p.TopFuncs() {
			if p.IsTestFile(f.Pos()) {
				continue
			}
			sd := side(p.Name(f))
			if sd == "" {
				for _, prm := range f.Params {
					if isEncoderPtr(prm.Type()) {
						sd = "enc"
					}
				}
			}
			if sd != "" {
				sideOfFn[f] = sd
			}
		}
		for changed := true; changed; {
			changed = false
			for f, sd := range sideOfFn {
				for _, g := range p.calleesDeep(f) {
					gt := TopLevel(g)
					if gt.Pkg != p.RootSSA || p.IsTestFile(gt.Pos()) {
						continue
					}
					if _, has := sideOfFn[gt]; !has && side(p.Name(gt)) == "" {
						sideOfFn[gt] = sd
						changed = true
					}
				}
			}
		}
		for f, sd := range sideOfFn {
			helperSide[p.Name(f)] = sd
		}
	}
	uses := p.constUses("CBORTag")
	var names []string
	for n := range uses {
		names = append(names, n)
	}
	sort.Strings(names)
	nt := 0
	for _, n := range names {
		enc, dec := false, false
		for fn := range uses[n] {
			if isDiagnosticFileFunc(fn) {
				continue
			}
			sd := side(fn)
			if sd == "" {
				sd = helperSide[fn]
			}
			switch sd {
			case "enc":
				enc = true
			case "dec":
				dec = true
			}
		}
		nt++
		cons := "tag:" + n
		switch {
		case enc && dec:
			r.Ok(R, cons, "-", "emitted by an encoder and dispatched on by a decoder")
		case enc && !dec:
			if why, ok := clientDecoded[n]; ok {
				r.Ok(R, cons, "-", why)
			} else {
				r.Bad(R, cons, "-", "tag is emitted by an encoder but no decoder of this package dispatches on it")
			}
		case dec && !enc:
			r.Bad(R, cons, "-", "a decoder dispatches on a tag that no encoder emits")
		}
	}
	// tag values are pairwise distinct
	seen := map[string]string{}
	sc := p.Root.Types.Scope()
	for _, nm := range sc.Names() {
		if c, ok := sc.Lookup(nm).(*types.Const); ok && strings.HasPrefix(nm, "CBORTag") {
			v := c.Val().ExactString()
			if prev, dup := seen[v]; dup {
				r.Bad(R, "tag-distinct:"+nm, p.Pos(c.Pos()), "same tag number as "+prev)
			}
			seen[v] = nm
		}
	}
	// slab types: constants handed to new*SlabHead by encoders == constants whose DecodeSlab case calls a decoder
	encTypes := map[string]bool{}
	for _, top := range p.TopFuncs() {
		eachInstr(top, func(in ssa.Instruction) {
			c, ok := in.(*ssa.Call)
			if !ok || c.Call.StaticCallee() == nil {
				return
			}
			nm := c.Call.StaticCallee().Name()
			if nm == "newArraySlabHead" || nm == "newMapSlabHead" {
				vals := []ssa.Value{c.Call.Args[1]}
				if ph, ok := canon(c.Call.Args[1]).(*ssa.Phi); ok {
					vals = ph.Edges
				}
				for _, v := range vals {
					if k, ok := constInt(canon(v)); ok {
						encTypes[fmt.Sprintf("%s:%d", strings.TrimSuffix(strings.TrimPrefix(nm, "new"), "SlabHead"), k)] = true
					}
				}
			}
			if nm == "newStorableSlabHead" {
				encTypes["Storable:-"] = true
			}
			// version
			if nm == "newArraySlabHead" || nm == "newMapSlabHead" || nm == "newStorableSlabHead" {
				v, ok := constInt(c.Call.Args[0])
				r.Decide(ok && v == 1, R, "encode-version:"+p.Name(top), p.InstrPos(in), "encoder emits format version 1", "encoder emits a format version other than 1")
			}
		})
	}
	decTypes := map[string]bool{}
	if ds := p.PkgFunc("DecodeSlab"); ds != nil {
		if fd := p.FuncDecl[ds.Object().(*types.Func)]; fd != nil {
			ast.Inspect(fd, func(n ast.Node) bool {
				cc, ok := n.(*ast.CaseClause)
				if !ok || cc.List == nil {
					return true
				}
				// body must call a decoder (return newXFromData / decodeStorable)
				callsDecoder := false
				for _, st := range cc.Body {
					ast.Inspect(st, func(m ast.Node) bool {
						if ce, ok := m.(*ast.CallExpr); ok {
							s := types.ExprString(ce.Fun)
							if strings.Contains(s, "FromData") || strings.Contains(s, "decodeStorable") {
								callsDecoder = true
							}
						}
						return true
					})
				}
				if !callsDecoder {
					return true
				}
				for _, e := range cc.List {
					if tv, ok := p.Root.TypesInfo.Types[e]; ok && tv.Value != nil {
						tn := typeName(tv.Type)
						k, _ := constant.Int64Val(tv.Value)
						switch tn {
						case "slabArrayType":
							decTypes[fmt.Sprintf("Array:%d", k)] = true
						case "slabMapType":
							decTypes[fmt.Sprintf("Map:%d", k)] = true
						case "slabType":
							if id, ok := e.(*ast.Ident); ok && id.Name == "slabStorable" {
								decTypes["Storable:-"] = true
							}
						}
					}
				}
				return true
			})
		}
	} else {
		r.Unk(R, "anchor:DecodeSlab", "-", "not found")
	}
	var et, dt []string
	for k := range encTypes {
		et = append(et, k)
	}
	for k := range decTypes {
		dt = append(dt, k)
	}
	sort.Strings(et)
	sort.Strings(dt)
	r.Decide(strings.Join(et, ",") == strings.Join(dt, ","), R, "slab-types", "-", "slab kinds emitted by encoders == kinds dispatched to a decoder by DecodeSlab: "+strings.Join(et, ","),
		"encoders emit slab kinds {"+strings.Join(et, ",")+"} but DecodeSlab dispatches {"+strings.Join(dt, ",")+"}")
	// every version switch in decoders accepts exactly 0 and 1
	nv := 0
	for _, file := range p.Root.Syntax {
		if strings.HasSuffix(p.Fset.Position(file.Pos()).Filename, "_test.go") || isDiagnosticFile(p.Fset.Position(file.Pos()).Filename) {
			continue
		}
		ast.Inspect(file, func(n ast.Node) bool {
			sw, ok := n.(*ast.SwitchStmt)
			if !ok || sw.Tag == nil || !strings.HasSuffix(types.ExprString(sw.Tag), ".version()") {
				return true
			}
			nv++
			var vals []string
			hasDefaultErr := false
			for _, cl := range sw.Body.List {
				cc := cl.(*ast.CaseClause)
				if cc.List == nil {
					hasDefaultErr = p.endsInErrorOrPanic(cc.Body)
					continue
				}
				for _, e := range cc.List {
					if tv, ok := p.Root.TypesInfo.Types[e]; ok && tv.Value != nil {
						vals = append(vals, tv.Value.ExactString())
					}
				}
			}
			sort.Strings(vals)
			r.Decide(strings.Join(vals, ",") == "0,1" && hasDefaultErr, R, "decode-versions:"+p.enclosingFuncName(file, sw), p.Pos(sw.Pos()), "decoder accepts exactly versions 0 and 1 and rejects the rest", "decoder accepts versions {"+strings.Join(vals, ",")+"} (expected exactly 0 and 1 with an erroring default)")
			return true
		})
	}
	r.Floor(R, "CBOR tag constants in use", 8, nt)
	r.Floor(R, "version switches", 4, nv)
}

func isDiagnosticFileFunc(fn string) bool {
	l := strings.ToLower(fn)
	return strings.Contains(l, "verif") || strings.Contains(l, "dump") || strings.Contains(l, "stats")
}
