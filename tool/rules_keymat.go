package main

// K3 a stored key is materialised once (C09, C02, C12).
//
// A map key too large to be stored inline is materialised as a separate slab
// (Value.Storable with the key limit allocates an id and stores a StorableSlab).
// That may happen only when a *new* element is created. On the branch where the
// caller's key was found equal to a stored key (true edge of the ValueComparator
// result) the stored key storable stays; materialising the key again there
// allocates a second slab and orphans the first one (nobody returns or removes
// it). The rule finds every key materialisation (direct, or through a helper
// that materialises one of its parameters) and requires that it is not
// dominated by the true edge of a comparator result in the same function.

import (
	"go/types"

	"golang.org/x/tools/go/ssa"
)

func isComparatorCall(c *ssa.Call) bool {
	if c.Call.IsInvoke() || c.Call.StaticCallee() != nil {
		return false
	}
	return typeName(c.Call.Value.Type()) == "ValueComparator"
}

func ruleK3(p *Prog, r *Report) {
	const R = "K3"
	// helpers that materialise parameter i as a key
	type pk struct {
		f *ssa.Function
		i int
	}
	mats := map[pk]bool{}
	isKeyStorable := func(c *ssa.Call) bool {
		return c.Call.IsInvoke() && c.Call.Method.Name() == "Storable" && typeName(c.Call.Value.Type()) == "Value" &&
			globalLoadName(c.Call.Args[len(c.Call.Args)-1]) == "maxInlineMapKeySize"
	}
	paramIndex := func(f *ssa.Function, v ssa.Value) int {
		v = canon(v)
		for i, prm := range f.Params {
			if ssa.Value(prm) == v {
				return i
			}
		}
		return -1
	}
	funcs := p.TopFuncs()
	for changed := true; changed; {
		changed = false
		for _, f := range funcs {
			if p.IsTestFile(f.Pos()) {
				continue
			}
			eachInstr(f, func(in ssa.Instruction) {
				c, ok := in.(*ssa.Call)
				if !ok {
					return
				}
				if isKeyStorable(c) {
					if i := paramIndex(f, c.Call.Value); i >= 0 && !mats[pk{f, i}] {
						mats[pk{f, i}] = true
						changed = true
					}
					return
				}
				if g := c.Call.StaticCallee(); g != nil {
					for ai, a := range c.Call.Args {
						if mats[pk{g, ai}] {
							if i := paramIndex(f, a); i >= 0 && !mats[pk{f, i}] {
								// only pure forwarding helpers (constructors of one element) count as materialisers
								if _, isPtr := f.Signature.Results().At(0).Type().(*types.Pointer); f.Signature.Results().Len() > 0 && isPtr && f.Signature.Recv() == nil {
									mats[pk{f, i}] = true
									changed = true
								}
							}
						}
					}
				}
			})
		}
	}
	n := 0
	ord := map[string]int{}
	for _, f := range funcs {
		if p.IsTestFile(f.Pos()) {
			continue
		}
		eachInstr(f, func(in ssa.Instruction) {
			c, ok := in.(*ssa.Call)
			if !ok {
				return
			}
			isMat := isKeyStorable(c)
			if !isMat {
				if g := c.Call.StaticCallee(); g != nil {
					for ai := range c.Call.Args {
						if mats[pk{g, ai}] {
							isMat = true
						}
					}
				}
			}
			if !isMat {
				return
			}
			n++
			name := p.Name(f)
			ord[name]++
			cons := "key-materialised-once:" + name
			if ord[name] > 1 {
				cons += "#" + itoa(ord[name])
			}
			// dominated by the true edge of a comparator result?
			var eq *ssa.If
			for d := in.Block(); d != nil; d = d.Idom() {
				ifi, ok := d.Instrs[len(d.Instrs)-1].(*ssa.If)
				if !ok {
					continue
				}
				ex, ok := canon(ifi.Cond).(*ssa.Extract)
				if !ok || ex.Index != 0 {
					continue
				}
				cc, ok := ex.Tuple.(*ssa.Call)
				if !ok || !isComparatorCall(cc) {
					continue
				}
				if edgeDominates(d, 0, in.Block()) {
					eq = ifi
				}
			}
			r.Decide(eq == nil, R, cons, p.InstrPos(in),
				"the key is materialised only where no stored key was found equal to it",
				"the key is materialised (Value.Storable with the key limit: may allocate and store a slab) on the branch where it was found equal to a key that is already stored: the stored key's slab is neither returned nor removed and stays in storage unreferenced")
		})
	}
	r.Floor(R, "key materialisation sites", 5, n)
}
