package main

// Closure-granular call graph: a closure body is attributed to a function only
// where the closure is activated (called, deferred, launched, or passed to a
// callee that calls that parameter). Closures that are merely stored or
// returned (callbacks installed for later) are not attributed.

import (
	"golang.org/x/tools/go/ssa"
)

type fineIndex struct {
	callsParam map[*ssa.Function]map[int]bool
	succs      map[*ssa.Function][]*ssa.Function
	direct     map[*ssa.Function][]Effect
	reach      map[*ssa.Function]map[*ssa.Function]bool
	built      bool
}

var fineIdx = map[*Prog]*fineIndex{}

func (p *Prog) fine() *fineIndex {
	fi := fineIdx[p]
	if fi != nil {
		return fi
	}
	fi = &fineIndex{callsParam: map[*ssa.Function]map[int]bool{}, succs: map[*ssa.Function][]*ssa.Function{},
		direct: map[*ssa.Function][]Effect{}, reach: map[*ssa.Function]map[*ssa.Function]bool{}}
	fineIdx[p] = fi
	// callsParam fixpoint
	paramIndex := func(f *ssa.Function, v ssa.Value) int {
		v = canon(v)
		for i, prm := range f.Params {
			if ssa.Value(prm) == v {
				return i
			}
		}
		return -1
	}
	for changed := true; changed; {
		changed = false
		for _, f := range p.Funcs {
			eachInstr(f, func(in ssa.Instruction) {
				call, ok := in.(ssa.CallInstruction)
				if !ok {
					return
				}
				cc := call.Common()
				mark := func(i int) {
					if i < 0 {
						return
					}
					if fi.callsParam[f] == nil {
						fi.callsParam[f] = map[int]bool{}
					}
					if !fi.callsParam[f][i] {
						fi.callsParam[f][i] = true
						changed = true
					}
				}
				if !cc.IsInvoke() {
					if _, isB := cc.Value.(*ssa.Builtin); !isB && cc.StaticCallee() == nil {
						mark(paramIndex(f, cc.Value))
					}
				}
				// passing a parameter on to a callee that calls it
				args := cc.Args
				off := 0
				if cc.IsInvoke() {
					off = 1 // callee params include the receiver
				}
				callees := p.Callees(call)
				for ai, a := range args {
					pi := paramIndex(f, a)
					if pi < 0 {
						continue
					}
					if _, isFunc := a.Type().Underlying().(interface{ Variadic() bool }); !isFunc {
						continue
					}
					if len(callees) == 0 {
						// unresolved callee (external or client interface): assume it calls its func arguments
						if f2 := cc.StaticCallee(); f2 == nil || f2.Pkg != p.RootSSA {
							mark(pi)
						}
						continue
					}
					for _, g := range callees {
						if fi.callsParam[g][ai+off] {
							mark(pi)
						}
					}
				}
			})
		}
	}
	// successors
	for _, f := range p.Funcs {
		seen := map[*ssa.Function]bool{}
		add := func(g *ssa.Function) {
			if g != nil && !seen[g] && (g.Pkg == p.RootSSA || TopLevel(g).Pkg == p.RootSSA) {
				seen[g] = true
				fi.succs[f] = append(fi.succs[f], g)
			}
		}
		eachInstr(f, func(in ssa.Instruction) {
			call, ok := in.(ssa.CallInstruction)
			if !ok {
				return
			}
			cc := call.Common()
			for _, g := range p.Callees(call) {
				add(g)
			}
			off := 0
			if cc.IsInvoke() {
				off = 1
			}
			callees := p.Callees(call)
			for ai, a := range cc.Args {
				cl := closureOf(canon(a))
				if cl == nil {
					if mc, ok := a.(*ssa.MakeClosure); ok {
						cl, _ = mc.Fn.(*ssa.Function)
					}
				}
				if cl == nil || cl.Parent() == nil {
					continue
				}
				if len(callees) == 0 {
					if f2 := cc.StaticCallee(); f2 == nil || f2.Pkg != p.RootSSA {
						add(cl) // external / unresolved callee: assume the closure is called
					}
					continue
				}
				for _, g := range callees {
					if fi.callsParam[g][ai+off] {
						add(cl)
					}
				}
			}
		})
	}
	// direct effects per function (own blocks only)
	for _, f := range p.Funcs {
		if f.Parent() == nil {
			for _, e := range p.effects().direct[f] {
				fi.direct[e.Fn] = append(fi.direct[e.Fn], e)
			}
		}
	}
	return fi
}

// ReachFine: functions (closure granularity) reachable from f, including f.
func (p *Prog) ReachFine(f *ssa.Function) map[*ssa.Function]bool {
	fi := p.fine()
	if r, ok := fi.reach[f]; ok {
		return r
	}
	seen := map[*ssa.Function]bool{}
	var rec func(g *ssa.Function)
	rec = func(g *ssa.Function) {
		if seen[g] {
			return
		}
		seen[g] = true
		for _, s := range fi.succs[g] {
			rec(s)
		}
	}
	rec(f)
	fi.reach[f] = seen
	return seen
}

// FineEffects: may-effects of f and everything it activates.
func (p *Prog) FineEffects(f *ssa.Function) []Effect {
	fi := p.fine()
	var out []Effect
	for _, g := range sortedFuncs(p, p.ReachFine(f)) {
		out = append(out, fi.direct[g]...)
	}
	return out
}
