package main

// May-effect summaries: which memory a function (transitively) may write,
// whether it sends/spawns, and which opaque calls it makes. Flow-insensitive;
// writes to objects allocated in the same function are not effects.

import (
	"go/token"
	"go/types"
	"sort"
	"strings"

	"golang.org/x/tools/go/ssa"
)

type Effect struct {
	Kind  string // "field", "global", "mem", "send", "go", "ext", "invoke", "dyncall", "panic"
	What  string // T.f / global name / callee
	Instr ssa.Instruction
	Fn    *ssa.Function
}

type effIndex struct {
	direct map[*ssa.Function][]Effect // per top-level function (closures folded in)
	trans  map[*ssa.Function][]Effect
}

var effIdx = map[*Prog]*effIndex{}

// rootOfAddr classifies the object an address expression points into:
// "fresh" (allocated here), "global:<name>", "param", "free", "unknown".
func rootOfAddr(v ssa.Value) string {
	seen := map[ssa.Value]bool{}
	var rec func(v ssa.Value, depth int) string
	rec = func(v ssa.Value, depth int) string {
		if depth > 20 || seen[v] {
			return "unknown"
		}
		seen[v] = true
		switch x := v.(type) {
		case *ssa.Alloc:
			return "fresh"
		case *ssa.MakeSlice, *ssa.MakeMap, *ssa.MakeChan:
			return "fresh"
		case *ssa.Global:
			return "global:" + x.Name()
		case *ssa.Parameter:
			return "param"
		case *ssa.FreeVar:
			return "free"
		case *ssa.FieldAddr:
			return rec(x.X, depth+1)
		case *ssa.IndexAddr:
			return rec(x.X, depth+1)
		case *ssa.Field:
			return rec(x.X, depth+1)
		case *ssa.Index:
			return rec(x.X, depth+1)
		case *ssa.Slice:
			return rec(x.X, depth+1)
		case *ssa.ChangeType:
			return rec(x.X, depth+1)
		case *ssa.ChangeInterface:
			return rec(x.X, depth+1)
		case *ssa.MakeInterface:
			return rec(x.X, depth+1)
		case *ssa.TypeAssert:
			return rec(x.X, depth+1)
		case *ssa.Extract:
			return rec(x.Tuple, depth+1)
		case *ssa.UnOp:
			if x.Op == token.MUL {
				// load: the pointer value stored in a cell
				switch c := x.X.(type) {
				case *ssa.Alloc:
					// local variable holding a pointer: look at what is stored into it
					res := ""
					for _, ref := range *c.Referrers() {
						if st, ok := ref.(*ssa.Store); ok && st.Addr == ssa.Value(c) {
							r := rec(st.Val, depth+1)
							if res == "" {
								res = r
							} else if res != r {
								res = "unknown"
							}
						}
					}
					if res == "" {
						return "fresh"
					}
					return res
				case *ssa.Global:
					return "global:" + c.Name()
				default:
					// pointer loaded from a field / element of something: belongs to that something
					return rec(x.X, depth+1)
				}
			}
			return "unknown"
		case *ssa.Phi:
			res := ""
			for _, e := range x.Edges {
				r := rec(e, depth+1)
				if res == "" {
					res = r
				} else if res != r {
					if (res == "fresh") != (r == "fresh") {
						return "unknown"
					}
					res = "unknown"
				}
			}
			return res
		case *ssa.Call:
			// result of append on a fresh slice stays fresh
			if b, ok := x.Call.Value.(*ssa.Builtin); ok && b.Name() == "append" {
				return rec(x.Call.Args[0], depth+1)
			}
			return "call"
		case *ssa.Const:
			return "fresh"
		}
		return "unknown"
	}
	return rec(v, 0)
}

func (p *Prog) directEffects(top *ssa.Function) []Effect {
	var out []Effect
	eachInstrDeep(top, func(fn *ssa.Function, in ssa.Instruction) {
		add := func(kind, what string) { out = append(out, Effect{kind, what, in, fn}) }
		describe := func(addr ssa.Value) (string, string) {
			root := rootOfAddr(addr)
			if root == "fresh" {
				return "", ""
			}
			if strings.HasPrefix(root, "global:") {
				return "global", strings.TrimPrefix(root, "global:")
			}
			// field?
			a := addr
			for {
				if ia, ok := a.(*ssa.IndexAddr); ok {
					a = ia.X
					if u, ok := a.(*ssa.UnOp); ok && u.Op == token.MUL {
						a = u.X
					}
					continue
				}
				break
			}
			if fr, ok := asFieldAddr(a); ok {
				owner := "struct"
				if fr.Owner != nil {
					owner = fr.Owner.Obj().Name()
				}
				return "field", owner + "." + fr.Field
			}
			return "mem", root
		}
		switch x := in.(type) {
		case *ssa.Store:
			if _, isAlloc := x.Addr.(*ssa.Alloc); isAlloc {
				return
			}
			if fv, ok := x.Addr.(*ssa.FreeVar); ok {
				// assignment to a captured local variable of the enclosing function: local to top
				_ = fv
				return
			}
			if k, w := describe(x.Addr); k != "" {
				add(k, w)
			}
		case *ssa.MapUpdate:
			if fw, ok := fieldWriteOf(in); ok {
				if rootOfAddr(fw.Ref.Base) != "fresh" {
					owner := "struct"
					if fw.Ref.Owner != nil {
						owner = fw.Ref.Owner.Obj().Name()
					}
					add("field", owner+"."+fw.Ref.Field)
				}
				return
			}
			if r := rootOfAddr(x.Map); r != "fresh" {
				if strings.HasPrefix(r, "global:") {
					add("global", strings.TrimPrefix(r, "global:"))
				} else {
					add("mem", "map:"+r)
				}
			}
		case *ssa.Send:
			add("send", x.Chan.Type().String())
		case *ssa.Go:
			add("go", "")
		case *ssa.Panic:
			add("panic", "")
		case ssa.CallInstruction:
			cc := x.Common()
			if b, ok := cc.Value.(*ssa.Builtin); ok {
				switch b.Name() {
				case "delete":
					if fw, ok := fieldWriteOf(in); ok {
						if rootOfAddr(fw.Ref.Base) != "fresh" {
							owner := "struct"
							if fw.Ref.Owner != nil {
								owner = fw.Ref.Owner.Obj().Name()
							}
							add("field", owner+"."+fw.Ref.Field)
						}
					} else if r := rootOfAddr(cc.Args[0]); r != "fresh" {
						add("mem", "map:"+r)
					}
				case "copy":
					if r := rootOfAddr(cc.Args[0]); r != "fresh" {
						if k, w := describe(cc.Args[0]); k != "" {
							add(k, w)
						} else {
							add("mem", r)
						}
					}
				case "close":
					add("send", "close")
				}
				return
			}
			if cc.IsInvoke() {
				if len(p.Callees(x)) == 0 {
					add("invoke", typeName(cc.Value.Type())+"."+cc.Method.Name())
				}
				return
			}
			f := staticCallee(x)
			if f == nil {
				add("dyncall", cc.Value.Type().String())
				return
			}
			if f.Pkg != p.RootSSA && TopLevel(f).Pkg != p.RootSSA {
				add("ext", f.String())
			}
		}
	})
	return out
}

func (p *Prog) effects() *effIndex {
	e := effIdx[p]
	if e != nil {
		return e
	}
	e = &effIndex{direct: map[*ssa.Function][]Effect{}, trans: map[*ssa.Function][]Effect{}}
	effIdx[p] = e
	for _, f := range p.Funcs {
		if f.Parent() == nil {
			e.direct[f] = p.directEffects(f)
		}
	}
	return e
}

// TransEffects returns the may-effects of top-level function f including everything it can reach.
func (p *Prog) TransEffects(f *ssa.Function) []Effect {
	f = TopLevel(f)
	e := p.effects()
	if v, ok := e.trans[f]; ok {
		return v
	}
	var out []Effect
	for _, g := range sortedFuncs(p, p.ReachableFrom([]*ssa.Function{f}, nil)) {
		out = append(out, e.direct[g]...)
	}
	e.trans[f] = out
	return out
}

// pureExternal: external functions known not to write caller-visible memory other
// than their explicit destination arguments (which the callers here pass fresh buffers).
func pureExternal(name string) bool {
	for _, pre := range []string{"fmt.", "errors.", "strings.", "math.", "(encoding/binary.", "encoding/binary.", "bytes.Compare", "bytes.Equal",
		"slices.", "sort.", "(*strings.Builder)", "math/bits.", "unicode", "strconv.", "(*fmt."} {
		if strings.HasPrefix(name, pre) {
			return true
		}
	}
	return false
}

// pureClientMethod: client-interface methods that are observers by contract.
func pureClientMethod(what string) bool {
	switch what {
	case "Storable.ByteSize", "Storable.ChildStorables", "TypeInfo.IsComposite", "TypeInfo.Identifier", "TypeInfo.Copy",
		"Value.Storable", "Storable.StoredValue", "error.Error", "Stringer.String", "ComparableStorable.Equal", "ComparableStorable.Less", "ComparableStorable.ID":
		return true
	}
	return strings.HasSuffix(what, ".String") || strings.HasSuffix(what, ".Error")
}

func effectSummary(effs []Effect, keep func(Effect) bool) []string {
	set := map[string]bool{}
	for _, e := range effs {
		if keep == nil || keep(e) {
			set[e.Kind+":"+e.What] = true
		}
	}
	var out []string
	for k := range set {
		out = append(out, k)
	}
	sort.Strings(out)
	return out
}

var _ = types.Typ
