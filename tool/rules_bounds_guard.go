package main

// B1 index-guard exactness (C01, C18).
//
// Every IndexOutOfBoundsError rejection names the offending index and the
// bound it was compared with. The rule decides, by case analysis over the three
// orderings of (index, bound) and pruning of the branches whose condition is a
// comparison of exactly these two values, that
//
//   - the rejection is reachable under an ordering iff the request is out of
//     range for the operation: index >= bound for element access, index > bound
//     for insertion (insertion at index == count appends);
//   - under an out-of-range ordering nothing but an error exit is reachable
//     from the comparison, i.e. the guard cannot be passed.
//
// No operator shape is matched: `index >= n`, `!(index < n)`, `n <= index` and a
// split `index > n || index == n` all evaluate to the same truth set. A guard
// written with arithmetic (`index+1 > n`) is undecided.

import (
	"fmt"
	"go/token"
	"go/types"
	"sort"

	"golang.org/x/tools/go/ssa"
)

// accessPath renders a pure read expression as a path string: parameters,
// field loads, len(), conversions stripped. "" = not a path.
func accessPath(v ssa.Value, depth int) string {
	if depth > 8 {
		return ""
	}
	// widening and same-width conversions are transparent; a narrowing one yields another value
	// (comparing uint32(index) with a bound says nothing about index itself)
	for d := 0; d < 4; d++ {
		v = canon(v)
		cv, ok := v.(*ssa.Convert)
		if !ok {
			break
		}
		if narrowingConv(cv) {
			inner := accessPath(cv.X, depth+1)
			if inner == "" {
				return ""
			}
			return "narrow(" + inner + ")"
		}
		v = cv.X
	}
	v = canonConv(v)
	switch x := v.(type) {
	case *ssa.Parameter:
		return "param:" + x.Name()
	case *ssa.Phi:
		// a loop-carried value (the index / slab of an iterative descent): named by its SSA identity
		return "phi:" + x.Name()
	case *ssa.Extract:
		if c, ok := x.Tuple.(*ssa.Call); ok {
			return fmt.Sprintf("result:%s#%d@%s", calleeName(c), x.Index, c.Name())
		}
	case *ssa.UnOp:
		if x.Op == token.MUL {
			if fa, ok := x.X.(*ssa.FieldAddr); ok {
				b := accessPath(fa.X, depth+1)
				if b == "" {
					return ""
				}
				_, fn := structFieldName(fa.X.Type(), fa.Field)
				return b + "." + fn
			}
		}
	case *ssa.FieldAddr:
		b := accessPath(x.X, depth+1)
		if b == "" {
			return ""
		}
		_, fn := structFieldName(x.X.Type(), x.Field)
		return b + ".&" + fn
	case *ssa.Field:
		b := accessPath(x.X, depth+1)
		if b == "" {
			return ""
		}
		_, fn := structFieldName(x.X.Type(), x.Field)
		return b + "." + fn
	case *ssa.TypeAssert:
		return accessPath(x.X, depth+1)
	case *ssa.Call:
		if bi, ok := x.Call.Value.(*ssa.Builtin); ok && bi.Name() == "len" && len(x.Call.Args) == 1 {
			b := accessPath(x.Call.Args[0], depth+1)
			if b == "" {
				return ""
			}
			return "len(" + b + ")"
		}
	}
	return ""
}

type ordering int

const (
	ordLT ordering = iota
	ordEQ
	ordGT
)

func (o ordering) String() string {
	return [...]string{"index < bound", "index == bound", "index > bound"}[o]
}

// cmpTruth evaluates `x op y` when (x,y) is ordered by o.
func cmpTruth(op token.Token, o ordering) (bool, bool) {
	switch op {
	case token.LSS:
		return o == ordLT, true
	case token.LEQ:
		return o != ordGT, true
	case token.GTR:
		return o == ordGT, true
	case token.GEQ:
		return o != ordLT, true
	case token.EQL:
		return o == ordEQ, true
	case token.NEQ:
		return o != ordEQ, true
	}
	return false, false
}

func flipOrd(o ordering) ordering {
	switch o {
	case ordLT:
		return ordGT
	case ordGT:
		return ordLT
	}
	return o
}

// evalGuardCond evaluates a branch condition under ordering o of (idx, bound);
// known=false when the condition is not a comparison of exactly these two.
func evalGuardCond(c ssa.Value, idx, bound string, o ordering) (val, known bool) {
	switch x := c.(type) {
	case *ssa.UnOp:
		if x.Op == token.NOT {
			v, k := evalGuardCond(x.X, idx, bound, o)
			return !v, k
		}
	case *ssa.BinOp:
		px, py := accessPath(x.X, 0), accessPath(x.Y, 0)
		if px == "" || py == "" {
			return false, false
		}
		if px == idx && py == bound {
			return cmpTruth(x.Op, o)
		}
		if px == bound && py == idx {
			return cmpTruth(x.Op, flipOrd(o))
		}
	}
	return false, false
}

// mentionsBoth: the condition compares idx with bound (decidable form or not).
func mentionsPath(v ssa.Value, want string, depth int) bool {
	if depth > 6 {
		return false
	}
	if accessPath(v, 0) == want {
		return true
	}
	switch x := canonConv(v).(type) {
	case *ssa.BinOp:
		return mentionsPath(x.X, want, depth+1) || mentionsPath(x.Y, want, depth+1)
	case *ssa.UnOp:
		return mentionsPath(x.X, want, depth+1)
	}
	return false
}

func ruleB1(p *Prog, r *Report) {
	const R = "B1"
	n := 0
	insertM := p.IfaceMethod("ArraySlab", "Insert")
	isInsert := func(f *ssa.Function) bool {
		if insertM == nil || f.Signature.Recv() == nil || f.Name() != "Insert" {
			return false
		}
		it, _ := insertM.Type().(*types.Signature)
		_ = it
		nt := recvNamed(f)
		if nt == nil {
			return false
		}
		iface := p.LookupType("ArraySlab")
		if iface == nil {
			return false
		}
		ii, ok := iface.Underlying().(*types.Interface)
		return ok && (types.Implements(nt, ii) || types.Implements(types.NewPointer(nt), ii))
	}
	// a private helper that only insertions call decides for insertions
	isInsert0 := isInsert
	var insertOnly func(f *ssa.Function, depth int) bool
	insertOnly = func(f *ssa.Function, depth int) bool {
		if isInsert0(f) {
			return true
		}
		if depth > 2 || f.Object() == nil || f.Object().Exported() {
			return false
		}
		sites := p.CallersOf(f)
		if len(sites) == 0 {
			return false
		}
		for _, cs := range sites {
			if !insertOnly(TopLevel(cs.Caller), depth+1) {
				return false
			}
		}
		return true
	}
	isInsert = func(f *ssa.Function) bool { return insertOnly(f, 0) }
	funcs := p.TopFuncs()
	sort.Slice(funcs, func(i, j int) bool { return p.Name(funcs[i]) < p.Name(funcs[j]) })
	for _, f := range funcs {
		ord := 0
		eachInstr(f, func(in ssa.Instruction) {
			call, ok := in.(*ssa.Call)
			if !ok {
				return
			}
			g := call.Call.StaticCallee()
			if g == nil || g.Pkg != p.RootSSA || g.Name() != "NewIndexOutOfBoundsError" || len(call.Call.Args) != 3 {
				return
			}
			n++
			ord++
			cons := "index-guard:" + p.Name(f)
			if ord > 1 {
				cons += "#" + string(rune('0'+ord))
			}
			pos := p.InstrPos(in)
			idx := accessPath(call.Call.Args[0], 0)
			bound := accessPath(call.Call.Args[2], 0)
			if idx == "" || bound == "" || idx == bound {
				r.Unk(R, cons, pos, "the rejected index or the bound named by the error is not a plain read (parameter, field, len)")
				return
			}
			// the bound must not be rewritten between the comparison and the report: any store to
			// the bound's field in this function must not reach the rejection
			stale := false
			eachInstr(f, func(y ssa.Instruction) {
				fw, ok := fieldWriteOf(y)
				if !ok || fw.Ref.Field == "" {
					return
				}
				if !pathEndsWithField(bound, fw.Ref.Field) {
					return
				}
				if canReach(f, y, func(z ssa.Instruction) bool { return z == in }, nil) != nil {
					stale = true
				}
			})
			if stale {
				r.Unk(R, cons, pos, "the bound is written on a path to the rejection; comparison and report may see different values")
				return
			}
			// deciding branches
			var deciders []*ssa.BasicBlock
			undecidable := false
			for _, b := range f.Blocks {
				if len(b.Instrs) == 0 {
					continue
				}
				ifi, ok := b.Instrs[len(b.Instrs)-1].(*ssa.If)
				if !ok {
					continue
				}
				if _, k := evalGuardCond(ifi.Cond, idx, bound, ordEQ); k {
					deciders = append(deciders, b)
				} else if mentionsPath(ifi.Cond, idx, 0) && mentionsPath(ifi.Cond, bound, 0) {
					if canReachBlock(b, in.Block()) {
						undecidable = true
					}
				}
			}
			if undecidable {
				r.Unk(R, cons, pos, "the guard relates index and bound through arithmetic outside the comparison vocabulary")
				return
			}
			// first decider that reaches the rejection
			var first *ssa.BasicBlock
			for _, b := range deciders {
				if !canReachBlock(b, in.Block()) {
					continue
				}
				if first == nil || b.Dominates(first) {
					first = b
				}
			}
			if first == nil {
				r.Bad(R, cons, pos, "the rejection does not depend on a comparison of "+idx+" with "+bound)
				return
			}
			want := map[ordering]bool{ordEQ: !isInsert(f), ordGT: true, ordLT: false}
			for _, o := range []ordering{ordLT, ordEQ, ordGT} {
				o := o
				edgeOK := func(from *ssa.BasicBlock, si int) bool {
					ifi, ok := from.Instrs[len(from.Instrs)-1].(*ssa.If)
					if !ok {
						return true
					}
					v, k := evalGuardCond(ifi.Cond, idx, bound, o)
					if !k {
						return true
					}
					return (si == 0) == v
				}
				rejected := false
				var escape ssa.Instruction
				start := first.Instrs[len(first.Instrs)-1]
				// walk from the deciding branch itself: its own edges are pruned by edgeOK
				reachFromBlockEnd(first, edgeOK, func(y ssa.Instruction) bool {
					if y == ssa.Instruction(in) {
						rejected = true
						return true
					}
					if ret, ok := y.(*ssa.Return); ok {
						if c, _ := classifyReturn(ret); c != retError && escape == nil {
							escape = y
						}
						return true
					}
					return false
				})
				_ = start
				what := "element access"
				if isInsert(f) {
					what = "insertion"
				}
				if want[o] {
					if !rejected {
						r.Bad(R, cons, pos, "for "+what+" the request with "+o.String()+" is out of range but is not rejected here")
						return
					}
					if escape != nil {
						r.Bad(R, cons, p.InstrPos(escape), "with "+o.String()+" ("+what+", out of range) a non-error exit is reachable past the guard")
						return
					}
				} else if rejected {
					r.Bad(R, cons, pos, "for "+what+" the request with "+o.String()+" is in range but is rejected")
					return
				}
			}
			sem := "index >= bound"
			if isInsert(f) {
				sem = "index > bound"
			}
			r.Ok(R, cons, pos, "rejected iff "+sem+" ("+idx+" vs "+bound+"), and no non-error exit is reachable past the guard when out of range")
		})
	}
	r.Floor(R, "index-out-of-bounds rejections", 8, n)
}

func pathEndsWithField(path, field string) bool {
	// path forms: X.f, len(X.f)
	if len(path) > 0 && path[len(path)-1] == ')' {
		path = path[:len(path)-1]
	}
	return hasSuffix(path, "."+field)
}

func canReachBlock(from, to *ssa.BasicBlock) bool {
	seen := map[*ssa.BasicBlock]bool{}
	var rec func(b *ssa.BasicBlock) bool
	rec = func(b *ssa.BasicBlock) bool {
		if b == to {
			return true
		}
		if seen[b] {
			return false
		}
		seen[b] = true
		for _, s := range b.Succs {
			if rec(s) {
				return true
			}
		}
		return false
	}
	for _, s := range from.Succs {
		if rec(s) {
			return true
		}
	}
	return from == to
}

// reachFromBlockEnd explores paths leaving block b (through edges accepted by edgeOK).
func reachFromBlockEnd(b *ssa.BasicBlock, edgeOK func(from *ssa.BasicBlock, succIdx int) bool, visit func(ssa.Instruction) bool) {
	seen := map[*ssa.BasicBlock]bool{}
	var walk func(x *ssa.BasicBlock)
	walk = func(x *ssa.BasicBlock) {
		for _, in := range x.Instrs {
			if visit(in) {
				return
			}
		}
		for si, s := range x.Succs {
			if edgeOK != nil && !edgeOK(x, si) {
				continue
			}
			if !seen[s] {
				seen[s] = true
				walk(s)
			}
		}
	}
	for si, s := range b.Succs {
		if edgeOK != nil && !edgeOK(b, si) {
			continue
		}
		if !seen[s] {
			seen[s] = true
			walk(s)
		}
	}
}

// narrowingConv: an integer conversion to a type with fewer bits (or from signed/unsigned 64 to anything smaller).
func narrowingConv(cv *ssa.Convert) bool {
	size := func(t types.Type) int {
		b, ok := t.Underlying().(*types.Basic)
		if !ok || b.Info()&types.IsInteger == 0 {
			return 0
		}
		switch b.Kind() {
		case types.Int8, types.Uint8:
			return 8
		case types.Int16, types.Uint16:
			return 16
		case types.Int32, types.Uint32:
			return 32
		case types.Int64, types.Uint64, types.Int, types.Uint, types.Uintptr:
			return 64
		}
		return 0
	}
	from, to := size(cv.X.Type()), size(cv.Type())
	return from != 0 && to != 0 && to < from
}
