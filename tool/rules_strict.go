package main

// P10 the decoder rejects no empty collection that the encoder can write.
//
// A register the library wrote must decode (C07, C08: a slab served from the ledger
// behaves like the cached one). A decoder that demands "at least one" of something is
// only right if the encoder never writes none of it. Every rejection of a zero count in
// decode scope (an error return on the true edge of count == 0 / count < 1, where the
// count comes from a decoded head or a decoded byte string) must be one of the
// confirmed sites, each of which names the encoder-side guard that excludes the empty
// case - and that guard is re-checked on the encoder.

import (
	"fmt"
	"go/token"
	"strings"

	"golang.org/x/tools/go/ssa"
)

type strictSite struct {
	what  string
	check func(p *Prog) (bool, string)
}

// confirmedNonEmptyDemands: decoder function -> confirmed demand.
var confirmedNonEmptyDemands = map[string]strictSite{
	"newInlinedExtraDataFromData": {
		what: "the inlined-extra-data section has at least one entry",
		check: func(p *Prog) (bool, string) {
			enc := p.Method("InlinedExtraData", "Encode")
			if enc == nil {
				return false, "InlinedExtraData.Encode not found"
			}
			sites := p.CallersOf(enc)
			if len(sites) == 0 {
				return false, "no call of InlinedExtraData.Encode found"
			}
			for _, cs := range sites {
				in := cs.Instr.(ssa.Instruction)
				guarded := false
				for _, b := range cs.Caller.Blocks {
					ifi, ok := b.Instrs[len(b.Instrs)-1].(*ssa.If)
					if !ok {
						continue
					}
					c, ok := canon(ifi.Cond).(*ssa.Call)
					if !ok || c.Call.StaticCallee() == nil {
						continue
					}
					if p.returnsNotEmpty(c.Call.StaticCallee(), 0) && edgeDominates(b, 0, in.Block()) {
						guarded = true
					}
				}
				if !guarded {
					return false, "the section is written at " + p.InstrPos(in) + " without a dominating has-entries test"
				}
			}
			return true, "every write of the section is on the true edge of a has-entries test"
		},
	},
}

// returnsNotEmpty: g returns true only if the inlined extra data has entries (g is !empty(), or a
// wrapper that returns false or the result of such a function).
func (p *Prog) returnsNotEmpty(g *ssa.Function, depth int) bool {
	if depth > 2 || len(g.Blocks) == 0 {
		return false
	}
	okAll, any := true, false
	for _, ret := range returnsOf(g) {
		if len(ret.Results) != 1 {
			return false
		}
		v := canonRet(ret.Results[0])
		if c, ok := v.(*ssa.Const); ok && c.Value != nil && c.Value.String() == "false" {
			continue
		}
		if u, ok := v.(*ssa.UnOp); ok && u.Op == token.NOT {
			if c, ok := u.X.(*ssa.Call); ok && c.Call.StaticCallee() != nil && p.isEmptyTest(c.Call.StaticCallee()) {
				any = true
				continue
			}
		}
		if c, ok := v.(*ssa.Call); ok && c.Call.StaticCallee() != nil && p.returnsNotEmpty(c.Call.StaticCallee(), depth+1) {
			any = true
			continue
		}
		if ph, ok := v.(*ssa.Phi); ok {
			good := true
			for _, e := range ph.Edges {
				if c, ok := e.(*ssa.Const); ok && c.Value != nil && c.Value.String() == "false" {
					continue
				}
				if u, ok := e.(*ssa.UnOp); ok && u.Op == token.NOT {
					if c, ok := u.X.(*ssa.Call); ok && c.Call.StaticCallee() != nil && p.isEmptyTest(c.Call.StaticCallee()) {
						any = true
						continue
					}
				}
				good = false
			}
			if good {
				continue
			}
		}
		okAll = false
	}
	return okAll && any
}

// isEmptyTest: g is `return len(recv.extraData) == 0` on the inlined extra data.
func (p *Prog) isEmptyTest(g *ssa.Function) bool {
	if recvName(g) != "InlinedExtraData" || len(g.Blocks) != 1 {
		return false
	}
	for _, ret := range returnsOf(g) {
		bo, ok := canonRet(ret.Results[0]).(*ssa.BinOp)
		if !ok || bo.Op != token.EQL {
			return false
		}
		if k, ok := cInt(bo.Y); !ok || k != 0 {
			return false
		}
		a, isLen := isLenOf(bo.X)
		if !isLen {
			return false
		}
		fr, ok := asLoadedField(a)
		return ok && fr.Field == "extraData"
	}
	return false
}

func ruleP10(p *Prog, r *Report) {
	const R = "P10"
	scope, _ := p.decodeScope()
	n := 0
	isDecodedCount := func(v ssa.Value) bool {
		return sliceContains(v, func(x ssa.Value) bool {
			c, ok := x.(*ssa.Call)
			if !ok {
				return false
			}
			nm := calleeName(c)
			return strings.HasPrefix(nm, "Decode") && (strings.HasSuffix(nm, "Head") || nm == "DecodeBytes" || nm == "DecodeString")
		}, 0, map[ssa.Value]bool{})
	}
	for _, f := range sortedFuncs(p, scope) {
		for _, b := range f.Blocks {
			ifi, ok := b.Instrs[len(b.Instrs)-1].(*ssa.If)
			if !ok {
				continue
			}
			bo, ok := canon(ifi.Cond).(*ssa.BinOp)
			if !ok {
				continue
			}
			// count == 0, count < 1, count <= 0 (true edge rejects); count != 0, count > 0, count >= 1 (false edge rejects)
			k, isK := cInt(bo.Y)
			if !isK || !isDecodedCount(bo.X) {
				continue
			}
			rej := -1
			switch {
			case bo.Op == token.EQL && k == 0, bo.Op == token.LSS && k == 1, bo.Op == token.LEQ && k == 0:
				rej = 0
			case bo.Op == token.NEQ && k == 0, bo.Op == token.GTR && k == 0, bo.Op == token.GEQ && k == 1:
				rej = 1
			}
			if rej < 0 {
				continue
			}
			tgt := b.Succs[rej]
			ret, ok := tgt.Instrs[len(tgt.Instrs)-1].(*ssa.Return)
			if !ok {
				continue
			}
			if cl, _ := classifyReturn(ret); cl != retError {
				continue
			}
			n++
			cons := "non-empty-demand:" + p.Name(f)
			site, known := confirmedNonEmptyDemands[TopLevel(f).Name()]
			if !known {
				r.Bad(R, cons, p.InstrPos(ifi), "the decoder rejects a zero count here, and no encoder-side guard is known that keeps the library from writing none: a register the library wrote (an empty composite, an empty section) would no longer decode once it has to be read back from the ledger")
				continue
			}
			ok2, why := site.check(p)
			r.Decide(ok2, R, cons, p.InstrPos(ifi), site.what+": "+why, "the decoder demands that "+site.what+", but the encoder-side guard no longer holds: "+why)
		}
	}
	r.Floor(R, "zero-count rejections in decode scope", 1, n)
}

// P11 the shared compact-map entry has exactly one digest per key.
//
// Every inlined compact map that refers to a shared entry copies the entry's digests; its own
// value count is checked against the number of keys. Only "as many digests as keys" ties the
// copied amount to the size of the element itself (C19: memory in proportion to the input) - a
// decoder that accepts more digests than keys lets a short register make every referring element
// copy an arbitrarily long digest list. Decided by order abstraction: from the first comparison of
// the decoded key count with the digest count, a success return is reachable exactly when they
// are equal (values 0..2 realise every ordering).
func ruleP11(p *Prog, r *Report) {
	const R = "P11"
	n := 0
	scope, _ := p.decodeScope()
	for _, f := range sortedFuncs(p, scope) {
		res := f.Signature.Results()
		if res.Len() == 0 || typeName(res.At(0).Type()) != "compactMapExtraData" {
			continue
		}
		isKeyCount := func(v ssa.Value) bool {
			ex, ok := canonConv(v).(*ssa.Extract)
			if !ok || ex.Index != 0 {
				return false
			}
			c, ok := ex.Tuple.(*ssa.Call)
			return ok && calleeName(c) == "DecodeArrayHead"
		}
		isDigestCount := func(v ssa.Value) bool {
			bo, ok := canonConv(v).(*ssa.BinOp)
			if !ok || bo.Op != token.QUO {
				return false
			}
			_, isLen := isLenOf(bo.X)
			return isLen
		}
		var start *ssa.BasicBlock
		for _, b := range f.Blocks {
			ifi, ok := b.Instrs[len(b.Instrs)-1].(*ssa.If)
			if !ok {
				continue
			}
			bo, ok := ifi.Cond.(*ssa.BinOp)
			if !ok {
				continue
			}
			if (isKeyCount(bo.X) && isDigestCount(bo.Y)) || (isKeyCount(bo.Y) && isDigestCount(bo.X)) {
				if start == nil || b.Dominates(start) {
					start = b
				}
			}
		}
		n++
		cons := "digests-equal-keys:" + p.Name(f)
		if start == nil {
			r.Bad(R, cons, p.Pos(f.Pos()), "the decoder of the shared compact-map entry never compares the number of keys with the number of digests")
			continue
		}
		bad := ""
		for k := 0; k < 3 && bad == ""; k++ {
			for d := 0; d < 3 && bad == ""; d++ {
				val := func(v ssa.Value) (int, bool) {
					switch {
					case isKeyCount(v):
						return k, true
					case isDigestCount(v):
						return d, true
					}
					return 0, false
				}
				succ, _ := orderReachFrom(start, val)
				if k == d && !succ {
					bad = fmt.Sprintf("%d keys with %d digests are rejected", k, d)
				}
				if k != d && succ {
					bad = fmt.Sprintf("%d keys with %d digests are accepted", k, d)
				}
			}
		}
		r.Decide(bad == "", R, cons, p.InstrPos(start.Instrs[len(start.Instrs)-1]), "the entry is accepted exactly when it has as many digests as keys",
			"the shared compact-map entry is not required to have exactly one digest per key: "+bad+"; every inlined element that refers to the entry copies all its digests while only its value count is checked against the keys, so a short register can make the decoder allocate (elements x digests)")
	}
	r.Floor(R, "decoders of shared compact-map entries", 1, n)
}

// P12 the count and the seed a decoder gives a map are the encoded ones.
//
// A map's extra data carries its element count and hash seed; the element list does not (a collision group is
// one entry of the list). Every MapExtraData a decoder builds takes Count and Seed from the register - decoded
// integers, or the same-named field of the extra-data entry it copies - never from something recomputed from the
// decoded elements (whose Count() counts groups, not keys).
func ruleP12(p *Prog, r *Report) {
	const R = "P12"
	scope, _ := p.decodeScope()
	n := 0
	count := map[string]int{}
	for _, f := range sortedFuncs(p, scope) {
		eachInstr(f, func(in ssa.Instruction) {
			st, ok := in.(*ssa.Store)
			if !ok {
				return
			}
			fr, ok := asFieldAddr(st.Addr)
			if !ok || fr.Owner == nil || fr.Owner.Obj().Name() != "MapExtraData" || (fr.Field != "Count" && fr.Field != "Seed") {
				return
			}
			if !isFreshBase(fr.Base) {
				return
			}
			n++
			count[p.Name(f)]++
			cons := fmt.Sprintf("decoded-%s-is-encoded:%s#%d", strings.ToLower(fr.Field), p.Name(f), count[p.Name(f)])
			v := canonConv(st.Val)
			good := false
			if src, ok := asLoadedField(v); ok && src.Field == fr.Field {
				good = true // copied from the entry it refers to
			}
			if ex, ok := v.(*ssa.Extract); ok {
				if c, ok := ex.Tuple.(*ssa.Call); ok && strings.HasPrefix(calleeName(c), "Decode") {
					good = true
				}
			}
			if _, isPrm := v.(*ssa.Parameter); isPrm {
				good = true // handed in by the decoder that read it
			}
			r.Decide(good, R, cons, p.InstrPos(in), "taken from the register (a decoded integer or the same field of the entry that is copied)",
				"the "+fr.Field+" a decoder gives the map is not read from the register: recomputed from the decoded elements it is wrong for maps with collision groups (a group is one entry of the element list), and every later commit writes the wrong value back")
		})
	}
	r.Floor(R, "map extra data fields set by decoders", 4, n)
}

// P13 nested storables are decoded under the id of the slab that holds them.
//
// The StorableDecoder callback receives the id of the enclosing slab: an inlined child container takes its
// address from it. A value decoded under SlabIDUndefined comes back with the temporary (zero) address - when it
// is later un-inlined its slab is stored under an address that commits skip, and the parent refers to a register
// that is never written. The undefined id is right only for the field names of a shared compact-map entry, which
// are asserted to be comparable storables (never containers). Obligation per call of a StorableDecoder value in
// decode scope: the id argument is not SlabIDUndefined, unless the result is asserted to ComparableStorable.
func ruleP13(p *Prog, r *Report) {
	const R = "P13"
	scope, _ := p.decodeScope()
	n := 0
	count := map[string]int{}
	for _, f := range sortedFuncs(p, scope) {
		eachInstr(f, func(in ssa.Instruction) {
			c, ok := in.(*ssa.Call)
			if !ok || c.Call.IsInvoke() || c.Call.StaticCallee() != nil {
				return
			}
			if typeName(c.Call.Value.Type()) != "StorableDecoder" || len(c.Call.Args) < 2 {
				return
			}
			n++
			count[p.Name(f)]++
			cons := fmt.Sprintf("decoded-under-enclosing-id:%s#%d", p.Name(f), count[p.Name(f)])
			undefined := false
			if u, ok := canon(c.Call.Args[1]).(*ssa.UnOp); ok && u.Op == token.MUL {
				if g, ok := u.X.(*ssa.Global); ok && g.Name() == "SlabIDUndefined" {
					undefined = true
				}
			}
			if !undefined {
				r.Ok(R, cons, p.InstrPos(in), "decoded under an id handed in or decoded by the enclosing routine")
				return
			}
			// the result may only be a comparable storable (a field name)
			onlyKey := false
			if c.Referrers() != nil {
				for _, ref := range *c.Referrers() {
					ex, ok := ref.(*ssa.Extract)
					if !ok || ex.Index != 0 || ex.Referrers() == nil {
						continue
					}
					for _, r2 := range *ex.Referrers() {
						if ta, ok := r2.(*ssa.TypeAssert); ok && typeName(ta.AssertedType) == "ComparableStorable" {
							onlyKey = true
						}
					}
				}
			}
			r.Decide(onlyKey, R, cons, p.InstrPos(in), "the undefined id is used for a field name, which is asserted to be a comparable storable (never a container)",
				"a storable is decoded under SlabIDUndefined although it can be a nested container: the container comes back with the temporary address, and once it is un-inlined its slab lives under an address that commits skip - the parent then refers to a register that is never written")
		})
	}
	r.Floor(R, "StorableDecoder calls in decode scope", 6, n)
}
