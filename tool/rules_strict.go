package main

// P10 the decoder rejects no empty collection that the encoder can write.
//
// A register the library wrote must decode (C07, C08: a slab served from the ledger
// behaves like the cached one). A decoder that demands "at least one" of something is
// only right if the encoder never writes none of it. Every rejection of a zero count in
// decode scope (an error return on the true edge of count == 0 / count < 1, where the
// count comes from a decoded head or a decoded byte string) must be one of the
// confirmed sites, each of which names the encoder-side guard that excludes the empty
// case - and that guard is re-checked on the encoder.

import (
	"fmt"
	"go/token"
	"strings"

	"golang.org/x/tools/go/ssa"
)

type strictSite struct {
	what  string
	check func(p *Prog) (bool, string)
}

// confirmedNonEmptyDemands: decoder function -> confirmed demand.
var confirmedNonEmptyDemands = map[string]strictSite{
	"newInlinedExtraDataFromData": {
		what: "the inlined-extra-data section has at least one entry",
		check: func(p *Prog) (bool, string) {
			enc := p.Method("InlinedExtraData", "Encode")
			if enc == nil {
				return false, "InlinedExtraData.Encode not found"
			}
			sites := p.CallersOf(enc)
			if len(sites) == 0 {
				return false, "no call of InlinedExtraData.Encode found"
			}
			for _, cs := range sites {
				in := cs.Instr.(ssa.Instruction)
				guarded := false
				for _, b := range cs.Caller.Blocks {
					ifi, ok := b.Instrs[len(b.Instrs)-1].(*ssa.If)
					if !ok {
						continue
					}
					c, ok := canon(ifi.Cond).(*ssa.Call)
					if !ok || c.Call.StaticCallee() == nil {
						continue
					}
					if p.returnsNotEmpty(c.Call.StaticCallee(), 0) && edgeDominates(b, 0, in.Block()) {
						guarded = true
					}
				}
				if !guarded {
					return false, "the section is written at " + p.InstrPos(in) + " without a dominating has-entries test"
				}
			}
			return true, "every write of the section is on the true edge of a has-entries test"
		},
	},
}

// returnsNotEmpty: g returns true only if the inlined extra data has entries (g is !empty(), or a
// wrapper that returns false or the result of such a function).
func (p *Prog) returnsNotEmpty(g *ssa.Function, depth int) bool {
	if depth > 2 || len(g.Blocks) == 0 {
		return false
	}
	okAll, any := true, false
	for _, ret := range returnsOf(g) {
		if len(ret.Results) != 1 {
			return false
		}
		v := canonRet(ret.Results[0])
		if c, ok := v.(*ssa.Const); ok && c.Value != nil && c.Value.String() == "false" {
			continue
		}
		if u, ok := v.(*ssa.UnOp); ok && u.Op == token.NOT {
			if c, ok := u.X.(*ssa.Call); ok && c.Call.StaticCallee() != nil && p.isEmptyTest(c.Call.StaticCallee()) {
				any = true
				continue
			}
		}
		if c, ok := v.(*ssa.Call); ok && c.Call.StaticCallee() != nil && p.returnsNotEmpty(c.Call.StaticCallee(), depth+1) {
			any = true
			continue
		}
		if ph, ok := v.(*ssa.Phi); ok {
			good := true
			for _, e := range ph.Edges {
				if c, ok := e.(*ssa.Const); ok && c.Value != nil && c.Value.String() == "false" {
					continue
				}
				if u, ok := e.(*ssa.UnOp); ok && u.Op == token.NOT {
					if c, ok := u.X.(*ssa.Call); ok && c.Call.StaticCallee() != nil && p.isEmptyTest(c.Call.StaticCallee()) {
						any = true
						continue
					}
				}
				good = false
			}
			if good {
				continue
			}
		}
		okAll = false
	}
	return okAll && any
}

// isEmptyTest: g is `return len(recv.extraData) == 0` on the inlined extra data.
func (p *Prog) isEmptyTest(g *ssa.Function) bool {
	if recvName(g) != "InlinedExtraData" || len(g.Blocks) != 1 {
		return false
	}
	for _, ret := range returnsOf(g) {
		bo, ok := canonRet(ret.Results[0]).(*ssa.BinOp)
		if !ok || bo.Op != token.EQL {
			return false
		}
		if k, ok := cInt(bo.Y); !ok || k != 0 {
			return false
		}
		a, isLen := isLenOf(bo.X)
		if !isLen {
			return false
		}
		fr, ok := asLoadedField(a)
		return ok && fr.Field == "extraData"
	}
	return false
}

func ruleP10(p *Prog, r *Report) {
	const R = "P10"
	scope, _ := p.decodeScope()
	n := 0
	isDecodedCount := func(v ssa.Value) bool {
		return sliceContains(v, func(x ssa.Value) bool {
			c, ok := x.(*ssa.Call)
			if !ok {
				return false
			}
			nm := calleeName(c)
			return strings.HasPrefix(nm, "Decode") && (strings.HasSuffix(nm, "Head") || nm == "DecodeBytes" || nm == "DecodeString")
		}, 0, map[ssa.Value]bool{})
	}
	for _, f := range sortedFuncs(p, scope) {
		for _, b := range f.Blocks {
			ifi, ok := b.Instrs[len(b.Instrs)-1].(*ssa.If)
			if !ok {
				continue
			}
			bo, ok := canon(ifi.Cond).(*ssa.BinOp)
			if !ok {
				continue
			}
			// count == 0, count < 1, count <= 0 (true edge rejects); count != 0, count > 0, count >= 1 (false edge rejects)
			k, isK := cInt(bo.Y)
			if !isK || !isDecodedCount(bo.X) {
				continue
			}
			rej := -1
			switch {
			case bo.Op == token.EQL && k == 0, bo.Op == token.LSS && k == 1, bo.Op == token.LEQ && k == 0:
				rej = 0
			case bo.Op == token.NEQ && k == 0, bo.Op == token.GTR && k == 0, bo.Op == token.GEQ && k == 1:
				rej = 1
			}
			if rej < 0 {
				continue
			}
			tgt := b.Succs[rej]
			ret, ok := tgt.Instrs[len(tgt.Instrs)-1].(*ssa.Return)
			if !ok {
				continue
			}
			if cl, _ := classifyReturn(ret); cl != retError {
				continue
			}
			n++
			cons := "non-empty-demand:" + p.Name(f)
			site, known := confirmedNonEmptyDemands[TopLevel(f).Name()]
			if !known {
				r.Bad(R, cons, p.InstrPos(ifi), "the decoder rejects a zero count here, and no encoder-side guard is known that keeps the library from writing none: a register the library wrote (an empty composite, an empty section) would no longer decode once it has to be read back from the ledger")
				continue
			}
			ok2, why := site.check(p)
			r.Decide(ok2, R, cons, p.InstrPos(ifi), site.what+": "+why, "the decoder demands that "+site.what+", but the encoder-side guard no longer holds: "+why)
		}
	}
	r.Floor(R, "zero-count rejections in decode scope", 1, n)
}

// P11 the shared compact-map entry has exactly one digest per key.
//
// Every inlined compact map that refers to a shared entry copies the entry's digests; its own
// value count is checked against the number of keys. Only "as many digests as keys" ties the
// copied amount to the size of the element itself (C19: memory in proportion to the input) - a
// decoder that accepts more digests than keys lets a short register make every referring element
// copy an arbitrarily long digest list. Decided by order abstraction: from the first comparison of
// the decoded key count with the digest count, a success return is reachable exactly when they
// are equal (values 0..2 realise every ordering).
func ruleP11(p *Prog, r *Report) {
	const R = "P11"
	n := 0
	scope, _ := p.decodeScope()
	for _, f := range sortedFuncs(p, scope) {
		res := f.Signature.Results()
		if res.Len() == 0 || typeName(res.At(0).Type()) != "compactMapExtraData" {
			continue
		}
		isKeyCount := func(v ssa.Value) bool {
			ex, ok := canonConv(v).(*ssa.Extract)
			if !ok || ex.Index != 0 {
				return false
			}
			c, ok := ex.Tuple.(*ssa.Call)
			return ok && calleeName(c) == "DecodeArrayHead"
		}
		isDigestCount := func(v ssa.Value) bool {
			bo, ok := canonConv(v).(*ssa.BinOp)
			if !ok || bo.Op != token.QUO {
				return false
			}
			_, isLen := isLenOf(bo.X)
			return isLen
		}
		var start *ssa.BasicBlock
		for _, b := range f.Blocks {
			ifi, ok := b.Instrs[len(b.Instrs)-1].(*ssa.If)
			if !ok {
				continue
			}
			bo, ok := ifi.Cond.(*ssa.BinOp)
			if !ok {
				continue
			}
			if (isKeyCount(bo.X) && isDigestCount(bo.Y)) || (isKeyCount(bo.Y) && isDigestCount(bo.X)) {
				if start == nil || b.Dominates(start) {
					start = b
				}
			}
		}
		n++
		cons := "digests-equal-keys:" + p.Name(f)
		if start == nil {
			r.Bad(R, cons, p.Pos(f.Pos()), "the decoder of the shared compact-map entry never compares the number of keys with the number of digests")
			continue
		}
		bad := ""
		for k := 0; k < 3 && bad == ""; k++ {
			for d := 0; d < 3 && bad == ""; d++ {
				val := func(v ssa.Value) (int, bool) {
					switch {
					case isKeyCount(v):
						return k, true
					case isDigestCount(v):
						return d, true
					}
					return 0, false
				}
				succ, _ := orderReachFrom(start, val)
				if k == d && !succ {
					bad = fmt.Sprintf("%d keys with %d digests are rejected", k, d)
				}
				if k != d && succ {
					bad = fmt.Sprintf("%d keys with %d digests are accepted", k, d)
				}
			}
		}
		r.Decide(bad == "", R, cons, p.InstrPos(start.Instrs[len(start.Instrs)-1]), "the entry is accepted exactly when it has as many digests as keys",
			"the shared compact-map entry is not required to have exactly one digest per key: "+bad+"; every inlined element that refers to the entry copies all its digests while only its value count is checked against the keys, so a short register can make the decoder allocate (elements x digests)")
	}
	r.Floor(R, "decoders of shared compact-map entries", 1, n)
}
