package main

// L28 a per-iteration verdict is accumulated, not overwritten.
//
// Several decisions of the encoders and of the tree code summarise a loop in one
// boolean ("all keys are in cached order", "every element is ..."), which then selects
// a code path. If the loop assigns the boolean afresh in every iteration, from a value
// that depends neither on its previous value nor on a test of it, only the last
// iteration decides: the summary claims "all" and means "the last one". Obligation per
// boolean that is carried around a loop and read after it: its value at the end of an
// iteration depends on its value at the start (x = x && ..., if !x { break }, x = true
// only under a condition), or it is read only inside the loop.

import (
	"fmt"
	"go/types"

	"golang.org/x/tools/go/ssa"
)

func ruleL28(p *Prog, r *Report) {
	const R = "L28"
	n := 0
	count := map[string]int{}
	for _, top := range p.TopFuncs() {
		if p.IsTestFile(top.Pos()) {
			continue
		}
		eachInstrDeep(top, func(fn *ssa.Function, in ssa.Instruction) {
			phi, ok := in.(*ssa.Phi)
			if !ok {
				return
			}
			if b, ok := phi.Type().Underlying().(*types.Basic); !ok || b.Kind() != types.Bool {
				return
			}
			h := phi.Block()
			// a loop header: some predecessor is dominated by it
			var back []int
			for i, pr := range h.Preds {
				if h.Dominates(pr) {
					back = append(back, i)
				}
			}
			if len(back) == 0 {
				return
			}
			body := loopBlocks(h)
			// read after the loop?
			usedAfter := false
			var walkRefs func(v ssa.Value, d int)
			seenV := map[ssa.Value]bool{}
			walkRefs = func(v ssa.Value, d int) {
				if seenV[v] || d > 4 || v.Referrers() == nil {
					return
				}
				seenV[v] = true
				for _, ref := range *v.Referrers() {
					if !body[ref.Block()] {
						usedAfter = true
					}
					if rv, ok := ref.(ssa.Value); ok {
						if _, isPhi := ref.(*ssa.Phi); isPhi && !body[ref.Block()] {
							walkRefs(rv, d+1)
						}
					}
				}
			}
			walkRefs(phi, 0)
			if !usedAfter {
				return
			}
			n++
			count[p.Name(fn)]++
			cons := fmt.Sprintf("loop-verdict-accumulated:%s#%d", p.Name(fn), count[p.Name(fn)])
			mentions := func(v ssa.Value) bool {
				return sliceContains(v, func(x ssa.Value) bool { return x == ssa.Value(phi) }, 0, map[ssa.Value]bool{})
			}
			// a test of the variable inside the loop (x && ..., if !x { ... })
			tested := false
			for b := range body {
				if ifi, ok := b.Instrs[len(b.Instrs)-1].(*ssa.If); ok && mentions(ifi.Cond) {
					tested = true
				}
			}
			overwritten := false
			for _, i := range back {
				e := phi.Edges[i]
				if e == ssa.Value(phi) || mentions(e) {
					continue
				}
				if _, isConst := e.(*ssa.Const); isConst {
					continue
				}
				overwritten = true
			}
			if overwritten && !tested {
				r.Bad(R, cons, p.InstrPos(phi), "a boolean that summarises this loop is assigned afresh in every iteration, from a value that depends neither on its previous value nor on a test of it: only the last iteration decides what is read after the loop (\"all\" has become \"the last one\")")
			} else {
				r.Ok(R, cons, p.InstrPos(phi), "the loop-carried boolean read after the loop depends on its previous value in every iteration")
			}
		})
	}
	r.Floor(R, "loop-carried booleans read after their loop", 1, n)
}
