package main

// L19 CBOR head width table (C06): GetUintCBORSize(n) - which client Value implementations and the library use to
// report the encoded size of unsigned integers - agrees with the widths the CBOR encoder writes: 1 byte up to 23,
// 2 up to 2^8-1, 3 up to 2^16-1, 5 up to 2^32-1, 9 above. Decided by interval partition: the constants the function
// compares its argument with (and the specification's boundaries) cut uint64 into intervals on which every branch
// condition has one truth value; each interval is followed through the CFG to its constant result.

import (
	"fmt"
	"go/token"
	"math/big"
	"sort"

	"golang.org/x/tools/go/ssa"
)

func ruleL19(p *Prog, r *Report) {
	const R = "L19"
	f := p.PkgFunc("GetUintCBORSize")
	cons := "cbor-width-table:GetUintCBORSize"
	if f == nil || len(f.Params) != 1 || len(f.Blocks) == 0 {
		r.Unk(R, cons, "-", "GetUintCBORSize(n) not found")
		r.Floor(R, "width functions", 1, 0)
		return
	}
	prm := f.Params[0]
	max64 := new(big.Int).SetUint64(^uint64(0))
	cuts := map[string]*big.Int{}
	addCut := func(k *big.Int) {
		if k.Sign() >= 0 && k.Cmp(max64) <= 0 {
			cuts[k.String()] = new(big.Int).Set(k)
		}
		k1 := new(big.Int).Add(k, big.NewInt(1))
		if k1.Sign() >= 0 && k1.Cmp(max64) <= 0 {
			cuts[k1.String()] = k1
		}
	}
	spec := []struct {
		upTo  *big.Int
		width int64
	}{
		{big.NewInt(23), 1},
		{big.NewInt(1<<8 - 1), 2},
		{big.NewInt(1<<16 - 1), 3},
		{big.NewInt(1<<32 - 1), 5},
		{max64, 9},
	}
	for _, s := range spec {
		addCut(s.upTo)
	}
	constOf := func(v ssa.Value) (*big.Int, bool) {
		c, ok := canonConv(v).(*ssa.Const)
		if !ok || c.Value == nil {
			return nil, false
		}
		b, ok := new(big.Int).SetString(c.Value.ExactString(), 10)
		return b, ok
	}
	undecided := ""
	eachInstr(f, func(in ssa.Instruction) {
		ifi, ok := in.(*ssa.If)
		if !ok {
			return
		}
		bo, ok := ifi.Cond.(*ssa.BinOp)
		if !ok {
			undecided = "branch on something other than a comparison at " + p.InstrPos(in)
			return
		}
		if canonConv(bo.X) == ssa.Value(prm) {
			if k, ok := constOf(bo.Y); ok {
				addCut(k)
				return
			}
		}
		if canonConv(bo.Y) == ssa.Value(prm) {
			if k, ok := constOf(bo.X); ok {
				addCut(k)
				return
			}
		}
		undecided = "comparison that is not `n op constant` at " + p.InstrPos(in)
	})
	if undecided != "" {
		r.Unk(R, cons, p.Pos(f.Pos()), undecided)
		r.Floor(R, "width functions", 1, 1)
		return
	}
	var pts []*big.Int
	pts = append(pts, big.NewInt(0))
	for _, c := range cuts {
		pts = append(pts, c)
	}
	sort.Slice(pts, func(i, j int) bool { return pts[i].Cmp(pts[j]) < 0 })
	cmp := func(op token.Token, a, b *big.Int) bool {
		c := a.Cmp(b)
		switch op {
		case token.LSS:
			return c < 0
		case token.LEQ:
			return c <= 0
		case token.GTR:
			return c > 0
		case token.GEQ:
			return c >= 0
		case token.EQL:
			return c == 0
		case token.NEQ:
			return c != 0
		}
		return false
	}
	bad := ""
	intervals := 0
	for i, lo := range pts {
		if i > 0 && lo.Cmp(pts[i-1]) == 0 {
			continue
		}
		intervals++
		// every n in [lo, next cut) compares alike with every constant: follow lo
		b := f.Blocks[0]
		width := int64(-1)
		for steps := 0; steps < 100; steps++ {
			last := b.Instrs[len(b.Instrs)-1]
			switch x := last.(type) {
			case *ssa.If:
				bo := x.Cond.(*ssa.BinOp)
				var t bool
				if canonConv(bo.X) == ssa.Value(prm) {
					k, _ := constOf(bo.Y)
					t = cmp(bo.Op, lo, k)
				} else {
					k, _ := constOf(bo.X)
					t = cmp(bo.Op, k, lo)
				}
				if t {
					b = b.Succs[0]
				} else {
					b = b.Succs[1]
				}
				continue
			case *ssa.Jump:
				b = b.Succs[0]
				continue
			case *ssa.Return:
				if k, ok := cInt(x.Results[0]); ok {
					width = k
				}
			}
			break
		}
		want := int64(9)
		for _, s := range spec {
			if lo.Cmp(s.upTo) <= 0 {
				want = s.width
				break
			}
		}
		if width != want && bad == "" {
			bad = fmt.Sprintf("for n from %s on the function reports %d byte(s) but the CBOR encoder writes %d", lo.String(), width, want)
		}
	}
	r.Decide(bad == "", R, cons, p.Pos(f.Pos()), fmt.Sprintf("reported width equals the CBOR head width on all %d intervals of uint64", intervals), "GetUintCBORSize disagrees with the CBOR encoding: "+bad+"; every slab holding such a value would report a size different from the bytes written")
	r.Floor(R, "width functions", 1, 1)
}
