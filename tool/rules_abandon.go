package main

// R8 a container created inside the library is not abandoned.
//
// NewArray / NewMap and the batch constructors allocate a slab id and store a root
// slab before they return the handle. A library routine that creates a container and
// then returns successfully with something else (another container built on a later
// path) leaves that root in storage: an extra root that no value reaches (C09), which
// a commit persists. Obligation per internal call of a storing constructor: every
// success return reachable from the call returns the created container (the value
// itself, or the result of a call that receives it).

import (
	"fmt"

	"golang.org/x/tools/go/ssa"
)

func (p *Prog) storingConstructors() map[*ssa.Function]bool {
	out := map[*ssa.Function]bool{}
	for _, f := range p.TopFuncs() {
		if p.IsTestFile(f.Pos()) || f.Signature.Results().Len() == 0 {
			continue
		}
		tn := typeName(f.Signature.Results().At(0).Type())
		if tn != "Array" && tn != "OrderedMap" {
			continue
		}
		reaches := false
		for g := range p.ReachFine(f) {
			if g.Name() == "GenerateSlabID" {
				reaches = true
			}
		}
		if reaches {
			out[f] = true
		}
	}
	return out
}

func ruleR8(p *Prog, r *Report) {
	const R = "R8"
	ctors := p.storingConstructors()
	n := 0
	count := map[string]int{}
	for _, top := range p.TopFuncs() {
		if p.IsTestFile(top.Pos()) {
			continue
		}
		eachInstrDeep(top, func(fn *ssa.Function, in ssa.Instruction) {
			c, ok := in.(*ssa.Call)
			if !ok {
				return
			}
			g := c.Call.StaticCallee()
			if g == nil {
				return
			}
			if g.Origin() != nil {
				g = g.Origin()
			}
			if !ctors[g] {
				return
			}
			var made ssa.Value = c
			if c.Referrers() != nil {
				for _, ref := range *c.Referrers() {
					if ex, ok := ref.(*ssa.Extract); ok && ex.Index == 0 {
						made = ex
					}
				}
			}
			n++
			count[p.Name(fn)]++
			cons := fmt.Sprintf("created-container-returned:%s#%d", p.Name(fn), count[p.Name(fn)])
			var derives func(v ssa.Value, depth int) bool
			derives = func(v ssa.Value, depth int) bool {
				if depth > 5 || v == nil {
					return false
				}
				v = canon(v)
				if v == made || v == ssa.Value(c) {
					return true
				}
				switch x := v.(type) {
				case *ssa.Extract:
					return derives(x.Tuple, depth+1)
				case *ssa.Call:
					for _, a := range x.Call.Args {
						if derives(a, depth+1) {
							return true
						}
					}
				case *ssa.Phi:
					for _, e := range x.Edges {
						if derives(e, depth+1) {
							return true
						}
					}
				case *ssa.MakeInterface:
					return derives(x.X, depth+1)
				case *ssa.UnOp:
					return derives(x.X, depth+1)
				}
				return false
			}
			var bad ssa.Instruction
			reachFrom(fn, in, nil, func(y ssa.Instruction) bool {
				ret, ok := y.(*ssa.Return)
				if !ok || bad != nil {
					return bad != nil
				}
				if cl, _ := classifyReturn(ret); cl == retError {
					return true
				}
				if len(ret.Results) == 0 || !derives(ret.Results[0], 0) {
					// the whole tuple of a forwarded call
					bad = ret
				}
				return true
			})
			if bad != nil {
				r.Bad(R, cons, p.InstrPos(in), "a container is created here (slab id allocated, root slab stored) and the success return at "+p.InstrPos(bad)+" returns something else: the created root stays in storage as an extra root that no value reaches")
			} else {
				r.Ok(R, cons, p.InstrPos(in), "every success return reachable from the creation returns the created container")
			}
		})
	}
	r.Floor(R, "internal calls of storing constructors", 3, n)
}
