package main

// E. Errors: E1 category table, E2 external taint; K1 collision limit.

import (
	"fmt"
	"go/token"
	"go/types"
	"sort"
	"strings"

	"golang.org/x/tools/go/ssa"
)

// categoryOf resolves an error constructor to the category constructor it ends in
// ("User", "Fatal", "External", "" = uncategorised), following delegation.
func (p *Prog) categoryOf(f *ssa.Function, depth int) string {
	if f == nil || depth > 4 {
		return "?"
	}
	switch f.Name() {
	case "NewUserError":
		return "User"
	case "NewFatalError":
		return "Fatal"
	case "NewExternalError":
		return "External"
	}
	cats := map[string]bool{}
	for _, ret := range returnsOf(f) {
		if len(ret.Results) != 1 {
			return "?"
		}
		v := canon(ret.Results[0])
		switch x := v.(type) {
		case *ssa.Call:
			g := x.Call.StaticCallee()
			if g == nil || g.Pkg != p.RootSSA {
				cats[""] = true
			} else {
				cats[p.categoryOf(g, depth+1)] = true
			}
		case *ssa.MakeInterface:
			cats[""] = true // a bare error value, no category wrapper
		default:
			cats["?"] = true
		}
	}
	if len(cats) == 1 {
		for k := range cats {
			return k
		}
	}
	return "?"
}

// E1 category table.
func ruleE1(p *Prog, r *Report) {
	const R = "E1"
	table := []struct{ ctor, cat, why string }{
		{"NewIndexOutOfBoundsError", "User", "index out of bounds is a caller mistake"},
		{"NewSliceOutOfBoundsError", "User", "range out of bounds is a caller mistake"},
		{"NewInvalidSliceIndexError", "User", "invalid range is a caller mistake"},
		{"NewKeyNotFoundError", "User", "absent key is a caller mistake"},
		{"NewArrayElementCannotExceedMaxElementCountError", "User", "element count limit hit by the caller"},
		{"NewUnexpectedElementTypeError", "User", "wrong element type supplied by the caller"},
		{"NewCollisionLimitError", "Fatal", "collision limit is a limit failure"},
		{"NewSlabIDError", "Fatal", "undefined identifier is an internal failure"},
		{"NewSlabIDErrorf", "Fatal", "undefined identifier is an internal failure"},
		{"NewSlabNotFoundError", "Fatal", "missing slab is an internal failure"},
		{"NewSlabNotFoundErrorf", "Fatal", "missing slab is an internal failure"},
	}
	n := 0
	for _, row := range table {
		f := p.PkgFunc(row.ctor)
		if f == nil {
			r.Unk(R, "ctor:"+row.ctor, "-", "constructor not found")
			continue
		}
		n++
		got := p.categoryOf(f, 0)
		r.Decide(got == row.cat, R, "ctor:"+row.ctor, p.Pos(f.Pos()), row.why+": wraps with "+got+"Error",
			fmt.Sprintf("constructor yields category %q, the contract requires %q (%s)", got, row.cat, row.why))
	}
	// every other New*Error* constructor is categorised somehow (no bare errors leave the package)
	for _, f := range p.TopFuncs() {
		nm := f.Name()
		if f.Signature.Recv() != nil || !(strings.HasPrefix(nm, "New") || strings.HasPrefix(nm, "new")) || !(strings.Contains(nm, "Error")) {
			continue
		}
		if f.Signature.Results().Len() != 1 || !isErrorType(f.Signature.Results().At(0).Type()) {
			continue
		}
		if nm == "NewUserError" || nm == "NewFatalError" || nm == "NewExternalError" {
			continue
		}
		inTable := false
		for _, row := range table {
			if row.ctor == nm {
				inTable = true
			}
		}
		if inTable {
			continue
		}
		got := p.categoryOf(f, 0)
		r.Decide(got == "User" || got == "Fatal" || got == "External", R, "ctor-categorised:"+nm, p.Pos(f.Pos()), "categorised as "+got, "error constructor returns an uncategorised error")
	}
	// category types keep Unwrap and errors.As works through them
	for _, t := range []string{"UserError", "FatalError", "ExternalError"} {
		u := p.Method(t, "Unwrap")
		ok := false
		if u != nil {
			for _, ret := range returnsOf(u) {
				if fr, isf := asLoadedField(ret.Results[0]); isf && fr.Field == "err" {
					ok = true
				}
			}
		}
		r.Decide(ok, R, "unwrap:"+t, "-", "Unwrap returns the wrapped cause (errors.As reaches the specific error type)", "category type lost its Unwrap: errors.As can no longer find the specific error")
	}
	// the wrap helper: nil -> nil, categorised -> unchanged, otherwise NewExternalError(err, ...)
	if w := p.PkgFunc("wrapErrorfAsExternalErrorIfNeeded"); w != nil {
		targets := map[string]bool{}
		eachInstr(w, func(in ssa.Instruction) {
			if c, ok := in.(*ssa.Call); ok && c.Call.StaticCallee() != nil && c.Call.StaticCallee().String() == "errors.As" {
				t := c.Call.Args[1]
				if mi, ok := t.(*ssa.MakeInterface); ok {
					t = mi.X
				}
				targets[typeName(t.Type())] = true
			}
		})
		okT := targets["UserError"] && targets["FatalError"] && targets["ExternalError"]
		okRet := false
		unchanged := false
		for _, ret := range returnsOf(w) {
			v := canon(ret.Results[0])
			if c, ok := v.(*ssa.Call); ok && c.Call.StaticCallee() != nil && c.Call.StaticCallee().Name() == "NewExternalError" && sameValue(c.Call.Args[0], w.Params[0]) {
				okRet = true
			}
			if v == ssa.Value(w.Params[0]) {
				unchanged = true
			}
		}
		r.Decide(okT && okRet && unchanged, R, "wrap-helper", p.Pos(w.Pos()), "recognises all three categories, returns categorised errors unchanged, wraps the rest as ExternalError",
			"wrapErrorfAsExternalErrorIfNeeded no longer (a) tests all three categories, (b) returns categorised errors unchanged, or (c) wraps the rest with NewExternalError")
	} else {
		r.Unk(R, "anchor:wrapErrorfAsExternalErrorIfNeeded", "-", "not found")
	}
	r.Floor(R, "contract constructors", 9, n)
}

// externalSource: the call's error result comes from a caller-supplied component.
func (p *Prog) externalSource(c *ssa.Call) (string, bool) {
	if g := c.Call.StaticCallee(); g != nil {
		if src := p.rawSourceHelpers()[g]; src != "" {
			return src + " (through " + g.Name() + ")", true
		}
	}
	return p.externalSource0(c)
}

func (p *Prog) externalSource0(c *ssa.Call) (string, bool) {
	cc := &c.Call
	if cc.IsInvoke() {
		tn := typeName(cc.Value.Type())
		switch tn {
		case "Ledger", "BaseStorage", "SlabStorage", "DigesterBuilder":
			n := namedOf(cc.Value.Type())
			if n != nil && n.Obj().Pkg() != nil && n.Obj().Pkg().Path() == rootPkgPath {
				return tn + "." + cc.Method.Name(), true
			}
		}
		return "", false
	}
	if cc.StaticCallee() == nil {
		if _, isB := cc.Value.(*ssa.Builtin); isB {
			return "", false
		}
		tn := typeName(cc.Value.Type())
		switch tn {
		case "ValueComparator", "HashInputProvider":
			return tn, true
		}
	}
	return "", false
}

// rawSourceHelpers: unexported functions of the root package that call a caller-supplied component and hand its
// error back as it is (`return ledger.SetValue(..)` in a helper shared by Store and Remove). Such a helper is itself
// a source for its callers, which must wrap; it is not reported as long as every caller is library code.
var rawHelperCache map[*ssa.Function]string

func (p *Prog) rawSourceHelpers() map[*ssa.Function]string {
	if rawHelperCache != nil {
		return rawHelperCache
	}
	rawHelperCache = map[*ssa.Function]string{}
	for _, f := range p.TopFuncs() {
		if p.IsTestFile(f.Pos()) || f.Object() == nil || f.Object().Exported() || !lastResultIsError(f) {
			continue
		}
		src := ""
		eachInstr(f, func(in ssa.Instruction) {
			c, ok := in.(*ssa.Call)
			if !ok {
				return
			}
			s0, ok := p.externalSource0(c)
			if !ok {
				return
			}
			var ev ssa.Value
			if isErrorType(c.Type()) {
				ev = c
			} else if tup, ok := c.Type().(*types.Tuple); ok && tup.Len() > 0 && isErrorType(tup.At(tup.Len()-1).Type()) {
				for _, ref := range *c.Referrers() {
					if ex, ok := ref.(*ssa.Extract); ok && ex.Index == tup.Len()-1 {
						ev = ex
					}
				}
			}
			if ev == nil {
				return
			}
			for _, ret := range returnsOf(f) {
				if len(ret.Results) > 0 && sameValue(ret.Results[len(ret.Results)-1], ev) {
					src = s0
				}
			}
		})
		if src == "" {
			continue
		}
		cs := p.CallersOf(f)
		all := len(cs) > 0
		for _, c := range cs {
			if p.IsTestFile(c.Caller.Pos()) {
				all = false
				continue
			}
			// every caller must itself sanitise the error: a caller that passes it on as it is leaves the helper the
			// place where the wrapping is missing (and the report stays there)
			cv, ok := c.Instr.(*ssa.Call)
			if !ok {
				all = false
				continue
			}
			var ev ssa.Value
			if isErrorType(cv.Type()) {
				ev = cv
			} else if tup, ok := cv.Type().(*types.Tuple); ok && tup.Len() > 0 {
				for _, ref := range *cv.Referrers() {
					if ex, ok := ref.(*ssa.Extract); ok && ex.Index == tup.Len()-1 {
						ev = ex
					}
				}
			}
			if ev == nil {
				all = false
				continue
			}
			for _, ret := range returnsOf(c.Caller) {
				if len(ret.Results) > 0 && sameValue(ret.Results[len(ret.Results)-1], ev) && !knownNil(ev, ret.Block()) {
					all = false
				}
			}
		}
		if all {
			rawHelperCache[f] = src
		}
	}
	return rawHelperCache
}

// errFirstExempt: functions that consult a found flag before the error, with the reason.
var errFirstExempt = map[string]bool{
	"CheckStorageHealth": true, // diagnostic over a fully loaded storage: a read error is reported as slab-not-found (observation in DESIGN section 7; C20 speaks of loaded storages, C18 of lookups)
}

// E2 errors of caller-supplied components are wrapped as external errors.
func ruleE2(p *Prog, r *Report) {
	const R = "E2"
	n := 0
	for _, top := range p.TopFuncs() {
		// the storage implementations and test storages are themselves boundary code that wraps; include them too
		eachInstrDeep(top, func(fn *ssa.Function, in ssa.Instruction) {
			c, ok := in.(*ssa.Call)
			if !ok {
				return
			}
			src, ok := p.externalSource(c)
			if !ok {
				return
			}
			// error result
			var ev ssa.Value
			if isErrorType(c.Type()) {
				ev = c
			} else if tup, ok := c.Type().(*types.Tuple); ok && tup.Len() > 0 && isErrorType(tup.At(tup.Len()-1).Type()) {
				for _, ref := range *c.Referrers() {
					if ex, ok := ref.(*ssa.Extract); ok && ex.Index == tup.Len()-1 {
						ev = ex
					}
				}
				if ev == nil {
					n++
					r.Bad(R, "source:"+p.Name(fn)+":"+src, p.InstrPos(in), "error of a caller-supplied component is discarded")
					return
				}
			} else {
				return
			}
			n++
			cons := "source:" + p.Name(fn) + ":" + src
			// every return that carries ev must carry it sanitised
			raw := ""
			for _, ret := range returnsOf(fn) {
				if len(ret.Results) == 0 {
					continue
				}
				last := ret.Results[len(ret.Results)-1]
				if !isErrorType(last.Type()) {
					continue
				}
				if sameValue(last, ev) && !knownNil(ev, ret.Block()) {
					// tail return of a storage-to-storage delegation is fine when the callee is an in-package categorising method
					raw = p.InstrPos(ret)
				}
			}
			// (b) the error is not re-categorised: it may be handed only to the wrap helpers / NewExternalError
			// (a value that may be this error - through phis - handed to another error constructor hides the
			// caller-supplied component's failure behind a library category)
			if raw == "" {
				var reach func(v ssa.Value, depth int, seen map[ssa.Value]bool) string
				reach = func(v ssa.Value, depth int, seen map[ssa.Value]bool) string {
					if v == nil || depth > 6 || seen[v] || v.Referrers() == nil {
						return ""
					}
					seen[v] = true
					for _, ref := range *v.Referrers() {
						switch x := ref.(type) {
						case *ssa.Phi:
							if w := reach(x, depth+1, seen); w != "" {
								return w
							}
						case *ssa.MakeInterface:
							if w := reach(x, depth+1, seen); w != "" {
								return w
							}
						case *ssa.ChangeInterface:
							if w := reach(x, depth+1, seen); w != "" {
								return w
							}
						case *ssa.Store:
							// an operand of fmt.Errorf("...%w", err): the formatted error still is this failure
							if ia, ok := x.Addr.(*ssa.IndexAddr); ok && x.Val == v {
								if arr, ok := ia.X.(*ssa.Alloc); ok {
									for _, r2 := range *arr.Referrers() {
										sl, ok := r2.(*ssa.Slice)
										if !ok {
											continue
										}
										for _, r3 := range *sl.Referrers() {
											if fc, ok := r3.(*ssa.Call); ok && fc.Call.StaticCallee() != nil && fc.Call.StaticCallee().Pkg != nil && fc.Call.StaticCallee().Pkg.Pkg.Path() == "fmt" && fc.Call.StaticCallee().Name() == "Errorf" {
												if w := reach(fc, depth+1, seen); w != "" {
													return w
												}
											}
										}
									}
								}
							}
							// spilled local: follow the loads of the cell
							if al, ok := x.Addr.(*ssa.Alloc); ok && x.Val == v {
								for _, r2 := range *al.Referrers() {
									if ld, ok := r2.(*ssa.UnOp); ok && ld.Op == token.MUL {
										if w := reach(ld, depth+1, seen); w != "" {
											return w
										}
									}
								}
							}
						case *ssa.Call:
							g := x.Call.StaticCallee()
							if g == nil || g.Pkg == nil || g.Pkg.Pkg.Path() != rootPkgPath || !isErrorConstructorCall(x) {
								continue
							}
							if isWrapHelperCall(x) || g.Name() == "NewExternalError" {
								continue
							}
							if knownNil(v, x.Block()) {
								continue
							}
							return g.Name() + " at " + p.InstrPos(x)
						}
					}
					return ""
				}
				if w := reach(ev, 0, map[ssa.Value]bool{}); w != "" && !isDiagnosticFile(p.Fset.Position(fn.Pos()).Filename) {
					n++
					r.Bad(R, "recategorised:"+p.Name(fn)+":"+src, p.InstrPos(in), "the error of "+src+" (caller-supplied component) can be handed to "+w+": the failure of the caller's component is reported under a library category instead of as an external error")
				}
			}
			// (c) error first: a found/ok flag returned next to the error is consulted only where the error is known to be nil
			if tup, ok := c.Type().(*types.Tuple); ok && tup.Len() >= 2 && !isDiagnosticFile(p.Fset.Position(fn.Pos()).Filename) && !p.errFirstExemptFn(fn) {
				for _, ref := range *c.Referrers() {
					ex, ok := ref.(*ssa.Extract)
					if !ok || ex.Index == tup.Len()-1 {
						continue
					}
					if b, ok := ex.Type().Underlying().(*types.Basic); !ok || b.Kind() != types.Bool {
						continue
					}
					for _, blk := range fn.Blocks {
						ifi, ok := blk.Instrs[len(blk.Instrs)-1].(*ssa.If)
						if !ok {
							continue
						}
						cv := canon(ifi.Cond)
						if u, ok := cv.(*ssa.UnOp); ok && u.Op == token.NOT {
							cv = canon(u.X)
						}
						if cv != ssa.Value(ex) && !sameValue(cv, ex) {
							continue
						}
						n++
						r.Decide(knownNil(ev, blk), R, "error-first:"+p.Name(fn)+":"+src, p.InstrPos(ifi),
							"the found flag is consulted only after the error was tested",
							"the found flag returned by "+src+" is consulted before its error: a failure of the caller's component (found=false, err!=nil) is taken for 'not found' and reported under a library category")
					}
				}
			}
			if raw != "" && p.rawSourceHelpers()[TopLevel(fn)] != "" {
				r.Ok(R, cons, p.InstrPos(in), "private helper hands the component's error to its callers, each of which is checked as a caller of the component")
				return
			}
			if raw != "" {
				// allowed: PersistentSlabStorage delegating to its own methods (already categorised) is not an external source;
				// SlabStorage.X invoked on the SlabStorage interface is external and must be wrapped.
				r.Bad(R, cons, raw, "error returned by "+src+" (caller-supplied component) is returned without wrapError*AsExternalErrorIfNeeded: it would reach the caller uncategorised")
			} else {
				r.Ok(R, cons, p.InstrPos(in), "error is tested and leaves the function only through a wrap/constructor, or not at all")
			}
		})
	}
	r.Floor(R, "calls into caller-supplied components with an error result", 30, n)
}

// K1 collision limit.
func ruleK1(p *Prog, r *Report) {
	const R = "K1"
	n := 0
	for _, top := range p.TopFuncs() {
		eachInstr(top, func(in ssa.Instruction) {
			c, ok := in.(*ssa.Call)
			if !ok || c.Call.StaticCallee() == nil || c.Call.StaticCallee().Name() != "NewCollisionLimitError" {
				return
			}
			n++
			name := p.Name(top)
			b := in.Block()
			// (1) level == 0: the rejection lies on the "level is zero" edge of a test of the list's level
			// (`if level == 0 { ... }` or the early exit `if level != 0 { return nil }`)
			lvl := false
			for d := b; d != nil; d = d.Idom() {
				ifi, ok := d.Instrs[len(d.Instrs)-1].(*ssa.If)
				if !ok {
					continue
				}
				bo, ok := ifi.Cond.(*ssa.BinOp)
				if !ok || (bo.Op != token.EQL && bo.Op != token.NEQ) {
					continue
				}
				z, isz := constInt(bo.Y)
				if !isz || z != 0 {
					continue
				}
				isLevel := false
				if fr, ok := asLoadedField(bo.X); ok && fr.Field == "level" {
					isLevel = true
				}
				if prm, ok := canon(bo.X).(*ssa.Parameter); ok && prm.Name() == "level" {
					isLevel = true
				}
				if !isLevel {
					continue
				}
				zeroEdge := 0
				if bo.Op == token.NEQ {
					zeroEdge = 1
				}
				if edgeDominates(d, zeroEdge, b) {
					lvl = true
				}
			}
			r.Decide(lvl, R, "limit-first-level-only:"+name, p.InstrPos(in), "limit rejection is control dependent on level == 0", "collision-limit rejection is not confined to the first digest level")
			// (2) comparison with maxCollisionLimitPerDigest
			lim := controlDependsOnValue(top, b, func(v ssa.Value) bool {
				bo, ok := v.(*ssa.BinOp)
				if !ok || (bo.Op != token.GEQ && bo.Op != token.GTR && bo.Op != token.LSS && bo.Op != token.LEQ) {
					return false
				}
				isLim := func(x ssa.Value) bool {
					u, ok := canon(x).(*ssa.UnOp)
					if !ok || u.Op != token.MUL {
						return false
					}
					g, ok := u.X.(*ssa.Global)
					return ok && g.Name() == "maxCollisionLimitPerDigest"
				}
				return isLim(bo.X) || isLim(bo.Y)
			})
			r.Decide(lim, R, "limit-compared:"+name, p.InstrPos(in), "rejection depends on a comparison with maxCollisionLimitPerDigest", "collision-limit rejection does not depend on a comparison with maxCollisionLimitPerDigest")
			// (2b) whatever the owner: the rejection does not depend on the address the map lives under
			byOwner := controlDependsOnValue(top, b, func(v ssa.Value) bool {
				return typeName(v.Type()) == "Address" || typeName(v.Type()) == "SlabID"
			})
			r.Decide(!byOwner, R, "limit-whatever-the-owner:"+name, p.InstrPos(in), "the rejection does not depend on the owner address", "the collision-limit rejection depends on the address (or slab id) the map is stored under: maps of some owners - temporary ones, say, which can later be copied into an account - grow past the limit unchecked")
			// (3) only for absent keys: errors.As(err, *KeyNotFoundError) of an element Get with the key parameter
			var getCall *ssa.Call
			knf := controlDependsOnValue(top, b, func(v ssa.Value) bool {
				cc, ok := v.(*ssa.Call)
				if !ok || cc.Call.StaticCallee() == nil {
					return false
				}
				if cc.Call.StaticCallee().String() != "errors.As" {
					// a private predicate that is errors.As(err, *KeyNotFoundError) inside
					g := cc.Call.StaticCallee()
					if g.Pkg == nil || g.Pkg.Pkg.Path() != rootPkgPath || len(g.Params) != 1 || len(cc.Call.Args) != 1 || len(g.Blocks) == 0 {
						return false
					}
					okAll := len(returnsOf(g)) > 0
					for _, ret := range returnsOf(g) {
						ic, ok := canon(ret.Results[0]).(*ssa.Call)
						if !ok || ic.Call.StaticCallee() == nil || ic.Call.StaticCallee().String() != "errors.As" || canon(ic.Call.Args[0]) != ssa.Value(g.Params[0]) {
							okAll = false
							continue
						}
						t := ic.Call.Args[1]
						if mi, ok := t.(*ssa.MakeInterface); ok {
							t = mi.X
						}
						if typeName(t.Type()) != "KeyNotFoundError" {
							okAll = false
						}
					}
					if !okAll {
						return false
					}
					if ex, ok := canon(cc.Call.Args[0]).(*ssa.Extract); ok {
						if g2, ok := ex.Tuple.(*ssa.Call); ok && calleeName(g2) == "Get" {
							getCall = g2
							return true
						}
					}
					return false
				}
				t := cc.Call.Args[1]
				if mi, ok := t.(*ssa.MakeInterface); ok {
					t = mi.X
				}
				if typeName(t.Type()) != "KeyNotFoundError" {
					return false
				}
				// the error examined is the result of elem.Get(..., key)
				if ex, ok := canon(cc.Call.Args[0]).(*ssa.Extract); ok {
					if g, ok := ex.Tuple.(*ssa.Call); ok && calleeName(g) == "Get" {
						getCall = g
						return true
					}
				}
				return false
			})
			keyOK := false
			if getCall != nil {
				for _, a := range getCall.Call.Args {
					if prm, ok := canon(a).(*ssa.Parameter); ok && prm.Name() == "key" {
						keyOK = true
					}
				}
			}
			r.Decide(knf && keyOK, R, "limit-absent-keys-only:"+name, p.InstrPos(in), "rejection only after Get(key) reported KeyNotFoundError: updates of existing keys pass", "collision-limit rejection is not confined to keys that are absent (updates of existing keys would be refused, or the probe uses another key)")
			// (4) before any effect: no element mutation on any path from entry to the rejection
			var mut ssa.Instruction
			entry := top.Blocks[0].Instrs[0]
			reachBackFrom(top, in, func(y ssa.Instruction) bool {
				if cc, ok := y.(ssa.CallInstruction); ok {
					switch calleeName(cc) {
					case "Set", "Remove", "storeSlab", "Store", "GenerateSlabID":
						mut = y
						return true
					}
				}
				if st, ok := y.(*ssa.Store); ok {
					if rt := rootOfAddr(st.Addr); rt != "fresh" {
						if _, isAl := st.Addr.(*ssa.Alloc); !isAl {
							mut = y
							return true
						}
					}
				}
				return y == entry
			})
			r.Decide(mut == nil, R, "limit-before-effect:"+name, p.InstrPos(in), "no mutation, store or allocation precedes the rejection on any path", "an effect at "+p.InstrPos(mut)+" can precede the collision-limit rejection: the map would not be left unchanged")
		})
	}
	r.Floor(R, "collision-limit rejection sites", 1, n)
}

var _ = sort.Strings

// K2 entry counts behind the collision limit: element.Count of a group is the number of
// entries of its element list (delegation to elements.Count()), of a single element the
// constant 1; elements.Count is the length of the receiver's own element slice.
func ruleK2(p *Prog, r *Report) {
	const R = "K2"
	n := 0
	elemI := p.LookupType("element")
	groupI := p.LookupType("elementGroup")
	elemsI := p.LookupType("elements")
	if elemI == nil || groupI == nil || elemsI == nil {
		r.Unk(R, "anchor:element-interfaces", "-", "element / elementGroup / elements interfaces not found")
		return
	}
	gi, _ := groupI.Underlying().(*types.Interface)
	ei, _ := elemI.Underlying().(*types.Interface)
	li, _ := elemsI.Underlying().(*types.Interface)
	for _, t := range p.ImplementersOf(ei) {
		tn := typeName(t)
		f := p.Method(tn, "Count")
		cons := "element-count:" + tn
		if f == nil {
			r.Unk(R, cons, "-", "Count method not found")
			continue
		}
		n++
		isGroup := types.Implements(t, gi)
		good := true
		why := ""
		for _, ret := range returnsOf(f) {
			if c, _ := classifyReturn(ret); c != retSuccess {
				continue
			}
			v := canonConv(ret.Results[0])
			if isGroup {
				c, ok := v.(*ssa.Call)
				if !ok || calleeName(c) != "Count" || callRecv(c) == nil || !types.Implements(callRecv(c).Type(), li) && !types.Implements(types.NewPointer(callRecv(c).Type()), li) {
					good = false
					why = "a collision group's Count does not return the entry count of its element list"
					continue
				}
				// the list is the receiver's own: its elements field or the result of its Elements()
				// the list is the receiver's own: reached from the receiver (its elements field, its Elements(), the slab its id names)
				q := &depQuery{p: p, memo: map[depKey]int{}, lost: map[depKey]ssa.Instruction{}}
				recvP := f.Params[0]
				own := q.dependsOn(callRecv(c), func(v ssa.Value) bool { return v == ssa.Value(recvP) }, map[ssa.Value]bool{}, 0)
				if !own {
					good = false
					why = "the counted element list is not the group's own"
				}
			} else {
				if k, ok := constInt(v); !ok || k != 1 {
					good = false
					why = "a single element's Count is not the constant 1"
				}
			}
		}
		r.Decide(good, R, cons, p.Pos(f.Pos()), "Count reports the number of entries (group: its own element list's Count; single element: 1)", why+": the collision limit and the element statistics count entries through this method")
	}
	for _, t := range p.ImplementersOf(li) {
		tn := typeName(t)
		f := p.Method(tn, "Count")
		cons := "elements-count:" + tn
		if f == nil {
			r.Unk(R, cons, "-", "Count method not found")
			continue
		}
		n++
		good := true
		for _, ret := range returnsOf(f) {
			v := canonConv(ret.Results[0])
			c, ok := v.(*ssa.Call)
			if !ok {
				good = false
				continue
			}
			bi, ok := c.Call.Value.(*ssa.Builtin)
			if !ok || bi.Name() != "len" {
				good = false
				continue
			}
			lf, ok := asLoadedField(canon(c.Call.Args[0]))
			if !ok || lf.Field != "elems" || !sameValue(lf.Base, f.Params[0]) {
				good = false
			}
		}
		r.Decide(good, R, cons, p.Pos(f.Pos()), "Count is the length of the receiver's element slice", "Count of an element list is not the length of its own element slice")
	}
	r.Floor(R, "Count implementations of elements and element lists", 5, n)
}

// E4 undefined identifiers are refused at the API boundary (C18): each entry point that takes the identifier of a
// slab to open, store or remove refuses SlabIDUndefined - a comparison of that parameter with SlabIDUndefined whose
// "equal" edge leads to an error return built by NewSlabIDError*, before anything else happens (the ordering is
// R6's business). The entry points are the contract table below; a missing or inverted guard is a violation.
var undefinedIDEntryPoints = []struct{ recv, name string }{
	{"", "NewArrayWithRootID"},
	{"", "NewMapWithRootID"},
	{"PersistentSlabStorage", "Store"},
	{"PersistentSlabStorage", "Remove"},
}

func ruleE4(p *Prog, r *Report) {
	const R = "E4"
	n := 0
	for _, ep := range undefinedIDEntryPoints {
		var f *ssa.Function
		if ep.recv == "" {
			f = p.PkgFunc(ep.name)
		} else {
			f = p.Method(ep.recv, ep.name)
		}
		cons := "undefined-id-refused:" + ep.name
		if ep.recv != "" {
			cons = "undefined-id-refused:(*" + ep.recv + ")." + ep.name
		}
		if f == nil {
			r.Unk(R, cons, "-", "entry point not found")
			continue
		}
		n++
		// the SlabID parameter
		var idp *ssa.Parameter
		for _, prm := range f.Params {
			if typeName(prm.Type()) == "SlabID" {
				idp = prm
			}
		}
		if idp == nil {
			r.Unk(R, cons, p.Pos(f.Pos()), "no SlabID parameter")
			continue
		}
		good := false
		why := "no comparison of the identifier with SlabIDUndefined guards the entry point"
		for _, b := range f.Blocks {
			ifi, ok := b.Instrs[len(b.Instrs)-1].(*ssa.If)
			if !ok {
				continue
			}
			bo, ok := ifi.Cond.(*ssa.BinOp)
			if !ok || (bo.Op != token.EQL && bo.Op != token.NEQ) {
				continue
			}
			isUndef := func(v ssa.Value) bool {
				u, ok := canon(v).(*ssa.UnOp)
				if !ok {
					return false
				}
				g, ok := u.X.(*ssa.Global)
				return ok && g.Name() == "SlabIDUndefined"
			}
			isID := func(v ssa.Value) bool { return sameValue(v, idp) }
			if !((isID(bo.X) && isUndef(bo.Y)) || (isID(bo.Y) && isUndef(bo.X))) {
				continue
			}
			eqSucc := 0
			if bo.Op == token.NEQ {
				eqSucc = 1
			}
			// the "equal" edge must end in an error return built by NewSlabIDError*, the other edge must not be that return
			tb := b.Succs[eqSucc]
			rejects := false
			for depth := 0; tb != nil && depth < 3; depth++ {
				last := tb.Instrs[len(tb.Instrs)-1]
				if ret, ok := last.(*ssa.Return); ok {
					cl, ev := classifyReturn(ret)
					if cl == retError {
						if c, ok := canon(ev).(*ssa.Call); ok && c.Call.StaticCallee() != nil && strings.HasPrefix(c.Call.StaticCallee().Name(), "NewSlabIDError") {
							rejects = true
						}
					}
					break
				}
				if _, ok := last.(*ssa.Jump); ok {
					tb = tb.Succs[0]
					continue
				}
				break
			}
			if !rejects {
				why = "the comparison with SlabIDUndefined at " + p.InstrPos(ifi) + " does not lead to a SlabIDError on its 'equal' edge (inverted or redirected guard)"
				continue
			}
			// it must guard the whole function: the block is the entry block or dominates every other exit
			if b == f.Blocks[0] || b.Dominates(f.Blocks[len(f.Blocks)-1]) {
				good = true
			} else {
				// every success return is dominated by the not-equal edge
				all := true
				for _, ret := range returnsOf(f) {
					if cl, _ := classifyReturn(ret); cl != retError && !edgeDominates(b, 1-eqSucc, ret.Block()) {
						all = false
					}
				}
				good = all
				if !all {
					why = "the undefined-identifier guard does not dominate every success return"
				}
			}
		}
		r.Decide(good, R, cons, p.Pos(f.Pos()), "SlabIDUndefined is refused with a SlabIDError before anything else", why+": a request with an undefined identifier is served instead of being refused")
	}
	r.Floor(R, "entry points that must refuse an undefined identifier", 4, n)
}

// errFirstExemptFn: the function is in the exemption table, or is a private helper called only from exempt functions.
func (p *Prog) errFirstExemptFn(fn *ssa.Function) bool {
	t := TopLevel(fn)
	if errFirstExempt[p.Name(t)] {
		return true
	}
	if t.Object() == nil || t.Object().Exported() {
		return false
	}
	cs := p.CallersOf(t)
	if len(cs) == 0 {
		return false
	}
	for _, c := range cs {
		ct := TopLevel(c.Caller)
		if p.IsTestFile(ct.Pos()) {
			continue
		}
		if !errFirstExempt[p.Name(ct)] {
			return false
		}
	}
	return true
}
