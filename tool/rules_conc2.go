package main

// G4 pool discipline (no use after put, no alias escapes), G5 no global writes.

import (
	"fmt"
	"go/token"
	"go/types"
	"sort"
	"strings"

	"golang.org/x/tools/go/ssa"
)

// putWrappers: root-package functions that hand their argument to sync.Pool.Put.
func (p *Prog) putWrappers() map[*ssa.Function]bool {
	out := map[*ssa.Function]bool{}
	for _, top := range p.TopFuncs() {
		eachInstr(top, func(in ssa.Instruction) {
			if c, ok := in.(ssa.CallInstruction); ok {
				if f := c.Common().StaticCallee(); f != nil && f.String() == "(*sync.Pool).Put" {
					out[top] = true
				}
			}
		})
	}
	return out
}

// taintFrom computes values that alias (parts of) object x inside fn: field/element addresses,
// slices, loaded pointers, and results of method calls on x that return slices or pointers.
func taintFrom(fn *ssa.Function, x ssa.Value) map[ssa.Value]bool {
	t := map[ssa.Value]bool{canon(x): true, x: true}
	for changed := true; changed; {
		changed = false
		eachInstr(fn, func(in ssa.Instruction) {
			v, ok := in.(ssa.Value)
			if !ok || t[v] {
				return
			}
			add := false
			switch y := in.(type) {
			case *ssa.FieldAddr:
				add = t[y.X] || t[canon(y.X)]
			case *ssa.IndexAddr:
				add = t[y.X] || t[canon(y.X)]
			case *ssa.Slice:
				add = t[y.X] || t[canon(y.X)]
			case *ssa.ChangeInterface:
				add = t[y.X]
			case *ssa.MakeInterface:
				add = t[y.X]
			case *ssa.ChangeType:
				add = t[y.X]
			case *ssa.TypeAssert:
				add = t[y.X]
			case *ssa.Phi:
				for _, e := range y.Edges {
					if t[e] {
						add = true
					}
				}
			case *ssa.UnOp:
				if y.Op == token.MUL && (t[y.X] || t[canon(y.X)]) {
					// loading a reference-typed field keeps the alias; loading a scalar does not
					add = isRefType(y.Type())
				}
			case *ssa.Call:
				// method on x returning a reference type (Bytes(), msg ...)
				recvTainted := false
				if y.Call.IsInvoke() {
					recvTainted = t[y.Call.Value]
				} else if len(y.Call.Args) > 0 && y.Call.Signature().Recv() != nil {
					recvTainted = t[y.Call.Args[0]] || t[canon(y.Call.Args[0])]
				}
				if recvTainted && isRefType(y.Type()) && !copyingMethod(y) {
					add = true
				}
			}
			if add {
				t[v] = true
				changed = true
			}
		})
	}
	return t
}

func isRefType(t types.Type) bool {
	switch u := t.Underlying().(type) {
	case *types.Slice, *types.Pointer, *types.Map, *types.Chan, *types.Interface, *types.Signature:
		return true
	case *types.Tuple:
		for i := 0; i < u.Len(); i++ {
			if isRefType(u.At(i).Type()) {
				return true
			}
		}
	}
	return false
}

func copyingMethod(c *ssa.Call) bool {
	name := ""
	if c.Call.IsInvoke() {
		name = c.Call.Method.Name()
	} else if f := c.Call.StaticCallee(); f != nil {
		name = f.Name()
	}
	switch name {
	case "String", "Len", "Error", "Levels":
		return true
	}
	return false
}

// G4 pool discipline.
func ruleG4(p *Prog, r *Report) {
	const R = "G4"
	wrappers := p.putWrappers()
	n := 0
	for _, top := range p.TopFuncs() {
		if wrappers[top] {
			continue
		}
		eachInstrDeep(top, func(fn *ssa.Function, in ssa.Instruction) {
			call, ok := in.(ssa.CallInstruction)
			if !ok {
				return
			}
			f := staticCallee(call)
			if f == nil || !wrappers[f] || len(call.Common().Args) == 0 {
				return
			}
			n++
			x := call.Common().Args[0]
			for {
				if mi, ok := x.(*ssa.MakeInterface); ok {
					x = mi.X
					continue
				}
				if ci, ok := x.(*ssa.ChangeInterface); ok {
					x = ci.X
					continue
				}
				break
			}
			taint := taintFrom(fn, x)
			_, deferred := in.(*ssa.Defer)
			cons := fmt.Sprintf("put:%s:%s", p.Name(fn), f.Name())
			if !deferred {
				// no use of the object or an alias is reachable after the put
				var use ssa.Instruction
				defs := map[ssa.Instruction]bool{}
				for _, dv := range []ssa.Value{x, canon(x)} {
					if di, ok := dv.(ssa.Instruction); ok {
						defs[di] = true
					}
					if ex, ok := dv.(*ssa.Extract); ok {
						if ti, ok := ex.Tuple.(ssa.Instruction); ok {
							defs[ti] = true
						}
					}
				}
				reachFrom(fn, in, nil, func(y ssa.Instruction) bool {
					if use != nil {
						return true
					}
					if defs[y] {
						return true // the variable is re-defined (next loop iteration): a different object from here on
					}
					if _, isDbg := y.(*ssa.DebugRef); isDbg {
						return false
					}
					for _, op := range y.Operands(nil) {
						if *op != nil && taint[*op] {
							// re-definition by phi at a loop head of a fresh object is not a use of the old one
							if _, isPhi := y.(*ssa.Phi); isPhi {
								continue
							}
							use = y
							return true
						}
					}
					return false
				})
				// a deferred put of the same object runs again when the function returns
				var again ssa.Instruction
				eachInstr(fn, func(y ssa.Instruction) {
					d, ok := y.(*ssa.Defer)
					if !ok {
						return
					}
					g := staticCallee(d)
					if g == nil || !wrappers[g] || len(d.Call.Args) == 0 {
						return
					}
					a := d.Call.Args[0]
					if taint[a] || taint[canon(a)] || canon(a) == canon(x) {
						again = y
					}
				})
				if use == nil && again != nil {
					r.Bad(R, cons, p.InstrPos(in), "the object is returned to the pool here and again by the deferred put registered at "+p.InstrPos(again)+": two later Gets (possibly on different goroutines) would receive the same object")
					return
				}
				if use != nil {
					r.Bad(R, cons, p.InstrPos(in), "pooled object (or an alias of its buffer) is used at "+p.InstrPos(use)+" after it was returned to the pool: another goroutine may already own it")
				} else {
					r.Ok(R, cons, p.InstrPos(in), "no use of the object or its aliases is reachable after the put")
				}
				return
			}
			// deferred: aliases must not outlive the function
			var esc []string
			eachInstr(fn, func(y ssa.Instruction) {
				switch z := y.(type) {
				case *ssa.Return:
					for _, res := range z.Results {
						if taint[res] && isRefType(res.Type()) {
							esc = append(esc, "returned at "+p.InstrPos(y))
						}
					}
				case *ssa.Store:
					if taint[z.Val] && isRefType(z.Val.Type()) {
						if rt := rootOfAddr(z.Addr); rt != "fresh" && !taint[z.Addr] {
							// storing into the pooled object itself is fine
							esc = append(esc, "stored to longer-lived memory at "+p.InstrPos(y))
						}
					}
				case *ssa.MapUpdate:
					if taint[z.Value] && rootOfAddr(z.Map) != "fresh" {
						esc = append(esc, "stored in a map at "+p.InstrPos(y))
					}
				case *ssa.Send:
					if taint[z.X] {
						esc = append(esc, "sent on a channel at "+p.InstrPos(y))
					}
				case *ssa.MakeClosure:
					for _, b := range z.Bindings {
						if taint[b] {
							// captured by a closure: only the deferred put itself may capture it
							if _, isDefer := firstReferrer(z).(*ssa.Defer); !isDefer {
								esc = append(esc, "captured by a closure at "+p.InstrPos(y))
							}
						}
					}
				case *ssa.Go:
					for _, a := range z.Call.Args {
						if taint[a] {
							esc = append(esc, "passed to a goroutine at "+p.InstrPos(y))
						}
					}
				}
			})
			sort.Strings(esc)
			if len(esc) > 0 {
				r.Bad(R, cons, p.InstrPos(in), "alias of a pooled object outlives the deferred put: "+strings.Join(uniq(esc), "; "))
			} else {
				r.Ok(R, cons, p.InstrPos(in), "deferred put; no alias of the object is returned, stored, sent or captured")
			}
		})
	}
	r.Floor(R, "put call sites", 8, n)
}

func firstReferrer(v ssa.Value) ssa.Instruction {
	if rs := v.Referrers(); rs != nil && len(*rs) > 0 {
		return (*rs)[0]
	}
	return nil
}

// G5 no global writes after init.
func ruleG5(p *Prog, r *Report) {
	const R = "G5"
	writers := map[*ssa.Function][]Effect{}
	for _, top := range p.TopFuncs() {
		for _, e := range p.effects().direct[top] {
			if e.Kind == "global" {
				writers[top] = append(writers[top], e)
			}
		}
	}
	n := 0
	for _, w := range sortedFuncs(p, keysOf(writers)) {
		n++
		var gl []string
		for _, e := range writers[w] {
			gl = append(gl, e.What)
		}
		sort.Strings(gl)
		gl = uniq(gl)
		name := p.Name(w)
		if w.Name() == "init" || strings.HasPrefix(w.Name(), "init#") {
			r.Ok(R, "global-writer:"+name, p.Pos(w.Pos()), "package initialisation writes "+strings.Join(gl, ","))
			continue
		}
		// every non-test caller chain must start in init: no exported/API function may reach this writer
		var badCallers []string
		seen := map[*ssa.Function]bool{}
		var rec func(f *ssa.Function)
		rec = func(f *ssa.Function) {
			if seen[f] {
				return
			}
			seen[f] = true
			if isExportedAPI(f) || implementsAnyRootIface(p, f) {
				badCallers = append(badCallers, p.Name(f))
			}
			for _, cs := range p.CallersOf(f) {
				t := TopLevel(cs.Caller)
				if p.IsTestFile(t.Pos()) || t.Name() == "init" {
					continue
				}
				rec(t)
			}
		}
		rec(w)
		sort.Strings(badCallers)
		r.Decide(len(badCallers) == 0, R, "global-writer:"+name, p.Pos(w.Pos()),
			"writes "+strings.Join(gl, ",")+"; reachable only from init (and tests)",
			"process-wide variable(s) "+strings.Join(gl, ",")+" can be written after initialisation through "+strings.Join(badCallers, ", ")+": concurrent storages would race")
	}
	r.Floor(R, "functions writing package variables", 1, n)
}

// G6 arrival-independent outcome: the launcher receives worker results in arrival order. Whatever it *decides* while
// receiving must not depend on that order: a return taken inside the receive loop because of the content of one
// received result (its error) makes the returned error - and everything applied from earlier results, such as cache
// fills - depend on which worker finished first. (With one worker arrival order is queue order, so the outcome also
// differs between worker counts.) An arrival-independent launcher drains all results and then decides in key order.
func ruleG6(p *Prog, r *Report) {
	const R = "G6"
	n := 0
	seen := map[*ssa.Function]bool{}
	for _, g := range goStatements(p) {
		launcher := g.Parent()
		if launcher == nil || seen[launcher] {
			continue
		}
		callee := p.goCallee(g)
		if callee == nil {
			continue
		}
		// the result channel: SendOnly parameter of the worker
		var results ssa.Value
		_ = callee.Signature
		for i, a := range g.Call.Args {
			if i >= len(callee.Params) {
				continue
			}
			if ch, ok := callee.Params[i].Type().Underlying().(*types.Chan); ok && ch.Dir() == types.SendOnly {
				results = a
			}
		}
		if results == nil {
			continue
		}
		seen[launcher] = true
		if containsFold(launcher.Name(), "nondeterministic") {
			continue // order-relaxed by contract: applies results (and stops) in arrival order on purpose
		}
		n++
		// a launcher that is the private half of one exported routine is named after that routine
		// (the construct is "the parallel path of X", wherever its statements were moved)
		owner := launcher
		for d := 0; d < 3 && owner.Object() != nil && !owner.Object().Exported(); d++ {
			tops := map[*ssa.Function]bool{}
			for _, cs := range p.CallersOf(owner) {
				tops[TopLevel(cs.Caller)] = true
			}
			if len(tops) != 1 {
				break
			}
			for t := range tops {
				owner = t
			}
		}
		if owner.Object() == nil || !owner.Object().Exported() {
			owner = launcher
		}
		name := p.Name(owner)
		// receives from the result channel in the launcher
		var bad ssa.Instruction
		eachInstr(launcher, func(in ssa.Instruction) {
			u, ok := in.(*ssa.UnOp)
			if !ok || u.Op != token.ARROW || !sameChan(u.X, results) {
				return
			}
			head := loopHeadOf(in.Block())
			if head == nil {
				return
			}
			// returns inside the receive loop that are control dependent on the received value
			for _, ret := range returnsOf(launcher) {
				if !blockInLoopOrExitOf(ret.Block(), head, in.Block()) {
					continue
				}
				dep := controlDependsOnValue(launcher, ret.Block(), func(v ssa.Value) bool {
					return derivesFromValue(v, u, 0)
				})
				if dep {
					bad = ret
				}
			}
		})
		cons := "arrival-order-exit:" + name
		if bad != nil {
			r.Bad(R, cons, p.InstrPos(bad), "the launcher returns from inside the receive loop because of the content of one received result: which error is returned, and which earlier results were already applied (cache fills, collected data), depends on which worker finished first and differs from the one-goroutine run")
		} else {
			r.Ok(R, cons, p.Pos(launcher.Pos()), "no exit of the receive loop depends on the content of an individual result")
		}
	}
	r.Floor(R, "launchers receiving worker results", 2, n)
}

// blockInLoopOrExitOf: b is dominated by the block of the receive and does not lie after the loop on the normal path
// (it is inside the loop body or an early-exit block hanging off it).
func blockInLoopOrExitOf(b, head, recv *ssa.BasicBlock) bool {
	if !recv.Dominates(b) {
		return false
	}
	return true
}

// derivesFromValue: v is computed from src through field/element accesses, loads and comparisons.
func derivesFromValue(v, src ssa.Value, depth int) bool {
	if depth > 8 || v == nil {
		return false
	}
	if v == src || canon(v) == src {
		return true
	}
	switch x := canon(v).(type) {
	case *ssa.UnOp:
		return derivesFromValue(x.X, src, depth+1)
	case *ssa.FieldAddr:
		return derivesFromValue(x.X, src, depth+1)
	case *ssa.Field:
		return derivesFromValue(x.X, src, depth+1)
	case *ssa.BinOp:
		return derivesFromValue(x.X, src, depth+1) || derivesFromValue(x.Y, src, depth+1)
	case *ssa.Extract:
		return derivesFromValue(x.Tuple, src, depth+1)
	case *ssa.TypeAssert:
		return derivesFromValue(x.X, src, depth+1)
	case *ssa.ChangeInterface:
		return derivesFromValue(x.X, src, depth+1)
	case *ssa.Alloc:
		// a local cell the received value was stored into
		if x.Referrers() != nil {
			for _, ref := range *x.Referrers() {
				if st, ok := ref.(*ssa.Store); ok && st.Addr == ssa.Value(x) && derivesFromValue(st.Val, src, depth+1) {
					return true
				}
			}
		}
	}
	return false
}

// G8 the number of workers selects no behaviour.
//
// A launcher that is not order-relaxed by contract must produce the same registers, the same
// order of register writes and the same error for every worker count, on failing runs too. The
// worker-count parameter may bound the loop that starts goroutines and may be clamped; no
// return and no call into the library may be control dependent on it - a "few workers" shortcut
// through another routine differs from the parallel path exactly when something fails midway
// (the sequential commit has already written the registers in front of the failing slab, the
// parallel one writes none).
func ruleG8(p *Prog, r *Report) {
	const R = "G8"
	n := 0
	seen := map[*ssa.Function]bool{}
	for _, g := range goStatements(p) {
		launcher := g.Parent()
		if launcher == nil || seen[launcher] || p.IsTestFile(launcher.Pos()) {
			continue
		}
		seen[launcher] = true
		if containsFold(launcher.Name(), "nondeterministic") {
			continue
		}
		for _, prm := range launcher.Params {
			if b, ok := prm.Type().Underlying().(*types.Basic); !ok || b.Info()&types.IsInteger == 0 {
				continue
			}
			n++
			cons := "worker-count-selects-nothing:" + p.Name(launcher) + ":" + prm.Name()
			mentions := func(v ssa.Value) bool { return v == ssa.Value(prm) }
			// a test of the worker count one side of which only turns the count away (fresh error, return) is a
			// validation, not a choice between behaviours
			isRejection := func(b *ssa.BasicBlock) bool {
				ret, ok := b.Instrs[len(b.Instrs)-1].(*ssa.Return)
				if !ok {
					return false
				}
				if cl, _ := classifyReturn(ret); cl != retError {
					return false
				}
				for _, y := range b.Instrs {
					if c, ok := y.(*ssa.Call); ok {
						if cal := c.Call.StaticCallee(); cal == nil || (cal.Pkg == p.RootSSA && !isErrorCtorFunc(cal)) {
							return false
						}
					}
				}
				return true
			}
			cd := controlDeps(launcher)
			var dependsOnChoice func(b *ssa.BasicBlock) bool
			seenB := map[*ssa.BasicBlock]bool{}
			dependsOnChoice = func(b *ssa.BasicBlock) bool {
				if seenB[b] {
					return false
				}
				seenB[b] = true
				for a := range cd[b] {
					ifi, ok := a.Instrs[len(a.Instrs)-1].(*ssa.If)
					if ok && sliceContains(ifi.Cond, mentions, 0, map[ssa.Value]bool{}) && !isRejection(a.Succs[0]) && !isRejection(a.Succs[1]) {
						return true
					}
					if dependsOnChoice(a) {
						return true
					}
				}
				return false
			}
			var bad ssa.Instruction
			eachInstr(launcher, func(in ssa.Instruction) {
				if bad != nil {
					return
				}
				for k := range seenB {
					delete(seenB, k)
				}
				if isRejection(in.Block()) {
					return
				}
				switch x := in.(type) {
				case *ssa.Return:
					// turning an unusable worker count away with a fresh error is not a choice between behaviours
					if cl, _ := classifyReturn(x); cl == retError {
						fresh := false
						for _, y := range x.Block().Instrs {
							if c, ok := y.(*ssa.Call); ok && c.Call.StaticCallee() != nil && isErrorCtorFunc(c.Call.StaticCallee()) {
								fresh = true
							}
						}
						if fresh {
							return
						}
					}
				case *ssa.Call:
					if _, isB := x.Call.Value.(*ssa.Builtin); isB {
						return
					}
					if cal := x.Call.StaticCallee(); cal != nil && (cal.Pkg != p.RootSSA || isErrorCtorFunc(cal)) {
						return
					}
				default:
					return
				}
				if dependsOnChoice(in.Block()) {
					bad = in
				}
			})
			if bad != nil {
				r.Bad(R, cons, p.InstrPos(bad), "a return or a call into the library is control dependent on the worker count: with that count the routine takes another path (for example the sequential commit, which has written the registers in front of a slab that fails to encode, where the parallel path writes none), so registers and reported error after the same history differ between worker counts")
			} else {
				r.Ok(R, cons, p.Pos(launcher.Pos()), "the worker count only bounds the goroutine-starting loop and its own clamping")
			}
		}
	}
	r.Floor(R, "worker-count parameters of deterministic launchers", 2, n)
}

// G9 a launcher's sequential shortcut consults the storage layers its parallel path consults.
//
// "Same registers, cache and errors as on one goroutine" includes the path a launcher takes when the work is too
// small to be worth goroutines. If that shortcut looks an id up in the read cache (or the write set) before it
// works on it and the parallel path does not - or the other way round - the two paths treat an id that is already
// cached differently: one re-reads the register and replaces the entry, the other keeps the stale one. Obligation
// per launcher that is not order-relaxed by contract: the set of storage maps that are *looked up* on the blocks
// that can neither reach nor be reached from a go statement (the shortcut) equals the set looked up on the blocks
// reachable from a go statement, private storage methods they call included.
func ruleG9(p *Prog, r *Report) {
	const R = "G9"
	n := 0
	seen := map[*ssa.Function]bool{}
	for _, g := range goStatements(p) {
		launcher := g.Parent()
		if launcher == nil || seen[launcher] || p.IsTestFile(launcher.Pos()) {
			continue
		}
		seen[launcher] = true
		if containsFold(launcher.Name(), "nondeterministic") {
			continue
		}
		goBlocks := map[*ssa.BasicBlock]bool{}
		for _, b := range launcher.Blocks {
			for _, in := range b.Instrs {
				if _, ok := in.(*ssa.Go); ok {
					goBlocks[b] = true
				}
			}
		}
		reachesGo := map[*ssa.BasicBlock]bool{}
		fromGo := map[*ssa.BasicBlock]bool{}
		for _, b := range launcher.Blocks {
			for gb := range goBlocks {
				if b == gb || blockReaches(b, gb, nil) {
					reachesGo[b] = true
				}
				if b == gb || blockReaches(gb, b, nil) {
					fromGo[b] = true
				}
			}
		}
		lookups := func(b *ssa.BasicBlock) map[string]bool {
			out := map[string]bool{}
			var scan func(in ssa.Instruction, depth int)
			scanFn := func(f *ssa.Function, depth int) {
				eachInstr(f, func(y ssa.Instruction) { scan(y, depth) })
			}
			scan = func(in ssa.Instruction, depth int) {
				if v, ok := in.(ssa.Value); ok {
					if fr, _, ok := mapLookupOf(v); ok && fr.Owner != nil && fr.Owner.Obj().Name() == storageT {
						out[fr.Field] = true
					}
				}
				if c, ok := in.(*ssa.Call); ok && depth < 2 {
					if cal := c.Call.StaticCallee(); cal != nil && cal.Pkg == p.RootSSA && recvName(cal) == storageT && len(cal.Blocks) > 0 {
						scanFn(cal, depth+1)
					}
				}
			}
			for _, in := range b.Instrs {
				scan(in, 0)
			}
			return out
		}
		seq, par := map[string]bool{}, map[string]bool{}
		hasShortcut := false
		for _, b := range launcher.Blocks {
			switch {
			case fromGo[b]:
				for k := range lookups(b) {
					par[k] = true
				}
			case !reachesGo[b]:
				// a block that only turns the request away (error return) is no shortcut
				if ret, ok := b.Instrs[len(b.Instrs)-1].(*ssa.Return); ok {
					if cl, _ := classifyReturn(ret); cl == retError {
						continue
					}
				}
				// does the shortcut do any work (a call into the storage: its own methods, the ledger, the codecs)?
				for _, in := range b.Instrs {
					if c, ok := in.(ssa.CallInstruction); ok {
						if _, isB := c.Common().Value.(*ssa.Builtin); isB {
							continue
						}
						if cal := c.Common().StaticCallee(); cal != nil && (isErrorCtorFunc(cal) || cal.Pkg != p.RootSSA) {
							continue
						}
						hasShortcut = true
					}
				}
				for k := range lookups(b) {
					seq[k] = true
				}
			}
		}
		if !hasShortcut {
			continue
		}
		n++
		var diff []string
		for k := range seq {
			if !par[k] {
				diff = append(diff, k+" (shortcut only)")
			}
		}
		for k := range par {
			if !seq[k] {
				diff = append(diff, k+" (parallel path only)")
			}
		}
		sort.Strings(diff)
		r.Decide(len(diff) == 0, R, "shortcut-consults-same-layers:"+p.Name(launcher), p.Pos(launcher.Pos()),
			"the sequential shortcut and the parallel path look up the same storage maps",
			"the sequential shortcut and the parallel path of this launcher do not look up the same storage maps: "+strings.Join(diff, ", ")+"; an id that is already cached (or pending) is treated differently depending on how many ids were handed in, so cache and results differ from the one-goroutine run")
	}
	r.Ok(R, "launchers-with-shortcut", "-", fmt.Sprintf("%d deterministic launcher(s) with a sequential shortcut", n))
}

// G10 a channel is closed at most once on every path.
//
// Closing a closed channel panics: a commit that has hit a ledger fault would then take the process down instead of
// returning the error. Obligation per explicit `close(ch)` in a library function: no other explicit close of the same
// channel is reachable from it, and no `defer close(ch)` / deferred function literal that closes the same channel was
// registered on a path to it (the deferred close runs at the return that follows). Channels are identified by the
// value or the captured variable they live in.
func ruleG10(p *Prog, r *Report) {
	const R = "G10"
	n := 0
	chanKey := func(fn *ssa.Function, v ssa.Value, bind map[*ssa.FreeVar]ssa.Value) ssa.Value {
		for depth := 0; depth < 6; depth++ {
			v = canon(v)
			switch x := v.(type) {
			case *ssa.UnOp:
				if x.Op == token.MUL {
					v = x.X
					continue
				}
			case *ssa.FreeVar:
				if b, ok := bind[x]; ok {
					v = b
					continue
				}
			}
			break
		}
		return v
	}
	isClose := func(c *ssa.CallCommon) bool {
		b, ok := c.Value.(*ssa.Builtin)
		return ok && b.Name() == "close" && len(c.Args) == 1
	}
	for _, top := range p.TopFuncs() {
		if p.IsTestFile(top.Pos()) {
			continue
		}
		eachFuncDeep(top, func(fn *ssa.Function) {
			if len(fn.Blocks) == 0 {
				return
			}
			// deferred closes registered in fn
			type dclose struct {
				at ssa.Instruction
				ch ssa.Value
			}
			var defers []dclose
			var explicit []dclose
			eachInstr(fn, func(in ssa.Instruction) {
				switch x := in.(type) {
				case *ssa.Defer:
					if isClose(&x.Call) {
						defers = append(defers, dclose{in, chanKey(fn, x.Call.Args[0], nil)})
						return
					}
					if mc, ok := x.Call.Value.(*ssa.MakeClosure); ok {
						g, _ := mc.Fn.(*ssa.Function)
						if g == nil {
							return
						}
						bind := map[*ssa.FreeVar]ssa.Value{}
						for i, fv := range g.FreeVars {
							if i < len(mc.Bindings) {
								bind[fv] = mc.Bindings[i]
							}
						}
						eachInstr(g, func(y ssa.Instruction) {
							if c, ok := y.(*ssa.Call); ok && isClose(&c.Call) {
								defers = append(defers, dclose{in, chanKey(g, c.Call.Args[0], bind)})
							}
						})
					}
				case *ssa.Call:
					if isClose(&x.Call) {
						explicit = append(explicit, dclose{in, chanKey(fn, x.Call.Args[0], nil)})
					}
				}
			})
			for _, e := range explicit {
				n++
				cons := "closed-once:" + p.Name(fn)
				bad := ""
				for _, d := range defers {
					if d.ch == e.ch && canReach(fn, d.at, func(z ssa.Instruction) bool { return z == e.at }, nil) != nil {
						bad = "a close of the same channel was deferred at " + p.InstrPos(d.at) + " and runs at the return that follows this close"
					}
				}
				for _, e2 := range explicit {
					if e2.at != e.at && e2.ch == e.ch && canReach(fn, e.at, func(z ssa.Instruction) bool { return z == e2.at }, nil) != nil {
						if loopHeadOf(e.at.Block()) == nil || loopHeadOf(e.at.Block()) != loopHeadOf(e2.at.Block()) || e.at.Block().Dominates(e2.at.Block()) {
							bad = "another close of the same channel at " + p.InstrPos(e2.at) + " is reachable from it"
						}
					}
				}
				r.Decide(bad == "", R, cons, p.InstrPos(e.at), "no second close of this channel on any path through this one", "the channel is closed twice on a path: "+bad+" - closing a closed channel panics, so a failing commit takes the process down instead of returning its error")
			}
			for _, d := range defers {
				n++
				_ = d
			}
		})
	}
	r.Floor(R, "channel closes", 6, n)
}
