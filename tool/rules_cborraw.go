package main

// L21 raw CBOR heads are well formed (C07).
//
// Several encoders bypass the CBOR library and write pre-computed bytes into the
// CBOR stream (EncodeRawBytes) to get fixed-width heads. The decoders read the
// same positions with the library (DecodeUint64, DecodeArrayHead, DecodeBytes ...).
// A raw write is decodable for every value only if every byte that *starts* a data
// item is a constant head byte whose additional-information bits announce exactly
// the bytes that follow; bytes that depend on run-time values may only sit in the
// announced payload positions. A run-time byte in head position (a "one byte is
// enough" shortcut) is a valid CBOR item only for values below 24.
//
// The rule evaluates every EncodeRawBytes argument to a sequence of abstract bytes
// (constant k / run-time value / unknown), taking the latest dominating write of
// each position for scratch buffers, and walks it as a CBOR item sequence.
//
// L22 decoder count limits are not tighter than what the encoders can write (C07).

import (
	"fmt"
	"go/constant"
	"go/token"
	"go/types"
	"strings"

	"golang.org/x/tools/go/ssa"
)

type absByte struct {
	known bool
	val   byte
	from  ssa.Instruction // writer of a run-time byte (nil: unknown)
	width int64           // width of the PutUintN that wrote it
	off   int64           // offset of this byte inside that PutUintN
}

func blockOnCycle(b *ssa.BasicBlock) bool {
	seen := map[*ssa.BasicBlock]bool{}
	var dfs func(x *ssa.BasicBlock) bool
	dfs = func(x *ssa.BasicBlock) bool {
		if x == b {
			return true
		}
		if seen[x] {
			return false
		}
		seen[x] = true
		for _, s := range x.Succs {
			if dfs(s) {
				return true
			}
		}
		return false
	}
	for _, s := range b.Succs {
		if dfs(s) {
			return true
		}
	}
	return false
}

// putUintWidth: call is binary.BigEndian.PutUintN(dst, v); returns N/8, dst, v.
func putUintWidth(in ssa.Instruction) (int64, ssa.Value, ssa.Value, bool) {
	c, ok := in.(ssa.CallInstruction)
	if !ok {
		return 0, nil, nil, false
	}
	g := c.Common().StaticCallee()
	if g == nil || !strings.Contains(g.String(), "encoding/binary.bigEndian)") {
		return 0, nil, nil, false
	}
	args := c.Common().Args
	if len(args) != 3 {
		return 0, nil, nil, false
	}
	switch g.Name() {
	case "PutUint16":
		return 2, args[1], args[2], true
	case "PutUint32":
		return 4, args[1], args[2], true
	case "PutUint64":
		return 8, args[1], args[2], true
	}
	return 0, nil, nil, false
}

// sameArrayBase: two addresses of the same byte array (a local literal, or one field of one object).
func sameArrayBase(a, b ssa.Value) bool {
	if a == b {
		return true
	}
	fa, ok1 := a.(*ssa.FieldAddr)
	fb, ok2 := b.(*ssa.FieldAddr)
	if ok1 && ok2 && fa.Field == fb.Field && sameValue(fa.X, fb.X) {
		return true
	}
	return false
}

// absBytesOf evaluates a []byte argument. kind: "bytes" (seq valid), "opaque" (pre-encoded complete items), "unknown".
func (p *Prog) absBytesOf(at ssa.Instruction, v ssa.Value) ([]absByte, string) {
	v = canon(v)
	switch x := v.(type) {
	case *ssa.Convert:
		if b, ok := x.X.Type().Underlying().(*types.Basic); ok && b.Info()&types.IsString != 0 {
			return nil, "opaque" // pre-encoded item(s) kept as a string (client TypeInfo encoding)
		}
	case *ssa.Call:
		if g := x.Call.StaticCallee(); g != nil && g.String() == "(*bytes.Buffer).Bytes" {
			return nil, "opaque" // bytes produced by this package's own element encoders
		}
	case *ssa.UnOp:
		if g, ok := x.X.(*ssa.Global); ok && x.Op == token.MUL {
			if bs, ok := p.globalByteSlice(g); ok {
				out := make([]absByte, len(bs))
				for i, b := range bs {
					out[i] = absByte{known: true, val: b}
				}
				return out, "bytes"
			}
		}
	case *ssa.Slice:
		lo, hi := int64(0), int64(-1)
		if x.Low != nil {
			k, ok := constInt(x.Low)
			if !ok {
				return nil, "unknown"
			}
			lo = k
		}
		if x.High != nil {
			k, ok := constInt(canonConv(x.High))
			if !ok {
				if kk, ok2 := p.byteLen(v); ok2 {
					k = lo + kk
				} else {
					return nil, "unknown"
				}
			}
			hi = k
		} else if arr, ok := derefArray(x.X.Type()); ok {
			hi = arr.Len()
		} else {
			return nil, "unknown"
		}
		base := x.X
		f := at.Parent()
		out := make([]absByte, hi-lo)
		latest := make([]ssa.Instruction, hi-lo)
		consider := func(w ssa.Instruction, idx int64, ab absByte) {
			if idx < lo || idx >= hi {
				return
			}
			if !instrDominates(w, at) || w == at {
				return
			}
			cur := latest[idx-lo]
			if cur == nil || instrDominates(cur, w) {
				latest[idx-lo] = w
				out[idx-lo] = ab
			}
		}
		eachInstr(f, func(in ssa.Instruction) {
			if st, ok := in.(*ssa.Store); ok {
				if ia, ok := st.Addr.(*ssa.IndexAddr); ok && sameArrayBase(ia.X, base) {
					if k, ok := constInt(ia.Index); ok {
						if c, ok := canonConv(st.Val).(*ssa.Const); ok && c.Value != nil && c.Value.Kind() == constant.Int {
							u, _ := constant.Uint64Val(c.Value)
							consider(in, k, absByte{known: true, val: byte(u)})
						} else if gb, ok := p.globalByteAt(st.Val); ok {
							consider(in, k, absByte{known: true, val: gb})
						} else {
							consider(in, k, absByte{from: in, width: 1})
						}
					}
				}
				return
			}
			if w, dst, _, ok := putUintWidth(in); ok {
				if sl, ok := canon(dst).(*ssa.Slice); ok && sameArrayBase(sl.X, base) {
					off := int64(0)
					if sl.Low != nil {
						k, ok := constInt(sl.Low)
						if !ok {
							return
						}
						off = k
					}
					for i := int64(0); i < w; i++ {
						consider(in, off+i, absByte{from: in, width: w, off: i})
					}
				}
			}
		})
		return out, "bytes"
	}
	return nil, "unknown"
}

// globalByteAt: v is g[k] for a constant package-level byte slice g and constant k.
func (p *Prog) globalByteAt(v ssa.Value) (byte, bool) {
	u, ok := canonConv(v).(*ssa.UnOp)
	if !ok || u.Op != token.MUL {
		return 0, false
	}
	ia, ok := u.X.(*ssa.IndexAddr)
	if !ok {
		return 0, false
	}
	k, ok := constInt(ia.Index)
	if !ok {
		return 0, false
	}
	gl, ok := canon(ia.X).(*ssa.UnOp)
	if !ok || gl.Op != token.MUL {
		return 0, false
	}
	g, ok := gl.X.(*ssa.Global)
	if !ok {
		return 0, false
	}
	bs, ok := p.globalByteSlice(g)
	if !ok || k < 0 || k >= int64(len(bs)) {
		return 0, false
	}
	return bs[k], true
}

// globalByteSlice: constant initial value of a package-level `var x = []byte{...}` that is never written elsewhere.
func (p *Prog) globalByteSlice(g *ssa.Global) ([]byte, bool) {
	init := g.Pkg.Func("init")
	if init == nil {
		return nil, false
	}
	var out []byte
	found := false
	eachInstr(init, func(in ssa.Instruction) {
		st, ok := in.(*ssa.Store)
		if !ok || st.Addr != ssa.Value(g) {
			return
		}
		sl, ok := st.Val.(*ssa.Slice)
		if !ok {
			return
		}
		al, ok := sl.X.(*ssa.Alloc)
		if !ok {
			return
		}
		arr, ok := derefArray(al.Type())
		if !ok {
			return
		}
		out = make([]byte, arr.Len())
		okAll := true
		seen := 0
		for _, ref := range *al.Referrers() {
			ia, ok := ref.(*ssa.IndexAddr)
			if !ok {
				continue
			}
			k, ok := constInt(ia.Index)
			if !ok {
				okAll = false
				continue
			}
			for _, r2 := range *ia.Referrers() {
				if s2, ok := r2.(*ssa.Store); ok {
					if c, ok := canonConv(s2.Val).(*ssa.Const); ok && c.Value != nil && c.Value.Kind() == constant.Int {
						u, _ := constant.Uint64Val(c.Value)
						out[k] = byte(u)
						seen++
					} else {
						okAll = false
					}
				}
			}
		}
		found = okAll && seen == int(arr.Len())
	})
	return out, found
}

// smallByGuard: the value a store writes is (a conversion of) v, and on every path to `at` a dominating test
// rejects v > K (or v >= K) for a constant K that keeps v below 24.
func smallByGuard(st ssa.Instruction, at ssa.Instruction) bool {
	s, ok := st.(*ssa.Store)
	if !ok {
		return false
	}
	src := canonConv(s.Val)
	for d := at.Block(); d != nil; d = d.Idom() {
		ifi, ok := d.Instrs[len(d.Instrs)-1].(*ssa.If)
		if !ok || d == at.Block() {
			continue
		}
		bo, ok := ifi.Cond.(*ssa.BinOp)
		if !ok {
			continue
		}
		k, isK := constInt(canonConv(bo.Y))
		if !isK || !sameValue(canonConv(bo.X), src) {
			continue
		}
		max := int64(-1)
		switch bo.Op {
		case token.GTR:
			max = k
		case token.GEQ:
			max = k - 1
		}
		if max >= 0 && max < 24 && edgeDominates(d, 1, at.Block()) {
			return true
		}
	}
	return false
}

// smallByCallerGuard: the stored value is a field of a parameter of a private function, and every caller
// rejects values of that field above a constant below 24 before the call.
func (p *Prog) smallByCallerGuard(st ssa.Instruction) bool {
	s, ok := st.(*ssa.Store)
	if !ok {
		return false
	}
	fr, ok := asLoadedField(canonConv(s.Val))
	if !ok {
		return false
	}
	prm, ok := canon(fr.Base).(*ssa.Parameter)
	fn := st.Parent()
	if !ok || fn.Object() == nil || fn.Object().Exported() {
		return false
	}
	idx := -1
	for i, q := range fn.Params {
		if q == prm {
			idx = i
		}
	}
	sites := p.CallersOf(fn)
	if idx < 0 || len(sites) == 0 {
		return false
	}
	for _, cs := range sites {
		a := cs.Instr.Common().Args
		if idx >= len(a) {
			return false
		}
		at := cs.Instr.(ssa.Instruction)
		guarded := false
		for d := at.Block(); d != nil; d = d.Idom() {
			ifi, ok := d.Instrs[len(d.Instrs)-1].(*ssa.If)
			if !ok || d == at.Block() {
				continue
			}
			bo, ok := ifi.Cond.(*ssa.BinOp)
			if !ok {
				continue
			}
			k, isK := constInt(canonConv(bo.Y))
			gf, isF := asLoadedField(canonConv(bo.X))
			if !isK || !isF || gf.Field != fr.Field || gf.Owner != fr.Owner || !sameValue(gf.Base, a[idx]) {
				continue
			}
			max := int64(-1)
			switch bo.Op {
			case token.GTR:
				max = k
			case token.GEQ:
				max = k - 1
			}
			if max >= 0 && max < 24 && edgeDominates(d, 1, at.Block()) {
				guarded = true
			}
		}
		if !guarded {
			return false
		}
	}
	return true
}

func ruleL21(p *Prog, r *Report) {
	const R = "L21"
	n := 0
	var funcs []*ssa.Function
	var addDeep func(f *ssa.Function)
	addDeep = func(f *ssa.Function) {
		funcs = append(funcs, f)
		for _, a := range f.AnonFuncs {
			addDeep(a)
		}
	}
	for _, f := range p.TopFuncs() {
		addDeep(f)
	}
	for _, f := range funcs {
		if p.IsTestFile(f.Pos()) || isDiagnosticFile(p.Fset.Position(f.Pos()).Filename) {
			continue
		}
		ord := 0
		var writes []struct {
			in    ssa.Instruction
			bytes []absByte
			kind  string
		}
		eachInstr(f, func(in ssa.Instruction) {
			c, ok := in.(ssa.CallInstruction)
			if !ok {
				return
			}
			g := c.Common().StaticCallee()
			if g == nil || g.Name() != "EncodeRawBytes" || !strings.Contains(g.String(), "cbor/v2.StreamEncoder)") {
				return
			}
			bs, kind := p.absBytesOf(in, c.Common().Args[1])
			writes = append(writes, struct {
				in    ssa.Instruction
				bytes []absByte
				kind  string
			}{in, bs, kind})
		})
		for wi, w := range writes {
			ord++
			n++
			cons := fmt.Sprintf("raw-heads:%s#%d", p.Name(f), ord)
			pos := p.InstrPos(w.in)
			switch w.kind {
			case "opaque":
				r.Ok(R, cons, pos, "splice of bytes that were produced by an encoder (complete items)")
				continue
			case "unknown":
				r.Unk(R, cons, pos, "content of the raw write is outside the evaluator's vocabulary")
				continue
			}
			// payload chunk: all bytes from one PutUintN that covers the whole write
			allVar := len(w.bytes) > 0
			for i, b := range w.bytes {
				if b.known || b.from == nil || b.from != w.bytes[0].from || b.off != int64(i) || b.width != int64(len(w.bytes)) {
					allVar = false
				}
			}
			if allVar {
				// must be the announced payload of a preceding string head: length == len(S) * width, written in a loop
				good := false
				why := "no dominating raw write ends in a byte-string head whose length is (number of chunks) * (chunk width)"
				for _, pw := range writes[:wi] {
					if pw.kind != "bytes" || !instrDominates(pw.in, w.in) || len(pw.bytes) < 2 {
						continue
					}
					// find a string head followed only by its length bytes at the end of pw
					for hp := 0; hp < len(pw.bytes); hp++ {
						hb := pw.bytes[hp]
						if !hb.known || (hb.val>>5 != 2 && hb.val>>5 != 3) {
							continue
						}
						ext := int64(0)
						switch hb.val & 0x1f {
						case 24:
							ext = 1
						case 25:
							ext = 2
						case 26:
							ext = 4
						case 27:
							ext = 8
						default:
							continue
						}
						if int64(hp)+1+ext != int64(len(pw.bytes)) {
							continue
						}
						lb := pw.bytes[hp+1]
						if lb.known || lb.from == nil || lb.width != ext {
							continue
						}
						_, _, lv, ok := putUintWidth(lb.from)
						if !ok {
							continue
						}
						mul, ok := canonConv(lv).(*ssa.BinOp)
						if !ok || mul.Op != token.MUL {
							why = "the announced byte-string length is not (count * chunk width)"
							continue
						}
						k, isK := constInt(mul.Y)
						lenSide := mul.X
						if !isK {
							k, isK = constInt(mul.X)
							lenSide = mul.Y
						}
						if !isK || k != int64(len(w.bytes)) {
							why = fmt.Sprintf("the announced byte-string length multiplies by %d but each chunk is %d bytes", k, len(w.bytes))
							continue
						}
						if lc, ok := canonConv(lenSide).(*ssa.Call); !ok {
							continue
						} else if bi, ok := lc.Call.Value.(*ssa.Builtin); !ok || bi.Name() != "len" {
							continue
						}
						if !blockOnCycle(w.in.Block()) {
							why = "the chunk is not written in a loop"
							continue
						}
						good = true
					}
				}
				r.Decide(good, R, cons, pos, "fixed-width payload chunk of a byte string whose head announces count * width bytes", "a raw write consisting only of run-time bytes is not the announced payload of a preceding byte-string head ("+why+"): the decoder would read these bytes as item heads")
				continue
			}
			// walk the items
			bad := ""
			i := 0
			for i < len(w.bytes) && bad == "" {
				b := w.bytes[i]
				if !b.known {
					// a run-time byte in head position is a complete one-byte unsigned integer when a dominating
					// rejection bounds its source below 24 (the hash level is refused above maxDigestLevel)
					if b.from != nil && (smallByGuard(b.from, w.in) || p.smallByCallerGuard(b.from)) {
						i++
						continue
					}
					bad = fmt.Sprintf("byte %d of the write starts a data item but holds a run-time value: it is a valid CBOR head only for values below 24 (the decoder reads it with the CBOR library)", i)
					break
				}
				major, ai := b.val>>5, b.val&0x1f
				ext := 0
				switch {
				case ai < 24:
				case ai == 24:
					ext = 1
				case ai == 25:
					ext = 2
				case ai == 26:
					ext = 4
				case ai == 27:
					ext = 8
				default:
					bad = fmt.Sprintf("byte %d (0x%02x) is a reserved or indefinite-length head", i, b.val)
				}
				if bad != "" {
					break
				}
				if i+1+ext > len(w.bytes) {
					bad = fmt.Sprintf("head 0x%02x at byte %d announces %d more bytes but the write ends after %d", b.val, i, ext, len(w.bytes)-i-1)
					break
				}
				// the extension bytes of one head come from one fixed-width write of exactly that width (or are constants)
				if ext > 0 {
					fb := w.bytes[i+1]
					if !fb.known && fb.from != nil {
						for j := 0; j < ext; j++ {
							eb := w.bytes[i+1+j]
							if eb.known || eb.from != fb.from || eb.off != int64(j) || eb.width != int64(ext) {
								bad = fmt.Sprintf("the %d bytes after head 0x%02x at byte %d are not one %d-byte big-endian value", ext, b.val, i, ext)
							}
						}
					}
				}
				i += 1 + ext
				if (major == 2 || major == 3) && ai < 24 {
					// short string: payload inside this write
					i += int(ai)
					if i > len(w.bytes) {
						i = len(w.bytes) // payload continues in later writes
					}
				}
			}
			r.Decide(bad == "", R, cons, pos, "every item of the raw write starts with a constant head that announces exactly the bytes that follow", bad)
		}
	}
	// fixed-width length / count heads: the value written into a w-byte head must fit into w bytes. The encoders
	// justify the narrowing by the slab size limit; that holds only for element lists whose every container is
	// size-limited. A slab kind that can be exempt from the size limit (a field named anySize that is set somewhere)
	// gives no bound to the lists inside it.
	anySizeOwners := map[string]bool{}
	for _, f := range funcs {
		eachInstr(f, func(in ssa.Instruction) {
			st, ok := in.(*ssa.Store)
			if !ok {
				return
			}
			fr, ok := asFieldAddr(st.Addr)
			if !ok || fr.Field != "anySize" || fr.Owner == nil {
				return
			}
			if c, ok := st.Val.(*ssa.Const); ok && c.Value != nil && c.Value.String() == "true" {
				anySizeOwners[fr.Owner.Obj().Name()] = true
			}
		})
	}
	// which list types sit inside which slab kinds: a slab struct with a field of the list's interface / type
	containerOf := func(listType string) []string {
		var out []string
		for _, nt := range p.rootNamedTypes() {
			st, ok := nt.Underlying().(*types.Struct)
			if !ok || !slabStructs[nt.Obj().Name()] {
				continue
			}
			for i := 0; i < st.NumFields(); i++ {
				ft := st.Field(i).Type()
				if typeName(ft) == listType {
					out = append(out, nt.Obj().Name())
					continue
				}
				if it, ok := ft.Underlying().(*types.Interface); ok {
					if lt := p.LookupType(listType); lt != nil && (types.Implements(types.NewPointer(lt), it) || types.Implements(lt, it)) && it.NumMethods() > 0 {
						out = append(out, nt.Obj().Name())
					}
				}
			}
		}
		return out
	}
	nHeads := 0
	headKeys := map[string]int{}
	for _, f := range funcs {
		if p.IsTestFile(f.Pos()) || isDiagnosticFile(p.Fset.Position(f.Pos()).Filename) {
			continue
		}
		rn := recvName(f)
		ord := 0
		eachInstr(f, func(in ssa.Instruction) {
			w, dst, v, ok := putUintWidth(in)
			if !ok || w >= 8 {
				return
			}
			// only heads that go into the CBOR stream through EncodeRawBytes of the same buffer
			sl, ok := canon(dst).(*ssa.Slice)
			if !ok {
				return
			}
			feeds := false
			eachInstr(f, func(z ssa.Instruction) {
				c, ok := z.(ssa.CallInstruction)
				if !ok {
					return
				}
				g := c.Common().StaticCallee()
				if g == nil || g.Name() != "EncodeRawBytes" || len(c.Common().Args) < 2 {
					return
				}
				if s2, ok := canon(c.Common().Args[1]).(*ssa.Slice); ok && sameArrayBase(s2.X, sl.X) && instrDominates(in, z) {
					feeds = true
				}
			})
			if !feeds {
				return
			}
			cv, ok := canon(v).(*ssa.Convert)
			if !ok {
				return
			}
			// narrowing of a length-derived value
			lenDerived := sliceContains(cv.X, func(x ssa.Value) bool {
				c, ok := x.(*ssa.Call)
				if !ok {
					return false
				}
				bi, ok := c.Call.Value.(*ssa.Builtin)
				return ok && bi.Name() == "len"
			}, 0, map[ssa.Value]bool{})
			if !lenDerived {
				return
			}
			ord++
			nHeads++
			n++
			// named after the list type and the field whose length is narrowed (wherever the write was moved to)
			fieldOfLen := ""
			sliceContains(cv.X, func(x ssa.Value) bool {
				c, ok := x.(*ssa.Call)
				if !ok {
					return false
				}
				if bi, ok := c.Call.Value.(*ssa.Builtin); ok && bi.Name() == "len" && len(c.Call.Args) == 1 {
					if fr, ok := asLoadedField(c.Call.Args[0]); ok && fieldOfLen == "" {
						fieldOfLen = fr.Field
					}
				}
				return false
			}, 0, map[ssa.Value]bool{})
			cons := fmt.Sprintf("length-fits-head:%s#%d", p.Name(f), ord)
			if rn != "" && fieldOfLen != "" {
				cons = fmt.Sprintf("length-fits-head:%s.%s", rn, fieldOfLen)
				headKeys[cons]++
				if headKeys[cons] > 1 {
					cons = fmt.Sprintf("%s#%d", cons, headKeys[cons])
				}
			}
			var unbounded []string
			conts := []string{rn}
			if !slabStructs[rn] {
				conts = containerOf(rn)
			}
			for _, c := range conts {
				if anySizeOwners[c] {
					unbounded = append(unbounded, c)
				}
			}
			// an explicit guard: a dominating rejection of len(x) > K (or >= K+1) with K * stride within the head's range
			if len(unbounded) > 0 {
				stride := int64(1)
				var lenCall ssa.Value
				switch e := canonConv(cv.X).(type) {
				case *ssa.BinOp:
					if e.Op == token.MUL {
						if k, ok := constInt(e.Y); ok {
							stride, lenCall = k, canonConv(e.X)
						} else if k, ok := constInt(e.X); ok {
							stride, lenCall = k, canonConv(e.Y)
						}
					}
				case *ssa.Call:
					lenCall = e
				}
				limit := int64(1)<<(8*uint(w)) - 1
				if lc, ok := lenCall.(*ssa.Call); ok && len(lc.Call.Args) == 1 {
					for d := in.Block(); d != nil; d = d.Idom() {
						ifi, ok := d.Instrs[len(d.Instrs)-1].(*ssa.If)
						if !ok || d == in.Block() {
							continue
						}
						bo, ok := ifi.Cond.(*ssa.BinOp)
						if !ok {
							continue
						}
						k, isK := constInt(canonConv(bo.Y))
						gl, isL := canonConv(bo.X).(*ssa.Call)
						if !isK || !isL || len(gl.Call.Args) != 1 || !sameValue(gl.Call.Args[0], lc.Call.Args[0]) {
							continue
						}
						if bi, ok := gl.Call.Value.(*ssa.Builtin); !ok || bi.Name() != "len" {
							continue
						}
						maxLen := int64(-1)
						switch bo.Op {
						case token.GTR:
							maxLen = k
						case token.GEQ:
							maxLen = k - 1
						}
						if maxLen >= 0 && maxLen*stride <= limit && edgeDominates(d, 1, in.Block()) {
							unbounded = nil
						}
					}
				}
			}
			r.Decide(len(unbounded) == 0, R, cons, p.InstrPos(in),
				"the list is only ever encoded inside size-limited slabs (or an explicit guard bounds it): its length is bounded by the slab size (L5: at most 65535 bytes)",
				fmt.Sprintf("a length is narrowed to %d bytes for a fixed-width CBOR head, but the list can sit in a slab that is exempt from the size limit (%s.anySize: external collision groups), where nothing bounds it: past the head's range the written length wraps around and the register can no longer be decoded", w, strings.Join(unbounded, ", ")))
		})
	}
	r.Floor(R, "fixed-width length heads", 3, nHeads)
	r.Floor(R, "raw CBOR writes", 15, n)
}

// L22: a decoder may not reject an element / entry count that the encoders can produce.
func ruleL22(p *Prog, r *Report) {
	const R = "L22"
	scope, _ := p.decodeScope()
	maxIdx, ok := p.constVal("maxInlinedExtraDataIndex")
	n := 0
	for f := range scope {
		if f == nil || f.Blocks == nil {
			continue
		}
		eachInstr(f, func(in ssa.Instruction) {
			ifi, ok2 := in.(*ssa.If)
			if !ok2 {
				return
			}
			bo, ok2 := ifi.Cond.(*ssa.BinOp)
			if !ok2 {
				return
			}
			isCount := func(v ssa.Value) bool {
				ex, ok := canonConv(v).(*ssa.Extract)
				if !ok || ex.Index != 0 {
					return false
				}
				c, ok := ex.Tuple.(*ssa.Call)
				return ok && calleeName(c) == "DecodeArrayHead"
			}
			var k int64
			var op token.Token
			if kk, isK := constInt(canonConv(bo.Y)); isK && isCount(bo.X) {
				k, op = kk, bo.Op
			} else if kk, isK := constInt(canonConv(bo.X)); isK && isCount(bo.Y) {
				k = kk
				switch bo.Op {
				case token.LSS:
					op = token.GTR
				case token.LEQ:
					op = token.GEQ
				case token.GTR:
					op = token.LSS
				case token.GEQ:
					op = token.LEQ
				default:
					op = bo.Op
				}
			} else {
				return
			}
			if op != token.GTR && op != token.GEQ && op != token.LSS && op != token.LEQ {
				return // exact-length checks are structural (tuple arity), not limits
			}
			// which edge rejects? the one that leads to an error return without another branch
			rejects := func(b *ssa.BasicBlock) bool {
				for depth := 0; b != nil && depth < 4; depth++ {
					last := b.Instrs[len(b.Instrs)-1]
					if ret, ok := last.(*ssa.Return); ok {
						cl, _ := classifyReturn(ret)
						return cl == retError
					}
					if _, ok := last.(*ssa.Jump); ok {
						b = b.Succs[0]
						continue
					}
					return false
				}
				return false
			}
			var smallestRejected int64 = -1
			switch {
			case (op == token.GTR) && rejects(ifi.Block().Succs[0]):
				smallestRejected = k + 1
			case (op == token.GEQ) && rejects(ifi.Block().Succs[0]):
				smallestRejected = k
			case (op == token.LSS) && rejects(ifi.Block().Succs[1]):
				smallestRejected = k // !(count < k) rejected: count >= k
			case (op == token.LEQ) && rejects(ifi.Block().Succs[1]):
				smallestRejected = k + 1
			default:
				return // a lower bound (count < k rejected) or not a rejection
			}
			n++
			encMax := int64(65535) // element counts are written with two-byte heads
			what := "element count (two-byte head)"
			if strings.Contains(f.Name(), "InlinedExtraData") || strings.Contains(f.Name(), "inlinedExtraData") {
				if ok {
					encMax = maxIdx + 1
					what = "inlined extra data count (indexes 0..maxInlinedExtraDataIndex)"
				}
			}
			cons := "decoder-limit:" + p.Name(f)
			r.Decide(smallestRejected > encMax, R, cons, p.InstrPos(in),
				"the decoder's upper limit lies above every count the encoders can write",
				fmt.Sprintf("the decoder rejects a count of %d, but the encoders can write up to %d (%s): a register the library produced would not be decodable", smallestRejected, encMax, what))
		})
	}
	// the encoders' own limit: an index is refused exactly when it exceeds maxInlinedExtraDataIndex
	nEnc := 0
	if ok {
		for _, f := range p.TopFuncs() {
			if p.IsTestFile(f.Pos()) || scope[f] {
				continue
			}
			eachInstr(f, func(in ssa.Instruction) {
				ifi, ok2 := in.(*ssa.If)
				if !ok2 {
					return
				}
				bo, ok2 := ifi.Cond.(*ssa.BinOp)
				if !ok2 {
					return
				}
				kk, isK := constInt(canonConv(bo.Y))
				if !isK || (kk != maxIdx && kk != maxIdx+1 && kk != maxIdx-1) {
					return
				}
				// only comparisons of an extra-data index (int result of an add*ExtraData helper)
				src := canonConv(bo.X)
				isIdx := false
				if ex, ok := src.(*ssa.Extract); ok {
					if c, ok := ex.Tuple.(*ssa.Call); ok && strings.Contains(calleeName(c), "ExtraData") {
						isIdx = true
					}
				}
				if c, ok := src.(*ssa.Call); ok && strings.Contains(calleeName(c), "ExtraData") {
					isIdx = true
				}
				if !isIdx {
					return
				}
				nEnc++
				n++
				var smallest int64 = -1
				switch bo.Op {
				case token.GTR:
					smallest = kk + 1
				case token.GEQ:
					smallest = kk
				}
				r.Decide(smallest == maxIdx+1, R, "encoder-limit:"+p.Name(f), p.InstrPos(in),
					"an extra data index is refused exactly when it exceeds maxInlinedExtraDataIndex",
					fmt.Sprintf("the encoder refuses extra data index %d although indexes up to %d fit the one-byte field (or accepts one that does not fit)", smallest, maxIdx))
			})
		}
	}
	r.Floor(R, "encoder index limits", 3, nEnc)
}
