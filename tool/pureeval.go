package main

// A small concrete evaluator for side-effect-free predicates of the library (size band
// tests, inlinability tests). The function's SSA is executed on concrete integers; every
// input the function reads (parameters, fields of the receiver, package-level thresholds,
// results of interface calls) is supplied by an oracle that the rule fills from a finite
// grid of states. This is evaluation of the program text on abstract inputs - no code of
// /repo is run - and lets a rule compare a predicate with its reference meaning at and
// around every boundary, for both polarities of every flag it reads.

import (
	"go/constant"
	"go/token"
	"go/types"

	"golang.org/x/tools/go/ssa"
)

type pureInput struct {
	kind string // param, field, global, call, len
	name string // parameter name / field path (dotted, innermost last) / global name / callee name
	v    ssa.Value
}

type pureOracle func(in pureInput) (int64, bool)

type pureEvaluator struct {
	p      *Prog
	oracle pureOracle
	steps  int
	fail   string
}

func wrapToType(x int64, t types.Type) int64 {
	b, ok := t.Underlying().(*types.Basic)
	if !ok {
		return x
	}
	switch b.Kind() {
	case types.Uint8:
		return int64(uint8(x))
	case types.Uint16:
		return int64(uint16(x))
	case types.Uint32:
		return int64(uint32(x))
	case types.Int8:
		return int64(int8(x))
	case types.Int16:
		return int64(int16(x))
	case types.Int32:
		return int64(int32(x))
	case types.Bool:
		if x != 0 {
			return 1
		}
		return 0
	}
	return x
}

// fieldPath names the field chain that address a reads from, e.g. header.size (base is dropped).
func fieldPathNameOf(a ssa.Value) (string, bool) {
	path := ""
	for d := 0; d < 5; d++ {
		fa, ok := a.(*ssa.FieldAddr)
		if !ok {
			break
		}
		_, nm := structFieldName(fa.X.Type(), fa.Field)
		if path == "" {
			path = nm
		} else {
			path = nm + "." + path
		}
		a = fa.X
	}
	return path, path != ""
}

// run evaluates fn with the given argument values (nil entries are asked from the oracle as parameters)
// and returns its results.
func (e *pureEvaluator) run(fn *ssa.Function, args []*int64, depth int) ([]int64, bool) {
	if depth > 4 || len(fn.Blocks) == 0 {
		e.fail = "call too deep or body missing: " + fn.Name()
		return nil, false
	}
	vals := map[ssa.Value]int64{}
	var eval func(v ssa.Value) (int64, bool)
	eval = func(v ssa.Value) (int64, bool) {
		if x, ok := vals[v]; ok {
			return x, true
		}
		e.steps++
		if e.steps > 20000 {
			e.fail = "step limit"
			return 0, false
		}
		res, ok := func() (int64, bool) {
			switch x := v.(type) {
			case *ssa.Const:
				if x.Value == nil {
					return 0, true // nil / zero value
				}
				switch x.Value.Kind() {
				case constant.Bool:
					if constant.BoolVal(x.Value) {
						return 1, true
					}
					return 0, true
				case constant.Int:
					k, exact := constant.Int64Val(x.Value)
					if !exact {
						u, _ := constant.Uint64Val(x.Value)
						return int64(u), true
					}
					return k, true
				}
				return 0, false
			case *ssa.Parameter:
				for i, q := range fn.Params {
					if q == x && i < len(args) && args[i] != nil {
						return *args[i], true
					}
				}
				return e.oracle(pureInput{kind: "param", name: x.Name(), v: x})
			case *ssa.BinOp:
				a, ok1 := eval(x.X)
				b, ok2 := eval(x.Y)
				if !ok1 || !ok2 {
					return 0, false
				}
				bi := func(c bool) (int64, bool) {
					if c {
						return 1, true
					}
					return 0, true
				}
				unsigned := false
				if bt, ok := x.X.Type().Underlying().(*types.Basic); ok && bt.Info()&types.IsUnsigned != 0 {
					unsigned = true
				}
				switch x.Op {
				case token.ADD:
					return wrapToType(a+b, x.Type()), true
				case token.SUB:
					return wrapToType(a-b, x.Type()), true
				case token.MUL:
					return wrapToType(a*b, x.Type()), true
				case token.QUO:
					if b == 0 {
						return 0, false
					}
					return wrapToType(a/b, x.Type()), true
				case token.REM:
					if b == 0 {
						return 0, false
					}
					return wrapToType(a%b, x.Type()), true
				case token.AND:
					return a & b, true
				case token.OR:
					return a | b, true
				case token.EQL:
					return bi(a == b)
				case token.NEQ:
					return bi(a != b)
				case token.LSS:
					if unsigned {
						return bi(uint64(a) < uint64(b))
					}
					return bi(a < b)
				case token.LEQ:
					if unsigned {
						return bi(uint64(a) <= uint64(b))
					}
					return bi(a <= b)
				case token.GTR:
					if unsigned {
						return bi(uint64(a) > uint64(b))
					}
					return bi(a > b)
				case token.GEQ:
					if unsigned {
						return bi(uint64(a) >= uint64(b))
					}
					return bi(a >= b)
				}
				return 0, false
			case *ssa.UnOp:
				switch x.Op {
				case token.NOT:
					a, ok := eval(x.X)
					return 1 - a, ok
				case token.SUB:
					a, ok := eval(x.X)
					return wrapToType(-a, x.Type()), ok
				case token.MUL:
					if g, ok := x.X.(*ssa.Global); ok {
						return e.oracle(pureInput{kind: "global", name: g.Name(), v: x})
					}
					if path, ok := fieldPathNameOf(x.X); ok {
						return e.oracle(pureInput{kind: "field", name: path, v: x})
					}
					if al, ok := x.X.(*ssa.Alloc); ok {
						if st := singleStoreTo(al); st != nil {
							return eval(st)
						}
					}
				}
				return 0, false
			case *ssa.Convert:
				a, ok := eval(x.X)
				return wrapToType(a, x.Type()), ok
			case *ssa.ChangeType:
				return eval(x.X)
			case *ssa.Field:
				path := ""
				var cur ssa.Value = x
				for d := 0; d < 5; d++ {
					f, ok := cur.(*ssa.Field)
					if !ok {
						break
					}
					_, nm := structFieldName(f.X.Type(), f.Field)
					if path == "" {
						path = nm
					} else {
						path = nm + "." + path
					}
					cur = f.X
				}
				if u, ok := cur.(*ssa.UnOp); ok && u.Op == token.MUL {
					if pre, ok := fieldPathNameOf(u.X); ok {
						path = pre + "." + path
					}
				}
				return e.oracle(pureInput{kind: "field", name: path, v: x})
			case *ssa.Extract:
				if c, ok := x.Tuple.(*ssa.Call); ok {
					if g := c.Call.StaticCallee(); g != nil && g.Pkg == e.p.RootSSA && !c.Call.IsInvoke() {
						rs, ok := e.callStatic(g, c, eval, depth)
						if ok && x.Index < len(rs) {
							return rs[x.Index], true
						}
						return 0, false
					}
				}
				return 0, false
			case *ssa.Call:
				if bi, ok := x.Call.Value.(*ssa.Builtin); ok && bi.Name() == "len" {
					if path, ok := fieldPathNameOf(stripLoad(x.Call.Args[0])); ok {
						return e.oracle(pureInput{kind: "len", name: path, v: x})
					}
					return e.oracle(pureInput{kind: "len", name: "", v: x})
				}
				if x.Call.IsInvoke() {
					return e.oracle(pureInput{kind: "call", name: x.Call.Method.Name(), v: x})
				}
				if g := x.Call.StaticCallee(); g != nil {
					if v, ok := e.oracle(pureInput{kind: "call", name: g.Name(), v: x}); ok {
						return v, true
					}
					// math.Ceil(float64(a) / b) with integral a, b: an exact ceiling division (the only floating-point idiom
					// the size predicates use; values stay far below 2^53)
					if g.Pkg != nil && g.Pkg.Pkg.Path() == "math" && g.Name() == "Ceil" && len(x.Call.Args) == 1 {
						if q, ok := x.Call.Args[0].(*ssa.BinOp); ok && q.Op == token.QUO {
							integral := func(v ssa.Value) (int64, bool) {
								if cv, ok := v.(*ssa.Convert); ok {
									return eval(cv.X)
								}
								if c, ok := v.(*ssa.Const); ok && c.Value != nil {
									if f, exact := constant.Float64Val(constant.ToFloat(c.Value)); exact && f == float64(int64(f)) {
										return int64(f), true
									}
								}
								return 0, false
							}
							a, ok1 := integral(q.X)
							b, ok2 := integral(q.Y)
							if ok1 && ok2 && b > 0 && a >= 0 {
								return (a + b - 1) / b, true
							}
						}
					}
					if g.Pkg == e.p.RootSSA {
						rs, ok := e.callStatic(g, x, eval, depth)
						if ok && len(rs) >= 1 {
							return rs[0], true
						}
					}
				}
				return 0, false
			}
			return 0, false
		}()
		if ok {
			if _, isPhi := v.(*ssa.Phi); !isPhi {
				vals[v] = res
			}
		} else if e.fail == "" {
			e.fail = "value outside the evaluator's vocabulary: " + v.Name() + " = " + v.String()
		}
		return res, ok
	}
	b := fn.Blocks[0]
	var prev *ssa.BasicBlock
	for step := 0; step < 500; step++ {
		// phis first, all from the old state
		newPhis := map[ssa.Value]int64{}
		for _, in := range b.Instrs {
			phi, ok := in.(*ssa.Phi)
			if !ok {
				break
			}
			for i, pr := range b.Preds {
				if pr == prev {
					x, ok := eval(phi.Edges[i])
					if !ok {
						return nil, false
					}
					newPhis[phi] = x
				}
			}
		}
		for k, v := range newPhis {
			vals[k] = v
		}
		// values computed in a loop body must be recomputed per iteration
		for _, in := range b.Instrs {
			if v, ok := in.(ssa.Value); ok {
				if _, isPhi := in.(*ssa.Phi); !isPhi {
					delete(vals, v)
				}
			}
		}
		switch t := b.Instrs[len(b.Instrs)-1].(type) {
		case *ssa.If:
			c, ok := eval(t.Cond)
			if !ok {
				return nil, false
			}
			prev = b
			if c != 0 {
				b = b.Succs[0]
			} else {
				b = b.Succs[1]
			}
		case *ssa.Jump:
			prev = b
			b = b.Succs[0]
		case *ssa.Return:
			var out []int64
			for _, rv := range t.Results {
				x, ok := eval(rv)
				if !ok {
					return nil, false
				}
				out = append(out, x)
			}
			return out, true
		default:
			e.fail = "unexpected terminator"
			return nil, false
		}
	}
	e.fail = "loop bound exceeded"
	return nil, false
}

func stripLoad(v ssa.Value) ssa.Value {
	if u, ok := v.(*ssa.UnOp); ok && u.Op == token.MUL {
		return u.X
	}
	return v
}

func (e *pureEvaluator) callStatic(g *ssa.Function, c *ssa.Call, eval func(ssa.Value) (int64, bool), depth int) ([]int64, bool) {
	args := make([]*int64, len(g.Params))
	for i, a := range c.Call.Args {
		if i >= len(args) {
			break
		}
		// receiver and pointer/struct arguments stay symbolic: their fields are asked from the oracle
		switch a.Type().Underlying().(type) {
		case *types.Basic:
			if x, ok := eval(a); ok {
				xv := x
				args[i] = &xv
			}
		}
	}
	return e.run(g, args, depth+1)
}
