package main

// Order abstraction for comparators over SlabID (rule S6c).
//
// A comparator is decided by evaluating its SSA on the 3x3 abstract orderings
// (address <,=,> x index <,=,>) of its two operands. The vocabulary is closed:
// field projections address/index, whole-id equality, ordered comparison of
// equal projections, big-endian uint64 views, bytes.Compare / cmp.Compare,
// boolean and small-integer arithmetic, branches and phis, and calls into
// root-package functions (evaluated recursively). Anything else is undecided.

import (
	"fmt"
	"go/constant"
	"go/token"
	"go/types"

	"golang.org/x/tools/go/ssa"
)

type ordKind int

const (
	kUnknown ordKind = iota
	kBool
	kInt      // concrete small integer
	kElem     // whole SlabID of operand Which
	kProj     // projection (Field: 0=address, 1=index) of operand Which, order-isomorphic view
	kCell     // pointer to a cell holding a value (local alloc)
	kProjAddr // address of a projection of an elem cell
	kOpaque   // irrelevant value (e.g. BigEndian receiver)
	kSliceHdr // the slice being sorted
)

type ordVal struct {
	K     ordKind
	B     bool
	I     int64
	Which int // 0 = A (first operand), 1 = B
	Field int
	Cell  *ordCell
}

type ordCell struct{ v ordVal }

type ordCtx struct {
	ao, io int // sign of A-B on address / index
	steps  int
	err    string
	p      *Prog
}

func (c *ordCtx) fail(format string, a ...any) ordVal {
	if c.err == "" {
		c.err = fmt.Sprintf(format, a...)
	}
	return ordVal{}
}

func (c *ordCtx) signOf(x, y ordVal) (int, bool) {
	// sign of x - y for two comparable abstract values
	switch {
	case x.K == kProj && y.K == kProj && x.Field == y.Field:
		if x.Which == y.Which {
			return 0, true
		}
		s := c.ao
		if x.Field == 1 {
			s = c.io
		}
		if x.Which == 1 {
			s = -s
		}
		return s, true
	case x.K == kInt && y.K == kInt:
		switch {
		case x.I < y.I:
			return -1, true
		case x.I > y.I:
			return 1, true
		}
		return 0, true
	}
	return 0, false
}

func cmpOp(op token.Token, s int) (bool, bool) {
	switch op {
	case token.EQL:
		return s == 0, true
	case token.NEQ:
		return s != 0, true
	case token.LSS:
		return s < 0, true
	case token.LEQ:
		return s <= 0, true
	case token.GTR:
		return s > 0, true
	case token.GEQ:
		return s >= 0, true
	}
	return false, false
}

// evalFunc interprets fn on abstract arguments and returns its single result.
func (c *ordCtx) evalFunc(fn *ssa.Function, args []ordVal, free []ordVal, depth int) ordVal {
	if depth > 4 || fn.Blocks == nil {
		return c.fail("call depth / external function %s", fn.Name())
	}
	env := map[ssa.Value]ordVal{}
	for i, prm := range fn.Params {
		if i < len(args) {
			env[prm] = args[i]
		}
	}
	for i, fv := range fn.FreeVars {
		if i < len(free) {
			env[fv] = free[i]
		}
	}
	var get func(v ssa.Value) ordVal
	get = func(v ssa.Value) ordVal {
		if x, ok := env[v]; ok {
			return x
		}
		switch k := v.(type) {
		case *ssa.Const:
			if k.Value == nil {
				return ordVal{K: kOpaque}
			}
			switch k.Value.Kind() {
			case constant.Bool:
				return ordVal{K: kBool, B: constant.BoolVal(k.Value)}
			case constant.Int:
				if i, ok := constant.Int64Val(k.Value); ok {
					return ordVal{K: kInt, I: i}
				}
			}
			return ordVal{K: kOpaque}
		case *ssa.Global:
			return ordVal{K: kOpaque}
		}
		return c.fail("value %s (%T) outside the comparator vocabulary", v.Name(), v)
	}
	b := fn.Blocks[0]
	var prev *ssa.BasicBlock
	for {
		for _, in := range b.Instrs {
			c.steps++
			if c.steps > 2000 || c.err != "" {
				if c.err == "" {
					c.fail("step bound exceeded")
				}
				return ordVal{}
			}
			switch x := in.(type) {
			case *ssa.Phi:
				for i, pr := range b.Preds {
					if pr == prev {
						env[x] = get(x.Edges[i])
					}
				}
			case *ssa.Alloc:
				env[x] = ordVal{K: kCell, Cell: &ordCell{}}
			case *ssa.Store:
				a := get(x.Addr)
				if a.K != kCell {
					return c.fail("store through non-local address")
				}
				a.Cell.v = get(x.Val)
			case *ssa.UnOp:
				switch x.Op {
				case token.MUL:
					a := get(x.X)
					switch a.K {
					case kCell:
						env[x] = a.Cell.v
					case kProjAddr:
						env[x] = ordVal{K: kProj, Which: a.Which, Field: a.Field}
					case kOpaque:
						env[x] = ordVal{K: kOpaque}
					default:
						return c.fail("load from unsupported address")
					}
				case token.NOT:
					a := get(x.X)
					if a.K != kBool {
						return c.fail("! on non-bool")
					}
					env[x] = ordVal{K: kBool, B: !a.B}
				case token.SUB:
					a := get(x.X)
					if a.K != kInt {
						return c.fail("- on non-int")
					}
					env[x] = ordVal{K: kInt, I: -a.I}
				default:
					return c.fail("unary %s", x.Op)
				}
			case *ssa.IndexAddr:
				s := get(x.X)
				i := get(x.Index)
				if s.K != kSliceHdr || i.K != kElem {
					return c.fail("index of something other than the sorted slice by a comparator operand")
				}
				env[x] = ordVal{K: kCell, Cell: &ordCell{ordVal{K: kElem, Which: i.Which}}}
			case *ssa.FieldAddr:
				a := get(x.X)
				if a.K == kCell && a.Cell.v.K == kElem {
					_, fname := structFieldName(x.X.Type(), x.Field)
					f := -1
					if fname == "address" {
						f = 0
					} else if fname == "index" {
						f = 1
					}
					if f < 0 {
						return c.fail("unknown SlabID field")
					}
					env[x] = ordVal{K: kProjAddr, Which: a.Cell.v.Which, Field: f}
				} else {
					return c.fail("field address of non-SlabID")
				}
			case *ssa.Field:
				a := get(x.X)
				if a.K != kElem {
					return c.fail("field of non-SlabID")
				}
				_, fname := structFieldName(x.X.Type(), x.Field)
				f := -1
				if fname == "address" {
					f = 0
				} else if fname == "index" {
					f = 1
				}
				if f < 0 {
					return c.fail("unknown SlabID field")
				}
				env[x] = ordVal{K: kProj, Which: a.Which, Field: f}
			case *ssa.Slice:
				a := get(x.X)
				if a.K == kProjAddr && x.Low == nil && x.High == nil {
					env[x] = ordVal{K: kProj, Which: a.Which, Field: a.Field} // full byte view: bytewise order
				} else {
					return c.fail("partial slice of an id component")
				}
			case *ssa.BinOp:
				l, r := get(x.X), get(x.Y)
				switch {
				case l.K == kBool && r.K == kBool:
					switch x.Op {
					case token.EQL:
						env[x] = ordVal{K: kBool, B: l.B == r.B}
					case token.NEQ:
						env[x] = ordVal{K: kBool, B: l.B != r.B}
					case token.AND:
						env[x] = ordVal{K: kBool, B: l.B && r.B}
					case token.OR:
						env[x] = ordVal{K: kBool, B: l.B || r.B}
					default:
						return c.fail("bool op %s", x.Op)
					}
				case l.K == kElem && r.K == kElem:
					eq := l.Which == r.Which || (c.ao == 0 && c.io == 0)
					switch x.Op {
					case token.EQL:
						env[x] = ordVal{K: kBool, B: eq}
					case token.NEQ:
						env[x] = ordVal{K: kBool, B: !eq}
					default:
						return c.fail("ordered comparison of whole ids")
					}
				default:
					if s, ok := c.signOf(l, r); ok {
						if bv, ok := cmpOp(x.Op, s); ok {
							env[x] = ordVal{K: kBool, B: bv}
							break
						}
						if l.K == kInt && r.K == kInt {
							switch x.Op {
							case token.ADD:
								env[x] = ordVal{K: kInt, I: l.I + r.I}
							case token.SUB:
								env[x] = ordVal{K: kInt, I: l.I - r.I}
							case token.MUL:
								env[x] = ordVal{K: kInt, I: l.I * r.I}
							default:
								return c.fail("int op %s", x.Op)
							}
							break
						}
					}
					return c.fail("comparison %s of incomparable abstract values", x.Op)
				}
			case *ssa.Call:
				env[x] = c.evalCall(x, get, depth)
			case *ssa.ChangeType:
				env[x] = get(x.X)
			case *ssa.Convert:
				a := get(x.X)
				if a.K == kInt || a.K == kProj {
					env[x] = a
				} else {
					return c.fail("conversion of unsupported value")
				}
			case *ssa.MakeInterface:
				env[x] = get(x.X)
			case *ssa.If:
				cv := get(x.Cond)
				if cv.K != kBool {
					return c.fail("branch on non-boolean abstract value")
				}
				prev = b
				if cv.B {
					b = b.Succs[0]
				} else {
					b = b.Succs[1]
				}
				goto next
			case *ssa.Jump:
				prev = b
				b = b.Succs[0]
				goto next
			case *ssa.Return:
				if len(x.Results) != 1 {
					return c.fail("comparator with %d results", len(x.Results))
				}
				return get(x.Results[0])
			case *ssa.DebugRef:
			default:
				return c.fail("instruction %T outside the comparator vocabulary", in)
			}
		}
		return c.fail("fell off block")
	next:
	}
}

func (c *ordCtx) evalCall(x *ssa.Call, get func(ssa.Value) ordVal, depth int) ordVal {
	f := x.Call.StaticCallee()
	if f == nil {
		return c.fail("dynamic call in comparator")
	}
	var args []ordVal
	for _, a := range x.Call.Args {
		args = append(args, get(a))
	}
	full := f.String()
	switch full {
	case "bytes.Compare":
		if s, ok := c.signOf(args[0], args[1]); ok {
			return ordVal{K: kInt, I: int64(s)}
		}
		return c.fail("bytes.Compare of incomparable values")
	case "bytes.Equal":
		if s, ok := c.signOf(args[0], args[1]); ok {
			return ordVal{K: kBool, B: s == 0}
		}
		return c.fail("bytes.Equal of incomparable values")
	case "(encoding/binary.bigEndian).Uint64":
		if len(args) == 2 && args[1].K == kProj {
			return args[1] // big-endian view preserves bytewise order for 8-byte components
		}
		return c.fail("BigEndian.Uint64 of unsupported value")
	}
	if f.Pkg != nil && f.Pkg.Pkg.Path() == "cmp" && f.Name() == "Compare" || (f.Origin() != nil && f.Origin().Pkg != nil && f.Origin().Pkg.Pkg.Path() == "cmp" && f.Origin().Name() == "Compare") {
		if s, ok := c.signOf(args[0], args[1]); ok {
			return ordVal{K: kInt, I: int64(s)}
		}
		return c.fail("cmp.Compare of incomparable values")
	}
	if f.Pkg == c.p.RootSSA {
		return c.evalFunc(f, args, nil, depth+1)
	}
	return c.fail("call of %s outside the comparator vocabulary", full)
}

// decideComparator evaluates cmp on the nine orderings. mode "less": func(i,j int) bool over
// the captured slice (sort.Slice); mode "cmp": func(a,b SlabID) int (slices.SortFunc).
func (p *Prog) decideComparator(fn *ssa.Function, mode string, sliceFree int) (ok bool, why string) {
	for ao := -1; ao <= 1; ao++ {
		for io := -1; io <= 1; io++ {
			c := &ordCtx{ao: ao, io: io, p: p}
			var res ordVal
			switch mode {
			case "less":
				free := make([]ordVal, len(fn.FreeVars))
				for i := range free {
					free[i] = ordVal{K: kOpaque}
				}
				if sliceFree >= 0 && sliceFree < len(free) {
					free[sliceFree] = ordVal{K: kCell, Cell: &ordCell{ordVal{K: kSliceHdr}}}
				}
				res = c.evalFunc(fn, []ordVal{{K: kElem, Which: 0}, {K: kElem, Which: 1}}, free, 0)
			default:
				res = c.evalFunc(fn, []ordVal{{K: kElem, Which: 0}, {K: kElem, Which: 1}}, nil, 0)
			}
			if c.err != "" {
				return false, "undecided: " + c.err
			}
			lex := ao
			if lex == 0 {
				lex = io
			}
			switch mode {
			case "less":
				if res.K != kBool {
					return false, "undecided: comparator result is not a boolean"
				}
				if res.B != (lex < 0) {
					return false, fmt.Sprintf("for address %s and index %s the comparator says less=%v; ascending (owner, index) order requires %v", sgn(ao), sgn(io), res.B, lex < 0)
				}
			default:
				if res.K != kInt {
					return false, "undecided: comparator result is not an integer"
				}
				s := 0
				if res.I < 0 {
					s = -1
				} else if res.I > 0 {
					s = 1
				}
				if s != lex {
					return false, fmt.Sprintf("for address %s and index %s the comparator returns sign %d; ascending (owner, index) order requires %d", sgn(ao), sgn(io), s, lex)
				}
			}
		}
	}
	return true, "comparator equals strict lexicographic (owner, index) order on all 9 abstract orderings"
}

func sgn(s int) string {
	switch {
	case s < 0:
		return "a<b"
	case s > 0:
		return "a>b"
	}
	return "a=b"
}

var _ = types.Typ
