package main

// L30 a recycled buffer does not alias the list that is being read.
// L32 a position recorded for an entry of a list is not invalidated by sorting the list afterwards.
//
// L30: a level-by-level walk keeps the current level in one slice and collects the next one in
// another. Re-using the "next" slice by re-slicing it to length 0 is only safe while it does not
// share its backing array with the "current" one - and after `current = next` it does: appends for
// the next level then overwrite entries of the current level that have not been visited (references
// are neither reported nor followed). Obligation per `x = x[:0]` on a loop-carried slice: no other
// loop-carried slice of the same loop header receives the same value on a back edge and is read
// in the loop.
//
// L32: where a function records "entry e sits at position len(list)" (into a map, say) and the
// list is sorted later on the same path, the recorded positions refer to the order before the sort.

import (
	"fmt"
	"go/token"
	"go/types"

	"golang.org/x/tools/go/ssa"
)

func ruleL30(p *Prog, r *Report) {
	const R = "L30"
	n := 0
	for _, top := range p.TopFuncs() {
		if p.IsTestFile(top.Pos()) {
			continue
		}
		eachInstrDeep(top, func(fn *ssa.Function, in ssa.Instruction) {
			sl, ok := in.(*ssa.Slice)
			if !ok || sl.Low != nil || sl.High == nil {
				return
			}
			if k, ok := cInt(sl.High); !ok || k != 0 {
				return
			}
			if _, isSlice := sl.X.Type().Underlying().(*types.Slice); !isSlice {
				return
			}
			phi, ok := canon(sl.X).(*ssa.Phi)
			if !ok {
				return
			}
			n++
			cons := fmt.Sprintf("recycled-buffer-not-aliased:%s", p.Name(fn))
			h := phi.Block()
			bad := ""
			for _, y := range h.Instrs {
				p2, ok := y.(*ssa.Phi)
				if !ok {
					break
				}
				if p2 == phi {
					continue
				}
				if _, isSlice := p2.Type().Underlying().(*types.Slice); !isSlice {
					continue
				}
				for i, pr := range h.Preds {
					if !h.Dominates(pr) {
						continue // entry edge
					}
					if i < len(phi.Edges) && i < len(p2.Edges) && sameValue(phi.Edges[i], p2.Edges[i]) {
						// is p2 read in the loop?
						read := false
						if p2.Referrers() != nil {
							for _, ref := range *p2.Referrers() {
								switch ref.(type) {
								case *ssa.IndexAddr, *ssa.Range, *ssa.Index:
									read = true
								}
							}
						}
						if read {
							bad = p2.Comment
						}
					}
				}
			}
			r.Decide(bad == "", R, cons, p.InstrPos(in), "the slice that is re-used from length 0 shares no backing array with a list read in the same loop",
				"a slice is re-used from length 0 although the list "+bad+" that is read in the same loop was assigned the same slice at the end of the previous round: appends overwrite entries of that list that have not been visited yet (references on deeper levels are neither reported nor followed)")
		})
	}
	r.Ok(R, "recycled-buffers", "-", fmt.Sprintf("%d loop-carried slices re-used from length 0", n))
}

func ruleL32(p *Prog, r *Report) {
	const R = "L32"
	n := 0
	for _, top := range p.TopFuncs() {
		if p.IsTestFile(top.Pos()) {
			continue
		}
		eachInstr(top, func(in ssa.Instruction) {
			sorted, _, _, ok := sortCallOf(in)
			if !ok {
				// sort.Strings and friends
				c, isCall := in.(*ssa.Call)
				if !isCall || c.Call.StaticCallee() == nil || c.Call.StaticCallee().Pkg == nil || c.Call.StaticCallee().Pkg.Pkg.Path() != "sort" || len(c.Call.Args) == 0 {
					return
				}
				sorted = c.Call.Args[0]
			}
			n++
			cell := cellOrValue(sorted)
			// positions of this list recorded before the sort: a map update / field store whose value derives
			// from len(list)
			var rec ssa.Instruction
			eachInstr(top, func(y ssa.Instruction) {
				var val ssa.Value
				switch x := y.(type) {
				case *ssa.MapUpdate:
					val = x.Value
				default:
					return
				}
				derives := sliceContains(val, func(v ssa.Value) bool {
					a, isLen := isLenOf(v)
					return isLen && cellOrValue(a) == cell
				}, 0, map[ssa.Value]bool{})
				if !derives {
					return
				}
				if canReach(top, y, func(z ssa.Instruction) bool { return z == in }, nil) != nil {
					rec = y
				}
			})
			cons := "positions-survive-sort:" + p.Name(top)
			if rec != nil {
				r.Bad(R, cons, p.InstrPos(in), "positions in this list are recorded at "+p.InstrPos(rec)+" (a value derived from its length) and the list is sorted afterwards: the recorded positions refer to the order before the sort, so every reference by position points to the wrong entry once two entries change places")
			} else {
				r.Ok(R, cons, p.InstrPos(in), "no position of the sorted list is recorded before the sort")
			}
		})
	}
	r.Floor(R, "sort calls", 2, n)
	_ = token.ADD
}

// L33 a pop routine leaves the list it handed out empty.
//
// PopIterate gives every element of a slab (or element list) to the caller for disposal. The slab object is
// shared by every handle of the container, so the list must be reset where it was handed out: a slab that keeps
// the popped elements lets another handle re-install them (references to slabs the caller has removed).
// Obligation per method named PopIterate that reads a slice field of its receiver: every success return is
// preceded by a store of nil (or an empty slice) into that field.
func ruleL33(p *Prog, r *Report) {
	const R = "L33"
	n := 0
	for _, f := range p.TopFuncs() {
		if p.IsTestFile(f.Pos()) || f.Name() != "PopIterate" || f.Signature.Recv() == nil || len(f.Params) == 0 {
			continue
		}
		// slice fields of the receiver whose entries the method reads
		fields := map[string]fieldRef{}
		eachInstr(f, func(in ssa.Instruction) {
			ia, ok := in.(*ssa.IndexAddr)
			if !ok {
				return
			}
			fr, ok := asLoadedField(ia.X)
			if !ok || !sameValue(fr.Base, f.Params[0]) {
				return
			}
			if _, isSlice := fieldType(fr).Underlying().(*types.Slice); isSlice {
				fields[fr.Field] = fr
			}
		})
		for name, fr := range fields {
			n++
			var isReset func(z ssa.Instruction) bool
			isReset = func(z ssa.Instruction) bool {
				// a reset helper of the same receiver that resets the field on every path
				if c, ok := z.(*ssa.Call); ok {
					g := c.Call.StaticCallee()
					if g != nil && g != f && g.Pkg == p.RootSSA && recvNamed(g) != nil && recvNamed(g) == recvNamed(f) && len(g.Blocks) > 0 && len(c.Call.Args) > 0 && sameValue(c.Call.Args[0], f.Params[0]) {
						inner := func(y ssa.Instruction) bool {
							st, ok := y.(*ssa.Store)
							if !ok {
								return false
							}
							w, ok := asFieldAddr(st.Addr)
							return ok && w.Field == name && w.Owner == fr.Owner && sameValue(w.Base, g.Params[0]) && isNilConst(canon(st.Val))
						}
						return successReturnAvoiding(g, nil, inner) == nil
					}
					return false
				}
				st, ok := z.(*ssa.Store)
				if !ok {
					return false
				}
				w, ok := asFieldAddr(st.Addr)
				if !ok || w.Field != name || w.Owner != fr.Owner || !sameValue(w.Base, f.Params[0]) {
					return false
				}
				v := canon(st.Val)
				if isNilConst(v) {
					return true
				}
				if sl, ok := v.(*ssa.Slice); ok && sl.High != nil {
					if k, ok := cInt(sl.High); ok && k == 0 {
						return true
					}
				}
				return false
			}
			bad := successReturnAvoiding(f, nil, isReset)
			pos := p.Pos(f.Pos())
			if bad != nil {
				pos = p.InstrPos(bad)
			}
			r.Decide(bad == nil, R, "pop-empties-list:"+p.Name(f)+":"+name, pos, "the list that was handed out is reset on every success path",
				"PopIterate can return success with "+name+" still holding the elements it handed out for disposal: the slab object is shared by every handle of the container, so another handle re-installs elements whose slabs the caller has removed")
		}
	}
	r.Floor(R, "pop routines over a list", 3, n)
}

// L31 windows of one backing array that are kept in different objects do not share capacity.
//
// Two sub-slices of one freshly made array, each stored in a field of its own object and later grown with
// append / slices.Insert, must be capacity-limited (three-index slices): otherwise growing one window writes
// into the backing array of the next (sibling index slabs of a batch-built map then overwrite each other's
// child headers on a later split). Obligation per local make([]T, ..): at most one sub-slice without a
// capacity limit is stored into a field of an object.
func ruleL31(p *Prog, r *Report) {
	const R = "L31"
	n := 0
	for _, top := range p.TopFuncs() {
		if p.IsTestFile(top.Pos()) {
			continue
		}
		windows := map[*ssa.MakeSlice][]ssa.Instruction{}
		eachInstr(top, func(in ssa.Instruction) {
			st, ok := in.(*ssa.Store)
			if !ok {
				return
			}
			if _, ok := st.Addr.(*ssa.FieldAddr); !ok {
				return
			}
			sl, ok := canon(st.Val).(*ssa.Slice)
			if !ok || sl.Max != nil {
				return
			}
			var mk *ssa.MakeSlice
			switch x := canon(sl.X).(type) {
			case *ssa.MakeSlice:
				mk = x
			case *ssa.Phi:
				for _, e := range x.Edges {
					if m, ok := canon(e).(*ssa.MakeSlice); ok {
						mk = m
					}
				}
			}
			if mk == nil {
				return
			}
			windows[mk] = append(windows[mk], in)
		})
		for mk, ws := range windows {
			n++
			// the same store executed in a loop also yields several windows
			multi := len(ws) > 1
			for _, w := range ws {
				if loopHeadOf(w.Block()) != nil && (loopHeadOf(mk.Block()) == nil || loopHeadOf(mk.Block()) != loopHeadOf(w.Block())) {
					multi = true
				}
			}
			r.Decide(!multi, R, "windows-capacity-limited:"+p.Name(top), p.InstrPos(ws[0]), "one window of the made array is kept",
				fmt.Sprintf("%d sub-slices of one made array (made at %s) are stored into object fields without a capacity limit (two-index slice expressions): they share the backing array, so growing one of them later (append, slices.Insert) overwrites entries that belong to the next object", len(ws), p.InstrPos(mk)))
		}
	}
	r.Ok(R, "windows", "-", fmt.Sprintf("%d made arrays with sub-slices kept in object fields", n))
}
