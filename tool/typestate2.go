package main

import (
	"fmt"
	"go/token"
	"sort"
	"strings"

	"golang.org/x/tools/go/ssa"
)

var rejectionCtors = map[string]bool{
	"NewIndexOutOfBoundsError": true, "NewSliceOutOfBoundsError": true, "NewInvalidSliceIndexError": true,
	"NewKeyNotFoundError": true, "NewCollisionLimitError": true, "NewSlabIDError": true, "NewSlabIDErrorf": true,
	"NewArrayElementCannotExceedMaxElementCountError": true,
}

// inlinedTrueEdge: for an If that tests the inlined state of object X, the successor index taken when inlined is true; -1 otherwise.
func (t *tsFunc) inlinedTrueEdge(ifi *ssa.If, X string) int {
	cond := ifi.Cond
	succ := 0
	if u, ok := cond.(*ssa.UnOp); ok && u.Op == token.NOT {
		cond, succ = u.X, 1
	}
	c := canon(cond)
	var subj ssa.Value
	if fr, ok := asLoadedField(c); ok && fr.Field == "inlined" {
		subj = fr.Base
	} else if call, ok := c.(*ssa.Call); ok && calleeName(call) == "Inlined" {
		subj = callRecv(call)
	}
	byInit := func() int {
		// a plain boolean the object's inlined flag was initialised from (`inlined := old.Inlined()` handed to the
		// literal or to a private constructor of the new root, then `if !inlined { store }`)
		if t.inlInit == nil {
			t.inlInit = map[string][]ssa.Value{}
			eachInstr(t.fn, func(in ssa.Instruction) {
				switch x := in.(type) {
				case *ssa.Alloc:
					if v := litField(t.fn, x, "inlined"); v != nil {
						for _, o := range t.obj(x) {
							t.inlInit[o] = append(t.inlInit[o], v)
						}
					}
				case *ssa.Call:
					if v, inCallee, ok := constructorField(x, "inlined"); ok && !inCallee {
						for _, o := range t.obj(x) {
							t.inlInit[o] = append(t.inlInit[o], v)
						}
					}
				}
			})
		}
		for o, vs := range t.inlInit {
			if o != X && "root("+o+")" != X && t.exitRoots[o] != X && t.exitRoots[X] != o {
				continue
			}
			for _, v := range vs {
				if _, isConst := canon(v).(*ssa.Const); isConst {
					continue
				}
				if sameValue(v, c) {
					return succ
				}
			}
		}
		return -1
	}
	if subj == nil {
		return byInit()
	}
	for _, o := range t.obj(subj) {
		if o == X || "root("+o+")" == X {
			return succ
		}
		// handle.Inlined() evaluated after the root was replaced speaks about the new root
		if t.exitRoots[X] == "root("+o+")" {
			if in, ok := c.(ssa.Instruction); ok {
				for _, st := range t.rootStores {
					if instrDominates(st, in) {
						return succ
					}
				}
			}
		}
	}
	return byInit()
}

func (t *tsFunc) edgeFilter(X string) func(from *ssa.BasicBlock, si int) bool {
	pruned := map[[2]int]bool{}
	for _, b := range t.fn.Blocks {
		if len(b.Instrs) == 0 {
			continue
		}
		if ifi, ok := b.Instrs[len(b.Instrs)-1].(*ssa.If); ok {
			if s := t.inlinedTrueEdge(ifi, X); s >= 0 {
				pruned[[2]int{b.Index, s}] = true
			}
		}
	}
	if len(pruned) == 0 {
		return nil
	}
	return func(from *ssa.BasicBlock, si int) bool { return !pruned[[2]int{from.Index, si}] }
}

// constTripEdgeFilter refines an edge filter for a query "reach a return avoiding S": for loops that run at least once
// (a counting loop from 0 to a positive constant, as a range over an array literal is lowered), when no iteration can
// complete without meeting S, the only way past the loop that avoids S is the zero-trip path, which does not exist:
// the exit edge is pruned for this query.
func constTripEdgeFilter(fn *ssa.Function, S map[ssa.Instruction]bool, edgeOK func(*ssa.BasicBlock, int) bool) func(*ssa.BasicBlock, int) bool {
	{
		prunedExit := map[[2]int]bool{}
		for _, h := range fn.Blocks {
			if len(h.Instrs) == 0 || len(h.Succs) != 2 {
				continue
			}
			ifi, ok := h.Instrs[len(h.Instrs)-1].(*ssa.If)
			if !ok {
				continue
			}
			bo, ok := ifi.Cond.(*ssa.BinOp)
			if !ok || bo.Op != token.LSS {
				continue
			}
			k, isK := constInt(bo.Y)
			if !isK || k <= 0 {
				continue
			}
			// index starts at 0: phi(-1, ...)+1 or phi(0, ...)
			startsAtZero := false
			switch x := bo.X.(type) {
			case *ssa.BinOp:
				if ph, ok := x.X.(*ssa.Phi); ok && x.Op == token.ADD && ph.Block() == h {
					if c1, ok := constInt(x.Y); ok && c1 == 1 {
						for i, e := range ph.Edges {
							if c0, ok := constInt(e); ok && c0 == -1 && !h.Dominates(h.Preds[i]) {
								startsAtZero = true
							}
						}
					}
				}
			case *ssa.Phi:
				if x.Block() == h {
					for i, e := range x.Edges {
						if c0, ok := constInt(e); ok && c0 == 0 && !h.Dominates(h.Preds[i]) {
							startsAtZero = true
						}
					}
				}
			}
			if !startsAtZero {
				continue
			}
			// can an iteration complete (body entry -> header) avoiding S?
			body := h.Succs[0]
			completes := false
			seen := map[*ssa.BasicBlock]bool{}
			var walk func(b *ssa.BasicBlock)
			walk = func(b *ssa.BasicBlock) {
				if completes || seen[b] {
					return
				}
				if b == h {
					completes = true
					return
				}
				seen[b] = true
				for _, in := range b.Instrs {
					if S[in] {
						return
					}
				}
				for si, sc := range b.Succs {
					if edgeOK != nil && !edgeOK(b, si) {
						continue
					}
					walk(sc)
				}
			}
			walk(body)
			if !completes {
				prunedExit[[2]int{h.Index, 1}] = true
			}
		}
		if len(prunedExit) > 0 {
			prev := edgeOK
			edgeOK = func(from *ssa.BasicBlock, si int) bool {
				if prunedExit[[2]int{from.Index, si}] {
					return false
				}
				return prev == nil || prev(from, si)
			}
		}
	}
	return edgeOK
}

// openPath: is there a success path through m that avoids every instruction in S (with edge filter)?
func openPath(fn *ssa.Function, m ssa.Instruction, S map[ssa.Instruction]bool, edgeOK func(*ssa.BasicBlock, int) bool) *ssa.Return {
	if S[m] {
		return nil
	}
	edgeOK = constTripEdgeFilter(fn, S, edgeOK)
	// entry -> m
	reached := false
	if len(fn.Blocks) > 0 && fn.Blocks[0].Instrs[0] == m {
		reached = true
	}
	if !reached {
		reachFrom(fn, nil, edgeOK, func(in ssa.Instruction) bool {
			if reached {
				return true
			}
			if in == m {
				reached = true
				return true
			}
			return S[in]
		})
	}
	if !reached {
		return nil
	}
	var bad *ssa.Return
	reachFrom(fn, m, edgeOK, func(in ssa.Instruction) bool {
		if bad != nil {
			return true
		}
		if S[in] {
			return true
		}
		if r, ok := in.(*ssa.Return); ok {
			c, _ := classifyReturn(r)
			if c != retError {
				bad = r
			}
			return true
		}
		if _, ok := in.(*ssa.Panic); ok {
			return true
		}
		return false
	})
	return bad
}

func (e *tsEngine) analyze(f *ssa.Function) (*tsSummary, []tsFinding) {
	p := e.p
	s := newSummary()
	var findings []tsFinding
	if len(f.Blocks) == 0 {
		return s, nil
	}
	t := &tsFunc{e: e, fn: f, memo: map[ssa.Value][]string{}, busy: map[ssa.Value]bool{}, rootAlias: map[string]string{}, idOf: map[string][]ssa.Value{}}
	// pre-pass 1: stores to <handle>.root (flow-sensitive root identity), exit roots and register take-over
	t.exitRoots = map[string]string{}
	t.takeover = map[string]string{}
	eachInstr(f, func(in ssa.Instruction) {
		st, ok := in.(*ssa.Store)
		if !ok {
			return
		}
		fa, ok := st.Addr.(*ssa.FieldAddr)
		if !ok || !isHandleT(fa.X.Type()) {
			return
		}
		if _, nm := structFieldName(fa.X.Type(), fa.Field); nm != "root" {
			return
		}
		if isFreshBase(fa.X) {
			return
		}
		t.rootStores = append(t.rootStores, st)
	})
	for _, st := range t.rootStores {
		fa := st.Addr.(*ssa.FieldAddr)
		for _, h := range t.obj(fa.X) {
			oldKey := "root(" + h + ")"
			// is the old root re-keyed with a fresh id in this function?
			rekeyed := false
			eachInstr(f, func(y ssa.Instruction) {
				c, ok := y.(ssa.CallInstruction)
				if !ok || calleeName(c) != "SetSlabID" {
					return
				}
				onOld := false
				for _, o := range t.obj(callRecv(c)) {
					if o == oldKey {
						onOld = true
					}
				}
				if !onOld {
					return
				}
				if ex, ok := canon(callArgs(c)[0]).(*ssa.Extract); ok {
					if gc, ok := ex.Tuple.(*ssa.Call); ok && calleeName(gc) == "GenerateSlabID" {
						rekeyed = true
					}
				}
			})
			for _, o := range t.obj(st.Val) {
				if strings.HasPrefix(o, "root(") {
					continue
				}
				t.exitRoots[o] = oldKey
				if rekeyed {
					continue
				}
				// the new root takes over the old root's register when its id is the id read from the old root
				var idv ssa.Value
				nv := canon(st.Val)
				if mi, ok := nv.(*ssa.MakeInterface); ok {
					nv = canon(mi.X)
				}
				if al, ok := nv.(*ssa.Alloc); ok {
					idv = litField(f, al, "header", "slabID")
				} else if cv, inCallee, ok := constructorField(st.Val, "header", "slabID"); ok && !inCallee {
					idv = cv // built by a private constructor that is given the id
				} else if g, lit, call, ok := constructorLiteral(st.Val); ok {
					// built by a private constructor that is handed the old root and reads the id from it
					if fv := litField(g, lit, "header", "slabID"); fv != nil {
						if c2, ok := canon(fv).(*ssa.Call); ok && calleeName(c2) == "SlabID" && callRecv(c2) != nil {
							if prm, ok := canon(callRecv(c2)).(*ssa.Parameter); ok {
								for i, q := range g.Params {
									if q == prm && i < len(call.Call.Args) {
										for _, ro := range t.obj(call.Call.Args[i]) {
											if ro == oldKey {
												t.takeover[o] = oldKey
											}
										}
									}
								}
							}
						}
					}
				}
				eachInstr(f, func(y ssa.Instruction) {
					c, ok := y.(ssa.CallInstruction)
					if !ok || calleeName(c) != "SetSlabID" {
						return
					}
					for _, ro := range t.obj(callRecv(c)) {
						if ro == o {
							idv = callArgs(c)[0]
						}
					}
				})
				if idv != nil {
					if c, ok := canon(idv).(*ssa.Call); ok && calleeName(c) == "SlabID" {
						for _, ro := range t.obj(callRecv(c)) {
							if ro == oldKey {
								t.takeover[o] = oldKey
							}
						}
					}
				}
			}
		}
	}
	t.memo = map[ssa.Value][]string{}
	// pre-pass 2: objects retrieved by id
	eachInstr(f, func(in ssa.Instruction) {
		call, ok := in.(*ssa.Call)
		if !ok {
			return
		}
		var idArg ssa.Value
		for _, a := range callArgs(call) {
			if typeName(a.Type()) == "SlabID" {
				idArg = a
			}
		}
		if idArg == nil {
			return
		}
		if _, _, _, isCtor := constructorLiteral(call); isCtor {
			return // a private constructor that is given the id of the slab it builds: nothing was retrieved
		}
		for idx := 0; idx < 2; idx++ {
			for _, o := range t.callResultObj(call, idx, call.Type()) {
				if strings.HasPrefix(o, "C:") {
					t.idOf[o] = append(t.idOf[o], idArg)
				}
			}
		}
	})

	// events
	var evs []tsEvent
	inDecode := e.decode[f]
	add := func(kind string, objs []string, in ssa.Instruction, via string) {
		for _, o := range objs {
			if strings.HasPrefix(o, "A:") {
				nm := strings.TrimPrefix(o, "A:")
				if i := strings.Index(nm, "@"); i >= 0 {
					nm = nm[:i]
				}
				if partStructs[nm] {
					continue // a fresh part literal is not a register; it matters once attached to a slab
				}
				if inDecode {
					continue // decoded slabs are born clean
				}
			}
			evs = append(evs, tsEvent{kind, o, in, via})
		}
	}
	effectInstrs := map[ssa.Instruction]string{}
	eachInstr(f, func(in ssa.Instruction) {
		switch x := in.(type) {
		case *ssa.Alloc:
			if n := rootNamed(x.Type()); n != nil && slabStructs[n.Obj().Name()] && !inDecode {
				add("NEW", t.obj(x), in, "slab literal")
			}
		case *ssa.Store:
			if _, isAl := x.Addr.(*ssa.Alloc); isAl {
				return
			}
			objs := t.addrRootObj(x.Addr)
			add("MUT", objs, in, "field store")
			for _, o := range objs {
				if !isFreshObj(o) {
					effectInstrs[in] = "mutation of " + o
				}
			}
			// handle state
			if fw, ok := fieldWriteOf(in); ok && fw.Ref.Owner != nil && isHandleType(fw.Ref.Owner.Obj().Name()) && (fw.Ref.Field == "root" || fw.Ref.Field == "mutableElementIndex") && !isFreshBase(fw.Ref.Base) {
				effectInstrs[in] = "write of " + fw.Ref.Owner.Obj().Name() + "." + fw.Ref.Field
			}
			if fw, ok := fieldWriteOf(in); ok && fw.Ref.Owner != nil && fw.Ref.Owner.Obj().Name() == storageT && fw.Ref.Field == "deltas" && !isFreshBase(fw.Ref.Base) {
				effectInstrs[in] = "write of storage." + fw.Ref.Field
			}
		case *ssa.MapUpdate:
			if fw, ok := fieldWriteOf(in); ok && fw.Ref.Owner != nil && !isFreshBase(fw.Ref.Base) {
				on := fw.Ref.Owner.Obj().Name()
				if (on == storageT && fw.Ref.Field == "deltas") || (isHandleType(on) && fw.Ref.Field == "mutableElementIndex") {
					effectInstrs[in] = "write of " + on + "." + fw.Ref.Field
				}
			}
		case ssa.CallInstruction:
			cc := x.Common()
			if b, ok := cc.Value.(*ssa.Builtin); ok {
				switch b.Name() {
				case "copy":
					add("MUT", t.addrRootObj(cc.Args[0]), in, "copy into")
				case "delete":
					if fw, ok := fieldWriteOf(in); ok && fw.Ref.Owner != nil && !isFreshBase(fw.Ref.Base) {
						on := fw.Ref.Owner.Obj().Name()
						if (on == storageT && fw.Ref.Field == "deltas") || isHandleType(on) {
							effectInstrs[in] = "delete from " + on + "." + fw.Ref.Field
						}
					}
				}
				return
			}
			// primitives on the SlabStorage interface
			if c, ok := p.isIfaceMethodCall(in, "SlabStorage", "Store"); ok {
				add("STORE", t.obj(c.Common().Args[1]), in, "SlabStorage.Store")
				effectInstrs[in] = "SlabStorage.Store"
				return
			}
			if c, ok := p.isIfaceMethodCall(in, "SlabStorage", "Remove"); ok {
				add("REMOVE", t.idObjs(c.Common().Args[0]), in, "SlabStorage.Remove")
				effectInstrs[in] = "SlabStorage.Remove"
				return
			}
			if _, ok := p.isIfaceMethodCall(in, "SlabStorage", "GenerateSlabID"); ok {
				evs = append(evs, tsEvent{"ALLOCID", "", in, "GenerateSlabID"})
				effectInstrs[in] = "GenerateSlabID"
				return
			}
			if _, _, ok := p.baseWrite(in); ok {
				effectInstrs[in] = "register write"
				return
			}
			if calleeName(x) == "notifyParentIfNeeded" {
				// the parent re-sets this container in itself and stores its slab (and so do its ancestors)
				effectInstrs[in] = "parent notification (the parent is re-set and stored)"
			}
			if cc.IsInvoke() && cc.Method.Name() == "Storable" && typeName(cc.Value.Type()) == "Value" {
				effectInstrs[in] = "Value.Storable (may inline/uninline, allocate and store)"
				return
			}
			if calleeName(x) == "SetSlabID" && callRecv(x) != nil && len(callArgs(x)) == 1 {
				if ex, ok := canon(callArgs(x)[0]).(*ssa.Extract); ok {
					if gc, ok := ex.Tuple.(*ssa.Call); ok && calleeName(gc) == "GenerateSlabID" {
						add("REKEY", t.obj(callRecv(x)), in, "SetSlabID(fresh id): the object becomes a new register")
					}
				}
			}
			callees := p.Callees(x)
			if len(callees) == 0 {
				return
			}
			// union of callee-side keys
			keys := map[string]bool{}
			for _, g := range callees {
				sg := e.sum[g]
				if sg == nil {
					continue
				}
				for k := range sg.MutNoStore {
					keys[k] = true
				}
				for k := range sg.Sto {
					keys[k] = true
				}
				for k := range sg.Rem {
					keys[k] = true
				}
			}
			for k := range keys {
				anyMut, allSto, allRem := "", true, true
				anyRekey := false
				for _, g := range callees {
					sg := e.sum[g]
					if sg == nil {
						allSto, allRem = false, false
						continue
					}
					if w, ok := sg.MutNoStore[k]; ok && anyMut == "" {
						anyMut = p.Name(g) + ": " + w
					}
					if sg.Rekey[k] {
						anyRekey = true
					}
					if !sg.Sto[k] {
						allSto = false
					}
					if !sg.Rem[k] {
						allRem = false
					}
				}
				objs := t.mapCalleeObj(x, k)
				if anyMut != "" {
					if anyRekey {
						add("REKEY", objs, in, "call "+anyMut)
					} else {
						add("MUT", objs, in, "call "+anyMut)
					}
				}
				if allSto {
					add("STORE", objs, in, "call stores")
				}
				if allRem {
					add("REMOVE", objs, in, "call removes")
				}
			}
			// fresh results
			if cv, ok := in.(*ssa.Call); ok {
				for _, g := range callees {
					if sg := e.sum[g]; sg != nil {
						for idx, w := range sg.FreshRes {
							for _, o := range t.callResultObj(cv, idx, cv.Type()) {
								if strings.HasPrefix(o, "C:") {
									evs = append(evs, tsEvent{"NEW", o, in, "fresh result of " + p.Name(g) + ": " + w})
								}
							}
						}
					}
				}
			}
			for _, g := range callees {
				if sg := e.sum[g]; sg != nil && sg.MayEffect {
					effectInstrs[in] = "call of " + p.Name(g) + " (has effects)"
				}
			}
		}
	})
	e.events[f] = evs

	// group
	byObj := map[string][]tsEvent{}
	for _, ev := range evs {
		if ev.Obj != "" {
			byObj[ev.Obj] = append(byObj[ev.Obj], ev)
		}
	}
	var objs []string
	for o := range byObj {
		objs = append(objs, o)
	}
	sort.Strings(objs)

	returnedAt := func(o string) int {
		for _, ret := range returnsOf(f) {
			for i, res := range ret.Results {
				for _, k := range t.obj(res) {
					if k == o {
						return i
					}
				}
			}
		}
		return -1
	}

	for _, o := range objs {
		S := map[ssa.Instruction]bool{}
		hasOblig := false
		// a new root that takes over this object's register: storing it persists the register
		for n, old := range t.takeover {
			if old == o {
				for _, ev := range byObj[n] {
					if ev.Kind == "STORE" {
						S[ev.Instr] = true
					}
				}
			}
		}
		for _, ev := range byObj[o] {
			switch ev.Kind {
			case "STORE", "REMOVE":
				S[ev.Instr] = true
			case "MUT", "NEW", "REKEY":
				hasOblig = true
			}
			if ev.Kind == "MUT" || ev.Kind == "REKEY" {
				s.Mut[o] = true
			}
		}
		if !hasOblig {
			continue
		}
		ef := t.edgeFilter(o)
		for _, ev := range byObj[o] {
			if ev.Kind != "MUT" && ev.Kind != "NEW" && ev.Kind != "REKEY" {
				continue
			}
			var bad *ssa.Return
			if ev.Kind == "REKEY" {
				// only a store after the re-keying persists the object under its new id
				bad = openPathAfter(f, ev.Instr, S, ef)
			} else {
				bad = openPath(f, ev.Instr, S, ef)
			}
			if bad == nil {
				continue
			}
			rekey := ev.Kind == "REKEY"
			wit := fmt.Sprintf("%s at %s (%s) reaches the return at %s without store/remove", ev.Kind, p.InstrPos(ev.Instr), ev.Via, p.InstrPos(bad))
			switch {
			case t.exitRoots[o] != "":
				// the object is a handle's root when the function returns: the handle's caller inherits the obligation
				if _, ok := s.MutNoStore[t.exitRoots[o]]; !ok {
					s.MutNoStore[t.exitRoots[o]] = wit
				}
				if rekey {
					s.Rekey[t.exitRoots[o]] = true
				}
			case strings.HasPrefix(o, "P") || strings.HasPrefix(o, "root(") || strings.HasPrefix(o, "F:"):
				if _, ok := s.MutNoStore[o]; !ok {
					s.MutNoStore[o] = wit
				}
				if rekey {
					s.Rekey[o] = true
				}
			case strings.HasPrefix(o, "COLL:"):
				// collapsed collection (weak update): a store of any member after the event closes it
				if idx := returnedAt(o); idx >= 0 {
					continue
				}
				if strings.HasPrefix(o, "COLL:P") {
					continue // a slice of slabs owned by the caller
				}
				findings = append(findings, tsFinding{"R1", "collection:" + o, p.InstrPos(ev.Instr), "a slab held in " + o + " is modified/created and no member is stored afterwards: " + wit})
			default: // A: or C:
				if idx := returnedAt(o); idx >= 0 {
					if _, ok := s.FreshRes[idx]; !ok {
						s.FreshRes[idx] = wit
					}
					continue
				}
				// appended to a collection that is stored/returned later: weak accept
				if t.flowsIntoCollection(o) {
					continue
				}
				findings = append(findings, tsFinding{"R1", "local:" + o, p.InstrPos(ev.Instr), wit + "; the slab is neither returned nor handed to a caller"})
			}
		}
	}

	// must-store / must-remove summaries for parameter-rooted objects
	hasSuccess := false
	for _, ret := range returnsOf(f) {
		if c, _ := classifyReturn(ret); c != retError {
			hasSuccess = true
		}
	}
	if hasSuccess {
		for _, o := range objs {
			if !(strings.HasPrefix(o, "P") || strings.HasPrefix(o, "root(")) {
				continue
			}
			for _, kind := range []string{"STORE", "REMOVE"} {
				S := map[ssa.Instruction]bool{}
				for _, ev := range byObj[o] {
					if ev.Kind == kind {
						S[ev.Instr] = true
					}
				}
				if len(S) == 0 {
					continue
				}
				ef := t.edgeFilter(o)
				var bad *ssa.Return
				reachFrom(f, nil, ef, func(in ssa.Instruction) bool {
					if bad != nil || S[in] {
						return true
					}
					if r, ok := in.(*ssa.Return); ok {
						if c, _ := classifyReturn(r); c != retError {
							bad = r
						}
						return true
					}
					_, isPanic := in.(*ssa.Panic)
					return isPanic
				})
				if bad == nil {
					if kind == "STORE" {
						s.Sto[o] = true
					} else {
						s.Rem[o] = true
					}
				}
			}
		}
	}

	// result aliasing
	for _, ret := range returnsOf(f) {
		for i, res := range ret.Results {
			if !isTrackedT(res.Type()) {
				continue
			}
			for _, k := range t.obj(res) {
				if strings.HasPrefix(k, "P") {
					s.RetAlias[i] = k
				}
			}
		}
	}

	// effects / rejections
	s.MayEffect = len(effectInstrs) > 0
	type rej struct {
		ret  *ssa.Return
		via  *ssa.Call
		what string
	}
	var rejs []rej
	for _, ret := range returnsOf(f) {
		if !lastResultIsError(f) {
			continue
		}
		ev := canon(resolveNamedResult(ret, len(ret.Results)-1))
		found := false
		sliceContains(ev, func(v ssa.Value) bool {
			c, ok := v.(*ssa.Call)
			if !ok || found {
				return false
			}
			if g := c.Call.StaticCallee(); g != nil && g.Pkg == p.RootSSA && rejectionCtors[g.Name()] {
				if strings.HasPrefix(g.Name(), "NewSlabIDError") && !controlDependsOnValue(f, c.Block(), isUndefinedIDTest) {
					return false // SlabIDError used for something other than 'undefined identifier' (e.g. buffer length)
				}
				rejs = append(rejs, rej{ret, nil, g.Name()})
				found = true
				return true
			}
			return false
		}, 0, map[ssa.Value]bool{})
		if found {
			continue
		}
		// propagated from a callee that may reject
		var src *ssa.Call
		switch x := ev.(type) {
		case *ssa.Extract:
			src, _ = x.Tuple.(*ssa.Call)
		case *ssa.Call:
			src = x
			// wrap helper: look at the wrapped error
			if g := x.Call.StaticCallee(); g != nil && strings.HasPrefix(g.Name(), "wrapError") && len(x.Call.Args) > 0 {
				switch y := canon(x.Call.Args[0]).(type) {
				case *ssa.Extract:
					src, _ = y.Tuple.(*ssa.Call)
				case *ssa.Call:
					src = y
				}
			}
		}
		if src != nil && src.Call.IsInvoke() {
			switch typeName(src.Call.Value.Type()) {
			case "SlabStorage", "BaseStorage", "Ledger":
				src = nil // an error of the storage component is a storage failure, not a rejection of this request
			}
		}
		if src != nil && e.cannotReject(t, src) {
			src = nil // Element(k) where the count was just tested to be k+1
		}
		if src != nil {
			for _, g := range p.Callees(src) {
				if sg := e.sum[g]; sg != nil && sg.MayReject {
					rejs = append(rejs, rej{ret, src, "propagated from " + p.Name(g)})
					if sg.EffBeforeReject != "" && s.EffBeforeReject == "" {
						s.EffBeforeReject = "via " + p.Name(g) + ": " + sg.EffBeforeReject
					}
					break
				}
			}
		}
	}
	s.MayReject = len(rejs) > 0
	for _, rj := range rejs {
		for ei, why := range effectInstrs {
			if rj.via != nil && ei == ssa.Instruction(rj.via) {
				continue
			}
			if e.cannotReject(t, rj.via) {
				continue
			}
			target := ssa.Instruction(rj.ret)
			if canReach(f, ei, func(x ssa.Instruction) bool { return x == target }, nil) != nil {
				if s.EffBeforeReject == "" {
					s.EffBeforeReject = fmt.Sprintf("%s at %s precedes the rejection (%s) returned at %s", why, p.InstrPos(ei), rj.what, p.InstrPos(rj.ret))
				}
			}
		}
	}
	return s, findings
}

// cannotReject: idiom (i): Element(k) with constant k dominated by the true edge of Count() == k+1.
func (e *tsEngine) cannotReject(t *tsFunc, via *ssa.Call) bool {
	if via == nil || calleeName(via) != "Element" {
		return false
	}
	args := callArgs(via)
	if len(args) != 1 {
		return false
	}
	k, ok := constInt(args[0])
	if !ok {
		return false
	}
	for _, b := range t.fn.Blocks {
		ifi, ok := b.Instrs[len(b.Instrs)-1].(*ssa.If)
		if !ok {
			continue
		}
		bo, ok := ifi.Cond.(*ssa.BinOp)
		if !ok || (bo.Op != token.EQL && bo.Op != token.NEQ) {
			continue
		}
		c, okc := constInt(bo.Y)
		if !okc || c != k+1 {
			continue
		}
		eqEdge := 0
		if bo.Op == token.NEQ {
			eqEdge = 1
		}
		if call, ok := canon(bo.X).(*ssa.Call); ok && calleeName(call) == "Count" && sameValue(callRecv(call), callRecv(via)) {
			if edgeDominates(b, eqEdge, via.Block()) {
				return true
			}
		}
	}
	return false
}

// flowsIntoCollection: object o is appended to / stored in a slice of slabs.
func (t *tsFunc) flowsIntoCollection(o string) bool {
	found := false
	eachInstr(t.fn, func(in ssa.Instruction) {
		if st, ok := in.(*ssa.Store); ok {
			if _, isIdx := st.Addr.(*ssa.IndexAddr); isIdx && isSlabT(st.Val.Type()) {
				for _, k := range t.obj(st.Val) {
					if k == o {
						found = true
					}
				}
			}
		}
	})
	return found
}

// isUndefinedIDTest: comparison with SlabIDUndefined / SlabIndexUndefined.
func isUndefinedIDTest(v ssa.Value) bool {
	bo, ok := v.(*ssa.BinOp)
	if !ok || (bo.Op != token.EQL && bo.Op != token.NEQ) {
		return false
	}
	isU := func(x ssa.Value) bool {
		u, ok := x.(*ssa.UnOp)
		if !ok || u.Op != token.MUL {
			return false
		}
		g, ok := u.X.(*ssa.Global)
		return ok && (g.Name() == "SlabIDUndefined" || g.Name() == "SlabIndexUndefined")
	}
	return isU(bo.X) || isU(bo.Y)
}

// openPathAfter: is there a path from m to a success return that avoids S?
func openPathAfter(fn *ssa.Function, m ssa.Instruction, S map[ssa.Instruction]bool, edgeOK func(*ssa.BasicBlock, int) bool) *ssa.Return {
	edgeOK = constTripEdgeFilter(fn, S, edgeOK)
	var bad *ssa.Return
	reachFrom(fn, m, edgeOK, func(in ssa.Instruction) bool {
		if bad != nil || S[in] {
			return true
		}
		if r, ok := in.(*ssa.Return); ok {
			if c, _ := classifyReturn(r); c != retError {
				bad = r
			}
			return true
		}
		_, isPanic := in.(*ssa.Panic)
		return isPanic
	})
	return bad
}
