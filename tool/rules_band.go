package main

// L27 band and inlinability predicates are exact at their boundaries.
//
// Split / merge / inline decisions are taken by a handful of small predicates:
// IsFull (size > max threshold), IsUnderflow (size < min threshold, and by how much),
// Inlinable (the inlined form of the slab - inlined prefix + element bytes - fits the
// limit the parent grants, limit included). Each is evaluated (pureeval.go) on a grid
// of states around its boundary, for both values of every flag it reads, and compared
// with its reference meaning: a predicate that is off by one at the boundary keeps a
// register one byte outside its band, or stores a child that fits exactly as a separate
// slab (and the other way round).

import (
	"fmt"
	"go/types"
	"strings"

	"golang.org/x/tools/go/ssa"
)

func ruleL27(p *Prog, r *Report) {
	const R = "L27"
	n := 0
	const M, m = 100, 50
	types4 := []string{"ArrayDataSlab", "ArrayMetaDataSlab", "MapDataSlab", "MapMetaDataSlab"}
	// the lenders among the index slabs: CanLendToLeft / CanLendToRight(size) answer whether, after giving away the
	// whole child headers that cover `size` bytes (ceil(size / header size) of them), the slab stays above the lower
	// threshold. Decided on a grid: slab sizes around the threshold plus 0..3 headers, requests of 1..3 headers' worth.
	for _, tn := range []string{"ArrayMetaDataSlab", "MapMetaDataSlab"} {
		hname := "arraySlabHeaderSize"
		if tn == "MapMetaDataSlab" {
			hname = "mapSlabHeaderSize"
		}
		hc := p.RootSSA.Const(hname)
		if hc == nil {
			r.Unk(R, "anchor:"+hname, "-", "constant not found")
			continue
		}
		h, okh := constInt(hc.Value)
		if !okh || h <= 0 {
			r.Unk(R, "anchor:"+hname, "-", "constant not integral")
			continue
		}
		for _, pred := range []string{"CanLendToLeft", "CanLendToRight"} {
			f := p.Method(tn, pred)
			if f == nil {
				r.Unk(R, "anchor:"+tn+"."+pred, "-", "predicate not found")
				continue
			}
			n++
			cons := "lender-predicate:" + tn + "." + pred
			bad, und := "", ""
			for s := int64(m - 2); s <= m+4*h && bad == "" && und == ""; s++ {
				for size := int64(1); size <= 3*h && bad == "" && und == ""; size++ {
					ev := &pureEvaluator{p: p, oracle: func(in pureInput) (int64, bool) {
						switch {
						case in.kind == "field" && strings.HasSuffix(in.name, "header.size"):
							return s, true
						case in.kind == "global" && in.name == "maxThreshold":
							return M, true
						case in.kind == "global" && in.name == "minThreshold":
							return m, true
						}
						return 0, false
					}}
					sz := size
					res, ok := ev.run(f, []*int64{nil, &sz}, 0)
					if !ok {
						und = ev.fail
						break
					}
					k := (size + h - 1) / h
					want := int64(0)
					if s >= h*k && s-h*k > m {
						want = 1
					}
					if len(res) != 1 || res[0] != want {
						bad = fmt.Sprintf("with slab size %d, lower threshold %d, header size %d and a request of %d bytes it answers %v (whole headers needed: %d)", s, m, h, size, res, k)
					}
				}
			}
			switch {
			case und != "":
				r.Unk(R, cons, p.Pos(f.Pos()), "could not be evaluated: "+und)
			case bad != "":
				r.Bad(R, cons, p.Pos(f.Pos()), "the lender predicate does not count whole headers: "+bad+"; an index slab that cannot spare a child says it can, the pair is rebalanced instead of merged and one of them stays below the lower threshold")
			default:
				r.Ok(R, cons, p.Pos(f.Pos()), "agrees with 'after giving ceil(size/header) headers the slab stays above the lower threshold' on the whole grid")
			}
		}
	}
	for _, tn := range types4 {
		for _, pred := range []string{"IsFull", "IsUnderflow"} {
			f := p.Method(tn, pred)
			if f == nil {
				r.Unk(R, "anchor:"+tn+"."+pred, "-", "predicate not found")
				continue
			}
			n++
			cons := "band-predicate:" + tn + "." + pred
			bad, und := "", ""
			hasAnySize := false
			if nt := p.LookupType(tn); nt != nil {
				if st, ok := nt.Underlying().(*types.Struct); ok {
					for i := 0; i < st.NumFields(); i++ {
						if st.Field(i).Name() == "anySize" {
							hasAnySize = true
						}
					}
				}
			}
			for anySize := int64(0); anySize <= 1 && bad == "" && und == ""; anySize++ {
				for s := int64(m - 3); s <= M+3 && bad == "" && und == ""; s++ {
					if s > m+3 && s < M-3 {
						continue
					}
					readAny := false
					ev := &pureEvaluator{p: p, oracle: func(in pureInput) (int64, bool) {
						switch {
						case in.kind == "field" && strings.HasSuffix(in.name, "header.size"):
							return s, true
						case in.kind == "field" && strings.HasSuffix(in.name, "anySize"):
							readAny = true
							return anySize, true
						case in.kind == "global" && in.name == "maxThreshold":
							return M, true
						case in.kind == "global" && in.name == "minThreshold":
							return m, true
						}
						return 0, false
					}}
					res, ok := ev.run(f, nil, 0)
					if !ok {
						und = ev.fail
						break
					}
					// a slab kind that has the size-unlimited flag (external collision groups) must honour it
					_ = readAny
					exempt := hasAnySize && anySize == 1
					if pred == "IsFull" {
						want := int64(0)
						if s > M && !exempt {
							want = 1
						}
						if len(res) != 1 || res[0] != want {
							bad = fmt.Sprintf("with size %d, max threshold %d, size-unlimited=%v it answers %v", s, M, exempt, res)
						}
					} else {
						wantU, wantN := int64(0), int64(0)
						if s < m && !exempt {
							wantU, wantN = 1, m-s
						}
						if len(res) != 2 || res[1] != wantU || res[0] != wantN {
							bad = fmt.Sprintf("with size %d, min threshold %d, size-unlimited=%v it answers %v", s, m, exempt, res)
						}
					}
				}
			}
			switch {
			case und != "":
				r.Unk(R, cons, p.Pos(f.Pos()), "could not be evaluated: "+und)
			case bad != "":
				r.Bad(R, cons, p.Pos(f.Pos()), "the band predicate is not exact at its boundary: "+bad+"; a slab would stay outside the size band, or be split / merged while inside it")
			default:
				r.Ok(R, cons, p.Pos(f.Pos()), "exact on every size within 3 bytes of either threshold, for both values of the size-unlimited flag")
			}
		}
	}
	// Inlinable
	for _, tc := range []struct{ tn, inl, root string }{
		{"ArrayDataSlab", "inlinedArrayDataSlabPrefixSize", "arrayRootDataSlabPrefixSize"},
		{"MapDataSlab", "inlinedMapDataSlabPrefixSize", "mapRootDataSlabPrefixSize"},
	} {
		f := p.Method(tc.tn, "Inlinable")
		inl, ok1 := p.constVal(tc.inl)
		root, ok2 := p.constVal(tc.root)
		if f == nil || !ok1 || !ok2 {
			r.Unk(R, "anchor:"+tc.tn+".Inlinable", "-", "predicate or prefix constants not found")
			continue
		}
		n++
		cons := "inlinable-predicate:" + tc.tn
		bad, und := "", ""
		for extra := int64(0); extra <= 1 && bad == "" && und == ""; extra++ {
			for inlined := int64(0); inlined <= 1 && bad == "" && und == ""; inlined++ {
				for e := int64(0); e <= 12 && bad == "" && und == ""; e++ {
					for max := int64(0); max <= inl+16 && bad == "" && und == ""; max++ {
						ev := &pureEvaluator{p: p, oracle: func(in pureInput) (int64, bool) {
							switch {
							case in.kind == "param":
								if _, isPtr := in.v.Type().Underlying().(interface{ Elem() interface{} }); isPtr {
									return 0, false
								}
								return max, true
							case in.kind == "field" && strings.HasSuffix(in.name, "extraData"):
								return extra, true
							case in.kind == "field" && strings.HasSuffix(in.name, "inlined"):
								return inlined, true
							case in.kind == "field" && strings.HasSuffix(in.name, "header.size"):
								if inlined == 1 {
									return inl + e, true
								}
								return root + e, true
							case in.kind == "call" && in.name == "Size":
								return e, true
							case in.kind == "field" && strings.HasSuffix(in.name, "size"):
								return e, true
							}
							return 0, false
						}}
						res, ok := ev.run(f, nil, 0)
						if !ok {
							und = ev.fail
							break
						}
						want := int64(0)
						if extra == 1 && inl+e <= max {
							want = 1
						}
						if len(res) != 1 || res[0] != want {
							bad = fmt.Sprintf("with %d element bytes (inlined form %d bytes), limit %d, root-capable=%v, currently inlined=%v it answers %v", e, inl+e, max, extra == 1, inlined == 1, res)
						}
					}
				}
			}
		}
		switch {
		case und != "":
			r.Unk(R, cons, p.Pos(f.Pos()), "could not be evaluated: "+und)
		case bad != "":
			r.Bad(R, cons, p.Pos(f.Pos()), "the inlinability test is not 'inlined prefix + element bytes <= limit': "+bad+"; a child that fits its parent's per-element limit exactly is stored as a separate slab (or one that exceeds it is inlined)")
		default:
			r.Ok(R, cons, p.Pos(f.Pos()), fmt.Sprintf("true exactly when the slab can be a root and %s + element bytes <= limit (limit included), in both current states", tc.inl))
		}
	}
	r.Floor(R, "band and inlinability predicates", 10, n)
	_ = ssa.Value(nil)
}
