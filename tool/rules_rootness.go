package main

// L16 (continued): root-ness transfer.
//
// A data slab has a different encoded prefix as a root (extra data present) and as
// a non-root. SetExtraData(e) makes the receiver a root, RemoveExtraData() makes it
// a non-root. Wherever root-ness is transferred, the cached size of *that very
// object* must be re-based in the matching direction on every path on which the
// object is a data slab (the paths on which it is an index slab are recognised by
// the false edge of IsData() / of a comma-ok assertion to the data slab type).
// Handing back what ExtraData() of the same object returned (SetType) transfers
// nothing. An object that is retired after RemoveExtraData (never stored, split,
// re-keyed or otherwise used again) needs no re-basing.

import (
	"go/token"
	"go/types"
	"strconv"
	"strings"

	"golang.org/x/tools/go/ssa"
)

// reachingFieldDefs: the stores to base.F that may reach this load of base.F, and whether
// the value the field had on entry may reach it.
func reachingFieldDefs(load *ssa.UnOp) (defs []*ssa.Store, entry bool, ok bool) {
	fa, isFA := load.X.(*ssa.FieldAddr)
	if !isFA || load.Op != token.MUL {
		return nil, false, false
	}
	f := load.Parent()
	var stores []*ssa.Store
	eachInstr(f, func(in ssa.Instruction) {
		if st, ok := in.(*ssa.Store); ok {
			if g, ok := st.Addr.(*ssa.FieldAddr); ok && g.Field == fa.Field && sameValue(g.X, fa.X) {
				stores = append(stores, st)
			}
		}
	})
	isStore := func(z ssa.Instruction) bool {
		for _, s := range stores {
			if z == ssa.Instruction(s) {
				return true
			}
		}
		return false
	}
	isLoad := func(z ssa.Instruction) bool { return z == ssa.Instruction(load) }
	for _, s := range stores {
		if canReach(f, s, isLoad, isStore) != nil {
			defs = append(defs, s)
		}
	}
	reachFrom(f, nil, nil, func(z ssa.Instruction) bool {
		if entry {
			return true
		}
		if isLoad(z) {
			entry = true
			return true
		}
		return isStore(z)
	})
	return defs, entry, true
}

// fieldStoreSeenBy: the value this load of base.F sees when exactly one store of the function reaches it.
func fieldStoreSeenBy(load *ssa.UnOp) ssa.Value {
	defs, entry, ok := reachingFieldDefs(load)
	if !ok || entry || len(defs) != 1 {
		return nil
	}
	return defs[0].Val
}

// resolveObj: canonical representative of a slab object value, looking through
// flow-sensitive loads of a field that the function assigns (h.root = child ... h.root.M()).
func resolveObj(v ssa.Value) ssa.Value {
	for i := 0; i < 6; i++ {
		v = canon(v)
		if ta, ok := v.(*ssa.TypeAssert); ok {
			v = ta.X
			continue
		}
		if ex, ok := v.(*ssa.Extract); ok {
			if ta, ok := ex.Tuple.(*ssa.TypeAssert); ok && ex.Index == 0 {
				v = ta.X
				continue
			}
		}
		if u, ok := v.(*ssa.UnOp); ok && u.Op == token.MUL {
			if sv := fieldStoreSeenBy(u); sv != nil {
				v = sv
				continue
			}
		}
		return v
	}
	return v
}

func sameObj(a, b ssa.Value) bool {
	ra, rb := resolveObj(a), resolveObj(b)
	if ra == rb || sameValue(ra, rb) {
		return true
	}
	// two loads of one field that both see the value the field had on entry
	la, ok1 := ra.(*ssa.UnOp)
	lb, ok2 := rb.(*ssa.UnOp)
	if ok1 && ok2 && la.Op == token.MUL && lb.Op == token.MUL {
		fa, ok1 := la.X.(*ssa.FieldAddr)
		fb, ok2 := lb.X.(*ssa.FieldAddr)
		if ok1 && ok2 && fa.Field == fb.Field && sameValue(fa.X, fb.X) {
			da, ea, _ := reachingFieldDefs(la)
			db, eb, _ := reachingFieldDefs(lb)
			return ea && eb && len(da) == 0 && len(db) == 0
		}
	}
	return false
}

func isDataSlabPtr(t types.Type) bool {
	n := typeName(t)
	return n == "ArrayDataSlab" || n == "MapDataSlab"
}

func ruleL16Rootness(p *Prog, r *Report, count *int) {
	const R = "L16"
	scope, _ := p.decodeScope()
	getters := map[string]bool{"SlabID": true, "IsData": true, "Header": true, "ExtraData": true, "Inlined": true, "ByteSize": true, "String": true, "getPrefixSize": true}
	nSites := 0
	for _, f := range p.TopFuncs() {
		if scope[f] || isDiagnosticFile(p.Fset.Position(f.Pos()).Filename) {
			continue
		}
		if strings.HasPrefix(f.Name(), "copy") || strings.HasPrefix(f.Name(), "Copy") {
			continue // copies build a fresh object field by field (sizes: size-literal / size-assign obligations)
		}
		// all data-slab size stores of the function, with the object they belong to
		type sizeStore struct {
			st    *ssa.Store
			owner ssa.Value
			kind  string
			// a re-basing helper called with constant prefixes: size = size - oldP + newP
			call       *ssa.Call
			oldP, newP int64
		}
		var sizes []sizeStore
		eachInstr(f, func(in ssa.Instruction) {
			c, ok := in.(*ssa.Call)
			if !ok {
				return
			}
			oi, ni, ok := rebaseHelper(c.Call.StaticCallee())
			if !ok || len(c.Call.Args) <= max(oi, ni) || !isDataSlabPtr(c.Call.Args[0].Type()) {
				return
			}
			o, ok1 := cInt(c.Call.Args[oi])
			nw, ok2 := cInt(c.Call.Args[ni])
			if !ok1 || !ok2 {
				return
			}
			sizes = append(sizes, sizeStore{nil, c.Call.Args[0], typeName(c.Call.Args[0].Type()), c, o, nw})
		})
		eachInstr(f, func(in ssa.Instruction) {
			st, ok := in.(*ssa.Store)
			if !ok {
				return
			}
			fa, ok := st.Addr.(*ssa.FieldAddr)
			if !ok {
				return
			}
			if _, fn := structFieldName(fa.X.Type(), fa.Field); fn != "size" {
				return
			}
			in2, ok := fa.X.(*ssa.FieldAddr)
			if !ok {
				return
			}
			if _, fn := structFieldName(in2.X.Type(), in2.Field); fn != "header" {
				return
			}
			if !isDataSlabPtr(in2.X.Type()) {
				return
			}
			sizes = append(sizes, sizeStore{st: st, owner: in2.X, kind: typeName(in2.X.Type())})
		})
		ord := map[string]int{}
		eachInstr(f, func(in ssa.Instruction) {
			c, ok := in.(ssa.CallInstruction)
			if !ok {
				return
			}
			nm := calleeName(c)
			if nm != "SetExtraData" && nm != "RemoveExtraData" {
				return
			}
			rv := callRecv(c)
			if rv == nil {
				return
			}
			// receiver may be a data slab: the slab interfaces or the data slab types
			tn := typeName(rv.Type())
			if tn != "ArraySlab" && tn != "MapSlab" && !isDataSlabPtr(rv.Type()) {
				return
			}
			toRoot := nm == "SetExtraData"
			if toRoot {
				if len(c.Common().Args) == 0 {
					return
				}
				e := canon(c.Common().Args[len(c.Common().Args)-1])
				if isNilConst(e) {
					return
				}
				if ec, ok := e.(*ssa.Call); ok && calleeName(ec) == "ExtraData" {
					if erv := callRecv(ec); erv != nil && sameObj(erv, rv) {
						return // hands back the object's own extra data: no transfer
					}
				}
			}
			nSites++
			ord[nm]++
			cons := "rootness-rebase:" + p.Name(f) + ":" + nm
			if ord[nm] > 1 {
				cons += "#" + itoa(ord[nm])
			}
			*count++
			// size stores of this object
			var mine []sizeStore
			for _, s := range sizes {
				if sameObj(s.owner, rv) {
					mine = append(mine, s)
				}
			}
			if len(mine) == 0 {
				if !toRoot {
					// retired object? any non-getter use of the object reachable after the call
					var use ssa.Instruction
					reachFrom(f, in, nil, func(z ssa.Instruction) bool {
						if use != nil {
							return true
						}
						if z == in {
							return false
						}
						switch y := z.(type) {
						case ssa.CallInstruction:
							if yr := callRecv(y); yr != nil && sameObj(yr, rv) && !getters[calleeName(y)] {
								use = z
								return true
							}
							for _, a := range y.Common().Args {
								if isSlabLike(a.Type()) && sameObj(a, rv) && !(callRecv(y) != nil && a == callRecv(y)) {
									use = z
									return true
								}
							}
						case *ssa.Return:
							for _, a := range y.Results {
								if isSlabLike(a.Type()) && sameObj(a, rv) {
									use = z
									return true
								}
							}
						}
						return false
					})
					if use == nil {
						r.Ok(R, cons, p.InstrPos(in), "the object that gives up its extra data is not used again (retired): nothing to re-base")
						return
					}
					r.Bad(R, cons, p.InstrPos(in), "the slab gives up its extra data (becomes a non-root) and is used again at "+p.InstrPos(use)+", but its cached size is never re-based from the root prefix to the non-root prefix in this function: a data slab would report the wrong size")
					return
				}
				r.Bad(R, cons, p.InstrPos(in), "the slab receives extra data (becomes a root) but its cached size is never re-based from the non-root prefix to the root prefix in this function: a data slab would report the wrong size")
				return
			}
			// direction of each re-basing
			for _, s := range mine {
				pre, post := stateAssume{}, stateAssume{root: true}
				if !toRoot {
					pre, post = post, pre
				}
				hook := func(v ssa.Value) (int64, bool) {
					if u, ok := v.(*ssa.UnOp); ok && u.Op == token.MUL {
						if fa, ok := u.X.(*ssa.FieldAddr); ok {
							if _, fn := structFieldName(fa.X.Type(), fa.Field); fn == "size" {
								return p.expectedPrefix(s.kind, pre)
							}
						}
					}
					if cc, ok := v.(*ssa.Call); ok && calleeName(cc) == "getPrefixSize" {
						return p.expectedPrefix(s.kind, post) // evaluated in the state after: accepted when it follows the transfer (prefix-of-final-state decides the order)
					}
					return 0, false
				}
				var got int64
				var ok1 bool
				var at ssa.Instruction
				if s.call != nil {
					at = s.call
					if pp, ok := p.expectedPrefix(s.kind, pre); ok {
						got, ok1 = pp-s.oldP+s.newP, true
					}
				} else {
					at = s.st
					got, ok1 = constPartH(s.st.Val, pre, 0, map[ssa.Value]bool{}, hook)
				}
				want, ok2 := p.expectedPrefix(s.kind, post)
				if !ok1 || !ok2 {
					r.Unk(R, cons, p.InstrPos(at), "size expression outside the evaluator's vocabulary")
					return
				}
				if got != want {
					dir := "non-root -> root"
					if !toRoot {
						dir = "root -> non-root"
					}
					r.Bad(R, cons, p.InstrPos(at), "the re-basing of the slab whose root-ness changes ("+dir+") has constant part "+itoa64(got)+" where the prefix of the new state is "+itoa64(want)+": the reported size would differ from the bytes written")
					return
				}
			}
			// coverage: every path on which the object is a data slab passes a re-basing (before the call, or after it)
			isMine := func(z ssa.Instruction) bool {
				for _, s := range mine {
					if s.st != nil && z == ssa.Instruction(s.st) {
						return true
					}
					if s.call != nil && z == ssa.Instruction(s.call) {
						return true
					}
				}
				return false
			}
			notDataEdge := func(from *ssa.BasicBlock, succ int) bool {
				ifi, ok := from.Instrs[len(from.Instrs)-1].(*ssa.If)
				if !ok || succ != 1 {
					return true
				}
				cv := canon(ifi.Cond)
				if cc, ok := cv.(*ssa.Call); ok && calleeName(cc) == "IsData" {
					if crv := callRecv(cc); crv != nil && sameObj(crv, rv) {
						return false // the false edge: not a data slab
					}
				}
				if ex, ok := cv.(*ssa.Extract); ok && ex.Index == 1 {
					if ta, ok := ex.Tuple.(*ssa.TypeAssert); ok && ta.CommaOk && isDataSlabPtr(ta.AssertedType) && sameObj(ta.X, rv) {
						return false
					}
				}
				return true
			}
			// before: is the call reachable from the entry avoiding the re-basings, on data-slab edges only?
			reachedBefore := false
			reachFrom(f, nil, notDataEdge, func(z ssa.Instruction) bool {
				if reachedBefore {
					return true
				}
				if z == in {
					reachedBefore = true
					return true
				}
				return isMine(z)
			})
			if !reachedBefore {
				r.Ok(R, cons, p.InstrPos(in), "every path to the transfer on which the object is a data slab re-bases its cached size in the matching direction first")
				return
			}
			// after: every success exit after the call passes a re-basing (or leaves through a not-data edge)
			var exit ssa.Instruction
			failing := false
			reachFrom(f, in, notDataEdge, func(z ssa.Instruction) bool {
				if exit != nil {
					return true
				}
				if z != in && isMine(z) {
					return true
				}
				if ret, ok := z.(*ssa.Return); ok {
					if cl, _ := classifyReturn(ret); cl != retError {
						exit = z
					} else if !isFreshBase(resolveObj(rv)) {
						// the object lives on after a failure (it is the container's slab, not one this function made):
						// the transfer and the re-basing are one step, and a failure between them leaves the slab
						// with the extra data of one state and the prefix of the other
						exit, failing = z, true
					}
					return true
				}
				return false
			})
			if exit == nil {
				r.Ok(R, cons, p.InstrPos(in), "every path after the transfer on which the object is a data slab re-bases its cached size in the matching direction (failure exits included when the object outlives the call)")
				return
			}
			if failing {
				r.Bad(R, cons, p.InstrPos(in), "the slab's root-ness changes here and its cached size is re-based only later: the failure exit at "+p.InstrPos(exit)+" lies between the two, and the slab - which stays in the container - would keep the prefix of the state it has left, reporting a size its encoding does not have")
				return
			}
			r.Bad(R, cons, p.InstrPos(in), "the slab's root-ness changes here, but on some path on which it is a data slab its cached size is not re-based (the re-basing in this function is on another path or guarded by a condition that is not 'is a data slab'): the slab would report the prefix of the state it has left")
		})
	}
	r.Floor(R, "root-ness transfers (SetExtraData / RemoveExtraData on a slab that may be a data slab)", 6, nSites)
}

func isSlabLike(t types.Type) bool {
	switch typeName(t) {
	case "ArraySlab", "MapSlab", "Slab", "ArrayDataSlab", "MapDataSlab", "ArrayMetaDataSlab", "MapMetaDataSlab":
		return true
	}
	return false
}

func itoa(i int) string     { return strconv.Itoa(i) }
func itoa64(i int64) string { return strconv.FormatInt(i, 10) }

// rebaseHelper: g's only effect is `p0.header.size = p0.header.size - pOld + pNew` on its first parameter (a data
// slab), with pOld and pNew two other parameters; returns their positions.
func rebaseHelper(g *ssa.Function) (oldIdx, newIdx int, ok bool) {
	if g == nil || len(g.Blocks) != 1 || len(g.Params) < 3 || !isDataSlabPtr(g.Params[0].Type()) {
		return 0, 0, false
	}
	var st *ssa.Store
	n := 0
	for _, in := range g.Blocks[0].Instrs {
		switch x := in.(type) {
		case *ssa.Store:
			st = x
			n++
		case ssa.CallInstruction:
			return 0, 0, false
		}
	}
	if n != 1 {
		return 0, 0, false
	}
	isSizeOfP0 := func(addr ssa.Value) bool {
		fa, ok := addr.(*ssa.FieldAddr)
		if !ok {
			return false
		}
		if _, fn := structFieldName(fa.X.Type(), fa.Field); fn != "size" {
			return false
		}
		in2, ok := fa.X.(*ssa.FieldAddr)
		if !ok {
			return false
		}
		_, fn := structFieldName(in2.X.Type(), in2.Field)
		return fn == "header" && in2.X == ssa.Value(g.Params[0])
	}
	if !isSizeOfP0(st.Addr) {
		return 0, 0, false
	}
	add, ok := st.Val.(*ssa.BinOp)
	if !ok || add.Op != token.ADD {
		return 0, 0, false
	}
	sub, ok := add.X.(*ssa.BinOp)
	if !ok || sub.Op != token.SUB {
		return 0, 0, false
	}
	ld, ok := sub.X.(*ssa.UnOp)
	if !ok || ld.Op != token.MUL || !isSizeOfP0(ld.X) {
		return 0, 0, false
	}
	oldIdx, newIdx = -1, -1
	for i, q := range g.Params {
		if sub.Y == ssa.Value(q) {
			oldIdx = i
		}
		if add.Y == ssa.Value(q) {
			newIdx = i
		}
	}
	if oldIdx < 1 || newIdx < 1 {
		return 0, 0, false
	}
	return oldIdx, newIdx, true
}
