package main

// L16 cached sizes carry the right prefix (C06).
//
// Every cached size is `encoded prefix of the object's kind and state` plus a
// variable part (the sizes of the content). The rule evaluates the *constant
// part* of every expression that is stored into a size field (literal or
// assignment) or returned by a computed size function, reading a cached size of
// the same kind as "prefix of the state before" and requiring the result to be
// "prefix of the state after". Data slabs have three prefixes (root / non-root /
// inlined, taken from getPrefixSize evaluated under the state); every other kind
// has one. States before/after come from the function itself: a store of the
// inlined flag (inline / uninline), SetExtraData / RemoveExtraData (root-ness
// transfer), the sibling operations (split, merge, lend, borrow: non-root), the
// literal's own fields, a dominating test of the source's inlined flag. Where
// nothing fixes them, some pair of states must fit. The variable part is not
// decided.

import (
	"fmt"
	"go/token"
	"go/types"
	"sort"

	"golang.org/x/tools/go/ssa"
)

// sizeKind describes one kind of size-carrying object.
type sizeKind struct {
	owner     string // struct that holds the size (header owner for slabs)
	path      []string
	prefix    string // constant name; "" = data slab (state dependent)
	dataSlab  bool
	perEntry  string // constant added per literal entry of listField
	listField string
}

var siblingOps = map[string]bool{"Split": true, "Merge": true, "LendToRight": true, "BorrowFromRight": true}

var sizeKinds = []sizeKind{
	{owner: "ArrayDataSlab", path: []string{"header", "size"}, dataSlab: true},
	{owner: "MapDataSlab", path: []string{"header", "size"}, dataSlab: true},
	{owner: "ArrayMetaDataSlab", path: []string{"header", "size"}, prefix: "arrayMetaDataSlabPrefixSize", perEntry: "arraySlabHeaderSize", listField: "childrenHeaders"},
	{owner: "MapMetaDataSlab", path: []string{"header", "size"}, prefix: "mapMetaDataSlabPrefixSize", perEntry: "mapSlabHeaderSize", listField: "childrenHeaders"},
	{owner: "hkeyElements", path: []string{"size"}, prefix: "hkeyElementsPrefixSize", perEntry: "digestSize", listField: "hkeys"},
	{owner: "singleElements", path: []string{"size"}, prefix: "singleElementsPrefixSize"},
	{owner: "singleElement", path: []string{"size"}, prefix: "singleElementPrefixSize"},
	{owner: "externalCollisionGroup", path: []string{"size"}, prefix: "externalCollisionGroupPrefixSize"},
}

// exprMentionsSizeOf: the expression reads a cached size of an object of the same
// kind (field load or Size/ByteSize call): the assignment is relative, not absolute.
func exprMentionsSizeOf(v ssa.Value, owner string, depth int, seen map[ssa.Value]bool) bool {
	if v == nil || depth > 30 || seen[v] {
		return false
	}
	seen[v] = true
	v = canonConv(v)
	switch x := v.(type) {
	case *ssa.BinOp:
		return exprMentionsSizeOf(x.X, owner, depth+1, seen) || exprMentionsSizeOf(x.Y, owner, depth+1, seen)
	case *ssa.Phi:
		for _, e := range x.Edges {
			if exprMentionsSizeOf(e, owner, depth+1, seen) {
				return true
			}
		}
	case *ssa.UnOp:
		if x.Op == token.MUL {
			if fa, ok := x.X.(*ssa.FieldAddr); ok {
				_, fn := structFieldName(fa.X.Type(), fa.Field)
				if fn == "size" {
					// header.size of owner, or owner.size
					if typeName(fa.X.Type()) == owner {
						return true
					}
					if in, ok := fa.X.(*ssa.FieldAddr); ok && typeName(in.X.Type()) == owner {
						return true
					}
				}
			}
		}
	case *ssa.Field:
		if _, fn := structFieldName(x.X.Type(), x.Field); fn == "size" {
			return true
		}
	case *ssa.Call:
		nm := calleeName(x)
		if nm == "Size" || nm == "ByteSize" {
			if rv := callRecv(x); rv != nil && typeName(rv.Type()) == owner {
				return true
			}
		}
	case *ssa.Extract:
		if c, ok := x.Tuple.(*ssa.Call); ok {
			for _, a := range c.Call.Args {
				if exprMentionsSizeOf(a, owner, depth+1, seen) {
					return true
				}
			}
		}
	}
	return false
}

// exprHasElementsSize: a Size() call on an element list / group (already contains that list's own prefix).
func exprHasCallNamed(v ssa.Value, names map[string]bool, depth int, seen map[ssa.Value]bool) bool {
	if v == nil || depth > 30 || seen[v] {
		return false
	}
	seen[v] = true
	v = canonConv(v)
	switch x := v.(type) {
	case *ssa.BinOp:
		return exprHasCallNamed(x.X, names, depth+1, seen) || exprHasCallNamed(x.Y, names, depth+1, seen)
	case *ssa.Phi:
		for _, e := range x.Edges {
			if exprHasCallNamed(e, names, depth+1, seen) {
				return true
			}
		}
	case *ssa.Call:
		return names[calleeName(x)]
	case *ssa.Extract:
		if c, ok := x.Tuple.(*ssa.Call); ok {
			if names[calleeName(c)] {
				return true
			}
			for _, a := range c.Call.Args {
				if exprHasCallNamed(a, names, depth+1, seen) {
					return true
				}
			}
		}
	}
	return false
}

// literalLen: number of entries of a slice built from a literal ([]T{a, b} lowers to a slice of a fresh array).
func literalLen(v ssa.Value) (int64, bool) {
	if v == nil {
		return 0, true
	}
	v = canon(v)
	if isNilConst(v) {
		return 0, true
	}
	if sl, ok := v.(*ssa.Slice); ok {
		if al, ok := sl.X.(*ssa.Alloc); ok {
			if at, ok := al.Type().(*types.Pointer).Elem().Underlying().(*types.Array); ok && sl.Low == nil && sl.High == nil {
				return at.Len(), true
			}
		}
	}
	if c, ok := v.(*ssa.Call); ok {
		if bi, ok := c.Call.Value.(*ssa.Builtin); ok && bi.Name() == "make" {
			return 0, true
		}
	}
	if _, ok := v.(*ssa.MakeSlice); ok {
		if k, ok := constInt(v.(*ssa.MakeSlice).Len); ok {
			return k, true
		}
	}
	return 0, false
}

func ruleL16(p *Prog, r *Report) {
	const R = "L16"
	scope, _ := p.decodeScope()
	K := func(n string) int64 {
		v, ok := p.constVal(n)
		if !ok {
			return -1 << 40
		}
		return v
	}
	kindOf := map[string]*sizeKind{}
	for i := range sizeKinds {
		kindOf[sizeKinds[i].owner] = &sizeKinds[i]
	}
	n := 0
	funcs := p.TopFuncs()
	sort.Slice(funcs, func(i, j int) bool { return p.Name(funcs[i]) < p.Name(funcs[j]) })
	allStates := []stateAssume{{root: false}, {root: true}, {root: true, inlined: true}}
	type pair struct{ pre, post stateAssume }
	stName := func(s stateAssume) string {
		switch {
		case s.inlined:
			return "inlined"
		case s.root:
			return "root"
		}
		return "non-root"
	}

	// sizeLoadOwner: v reads the cached size of an object of kind `owner` (field or accessor)
	sizeLoadOf := func(v ssa.Value, owner string) bool {
		switch x := v.(type) {
		case *ssa.UnOp:
			if x.Op != token.MUL {
				return false
			}
			fa, ok := x.X.(*ssa.FieldAddr)
			if !ok {
				return false
			}
			if _, fn := structFieldName(fa.X.Type(), fa.Field); fn != "size" {
				return false
			}
			if typeName(fa.X.Type()) == owner {
				return true
			}
			if in, ok := fa.X.(*ssa.FieldAddr); ok && typeName(in.X.Type()) == owner {
				return true
			}
		case *ssa.Call:
			nm := calleeName(x)
			if nm == "ByteSize" || (nm == "Size" && !kindOf[owner].dataSlab && owner != "ArrayMetaDataSlab" && owner != "MapMetaDataSlab") {
				if rv := callRecv(x); rv != nil && typeName(rv.Type()) == owner {
					return true
				}
			}
		}
		return false
	}
	prefixOf := func(k *sizeKind, st stateAssume) (int64, bool) {
		if k.dataSlab {
			return p.expectedPrefix(k.owner, st)
		}
		return K(k.prefix), true
	}
	mkHook := func(k *sizeKind, pre stateAssume) func(ssa.Value) (int64, bool) {
		return func(v ssa.Value) (int64, bool) {
			if c, ok := v.(*ssa.Call); ok && calleeName(c) == "getPrefixSize" {
				if rv := callRecv(c); rv != nil {
					if kk := kindOf[typeName(rv.Type())]; kk != nil {
						return prefixOf(kk, pre)
					}
				}
			}
			if sizeLoadOf(v, k.owner) {
				return prefixOf(k, pre)
			}
			return 0, false
		}
	}
	elemSizeCalls := map[string]bool{"Size": true}

	// check one established size: pairs = candidate (before, after) states; forall = every pair must fit (else: some pair)
	check := func(k *sizeKind, sizeV ssa.Value, pairs []pair, forall bool, listLen int64, cons string, pos string) {
		cv := canonConv(sizeV)
		if sizeLoadOf(cv, k.owner) {
			return // plain copy of another object's size
		}
		n++
		hasLoad := exprMentionsSizeOf(sizeV, k.owner, 0, map[ssa.Value]bool{})
		if hasLoad {
			// pure relative update: old size plus/minus variable amounts (and whole entries) keeps whatever prefix it had
			pure := true
			sts := []stateAssume{{}}
			if k.dataSlab {
				sts = allStates
			}
			for _, s := range sts {
				got, ok1 := constPartH(sizeV, s, 0, map[ssa.Value]bool{}, mkHook(k, s))
				want, ok2 := prefixOf(k, s)
				if !ok1 || !ok2 {
					pure = false
					break
				}
				d := got - want
				if k.perEntry != "" && K(k.perEntry) > 0 {
					d %= K(k.perEntry)
				}
				if d != 0 {
					pure = false
				}
			}
			if pure {
				r.Ok(R, cons, pos, "relative update: the prefix part of the cached size is unchanged")
				return
			}
		}
		var bad []string
		fit := 0
		for _, pr := range pairs {
			got, ok := constPartH(sizeV, pr.pre, 0, map[ssa.Value]bool{}, mkHook(k, pr.pre))
			if !ok {
				r.Unk(R, cons, pos, "size expression outside the evaluator's vocabulary")
				return
			}
			want, ok := prefixOf(k, pr.post)
			if !ok {
				r.Unk(R, cons, pos, "getPrefixSize outside the evaluator's vocabulary")
				return
			}
			if k.owner == "MapDataSlab" && !hasLoad && !exprHasCallNamed(sizeV, elemSizeCalls, 0, map[ssa.Value]bool{}) {
				// no elements.Size() term: the (empty) element list's own prefix must be written out
				want += K("hkeyElementsPrefixSize")
			}
			if k.perEntry != "" && listLen > 0 {
				want += listLen * K(k.perEntry)
			}
			if got == want {
				fit++
			} else {
				if k.dataSlab {
					bad = append(bad, fmt.Sprintf("%s -> %s: constant part %d, encoded prefix %d", stName(pr.pre), stName(pr.post), got, want))
				} else {
					bad = append(bad, fmt.Sprintf("constant part %d, encoded prefix %d", got, want))
				}
			}
		}
		if len(bad) > 0 && exprHasIntParam(sizeV, 0, map[ssa.Value]bool{}) {
			r.Ok(R, cons, pos, "the size (or part of it) is supplied by the caller: not decided locally")
			return
		}
		switch {
		case forall && len(bad) == 0:
			r.Ok(R, cons, pos, "the size starts from the encoded prefix of the object's state")
		case !forall && fit > 0:
			r.Ok(R, cons, pos, "the constant part fits a state transition of this kind (which one applies is not decided here)")
		default:
			r.Bad(R, cons, pos, "the size established here does not carry the encoded prefix of the object's state ("+bad[0]+"): the reported size would differ from the bytes written")
		}
	}

	// lateStateChange: a change of the object's state (inlined flag, extra data) reachable from `from`
	// (where getPrefixSize was evaluated) that is not followed by a new size on every way out.
	lateStateChange := func(f *ssa.Function, ownerV ssa.Value, from ssa.Instruction) ssa.Instruction {
		isStateChange := func(z ssa.Instruction) bool {
			switch y := z.(type) {
			case *ssa.Store:
				if fr, ok := asFieldAddr(y.Addr); ok && (fr.Field == "inlined" || fr.Field == "extraData") && sameValue(fr.Base, ownerV) {
					return true
				}
			case ssa.CallInstruction:
				if nm := calleeName(y); nm == "SetExtraData" || nm == "RemoveExtraData" {
					if rv := callRecv(y); rv != nil && sameValue(rv, ownerV) {
						return true
					}
				}
			}
			return false
		}
		isSizeStore := func(z ssa.Instruction) bool {
			s2, ok := z.(*ssa.Store)
			if !ok || z == from {
				return false
			}
			fa2, ok := s2.Addr.(*ssa.FieldAddr)
			if !ok {
				return false
			}
			if _, fn := structFieldName(fa2.X.Type(), fa2.Field); fn != "size" {
				return false
			}
			if in3, ok := fa2.X.(*ssa.FieldAddr); ok {
				return sameValue(in3.X, ownerV)
			}
			return sameValue(fa2.X, ownerV)
		}
		var late ssa.Instruction
		reachFrom(f, from, nil, func(z ssa.Instruction) bool {
			if late != nil {
				return true
			}
			if z != from && isStateChange(z) {
				if successReturnAvoiding(f, z, isSizeStore) != nil {
					late = z
				}
				return true
			}
			return false
		})
		return late
	}
	latePos := func(late ssa.Instruction) string {
		if late == nil {
			return ""
		}
		return p.InstrPos(late)
	}
	// prefixCallOn: the getPrefixSize call on ownerV inside a size expression
	var prefixCallOn func(v ssa.Value, ownerV ssa.Value, depth int) *ssa.Call
	prefixCallOn = func(v ssa.Value, ownerV ssa.Value, depth int) *ssa.Call {
		if v == nil || depth > 20 {
			return nil
		}
		switch x := canonConv(v).(type) {
		case *ssa.Call:
			if calleeName(x) == "getPrefixSize" {
				if rv := callRecv(x); rv != nil && sameValue(rv, ownerV) {
					return x
				}
			}
		case *ssa.BinOp:
			if c := prefixCallOn(x.X, ownerV, depth+1); c != nil {
				return c
			}
			return prefixCallOn(x.Y, ownerV, depth+1)
		}
		return nil
	}

	for _, f := range funcs {
		if scope[f] {
			continue // decoders: L2
		}
		// function-level evidence on root-ness transfer
		setsExtra, removesExtra := false, false
		eachInstr(f, func(in ssa.Instruction) {
			if c, ok := in.(ssa.CallInstruction); ok {
				switch calleeName(c) {
				case "SetExtraData":
					setsExtra = true
				case "RemoveExtraData":
					removesExtra = true
				}
			}
		})
		// (1) literals
		ordL := map[string]int{}
		eachInstr(f, func(in ssa.Instruction) {
			al, ok := in.(*ssa.Alloc)
			if !ok {
				return
			}
			nt := rootNamed(al.Type())
			if nt == nil {
				return
			}
			k := kindOf[nt.Obj().Name()]
			if k == nil {
				return
			}
			sizeV := litField(f, al, k.path...)
			if sizeV == nil {
				return
			}
			ordL[k.owner]++
			cons := fmt.Sprintf("size-literal:%s:%s", p.Name(f), k.owner)
			if ordL[k.owner] > 1 {
				cons += fmt.Sprintf("#%d", ordL[k.owner])
			}
			pairs := []pair{{}}
			if k.dataSlab {
				pairs = nil
				inlVals := []bool{false}
				if v := litField(f, al, "inlined"); v != nil {
					if c, ok := v.(*ssa.Const); ok && c.Value != nil {
						inlVals = []bool{c.Value.String() == "true"}
					} else {
						inlVals = []bool{false, true}
					}
				}
				rootVals := []bool{false}
				if v := litField(f, al, "extraData"); v != nil && !isNilConst(canon(v)) {
					rootVals = []bool{false, true}
					if _, fresh := canon(v).(*ssa.Alloc); fresh {
						rootVals = []bool{true}
					}
					// stored as the root of a handle
					var uses []ssa.Instruction
					uses = append(uses, effectiveUses(al)...)
					for _, u := range effectiveUses(al) {
						if mi, ok := u.(*ssa.MakeInterface); ok {
							uses = append(uses, effectiveUses(mi)...)
						}
					}
					for _, u := range uses {
						if st, ok := u.(*ssa.Store); ok {
							if fr, ok := asFieldAddr(st.Addr); ok && fr.Field == "root" && fr.Owner != nil && isHandleType(fr.Owner.Obj().Name()) {
								rootVals = []bool{true}
							}
						}
					}
					// a private constructor whose every call result becomes the root of a handle builds roots
					if f.Object() != nil && !f.Object().Exported() && len(rootVals) == 2 {
						cs := p.CallersOf(f)
						all := len(cs) > 0
						for _, c := range cs {
							cv, ok := c.Instr.(ssa.Value)
							if !ok {
								all = false
								continue
							}
							becomesRoot := false
							var us []ssa.Instruction
							us = append(us, effectiveUses(cv)...)
							for _, u := range effectiveUses(cv) {
								if mi, ok := u.(*ssa.MakeInterface); ok {
									us = append(us, effectiveUses(mi)...)
								}
							}
							for _, u := range us {
								if st, ok := u.(*ssa.Store); ok {
									if fr, ok := asFieldAddr(st.Addr); ok && fr.Field == "root" && fr.Owner != nil && isHandleType(fr.Owner.Obj().Name()) {
										becomesRoot = true
									}
								}
							}
							if !becomesRoot {
								all = false
							}
						}
						if all {
							rootVals = []bool{true}
						}
					}
				}
				for _, iv := range inlVals {
					for _, rv := range rootVals {
						if iv && !rv {
							continue // only roots are inlined
						}
						st := stateAssume{root: rv, inlined: iv}
						pre := st
						if siblingOps[f.Name()] {
							pre = stateAssume{}
						}
						pairs = append(pairs, pair{pre, st})
					}
				}
			}
			var ll int64
			if k.listField != "" {
				// a list that is not a literal contributes a variable term only
				if l, ok := literalLen(litField(f, al, k.listField)); ok {
					ll = l
				}
			}
			if k.dataSlab {
				if pc := prefixCallOn(sizeV, al, 0); pc != nil {
					late := lateStateChange(f, al, pc)
					n++
					r.Decide(late == nil, R, "prefix-of-final-state:"+p.Name(f)+":"+k.owner, p.InstrPos(pc),
						"the state the prefix was computed for (inlined flag, extra data) is not changed afterwards",
						"the size is set from getPrefixSize() and the object's inlined flag / extra data is changed afterwards ("+latePos(late)+") without establishing the size again: the slab reports the prefix of a state it is not in")
				}
			}
			check(k, sizeV, pairs, true, ll, cons, p.InstrPos(in))
		})
		// (2) assignments
		ordS := map[string]int{}
		eachInstr(f, func(in ssa.Instruction) {
			st, ok := in.(*ssa.Store)
			if !ok {
				return
			}
			fa, ok := st.Addr.(*ssa.FieldAddr)
			if !ok {
				return
			}
			if _, fn := structFieldName(fa.X.Type(), fa.Field); fn != "size" {
				return
			}
			var ownerV ssa.Value
			owner := typeName(fa.X.Type())
			ownerV = fa.X
			if in2, ok := fa.X.(*ssa.FieldAddr); ok {
				if _, fn := structFieldName(in2.X.Type(), in2.Field); fn == "header" {
					owner = typeName(in2.X.Type())
					ownerV = in2.X
				}
			}
			k := kindOf[owner]
			if k == nil {
				return
			}
			if _, isLit := canon(ownerV).(*ssa.Alloc); isLit && litField(f, canon(ownerV), k.path...) == st.Val {
				return // part of a literal, handled above
			}
			ordS[k.owner]++
			cons := fmt.Sprintf("size-assign:%s:%s", p.Name(f), k.owner)
			if ordS[k.owner] > 1 {
				cons += fmt.Sprintf("#%d", ordS[k.owner])
			}
			pairs := []pair{{}}
			forall := true
			if k.dataSlab {
				pairs = nil
				// (a) the function fixes the inlined flag of the same object
				eachInstr(f, func(y ssa.Instruction) {
					s2, ok := y.(*ssa.Store)
					if !ok {
						return
					}
					fr, ok := asFieldAddr(s2.Addr)
					if !ok || fr.Field != "inlined" || !sameValue(fr.Base, ownerV) {
						return
					}
					if c, ok := s2.Val.(*ssa.Const); ok && c.Value != nil {
						to := c.Value.String() == "true"
						pairs = []pair{{stateAssume{root: true, inlined: !to}, stateAssume{root: true, inlined: to}}}
					}
				})
				if pairs != nil {
					// the re-based size and the inlined flag change together: no exit (not even an error exit) between them
					var flag ssa.Instruction
					eachInstr(f, func(y ssa.Instruction) {
						if s2, ok := y.(*ssa.Store); ok {
							if fr, ok := asFieldAddr(s2.Addr); ok && fr.Field == "inlined" && sameValue(fr.Base, ownerV) {
								flag = y
							}
						}
					})
					if flag != nil {
						first, second := ssa.Instruction(in), flag
						if canReach(f, flag, func(z ssa.Instruction) bool { return z == ssa.Instruction(in) }, nil) != nil {
							first, second = flag, in
						}
						var exit ssa.Instruction
						reachFrom(f, first, nil, func(z ssa.Instruction) bool {
							if exit != nil || z == second {
								return true
							}
							if _, ok := z.(*ssa.Return); ok {
								exit = z
								return true
							}
							return false
						})
						n++
						r.Decide(exit == nil, R, "rebase-with-flag:"+p.Name(f), p.InstrPos(in), "the size is re-based and the inlined flag flipped without an exit in between", "the function can return (on an error of the storage) after re-basing the size but before flipping the inlined flag, or the other way round: the slab then reports the prefix of a state it is not in, and a retry re-bases twice")
					}
				}
				switch {
				case pairs != nil:
				case siblingOps[f.Name()] && recvName(f) == k.owner:
					// split / merge / lend / borrow act on slabs that have (or get) a sibling: non-root, standalone
					pairs = []pair{{}}
				case exprHasCallNamed(st.Val, map[string]bool{"getPrefixSize": true}, 0, map[ssa.Value]bool{}):
					// getPrefixSize supplies the prefix of whatever state holds: must be right in every state
					for _, s := range allStates {
						pairs = append(pairs, pair{s, s})
					}
					// ... of the state that holds when it is called: the object's state (inlined flag, extra data)
					// must not change afterwards unless the size is established again
					late := lateStateChange(f, ownerV, in)
					n++
					r.Decide(late == nil, R, "prefix-of-final-state:"+p.Name(f)+":"+k.owner, p.InstrPos(in),
						"the state the prefix was computed for (inlined flag, extra data) is not changed afterwards",
						"the size is set from getPrefixSize() and the object's inlined flag / extra data is changed afterwards ("+latePos(late)+") without establishing the size again: the slab reports the prefix of a state it is not in")
				case setsExtra || removesExtra:
					forall = false
					if setsExtra {
						pairs = append(pairs, pair{stateAssume{}, stateAssume{root: true}})
					}
					if removesExtra {
						pairs = append(pairs, pair{stateAssume{root: true}, stateAssume{}})
					}
					if !exprMentionsSizeOf(st.Val, k.owner, 0, map[ssa.Value]bool{}) {
						pairs = nil
						for _, s := range allStates {
							pairs = append(pairs, pair{s, s})
						}
					}
				default:
					forall = false
					// a dominating test of the source's inlined flag fixes the state before
					preKnown := false
					for d := in.Block(); d != nil; d = d.Idom() {
						ifi, ok := d.Instrs[len(d.Instrs)-1].(*ssa.If)
						if !ok || d == in.Block() {
							continue
						}
						if lf, ok := asLoadedField(canon(ifi.Cond)); ok && lf.Field == "inlined" && edgeDominates(d, 0, in.Block()) {
							preKnown = true
						}
					}
					for _, a := range allStates {
						if preKnown && !a.inlined {
							continue
						}
						for _, b := range allStates {
							pairs = append(pairs, pair{a, b})
						}
					}
				}
			}
			check(k, st.Val, pairs, forall, 0, cons, p.InstrPos(in))
		})
	}
	// (3) computed size functions against the fixed bytes their encoder writes
	for _, c := range []struct{ typ, method, konst string }{
		{"StorableSlab", "ByteSize", "versionAndFlagSize"},
		{"inlineCollisionGroup", "Size", "inlineCollisionGroupPrefixSize"},
	} {
		f := p.Method(c.typ, c.method)
		cons := "size-function:" + c.typ + "." + c.method
		if f == nil {
			r.Unk(R, cons, "-", "method not found")
			continue
		}
		n++
		good := true
		detail := ""
		children := 0
		for _, ret := range returnsOf(f) {
			got, ok := constPartTop(ret.Results[0], stateAssume{})
			if !ok || got != K(c.konst) {
				good = false
				detail = fmt.Sprintf("returns a size whose constant part is %d but the encoder writes %d fixed bytes (%s)", got, K(c.konst), c.konst)
			}
			if exprHasCallNamed(ret.Results[0], map[string]bool{"Size": true, "ByteSize": true}, 0, map[ssa.Value]bool{}) {
				children++
			}
			if subtractsCall(ret.Results[0], map[string]bool{"Size": true, "ByteSize": true}, false, 0) {
				good = false
				detail = "subtracts the size of the content instead of adding it"
			}
		}
		if good && children == 0 {
			good = false
			detail = "does not add the size of the content it encodes"
		}
		r.Decide(good, R, cons, p.Pos(f.Pos()), "constant part equals the encoder's fixed bytes ("+c.konst+") and the content's size is added", c.typ+"."+c.method+" "+detail+": the reported size would differ from the bytes written")
	}
	ruleL16Rootness(p, r, &n)
	r.Floor(R, "established sizes", 60, n)
}

// exprHasIntParam: an integer parameter of the enclosing function is an additive term of the expression.
func exprHasIntParam(v ssa.Value, depth int, seen map[ssa.Value]bool) bool {
	if v == nil || depth > 30 || seen[v] {
		return false
	}
	seen[v] = true
	v = canonConv(v)
	switch x := v.(type) {
	case *ssa.Parameter:
		_, ok := x.Type().Underlying().(*types.Basic)
		return ok
	case *ssa.BinOp:
		return exprHasIntParam(x.X, depth+1, seen) || exprHasIntParam(x.Y, depth+1, seen)
	case *ssa.Phi:
		for _, e := range x.Edges {
			if exprHasIntParam(e, depth+1, seen) {
				return true
			}
		}
	}
	return false
}

// subtractsCall: a call of one of the named methods is a negative term of the expression.
func subtractsCall(v ssa.Value, names map[string]bool, neg bool, depth int) bool {
	if v == nil || depth > 20 {
		return false
	}
	switch x := canonConv(v).(type) {
	case *ssa.BinOp:
		switch x.Op {
		case token.ADD:
			return subtractsCall(x.X, names, neg, depth+1) || subtractsCall(x.Y, names, neg, depth+1)
		case token.SUB:
			return subtractsCall(x.X, names, neg, depth+1) || subtractsCall(x.Y, names, !neg, depth+1)
		}
	case *ssa.Call:
		return neg && names[calleeName(x)]
	}
	return false
}
