package main

// B. Write-set protocol of PersistentSlabStorage (S1..S9).

import (
	"fmt"
	"go/token"
	"go/types"
	"sort"
	"strings"

	"golang.org/x/tools/go/ssa"
)

const storageT = "PersistentSlabStorage"

// baseWrite: invoke of BaseStorage.Store / BaseStorage.Remove.
func (p *Prog) baseWrite(in ssa.Instruction) (ssa.CallInstruction, string, bool) {
	for _, m := range []string{"Store", "Remove"} {
		if c, ok := p.isIfaceMethodCall(in, "BaseStorage", m); ok {
			return c, m, true
		}
	}
	return nil, "", false
}

func (p *Prog) ledgerWrite(in ssa.Instruction) (ssa.CallInstruction, bool) {
	return p.isIfaceMethodCall(in, "Ledger", "SetValue")
}

// regWriteWrapper: g is a method of the storage that takes the register key as a parameter and issues
// BaseStorage.Store/Remove with that key on every success path (a helper extracted from a commit routine).
// Returns the index of the key among the call arguments (receiver included) and the kind of write.
func (p *Prog) regWriteWrapper(g *ssa.Function) (int, string, bool) {
	if g == nil || recvName(g) != storageT || len(g.Blocks) == 0 || !lastResultIsError(g) {
		return 0, "", false
	}
	for i, prm := range g.Params {
		if typeName(prm.Type()) != "SlabID" {
			continue
		}
		kind := ""
		isW := func(in ssa.Instruction) bool {
			c, k, ok := p.baseWrite(in)
			if ok && len(c.Common().Args) > 0 && sameValue(c.Common().Args[0], prm) {
				kind = k
				return true
			}
			return false
		}
		any := false
		eachInstr(g, func(in ssa.Instruction) {
			if isW(in) {
				any = true
			}
		})
		if any && successReturnAvoiding(g, nil, isW) == nil {
			return i, kind, true
		}
	}
	return 0, "", false
}

// registerWrite: a BaseStorage.Store/Remove invoke, or a call of a register-write wrapper. Returns the call,
// the key operand and the kind of write.
func (p *Prog) registerWrite(in ssa.Instruction) (ssa.CallInstruction, ssa.Value, string, bool) {
	if c, kind, ok := p.baseWrite(in); ok && len(c.Common().Args) > 0 {
		return c, c.Common().Args[0], kind, true
	}
	if c, ok := in.(ssa.CallInstruction); ok {
		if g := staticCallee(c); g != nil && g.Pkg == p.RootSSA {
			if i, kind, ok := p.regWriteWrapper(g); ok && i < len(c.Common().Args) {
				return c, c.Common().Args[i], kind, true
			}
		}
	}
	return nil, nil, "", false
}

// baseWriteFuncs: top-level functions containing (deeply) a BaseStorage write.
func (p *Prog) baseWriteFuncs() map[*ssa.Function][]ssa.CallInstruction {
	out := map[*ssa.Function][]ssa.CallInstruction{}
	for _, f := range p.TopFuncs() {
		eachInstrDeep(f, func(_ *ssa.Function, in ssa.Instruction) {
			if c, _, ok := p.baseWrite(in); ok {
				out[f] = append(out[f], c)
			}
		})
	}
	// callers of register-write wrappers write registers too
	for _, f := range p.TopFuncs() {
		eachInstrDeep(f, func(_ *ssa.Function, in ssa.Instruction) {
			if _, isBase, _ := p.baseWrite(in); isBase != "" {
				return
			}
			if c, _, _, ok := p.registerWrite(in); ok {
				out[f] = append(out[f], c)
			}
		})
	}
	return out
}

func isCommitEntry(f *ssa.Function) bool {
	return isExportedAPI(f) && recvName(f) == storageT && strings.Contains(f.Name(), "Commit")
}

func sortedFuncs(p *Prog, m map[*ssa.Function]bool) []*ssa.Function {
	var out []*ssa.Function
	for f := range m {
		out = append(out, f)
	}
	sort.Slice(out, func(i, j int) bool { return p.Name(out[i]) < p.Name(out[j]) })
	return out
}

// S1 who-may-write-registers.
func ruleS1(p *Prog, r *Report) {
	const R = "S1"
	bw := p.baseWriteFuncs()
	nsites := 0
	for f, sites := range bw {
		nsites += len(sites)
		// every BASEWRITE lives in a method of PersistentSlabStorage
		ok := recvName(f) == storageT
		r.Decide(ok, R, "site-owner:"+p.Name(f), p.Pos(f.Pos()),
			fmt.Sprintf("%d BaseStorage write site(s) inside a %s method", len(sites), storageT),
			"BaseStorage.Store/Remove called outside PersistentSlabStorage")
	}
	// leaky(G): a BaseStorage write is reachable from G without entering a commit entry point
	leaky := map[*ssa.Function]bool{}
	for f := range bw {
		leaky[f] = true
	}
	tops := p.TopFuncs()
	for changed := true; changed; {
		changed = false
		for _, g := range tops {
			if leaky[g] {
				continue
			}
			for _, c := range p.calleesDeep(g) {
				if leaky[c] && !isCommitEntry(c) {
					leaky[g] = true
					changed = true
					break
				}
			}
		}
	}
	nEntries := 0
	for _, g := range tops {
		if !isExportedAPI(g) && !implementsAnyRootIface(p, g) {
			continue
		}
		if isCommitEntry(g) {
			if leaky[g] {
				nEntries++
				r.Ok(R, "entry:"+p.Name(g), p.Pos(g.Pos()), "commit entry point reaches BaseStorage writes")
			}
			continue
		}
		if leaky[g] {
			r.Bad(R, "api:"+p.Name(g), p.Pos(g.Pos()),
				"exported/API function can reach BaseStorage.Store/Remove without going through a commit entry point: registers would be written between commits")
		} else {
			r.add(R, "api:"+p.Name(g), p.Pos(g.Pos()), OK, "no path to a register write", false)
		}
	}
	// unexported leaky helpers must only be called from leaky functions that are commit entries or helpers thereof
	for g := range leaky {
		if isCommitEntry(g) || isExportedAPI(g) {
			continue
		}
		for _, cs := range p.CallersOf(g) {
			t := TopLevel(cs.Caller)
			if p.IsTestFile(t.Pos()) {
				continue
			}
			okc := leaky[t]
			r.Decide(okc, R, "helper-caller:"+p.Name(g)+"<-"+p.Name(t), p.InstrPos(cs.Instr),
				"helper with register writes is called from the commit call graph", "caller not in commit call graph")
		}
	}
	// Ledger.SetValue only inside BaseStorage implementations' Store/Remove
	nl := 0
	for _, f := range tops {
		eachInstrDeep(f, func(_ *ssa.Function, in ssa.Instruction) {
			if _, ok := p.ledgerWrite(in); ok {
				nl++
				bs := p.LookupType("BaseStorage")
				good := false
				if bs != nil && recvNamed(f) != nil {
					it := bs.Underlying().(*types.Interface)
					isAdapter := types.Implements(types.NewPointer(recvNamed(f)), it) || types.Implements(recvNamed(f), it)
					good = isAdapter && (f.Name() == "Store" || f.Name() == "Remove")
					// a private helper of the adapter that only its Store / Remove call
					if !good && isAdapter && f.Object() != nil && !f.Object().Exported() {
						cs := p.CallersOf(f)
						all := len(cs) > 0
						for _, c := range cs {
							t := TopLevel(c.Caller)
							if recvNamed(t) != recvNamed(f) || (t.Name() != "Store" && t.Name() != "Remove") {
								all = false
							}
						}
						good = all
					}
				}
				r.Decide(good, R, "ledger-write:"+p.Name(f), p.InstrPos(in),
					"Ledger.SetValue inside a BaseStorage adapter's Store/Remove", "Ledger.SetValue outside a BaseStorage adapter's Store/Remove")
			}
		})
	}
	r.Floor(R, "functions with BaseStorage writes", 2, len(bw))
	r.Floor(R, "BaseStorage write sites", 4, nsites)
	r.Floor(R, "commit entry points", 2, nEntries)
	r.Floor(R, "Ledger.SetValue sites", 1, nl)
}

// implementsAnyRootIface: g is a method whose name belongs to a root-package
// interface implemented by its receiver (reachable by dynamic dispatch).
func implementsAnyRootIface(p *Prog, g *ssa.Function) bool {
	n := recvNamed(g)
	if n == nil {
		return false
	}
	for _, nt := range p.rootNamedTypes() {
		it, ok := nt.Underlying().(*types.Interface)
		if !ok {
			continue
		}
		if types.Implements(n, it) || types.Implements(types.NewPointer(n), it) {
			for i := 0; i < it.NumMethods(); i++ {
				if it.Method(i).Name() == g.Name() {
					return true
				}
			}
		}
	}
	return false
}

// commitGraph: top-level functions in the call graph of the commit entry points
// restricted to PersistentSlabStorage methods.
func (p *Prog) commitGraph() []*ssa.Function {
	var entries []*ssa.Function
	for _, f := range p.TopFuncs() {
		if isCommitEntry(f) {
			entries = append(entries, f)
		}
	}
	reach := p.ReachableFrom(entries, func(f *ssa.Function) bool { return recvName(f) == storageT })
	var out []*ssa.Function
	for _, f := range sortedFuncs(p, reach) {
		if recvName(f) == storageT {
			out = append(out, f)
		}
	}
	return out
}

// addrTest recognises `k.address ==/!= AddressUndefined` (either operand order)
// and returns the tested SlabID value and the successor index taken when the
// address is defined (owned).
func (p *Prog) addrTest(ifi *ssa.If) (id ssa.Value, ownedSucc int, ok bool) {
	bo, isb := ifi.Cond.(*ssa.BinOp)
	if !isb || (bo.Op != token.EQL && bo.Op != token.NEQ) {
		return nil, 0, false
	}
	isUndef := func(v ssa.Value) bool {
		u, ok := v.(*ssa.UnOp)
		if !ok || u.Op != token.MUL {
			return false
		}
		g, ok := u.X.(*ssa.Global)
		return ok && g.Name() == "AddressUndefined" && g.Pkg == p.RootSSA
	}
	addrOf := func(v ssa.Value) ssa.Value {
		if fr, ok := asLoadedField(v); ok && fr.is("SlabID", "address") {
			return fr.Base
		}
		return nil
	}
	var base ssa.Value
	if isUndef(bo.Y) {
		base = addrOf(bo.X)
	} else if isUndef(bo.X) {
		base = addrOf(bo.Y)
	}
	if base == nil {
		return nil, 0, false
	}
	if bo.Op == token.NEQ {
		return base, 0, true
	}
	return base, 1, true
}

// rangeKey returns the key value(s) extracted from `next` of a range instruction.
func rangeKeyValues(rg *ssa.Range) (next *ssa.Next, keys []ssa.Value) {
	for _, ref := range *rg.Referrers() {
		if n, ok := ref.(*ssa.Next); ok {
			next = n
			for _, r2 := range *n.Referrers() {
				if ex, ok := r2.(*ssa.Extract); ok && ex.Index == 1 {
					keys = append(keys, ex)
				}
			}
		}
	}
	return
}

// S2 temp-address filter on every collector of commit keys.
func ruleS2(p *Prog, r *Report) {
	const R = "S2"
	n := 0
	for _, f := range p.commitGraph() {
		eachInstrDeep(f, func(fn *ssa.Function, in ssa.Instruction) {
			fr, rg, ok := rangeOverField(in)
			if !ok || !fr.is(storageT, "deltas") {
				return
			}
			n++
			next, keys := rangeKeyValues(rg)
			cons := fmt.Sprintf("collector:%s", p.Name(fn))
			if next == nil {
				r.Unk(R, cons, p.InstrPos(in), "range over the write set without a next instruction")
				return
			}
			// locate the address test on the key
			var test *ssa.If
			owned := 0
			for _, b := range fn.Blocks {
				if ifi, ok := b.Instrs[len(b.Instrs)-1].(*ssa.If); ok {
					if id, os, ok := p.addrTest(ifi); ok {
						for _, k := range keys {
							if sameValue(id, k) {
								test, owned = ifi, os
							}
						}
					}
				}
			}
			// every use of the key other than the address test must be on the owned edge
			bad := ""
			uses := 0
			for _, k := range keys {
				for _, ref := range effectiveUses(k) {
					if fld, ok := ref.(*ssa.Field); ok {
						if _, name := structFieldName(fld.X.Type(), fld.Field); name == "address" {
							continue // feeding the test
						}
					}
					if fld, ok := ref.(*ssa.FieldAddr); ok {
						if _, name := structFieldName(fld.X.Type(), fld.Field); name == "address" {
							continue // feeding the test
						}
					}
					uses++
					if test == nil || !edgeDominates(test.Block(), owned, ref.Block()) {
						bad = p.InstrPos(ref)
					}
				}
			}
			if test == nil {
				r.Bad(R, cons, p.InstrPos(in), "keys of the write set are collected for commit without comparing their address with AddressUndefined: temporary slabs would be written to the ledger")
				return
			}
			if bad != "" {
				r.Bad(R, cons, bad, "a use of a write-set key in a commit collector is not guarded by the address != AddressUndefined edge")
				return
			}
			// no owned key is skipped: from the owned edge every path back to the loop head records the key
			hdr := next.Block()
			start := test.Block().Succs[owned]
			skipped := false
			seen := map[*ssa.BasicBlock]bool{}
			var walk func(b *ssa.BasicBlock)
			walk = func(b *ssa.BasicBlock) {
				if seen[b] || skipped {
					return
				}
				seen[b] = true
				if b == hdr {
					skipped = true
					return
				}
				for _, x := range b.Instrs {
					if recordsKey(x, keys) {
						return
					}
				}
				for _, s := range b.Succs {
					walk(s)
				}
			}
			walk(start)
			if skipped {
				r.Bad(R, cons+":complete", p.InstrPos(in), "an owned write-set entry can be skipped by the commit collector (a path from the owned edge returns to the loop head without recording the key)")
			} else {
				r.Ok(R, cons+":complete", p.InstrPos(in), "every owned key is recorded on every path")
			}
			r.Ok(R, cons, p.InstrPos(test), fmt.Sprintf("%d key use(s) all dominated by the owned edge of the AddressUndefined test", uses))
		})
	}
	r.Floor(R, "commit key collectors (range over deltas in commit call graph)", 2, n)
}

// recordsKey: the key is appended to a slice or stored into a slice element.
func recordsKey(in ssa.Instruction, keys []ssa.Value) bool {
	isKey := func(v ssa.Value) bool {
		for _, k := range keys {
			if sameValue(v, k) {
				return true
			}
		}
		return false
	}
	switch x := in.(type) {
	case *ssa.Store:
		if _, ok := x.Addr.(*ssa.IndexAddr); ok && isKey(x.Val) {
			return true
		}
		// store into the backing array of a varargs/append literal
		if isKey(x.Val) {
			return true
		}
	case *ssa.Send:
		return isKey(x.X)
	}
	return false
}

// precedingBaseWrites walks backwards from `from` and returns the BaseStorage
// writes on the same id that are met first on each path; complete=false if a
// path reaches the definition of id or the function entry without meeting one.
func (p *Prog) precedingBaseWrites(fn *ssa.Function, from ssa.Instruction, id ssa.Value) (hits []ssa.CallInstruction, complete bool) {
	complete = true
	entry := fn.Blocks[0].Instrs[0]
	seenHit := map[ssa.Instruction]bool{}
	reachBackFrom(fn, from, func(in ssa.Instruction) bool {
		if c, key, _, ok := p.registerWrite(in); ok && sameValue(key, id) {
			if !seenHit[in] {
				seenHit[in] = true
				hits = append(hits, c)
			}
			return true
		}
		if v, ok := in.(ssa.Value); ok && v == stripTrivial(id) {
			complete = false
			return true
		}
		if in == entry {
			complete = false
			return true
		}
		return false
	})
	return
}

// S3 delete-after-success (+ cache value discipline).
func ruleS3(p *Prog, r *Report) {
	const R = "S3"
	bw := p.baseWriteFuncs()
	nDel, nCache := 0, 0
	for _, top := range sortedFuncs(p, keysOf(bw)) {
		eachInstrDeep(top, func(fn *ssa.Function, in ssa.Instruction) {
			for _, fw := range p.fieldWritesOfX(in) {
				if fw.Ref.Owner == nil || fw.Ref.Owner.Obj().Name() != storageT {
					continue
				}
				func() {
					switch {
					case fw.Ref.Field == "deltas" && fw.Kind == "mapdelete":
						nDel++
						cons := fmt.Sprintf("delete-deltas:%s", p.Name(fn))
						hits, complete := p.precedingBaseWrites(fn, in, fw.Key)
						if !complete || len(hits) == 0 {
							r.Bad(R, cons, p.InstrPos(in), "a write-set entry is deleted on a path on which no BaseStorage.Store/Remove of the same id has been issued: the change would be lost")
							return
						}
						for _, h := range hits {
							hv := callValue(h)
							if hv == nil || !knownNil(hv, in.Block()) {
								r.Bad(R, cons, p.InstrPos(in), fmt.Sprintf("delete of the write-set entry is not dominated by the err == nil edge of the register write at %s: a failed write would still drop the pending change", p.InstrPos(h)))
								return
							}
						}
						r.Ok(R, cons, p.InstrPos(in), fmt.Sprintf("preceded on all paths by %d register write(s) of the same id, on their err == nil edge", len(hits)))
						// the read cache must follow: a stale cached slab (or a cached slab of a deleted register) would become visible again
						cacheUpd := func(y ssa.Instruction) bool {
							for _, fw2 := range p.fieldWritesOfX(y) {
								if fw2.Ref.is(storageT, "cache") && fw2.Kind == "mapupdate" && sameValue(fw2.Key, fw.Key) {
									return true
								}
							}
							return false
						}
						found := true
						if cacheUpd(in) {
							// the same helper call files the id in the cache and retires it
							r.Decide(true, R, "cache-follows:"+p.Name(fn), p.InstrPos(in), "the read cache entry of the same id is updated by the helper call that retires the write-set entry", "")
							return
						}
						reachBackFrom(fn, in, func(y ssa.Instruction) bool {
							if cacheUpd(y) {
								return true
							}
							if c, _, ok := p.baseWrite(y); ok && len(c.Common().Args) > 0 && sameValue(c.Common().Args[0], fw.Key) {
								found = false
								return true
							}
							return false
						})
						if !found {
							// or after the delete, before the iteration ends
							found = true
							h := loopHeadOf(in.Block())
							reachFrom(fn, in, nil, func(y ssa.Instruction) bool {
								if cacheUpd(y) {
									return true
								}
								if _, isRet := y.(*ssa.Return); isRet {
									found = false
									return true
								}
								if h != nil && y == h.Instrs[0] {
									found = false
									return true
								}
								return false
							})
						}
						r.Decide(found, R, "cache-follows:"+p.Name(fn), p.InstrPos(in), "the read cache entry of the same id is updated whenever the write-set entry is retired",
							"a write-set entry is retired without updating the read cache entry of the same id: an older cached slab (or the cached slab of a deleted register) would become visible again")
					case fw.Ref.Field == "cache" && fw.Kind == "mapupdate":
						nCache++
						cons := fmt.Sprintf("cache-move:%s", p.Name(fn))
						hits, complete := p.precedingBaseWrites(fn, in, fw.Key)
						if !complete || len(hits) == 0 {
							r.Bad(R, cons, p.InstrPos(in), "read cache entry written in a commit routine without a preceding register write of the same id")
							return
						}
						for _, h := range hits {
							hv := callValue(h)
							if hv == nil || !knownNil(hv, in.Block()) {
								r.Bad(R, cons, p.InstrPos(in), "read cache updated although the register write may have failed")
								return
							}
							_, _, kind, _ := p.registerWrite(h.(ssa.Instruction))
							if kind == "Remove" {
								if !isNilConst(stripTrivial(fw.Val)) {
									r.Bad(R, cons, p.InstrPos(in), "after a register deletion the cache entry must be nil (known-deleted)")
									return
								}
							} else {
								if !p.isDeltasLookupOf(fw.Val, fw.Key) {
									r.Bad(R, cons, p.InstrPos(in), "after a register store the cache must receive the very slab object held in the write set under the same id")
									return
								}
							}
						}
						r.Ok(R, cons, p.InstrPos(in), "cache receives nil after Remove / the write-set object after Store, on the success edge")
					case fw.Kind == "assign" && (fw.Ref.Field == "deltas" || fw.Ref.Field == "cache"):
						r.Bad(R, fmt.Sprintf("reset-%s:%s", fw.Ref.Field, p.Name(fn)), p.InstrPos(in),
							"a commit routine replaces the whole "+fw.Ref.Field+" map: temp-address entries and entries not yet written would be dropped")
					}
				}()
			}
		})
	}
	// helpers a commit routine calls or defers: a write-set entry deleted there under a key that is not the helper's
	// parameter (a sweep over the map, say) is a deletion no register write of the same id can vouch for - and a deferred
	// one also runs on the failure exits
	nHelp := 0
	seenH := map[*ssa.Function]bool{}
	for _, top := range sortedFuncs(p, keysOf(bw)) {
		eachInstrDeep(top, func(fn *ssa.Function, in ssa.Instruction) {
			c, ok := in.(ssa.CallInstruction)
			if !ok {
				return
			}
			g := c.Common().StaticCallee()
			if g == nil || g.Pkg != p.RootSSA || len(g.Blocks) == 0 || bw[g] != nil || recvName(g) != storageT {
				return
			}
			_, isDefer := in.(*ssa.Defer)
			nHelp++
			if seenH[g] && !isDefer {
				return
			}
			seenH[g] = true
			eachInstrDeep(g, func(gf *ssa.Function, y ssa.Instruction) {
				fw, ok := fieldWriteOf(y)
				if !ok || !fw.Ref.is(storageT, "deltas") {
					return
				}
				switch fw.Kind {
				case "mapdelete":
					isParam := false
					for _, q := range g.Params {
						if canon(fw.Key) == ssa.Value(q) {
							isParam = true
						}
					}
					if isParam && !isDefer {
						return // a retire-this-id helper: judged at its call sites
					}
					how := "called"
					if isDefer {
						how = "deferred (it also runs on every failure exit)"
					}
					r.Bad(R, "delete-deltas-in-helper:"+p.Name(top)+":"+p.Name(g), p.InstrPos(y), "a helper "+how+" by a commit routine deletes write-set entries that no successful register write of the same id vouches for: a pending change (a deletion whose register delete failed or was not reached) would vanish from the write set and a retry would never apply it")
				case "assign":
					r.Bad(R, "reset-deltas-in-helper:"+p.Name(top)+":"+p.Name(g), p.InstrPos(y), "a helper of a commit routine replaces the whole write set")
				}
			})
		})
	}
	r.Decide(true, R, "commit-helpers-scanned", "-", "storage-method helpers called or deferred by commit routines scanned for write-set deletions: "+itoa(nHelp), "")
	r.Floor(R, "delete(deltas,id) sites in commit routines", 3, nDel)
	r.Floor(R, "cache updates in commit routines", 3, nCache)
}

func keysOf[K comparable, V any](m map[K]V) map[K]bool {
	out := map[K]bool{}
	for k := range m {
		out[k] = true
	}
	return out
}

// isDeltasLookupOf: v is s.deltas[key] (plain lookup) with the same key value.
// When both v and key are parameters of an unexported helper, the relation
// is decided at every call site of the helper instead.
func (p *Prog) isDeltasLookupOf(v ssa.Value, key ssa.Value) bool {
	return p.isDeltasLookupOfN(v, key, 0)
}

func (p *Prog) isDeltasLookupOfN(v ssa.Value, key ssa.Value, depth int) bool {
	v = stripTrivial(v)
	if mi, ok := v.(*ssa.MakeInterface); ok {
		v = mi.X
	}
	fr, lk, ok := mapLookupOf(v)
	if ok && fr.is(storageT, "deltas") && !lk.CommaOk && sameValue(lk.Index, key) {
		return true
	}
	vp, ok1 := v.(*ssa.Parameter)
	kp, ok2 := stripTrivial(key).(*ssa.Parameter)
	if !ok1 || !ok2 || depth > 2 || vp.Parent() != kp.Parent() {
		return false
	}
	fn := vp.Parent()
	if fn.Object() == nil || fn.Object().Exported() {
		return false
	}
	vi, ki := -1, -1
	for i, prm := range fn.Params {
		if prm == vp {
			vi = i
		}
		if prm == kp {
			ki = i
		}
	}
	sites := p.CallersOf(fn)
	if vi < 0 || ki < 0 || len(sites) == 0 {
		return false
	}
	for _, cs := range sites {
		c := cs.Instr.Common()
		if c.IsInvoke() || len(c.Args) != len(fn.Params) {
			return false
		}
		if !p.isDeltasLookupOfN(c.Args[vi], c.Args[ki], depth+1) {
			return false
		}
	}
	return true
}

// loopHeadOf returns the innermost loop header whose natural loop contains b.
func loopHeadOf(b *ssa.BasicBlock) *ssa.BasicBlock {
	fn := b.Parent()
	var best *ssa.BasicBlock
	for _, h := range fn.Blocks {
		if !h.Dominates(b) {
			continue
		}
		// is there a back edge t->h with h dominating t, and b can reach t without passing h?
		isLoop := false
		for _, t := range h.Preds {
			if h.Dominates(t) && blockReaches(b, t, h) {
				isLoop = true
			}
		}
		if isLoop {
			if best == nil || best.Dominates(h) {
				best = h
			}
		}
	}
	return best
}

// blockReaches: from can reach to without passing through avoid (from==to counts).
func blockReaches(from, to, avoid *ssa.BasicBlock) bool {
	seen := map[*ssa.BasicBlock]bool{}
	var rec func(b *ssa.BasicBlock) bool
	rec = func(b *ssa.BasicBlock) bool {
		if b == to {
			return true
		}
		if seen[b] {
			return false
		}
		seen[b] = true
		for _, s := range b.Succs {
			if s == avoid {
				continue
			}
			if rec(s) {
				return true
			}
		}
		return false
	}
	return rec(from)
}

// S4 no silent skip: a full iteration of an apply loop always issues a register write.
func ruleS4(p *Prog, r *Report) {
	const R = "S4"
	bw := p.baseWriteFuncs()
	n := 0
	for _, top := range sortedFuncs(p, keysOf(bw)) {
		heads := map[*ssa.BasicBlock]bool{}
		eachInstrDeep(top, func(fn *ssa.Function, in ssa.Instruction) {
			if _, _, _, ok := p.registerWrite(in); !ok {
				return
			}
			h := loopHeadOf(in.Block())
			if h == nil {
				if _, _, isWrapper := p.regWriteWrapper(fn); isWrapper {
					return // a helper that writes the one register it is given: its call sites are the apply sites
				}
				r.Unk(R, "apply-site:"+p.Name(fn), p.InstrPos(in), "register write outside any loop: unknown commit shape")
				return
			}
			if heads[h] {
				return
			}
			heads[h] = true
			n++
			// walk from the loop header; cut at register writes; reaching the header again = skipped iteration
			skipped := false
			seen := map[*ssa.BasicBlock]bool{}
			var walk func(b *ssa.BasicBlock, first bool)
			walk = func(b *ssa.BasicBlock, first bool) {
				if skipped {
					return
				}
				if b == h && !first {
					skipped = true
					return
				}
				if seen[b] {
					return
				}
				seen[b] = true
				for _, x := range b.Instrs {
					if _, _, _, ok := p.registerWrite(x); ok {
						return
					}
				}
				for _, s := range b.Succs {
					walk(s, false)
				}
			}
			walk(h, true)
			cons := fmt.Sprintf("apply-loop:%s", p.Name(fn))
			if skipped {
				r.Bad(R, cons, p.InstrPos(in), "an iteration of the apply loop can complete without BaseStorage.Store/Remove: a pending change would be silently skipped by a commit that reports success")
			} else {
				r.Ok(R, cons, p.InstrPos(in), "every completed iteration passes a register write; all other exits return")
			}
		})
	}
	r.Floor(R, "apply loops", 2, n)
}

// errorSurfaces checks that on the non-nil edge of the test of error value ev
// every path ends in a return carrying a non-nil error, without touching the
// storage maps or issuing further register writes.
func (p *Prog) errorSurfaces(fn *ssa.Function, ev ssa.Value) (bool, string) {
	// find the test
	var test *ssa.If
	nn := 0
	for _, b := range fn.Blocks {
		if len(b.Instrs) == 0 {
			continue
		}
		if ifi, ok := b.Instrs[len(b.Instrs)-1].(*ssa.If); ok {
			if x, s, ok := errTestOf(ifi); ok && sameValue(x, ev) {
				test, nn = ifi, s
			}
		}
	}
	if test == nil {
		// directly returned?
		for _, ret := range returnsOf(fn) {
			if len(ret.Results) > 0 && sameValue(ret.Results[len(ret.Results)-1], ev) {
				return true, "returned directly"
			}
		}
		// handed to a private helper that tests it before doing anything else and whose own error surfaces here
		if ev.Referrers() != nil {
			for _, ref := range *ev.Referrers() {
				c, isCall := ref.(*ssa.Call)
				if !isCall {
					continue
				}
				g := c.Call.StaticCallee()
				if g == nil || g.Pkg != p.RootSSA || g.Object() == nil || g.Object().Exported() || len(g.Blocks) == 0 || !lastResultIsError(g) || g == fn {
					continue
				}
				for i, a := range c.Call.Args {
					if a != ev || i >= len(g.Params) {
						continue
					}
					okIn, _ := p.errorSurfaces(g, g.Params[i])
					if !okIn {
						continue
					}
					// nothing is written in the helper before the test
					early := false
					var testBlk *ssa.BasicBlock
					for _, b := range g.Blocks {
						if ifi, ok := b.Instrs[len(b.Instrs)-1].(*ssa.If); ok {
							if x, _, ok := errTestOf(ifi); ok && sameValue(x, g.Params[i]) {
								testBlk = b
							}
						}
					}
					if testBlk != nil {
						early = true
						for _, b := range g.Blocks {
							if b == testBlk || !blockReaches(b, testBlk, nil) {
								continue
							}
							for _, y := range b.Instrs {
								if _, _, ok := p.baseWrite(y); ok {
									early = false
								}
							}
						}
					}
					if !early {
						continue
					}
					var res ssa.Value
					if isErrorType(c.Type()) {
						res = c
					} else if c.Referrers() != nil {
						for _, r2 := range *c.Referrers() {
							if ex, ok := r2.(*ssa.Extract); ok && isErrorType(ex.Type()) {
								res = ex
							}
						}
					}
					if res != nil {
						if ok2, _ := p.errorSurfaces(fn, res); ok2 {
							return true, "handed to " + g.Name() + ", which returns it before doing anything else; that result is surfaced"
						}
					}
				}
			}
		}
		return false, "error value is never tested against nil nor returned"
	}
	okAll := true
	why := ""
	start := test.Block().Succs[nn]
	type edge struct{ from, to *ssa.BasicBlock }
	seen := map[edge]bool{}
	var walk func(from, b *ssa.BasicBlock)
	walk = func(from, b *ssa.BasicBlock) {
		if seen[edge{from, b}] || !okAll {
			return
		}
		seen[edge{from, b}] = true
		if b == test.Block() {
			okAll, why = false, "error path loops back"
			return
		}
		for _, x := range b.Instrs {
			if _, _, ok := p.baseWrite(x); ok {
				okAll, why = false, "register write after a failure at "+p.InstrPos(x)
				return
			}
			for _, fw := range p.fieldWritesOfX(x) {
				if fw.Ref.Owner != nil && fw.Ref.Owner.Obj().Name() == storageT && storageLayerFields[fw.Ref.Field] {
					okAll, why = false, "storage map write after a failure at "+p.InstrPos(x)
					return
				}
			}
			if ret, ok := x.(*ssa.Return); ok {
				if !lastResultIsError(fn) {
					okAll, why = false, "function cannot report the error"
					return
				}
				c, rv := classifyReturn(ret)
				if c == retSuccess || c == retUnknown {
					// path-sensitive refinement: a phi of this block (possibly under the wrap helper) takes the
					// value of the edge the error path arrives on
					if c2, ok := classifyOnEdge(rv, from, b); ok && (c2 == retError || c2 == retPropagate) {
						return
					}
					okAll, why = false, "return at "+p.InstrPos(ret)+" does not carry a non-nil error"
					return
				}
				return
			}
		}
		for _, s := range b.Succs {
			walk(b, s)
		}
	}
	walk(test.Block(), start)
	if okAll {
		return true, "non-nil edge returns an error on every path"
	}
	return false, why
}

// classifyOnEdge: the class of a returned error value when block b is entered from pred `from`
// and the value is a phi of b (looked up through wrapError* helpers).
func classifyOnEdge(rv ssa.Value, from, b *ssa.BasicBlock) (retClass, bool) {
	for depth := 0; depth < 4 && rv != nil; depth++ {
		rv = canon(rv)
		if c, ok := rv.(*ssa.Call); ok && isWrapHelperCall(c) && len(c.Call.Args) > 0 {
			rv = c.Call.Args[0]
			continue
		}
		break
	}
	ph, ok := rv.(*ssa.Phi)
	if !ok || ph.Block() != b || from == nil {
		return retUnknown, false
	}
	for i, pr := range b.Preds {
		if pr == from {
			return classifyErrValue(ph.Edges[i], from, 1), true
		}
	}
	return retUnknown, false
}

// S5 error surfacing in commit routines.
func ruleS5(p *Prog, r *Report) {
	const R = "S5"
	n := 0
	encodeSlab := p.PkgFunc("EncodeSlab")
	if encodeSlab == nil {
		r.Unk(R, "anchor:EncodeSlab", "-", "function EncodeSlab not found")
	}
	for _, top := range p.commitGraph() {
		eachInstrDeep(top, func(fn *ssa.Function, in ssa.Instruction) {
			isWorker := fn.Parent() != nil && isGoTarget(fn)
			// (a) register writes
			if c, kind, ok := p.baseWrite(in); ok {
				n++
				v := callValue(c)
				cons := fmt.Sprintf("basewrite-%s:%s", kind, p.Name(fn))
				if v == nil {
					r.Bad(R, cons, p.InstrPos(in), "register write issued with go/defer: its error cannot surface")
					return
				}
				ok2, why := p.errorSurfaces(fn, v)
				r.Decide(ok2, R, cons, p.InstrPos(in), why, "error of the register write is not surfaced: "+why)
				return
			}
			if c, _, kind, ok := p.registerWrite(in); ok {
				n++
				v := callValue(c)
				cons := fmt.Sprintf("basewrite-%s:%s", kind, p.Name(fn))
				if v == nil {
					r.Bad(R, cons, p.InstrPos(in), "register write issued with go/defer: its error cannot surface")
					return
				}
				ok2, why := p.errorSurfaces(fn, v)
				r.Decide(ok2, R, cons, p.InstrPos(in), why, "error of the register write is not surfaced: "+why)
				return
			}
			// (b) EncodeSlab in the committing goroutine
			if call, ok := in.(*ssa.Call); ok && encodeSlab != nil && call.Call.StaticCallee() == encodeSlab {
				n++
				cons := fmt.Sprintf("encode:%s", p.Name(fn))
				var ev ssa.Value
				for _, ref := range *call.Referrers() {
					if ex, ok := ref.(*ssa.Extract); ok && ex.Index == 1 {
						ev = ex
					}
				}
				if ev == nil {
					r.Bad(R, cons, p.InstrPos(in), "error result of EncodeSlab is discarded")
					return
				}
				if isWorker {
					// the worker must forward the error in its result message
					fwd := false
					seenV := map[ssa.Value]bool{}
					var follow func(v ssa.Value)
					follow = func(v ssa.Value) {
						if seenV[v] || v.Referrers() == nil {
							return
						}
						seenV[v] = true
						for _, ref := range *v.Referrers() {
							switch x := ref.(type) {
							case *ssa.Store:
								if fr, ok := asFieldAddr(x.Addr); ok && x.Val == v && isErrorType(fieldType(fr)) {
									fwd = true
								}
							case *ssa.Phi:
								// the error joins the "nothing to encode" path (nil) before it is sent;
								// an edge taken after the encode that carries another value would drop it
								drops := false
								for i, e := range x.Edges {
									if e != v && !seenV[e] && call.Block().Dominates(x.Block().Preds[i]) {
										drops = true
									}
								}
								if !drops {
									follow(x)
								}
							}
						}
					}
					follow(ev)
					r.Decide(fwd, R, cons, p.InstrPos(in), "worker forwards the encode error in its result message", "worker does not forward the encode error")
					return
				}
				ok2, why := p.errorSurfaces(fn, ev)
				r.Decide(ok2, R, cons, p.InstrPos(in), why, "encode error is not surfaced: "+why)
				return
			}
			// (c) results received from workers: the error field must be tested and surfaced
			if u, ok := in.(*ssa.UnOp); ok && u.Op == token.ARROW && !isWorker {
				st := structOf(u.Type())
				if st == nil {
					return
				}
				errField := -1
				for i := 0; i < st.NumFields(); i++ {
					if isErrorType(st.Field(i).Type()) {
						errField = i
					}
				}
				if errField < 0 {
					return
				}
				n++
				cons := fmt.Sprintf("worker-result:%s", p.Name(fn))
				var cands []ssa.Value
				for _, ref := range effectiveUses(u) {
					switch x := ref.(type) {
					case *ssa.Field:
						if x.Field == errField {
							cands = append(cands, x)
						}
					case *ssa.FieldAddr:
						if x.Field == errField {
							for _, r2 := range *x.Referrers() {
								if ld, ok := r2.(*ssa.UnOp); ok && ld.Op == token.MUL {
									cands = append(cands, ld)
								}
							}
						}
					}
				}
				if len(cands) == 0 {
					r.Bad(R, cons, p.InstrPos(in), "the error carried by a worker result is never read")
					return
				}
				ok2, why := false, ""
				for _, cand := range cands {
					if o, w := p.errorSurfaces(fn, cand); o {
						ok2, why = o, w
						break
					} else if why == "" {
						why = w
					}
				}
				if !ok2 {
					// collected form: the error is filed under its key in a local map, and before any register is written
					// the map is consulted and a filed error returned (decision in key order instead of arrival order)
					var mapUpdates []*ssa.MapUpdate
					eachInstr(fn, func(y ssa.Instruction) {
						if mu, ok := y.(*ssa.MapUpdate); ok {
							mapUpdates = append(mapUpdates, mu)
						}
					})
					for _, cand := range cands {
						for _, mu := range mapUpdates {
							if !sameValue(mu.Value, cand) {
								continue
							}
							if _, fresh := canon(mu.Map).(*ssa.MakeMap); !fresh {
								continue
							}
							m := canon(mu.Map)
							returned := false
							lookBlocks := map[*ssa.BasicBlock]bool{}
							eachInstr(fn, func(y ssa.Instruction) {
								lk, isLk := y.(*ssa.Lookup)
								if !isLk || canon(lk.X) != m {
									return
								}
								lookBlocks[y.Block()] = true
								if h := loopHeadOf(y.Block()); h != nil {
									lookBlocks[h] = true // running the checking loop (possibly zero times) counts as consulting the map
								}
								for _, ret := range returnsOf(fn) {
									if len(ret.Results) == 0 {
										continue
									}
									ev := ret.Results[len(ret.Results)-1]
									if derivesFromValue(ev, lk, 0) {
										returned = true
									}
								}
							})
							bypass := canReach(fn, in, func(y ssa.Instruction) bool {
								_, _, _, isW := p.registerWrite(y)
								return isW
							}, func(y ssa.Instruction) bool { return lookBlocks[y.Block()] })
							if returned && bypass == nil {
								ok2, why = true, "worker errors are filed by key and a filed error is returned before any register write"
							}
						}
					}
				}
				r.Decide(ok2, R, cons, p.InstrPos(in), why, "worker error is not surfaced: "+why)
			}
		})
	}
	r.Floor(R, "error sources in commit routines", 6, n)
}

func fieldType(fr fieldRef) types.Type {
	if fr.Owner == nil {
		if fr.Base != nil {
			if st := structOf(fr.Base.Type()); st != nil {
				for i := 0; i < st.NumFields(); i++ {
					if st.Field(i).Name() == fr.Field {
						return st.Field(i).Type()
					}
				}
			}
		}
		return types.Typ[types.Invalid]
	}
	st, _ := fr.Owner.Underlying().(*types.Struct)
	if st == nil {
		return types.Typ[types.Invalid]
	}
	for i := 0; i < st.NumFields(); i++ {
		if st.Field(i).Name() == fr.Field {
			return st.Field(i).Type()
		}
	}
	return types.Typ[types.Invalid]
}

func structOf(t types.Type) *types.Struct {
	if pt, ok := t.Underlying().(*types.Pointer); ok {
		t = pt.Elem()
	}
	st, _ := t.Underlying().(*types.Struct)
	return st
}

// isGoTarget: fn (a closure) is launched by a go statement in its parent.
func isGoTarget(fn *ssa.Function) bool {
	par := fn.Parent()
	if par == nil {
		return false
	}
	found := false
	eachInstr(par, func(in ssa.Instruction) {
		if g, ok := in.(*ssa.Go); ok {
			if staticCallee(g) == fn {
				found = true
			}
		}
	})
	return found
}
