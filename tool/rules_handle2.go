package main

import (
	"fmt"
	"go/token"
	"go/types"
	"strings"

	"golang.org/x/tools/go/ssa"
)

// calleeName returns the method/function name of a call (invoke or static).
func calleeName(c ssa.CallInstruction) string {
	cc := c.Common()
	if cc.IsInvoke() {
		return cc.Method.Name()
	}
	if f := staticCallee(c); f != nil {
		return f.Name()
	}
	return ""
}

// callArgs returns the arguments excluding the receiver.
func callArgs(c ssa.CallInstruction) []ssa.Value {
	cc := c.Common()
	if cc.IsInvoke() {
		return cc.Args
	}
	if cc.Signature().Recv() != nil && len(cc.Args) > 0 {
		return cc.Args[1:]
	}
	return cc.Args
}

func callRecv(c ssa.CallInstruction) ssa.Value {
	cc := c.Common()
	if cc.IsInvoke() {
		return cc.Value
	}
	if cc.Signature().Recv() != nil && len(cc.Args) > 0 {
		return cc.Args[0]
	}
	return nil
}

// isRootOf: v is the value of recv.root (H.root) for the handle receiver recv.
func isRootOf(v ssa.Value, recv ssa.Value) bool {
	fr, ok := asLoadedField(v)
	return ok && fr.Field == "root" && fr.Owner != nil && isHandleType(fr.Owner.Obj().Name()) && (recv == nil || sameValue(fr.Base, recv))
}

func isSetCallback(in ssa.Instruction) (ssa.CallInstruction, bool) {
	c, ok := in.(ssa.CallInstruction)
	if !ok {
		return nil, false
	}
	f := c.Common().StaticCallee()
	if f == nil || f.Name() != "setCallbackWithChild" || !isHandleType(recvName(f)) {
		return nil, false
	}
	return c, true
}

// valueIndexOfLookup: which result of a slab-interface lookup is the element value storable.
func valueIndexOfLookup(name string, iface string) int {
	switch {
	case name == "Get" && iface == "ArraySlab":
		return 0
	case name == "Get" && iface == "MapSlab":
		return 1
	case name == "getElementAndNextKey":
		return 1
	}
	return -1
}

// R5 callback-install.
func ruleR5(p *Prog, r *Report) {
	const R = "R5"
	nOut, nIn, nRO := 0, 0, 0
	for _, f := range p.TopFuncs() {
		if !isHandleType(recvName(f)) || len(f.Params) == 0 {
			continue
		}
		recv := f.Params[0]
		name := p.Name(f)
		eachInstr(f, func(in ssa.Instruction) {
			call, ok := in.(*ssa.Call)
			if !ok {
				return
			}
			// (a) hand-out: StoredValue of the value storable looked up in the root
			if call.Call.IsInvoke() && call.Call.Method.Name() == "StoredValue" {
				st := canon(call.Call.Value)
				ex, ok := st.(*ssa.Extract)
				if !ok {
					return
				}
				lk, ok := ex.Tuple.(*ssa.Call)
				if !ok {
					return
				}
				vi := p.lookupValueIndex(lk, recv)
				if vi < 0 || ex.Index != vi {
					return
				}
				nOut++
				var val ssa.Value
				for _, ref := range *call.Referrers() {
					if e2, ok := ref.(*ssa.Extract); ok && e2.Index == 0 {
						val = e2
					}
				}
				cons := "hand-out:" + name
				if val == nil {
					r.Unk(R, cons, p.InstrPos(in), "stored value is not extracted")
					return
				}
				bad := successReturnAvoiding(f, in, func(x ssa.Instruction) bool {
					c, ok := isSetCallback(x)
					if !ok || !sameValue(c.Common().Args[0], recv) {
						return false
					}
					for _, a := range c.Common().Args[1:] {
						if sameValue(a, val) {
							return true
						}
					}
					return false
				})
				if bad != nil {
					r.Bad(R, cons, p.InstrPos(bad), "a stored child value is handed to the caller without setCallbackWithChild: mutations through that handle would never reach this container")
				} else {
					r.Ok(R, cons, p.InstrPos(in), "every success path after StoredValue installs the parent callback on that value")
				}
				p.checkCallbackLimit(r, R, f, recv, lk)
				return
			}
			// (b) insertion: root.Set / root.Insert with a Value parameter of f
			if call.Call.IsInvoke() && isRootOf(call.Call.Value, recv) && (call.Call.Method.Name() == "Set" || call.Call.Method.Name() == "Insert") {
				var val ssa.Value
				for _, a := range call.Call.Args {
					if typeName(a.Type()) == "Value" {
						val = a // the last Value-typed argument is the element value (map: key precedes value)
					}
				}
				if val == nil {
					return
				}
				nIn++
				cons := "insert:" + name
				bad := successReturnAvoiding(f, in, func(x ssa.Instruction) bool {
					c, ok := isSetCallback(x)
					if !ok || !sameValue(c.Common().Args[0], recv) {
						return false
					}
					for _, a := range c.Common().Args[1:] {
						if sameValue(a, val) {
							return true
						}
					}
					return false
				})
				if bad != nil {
					r.Bad(R, cons, p.InstrPos(bad), "a child value is stored into the container without setCallbackWithChild on a success path")
				} else {
					r.Ok(R, cons, p.InstrPos(in), "every success path after storing the value installs the parent callback on it")
				}
				p.checkCallbackLimit(r, R, f, recv, call)
			}
		})
	}
	// (c) read-only iterators arm the mutation error on every element they hand out
	for _, f := range p.TopFuncs() {
		n := recvNamed(f)
		if n == nil || p.Method(n.Obj().Name(), "setMutationCallback") == nil {
			continue
		}
		if !strings.HasPrefix(f.Name(), "Next") {
			continue
		}
		recv := f.Params[0]
		eachInstr(f, func(in ssa.Instruction) {
			call, ok := in.(*ssa.Call)
			if !ok || !call.Call.IsInvoke() || call.Call.Method.Name() != "StoredValue" {
				return
			}
			nRO++
			cons := "readonly-arm:" + p.Name(f)
			var val ssa.Value
			for _, ref := range *call.Referrers() {
				if e2, ok := ref.(*ssa.Extract); ok && e2.Index == 0 {
					val = e2
				}
			}
			bad := successReturnAvoiding(f, in, func(x ssa.Instruction) bool {
				c, ok := x.(ssa.CallInstruction)
				if !ok || calleeName(c) != "setMutationCallback" || !sameValue(c.Common().Args[0], recv) {
					return false
				}
				for _, a := range c.Common().Args[1:] {
					if val != nil && sameValue(a, val) {
						return true
					}
				}
				return false
			})
			if bad != nil {
				r.Bad(R, cons, p.InstrPos(bad), "a read-only iterator returns a stored value without arming the mutation callback: a mutation of the child would be silently lost instead of rejected")
			} else {
				r.Ok(R, cons, p.InstrPos(in), "every element handed out by the read-only iterator passes setMutationCallback")
			}
		})
	}
	r.Floor(R, "hand-out sites (StoredValue of a looked-up element value)", 3, nOut)
	r.Floor(R, "insertion sites (root.Set/Insert with a caller value)", 3, nIn)
	r.Floor(R, "read-only iterator hand-outs", 4, nRO)
}

// checkCallbackLimit: the inline limit passed to setCallbackWithChild matches the container kind:
// arrays pass maxInlineArrayElementSize, maps pass maxInlineMapValueSize(<key storable>.ByteSize()).
func (p *Prog) checkCallbackLimit(r *Report, R string, f *ssa.Function, recv ssa.Value, lookup *ssa.Call) {
	eachInstr(f, func(x ssa.Instruction) {
		c, ok := isSetCallback(x)
		if !ok {
			return
		}
		args := c.Common().Args
		lim := canon(args[len(args)-1])
		cons := "callback-limit:" + p.Name(f)
		switch recvName(f) {
		case "Array":
			good := false
			if u, ok := lim.(*ssa.UnOp); ok && u.Op == token.MUL {
				if g, ok := u.X.(*ssa.Global); ok && g.Name() == "maxInlineArrayElementSize" {
					good = true
				}
			}
			r.Decide(good, R, cons, p.InstrPos(x), "array child callback uses maxInlineArrayElementSize", "array child callback is installed with a limit other than maxInlineArrayElementSize")
		case "OrderedMap":
			good := false
			if lc, ok := lim.(*ssa.Call); ok && lc.Call.StaticCallee() != nil && lc.Call.StaticCallee().Name() == "maxInlineMapValueSize" {
				// argument is ByteSize() of the key storable = result #0 of the lookup / Set
				a := canon(lc.Call.Args[0])
				if cv, ok := a.(*ssa.Convert); ok {
					a = canon(cv.X)
				}
				if bs, ok := a.(*ssa.Call); ok && bs.Call.IsInvoke() && bs.Call.Method.Name() == "ByteSize" {
					if ex, ok := canon(bs.Call.Value).(*ssa.Extract); ok && ex.Index == 0 && ex.Tuple == ssa.Value(lookup) {
						good = true
					}
				}
			}
			r.Decide(good, R, cons, p.InstrPos(x), "map child callback uses maxInlineMapValueSize(size of that element's key storable)", "map child callback limit is not maxInlineMapValueSize of the looked-up key storable's size")
		}
	})
}

// R7 detached child is materialised.
func ruleR7(p *Prog, r *Report) {
	const R = "R7"
	n := 0
	for _, f := range p.TopFuncs() {
		if !isHandleType(recvName(f)) || !isExportedAPI(f) || f.Name() == "Storable" {
			continue
		}
		res := f.Signature.Results()
		var idx []int
		for i := 0; i < res.Len(); i++ {
			if typeName(res.At(i).Type()) == "Storable" {
				idx = append(idx, i)
			}
		}
		if len(idx) == 0 {
			continue
		}
		for _, ret := range returnsOf(f) {
			if c, _ := classifyReturn(ret); c == retError {
				continue
			}
			for _, i := range idx {
				n++
				v := canon(ret.Results[i])
				cons := fmt.Sprintf("returned-storable:%s:result%d", p.Name(f), i)
				var goodVal func(fn *ssa.Function, v ssa.Value, at *ssa.BasicBlock, depth int) bool
				goodVal = func(fn *ssa.Function, v ssa.Value, at *ssa.BasicBlock, depth int) bool {
					v = canon(v)
					if depth > 3 {
						return false
					}
					if isNilConst(v) {
						return true
					}
					if ex, ok := v.(*ssa.Extract); ok && ex.Index == 0 {
						if c, ok := ex.Tuple.(*ssa.Call); ok && c.Call.StaticCallee() != nil {
							g := c.Call.StaticCallee()
							if g.Name() == "uninlineStorableIfNeeded" {
								return true
							}
							// a private helper of the handle that hands back what uninlineStorableIfNeeded returned
							if g.Pkg == p.RootSSA && len(g.Blocks) > 0 && g.Object() != nil && !g.Object().Exported() {
								all, any := true, false
								for _, gr := range returnsOf(g) {
									if cl, _ := classifyReturn(gr); cl == retError || len(gr.Results) == 0 {
										continue
									}
									any = true
									if !goodVal(g, gr.Results[0], gr.Block(), depth+1) {
										all = false
									}
								}
								if any && all {
									return true
								}
							}
						}
					}
					// the element was overwritten with itself: nothing was detached (identity test between the
					// stored element and the caller's value on a dominating true edge)
					if b, edge := sameContainerTest(fn, v); b != nil && edge >= 0 && edgeDominates(b, edge, at) {
						return true
					}
					// single exit: every way into the join is one of the above
					if ph, ok := v.(*ssa.Phi); ok {
						for i, e := range ph.Edges {
							pred := ph.Block().Preds[i]
							// the join is entered straight from the "same container" edge of the identity test
							if b, edge := sameContainerTest(fn, e); b != nil && edge >= 0 && b == pred && pred.Succs[edge] == ph.Block() && pred.Succs[1-edge] != ph.Block() {
								continue
							}
							if !goodVal(fn, e, pred, depth+1) {
								return false
							}
						}
						return len(ph.Edges) > 0
					}
					return false
				}
				good := goodVal(f, v, ret.Block(), 0)
				r.Decide(good, R, cons, p.InstrPos(ret), "returned storable is the result of uninlineStorableIfNeeded (or the element was overwritten with itself)",
					"a storable detached from the container is returned without uninlineStorableIfNeeded: an inlined child would exist in no register and later changes to it would be lost")
			}
		}
	}
	// an element overwritten with the very container it already holds must not be uninlined: the "old" storable
	// is the slab that was just stored as the new element
	for _, f := range p.TopFuncs() {
		if !isHandleType(recvName(f)) || !isExportedAPI(f) {
			continue
		}
		hasValue := false
		for _, prm := range f.Params[1:] {
			if typeName(prm.Type()) == "Value" {
				hasValue = true
			}
		}
		if !hasValue {
			continue
		}
		eachInstr(f, func(in ssa.Instruction) {
			c, ok := in.(*ssa.Call)
			if !ok || c.Call.StaticCallee() == nil || c.Call.StaticCallee().Name() != "uninlineStorableIfNeeded" || len(c.Call.Args) < 2 {
				return
			}
			x := c.Call.Args[1]
			// only where the storable comes out of an operation that stored the caller's value (Set), not of a removal
			stores := false
			if ex, ok := canon(x).(*ssa.Extract); ok {
				if src, ok := ex.Tuple.(*ssa.Call); ok {
					for _, g := range p.Callees(src) {
						eachInstr(g, func(y ssa.Instruction) {
							if cc, ok := y.(ssa.CallInstruction); ok && cc.Common().IsInvoke() {
								nm := cc.Common().Method.Name()
								tn := typeName(cc.Common().Value.Type())
								if (nm == "Set" || nm == "Insert") && (tn == "ArraySlab" || tn == "MapSlab") {
									stores = true
								}
							}
						})
					}
				}
			}
			if !stores {
				return
			}
			n++
			b, edge := sameContainerTest(f, x)
			good := b != nil && edge >= 0 && edgeDominates(b, 1-edge, in.Block())
			r.Decide(good, R, "uninline-not-self:"+p.Name(f), p.InstrPos(in), "the overwritten storable is uninlined only after it was told apart from the caller's value", "the overwritten storable is uninlined without checking that it is not the caller's value itself: overwriting an inlined child with itself un-inlines the slab object that was just stored as the new element (parent size wrong, two roots, unreadable register)")
		})
	}
	// uninlineStorableIfNeeded itself: every in-package slab kind that can be inlined is uninlined
	if u := p.PkgFunc("uninlineStorableIfNeeded"); u != nil {
		kinds := map[string]bool{}
		eachInstr(u, func(in ssa.Instruction) {
			if c, ok := in.(ssa.CallInstruction); ok && c.Common().IsInvoke() && c.Common().Method.Name() == "Uninline" {
				kinds[typeName(c.Common().Value.Type())] = true
			}
			// a value of the slab kind handed to a private helper that calls Uninline on that parameter
			c, ok := in.(ssa.CallInstruction)
			if !ok {
				return
			}
			g := staticCallee(c)
			if g == nil || g.Pkg != p.RootSSA || len(g.Blocks) == 0 {
				return
			}
			for ai, a := range c.Common().Args {
				src := a
				for depth := 0; depth < 4; depth++ {
					switch x := src.(type) {
					case *ssa.ChangeInterface:
						src = x.X
						continue
					case *ssa.MakeInterface:
						src = x.X
						continue
					}
					break
				}
				kind := typeName(canon(src).Type())
				if (kind != "ArraySlab" && kind != "MapSlab") || ai >= len(g.Params) {
					continue
				}
				prm := g.Params[ai]
				eachInstr(g, func(z ssa.Instruction) {
					if c2, ok := z.(ssa.CallInstruction); ok && c2.Common().IsInvoke() && c2.Common().Method.Name() == "Uninline" && sameValue(c2.Common().Value, prm) {
						kinds[kind] = true
					}
				})
			}
		})
		r.Decide(kinds["ArraySlab"] && kinds["MapSlab"], R, "uninline-kinds", p.Pos(u.Pos()), "both array and map slabs are uninlined", "uninlineStorableIfNeeded does not uninline both ArraySlab and MapSlab")
		// once the value id of the detached container is known on a path it is what the function reports: the callers
		// use it to forget the child's index entry, whether or not anything had to be uninlined (wrapped references too)
		n++
		var lost ssa.Instruction
		for _, ret := range returnsOf(u) {
			if c, _ := classifyReturn(ret); c == retError || len(ret.Results) < 2 {
				continue
			}
			var known []ssa.Value
			eachInstr(u, func(in ssa.Instruction) {
				v, ok := in.(ssa.Value)
				if !ok || typeName(v.Type()) != "ValueID" {
					return
				}
				switch x := in.(type) {
				case *ssa.Call:
					if in.Block().Dominates(ret.Block()) {
						known = append(known, x)
					}
				case *ssa.Extract:
					if _, isCall := x.Tuple.(*ssa.Call); isCall && in.Block().Dominates(ret.Block()) {
						known = append(known, x)
					}
				}
			})
			if len(known) == 0 {
				continue
			}
			got := canon(ret.Results[1])
			match := false
			for _, k := range known {
				if canon(k) == got || k == got {
					match = true
				}
			}
			if !match {
				lost = ret
			}
		}
		if lost != nil {
			r.Bad(R, "uninline-valueid-kept", p.InstrPos(lost), "the value id of the detached container was determined on this path but is not returned: the caller cannot delete the child's mutableElementIndex entry (a stale entry makes a later Insert fail and lets the stale handle find a slot)")
		} else {
			r.Ok(R, "uninline-valueid-kept", p.Pos(u.Pos()), "every success path that determined the container's value id returns it")
		}
	} else {
		r.Unk(R, "anchor:uninlineStorableIfNeeded", "-", "function not found")
	}
	r.Floor(R, "returned storables of exported handle methods", 5, n)
}

// N1 index entry of a detached child is deleted.
func ruleN1(p *Prog, r *Report) {
	const R = "N1"
	n := 0
	for _, f := range p.TopFuncs() {
		regField := p.childRegistryField(recvName(f))
		if regField == "" || !isExportedAPI(f) {
			continue
		}
		regOwner := recvName(f)
		eachInstr(f, func(in ssa.Instruction) {
			c, ok := in.(*ssa.Call)
			if !ok || c.Call.StaticCallee() == nil || c.Call.StaticCallee().Name() != "uninlineStorableIfNeeded" {
				return
			}
			if len(c.Call.Args) > 1 && p.isMapKeyStorable(c.Call.Args[1], 0) {
				return // map keys are never registered as child containers
			}
			n++
			cons := "index-delete:" + p.Name(f)
			var vid ssa.Value
			for _, ref := range *c.Referrers() {
				if ex, ok := ref.(*ssa.Extract); ok && ex.Index == 1 {
					vid = ex
				}
			}
			if vid == nil {
				r.Bad(R, cons, p.InstrPos(in), "the value id of the detached child is discarded: its mutableElementIndex entry cannot be deleted")
				return
			}
			var del ssa.Instruction
			eachInstr(f, func(x ssa.Instruction) {
				if fw, ok := fieldWriteOf(x); ok && fw.Kind == "mapdelete" && fw.Ref.is(regOwner, regField) && sameValue(fw.Key, vid) {
					del = x
				}
				// ... or a private untrack helper of the handle called with the detached id
				if c, ok := x.(*ssa.Call); ok {
					if kind, ki, ok := p.registryHelper(c.Call.StaticCallee()); ok && kind == "mapdelete" && ki < len(c.Call.Args) && sameValue(c.Call.Args[ki], vid) {
						del = x
					}
				}
			})
			if del == nil {
				r.Bad(R, cons, p.InstrPos(in), "mutableElementIndex entry of the removed/overwritten child is never deleted: a stale handle would still find an index and could overwrite the element that now lives there")
				return
			}
			// the delete may only be guarded by tests about the detached id and the new value's id
			okGuard := true
			why := ""
			cd := controlDeps(f)
			seen := map[*ssa.BasicBlock]bool{}
			var rec func(b *ssa.BasicBlock)
			rec = func(b *ssa.BasicBlock) {
				if seen[b] {
					return
				}
				seen[b] = true
				for a := range cd[b] {
					ifi := a.Instrs[len(a.Instrs)-1].(*ssa.If)
					if _, _, isErr := errTestOf(ifi); isErr {
						continue
					}
					allowed := sliceContains(ifi.Cond, func(v ssa.Value) bool {
						if sameValue(v, vid) {
							return true
						}
						if cc, ok := v.(*ssa.Call); ok && calleeName(cc) == "ValueID" {
							return true
						}
						if ta, ok := v.(*ssa.TypeAssert); ok && ta.CommaOk {
							return true
						}
						if ex, ok := v.(*ssa.Extract); ok {
							if ta, ok := ex.Tuple.(*ssa.TypeAssert); ok && ta.CommaOk {
								return true
							}
						}
						return false
					}, 0, map[ssa.Value]bool{})
					if !allowed {
						okGuard = false
						why = "guarded by an unrelated condition at " + p.InstrPos(ifi)
					}
					rec(a)
				}
			}
			rec(del.Block())
			r.Decide(okGuard, R, cons, p.InstrPos(del), "index entry deleted, guarded only by tests on the detached id / the new value's id", "deletion of the index entry is "+why)
			// the guard is exact: with "the new value is a container" (the comma-ok assertion) and "its id differs from
			// the detached id" as atoms, the entry is deleted whenever the new value is no container, and whenever
			// the ids differ; it may only survive when the new value is the very same container
			{
				isOK := func(v ssa.Value) bool {
					ex, ok := canon(v).(*ssa.Extract)
					if !ok || ex.Index != 1 {
						return false
					}
					ta, ok := ex.Tuple.(*ssa.TypeAssert)
					return ok && ta.CommaOk
				}
				isIDCmp := func(v ssa.Value) (bool, bool) { // (is comparison, is NEQ)
					bo, ok := canon(v).(*ssa.BinOp)
					if !ok || (bo.Op != token.NEQ && bo.Op != token.EQL) {
						return false, false
					}
					if typeName(bo.X.Type()) != "ValueID" || isEmptyValueID(bo.X) || isEmptyValueID(bo.Y) {
						return false, false
					}
					return true, bo.Op == token.NEQ
				}
				badCase := ""
				for _, asg := range [][2]bool{{false, false}, {false, true}, {true, true}} {
					reached := false
					seenB := map[*ssa.BasicBlock]bool{}
					var walk func(b *ssa.BasicBlock)
					walk = func(b *ssa.BasicBlock) {
						if seenB[b] || reached {
							return
						}
						seenB[b] = true
						if b == del.Block() {
							reached = true
							return
						}
						if ifi, ok := b.Instrs[len(b.Instrs)-1].(*ssa.If); ok {
							c := ifi.Cond
							neg := false
							if u, ok := c.(*ssa.UnOp); ok && u.Op == token.NOT {
								c, neg = u.X, true
							}
							val, known := false, false
							if isOK(c) {
								val, known = asg[0], true
							} else if is, neq := isIDCmp(c); is {
								val, known = asg[1] == neq, true
							}
							if known {
								if neg {
									val = !val
								}
								if val {
									walk(b.Succs[0])
								} else {
									walk(b.Succs[1])
								}
								return
							}
						}
						for _, sc := range b.Succs {
							walk(sc)
						}
					}
					walk(in.Block())
					if !reached {
						badCase = fmt.Sprintf("new value is a container: %v, its id differs from the detached one: %v", asg[0], asg[1])
					}
				}
				r.Decide(badCase == "", R, "index-delete-exact:"+p.Name(f), p.InstrPos(del), "the entry is deleted whenever the new value is no container or another container", "the registry entry of the overwritten / removed child survives in a case where the child is detached ("+badCase+"): its stale callback still passes the 'is an element' test and reads the former parent's slabs on every mutation")
			}
			// overwrite with a caller-supplied value: the entry must survive when the new value is the same container
			// only where the storable comes out of an operation that stored the caller's value (Set), not of a removal
			hasValueParam := false
			if ex, ok := canon(c.Call.Args[1]).(*ssa.Extract); ok {
				if src, ok := ex.Tuple.(*ssa.Call); ok {
					for _, g := range p.Callees(src) {
						eachInstr(g, func(y ssa.Instruction) {
							if cc, ok := y.(ssa.CallInstruction); ok && cc.Common().IsInvoke() {
								nm := cc.Common().Method.Name()
								tn := typeName(cc.Common().Value.Type())
								if (nm == "Set" || nm == "Insert") && (tn == "ArraySlab" || tn == "MapSlab") {
									hasValueParam = true
								}
							}
						})
					}
				}
			}
			if hasValueParam {
				// the same-container case may also be told apart up front (identity test between the overwritten storable
				// and the caller's value, deletion on its false edge)
				if b, edge := sameContainerTest(f, c.Call.Args[1]); b != nil && edge >= 0 && edgeDominates(b, 1-edge, del.Block()) {
					r.Ok(R, "index-kept-for-same-child:"+p.Name(f), p.InstrPos(del), "the entry is deleted only on the edge where the overwritten storable is not the caller's value itself")
					return
				}
				dep := controlDependsOnValue(f, del.Block(), func(v ssa.Value) bool {
					bo, ok := v.(*ssa.BinOp)
					if !ok || (bo.Op != token.NEQ && bo.Op != token.EQL) {
						return false
					}
					isNewID := func(x ssa.Value) bool {
						c, ok := canon(x).(*ssa.Call)
						return ok && calleeName(c) == "ValueID"
					}
					return (sameValue(bo.X, vid) && isNewID(bo.Y)) || (sameValue(bo.Y, vid) && isNewID(bo.X))
				})
				r.Decide(dep, R, "index-kept-for-same-child:"+p.Name(f), p.InstrPos(del), "the entry is deleted only if the new value is not the very container that was overwritten", "overwriting a child with itself deletes the index entry that was just registered: the child handle would silently lose its parent")
			}
		})
	}
	// bulk removal: a method that pops every element off the root must forget every tracked child index
	for _, f := range p.TopFuncs() {
		regField := p.childRegistryField(recvName(f))
		regOwner := recvName(f)
		if regField == "" || !isExportedAPI(f) || len(f.Params) == 0 {
			continue
		}
		var pop ssa.Instruction
		eachInstr(f, func(in ssa.Instruction) {
			for _, it := range []string{"ArraySlab", "MapSlab"} {
				if c, ok := p.isIfaceMethodCall(in, it, "PopIterate"); ok && c != nil {
					pop = in
				}
			}
		})
		if pop == nil {
			continue
		}
		n++
		recv := f.Params[0]
		isReset := func(x ssa.Instruction) bool {
			if c, ok := x.(*ssa.Call); ok {
				if kind, _, ok := p.registryHelper(c.Call.StaticCallee()); ok && kind == "clear" && len(c.Call.Args) > 0 && sameValue(c.Call.Args[0], recv) {
					return true
				}
			}
			if cc, ok := isBuiltinCall(x, "clear"); ok && len(cc.Args) == 1 {
				if lf, ok := asLoadedField(cc.Args[0]); ok && lf.is(regOwner, regField) && sameValue(lf.Base, recv) {
					return true
				}
			}
			if fw, ok := fieldWriteOf(x); ok && fw.Kind == "assign" && fw.Ref.is(regOwner, regField) && sameValue(fw.Ref.Base, recv) {
				v := canon(fw.Val)
				if isNilConst(v) {
					return true
				}
				if _, ok := v.(*ssa.MakeMap); ok {
					return true
				}
			}
			return false
		}
		bad := successReturnAvoiding(f, pop, isReset)
		cons := "index-reset:" + p.Name(f)
		if bad == nil {
			r.Ok(R, cons, p.InstrPos(pop), "every success path after the bulk pop resets mutableElementIndex")
		} else {
			r.Bad(R, cons, p.InstrPos(bad), "all elements are popped but mutableElementIndex keeps the entries of the former children: the next Insert/Append fails while shifting a stale index, and a popped child's handle still finds a slot in the emptied array")
		}
	}
	r.Floor(R, "detach sites in Array", 3, n)
}

// parentUpdaterClosures: closures passed to setParentUpdater.
func (p *Prog) parentUpdaterClosures() []*ssa.Function {
	var out []*ssa.Function
	for _, f := range p.TopFuncs() {
		eachInstr(f, func(in ssa.Instruction) {
			c, ok := in.(ssa.CallInstruction)
			if !ok || calleeName(c) != "setParentUpdater" {
				return
			}
			for _, a := range c.Common().Args {
				if cl := closureOf(a); cl != nil && cl.Parent() != nil {
					out = append(out, cl)
				}
			}
		})
	}
	return out
}

// N2 callbacks re-validate identity before writing into the parent.
func ruleN2(p *Prog, r *Report) {
	const R = "N2"
	var cls []*ssa.Function
	for _, cl := range p.parentUpdaterClosures() {
		if isHandleType(recvName(TopLevel(cl))) {
			cls = append(cls, cl) // callbacks installed by a parent container (iterators install rejecting callbacks, see R5)
		}
	}
	for _, cl := range cls {
		name := p.Name(cl)
		var setCalls []ssa.Instruction
		eachInstr(cl, func(in ssa.Instruction) {
			if c, ok := in.(ssa.CallInstruction); ok {
				if f := c.Common().StaticCallee(); f != nil && isHandleType(recvName(f)) && (f.Name() == "set" || f.Name() == "Set") {
					setCalls = append(setCalls, in)
				}
			}
		})
		if len(setCalls) == 0 {
			r.Bad(R, "reset-in-parent:"+name, p.Pos(cl.Pos()), "parent updater never re-sets the child in the parent")
			continue
		}
		// blessed edges: the equal==true edge of a vid.equal(...) test
		blessed := map[[2]int]bool{}
		for _, b := range cl.Blocks {
			ifi, ok := b.Instrs[len(b.Instrs)-1].(*ssa.If)
			if !ok {
				continue
			}
			cond := ifi.Cond
			neg := false
			if u, ok := cond.(*ssa.UnOp); ok && u.Op == token.NOT {
				cond, neg = u.X, true
			}
			if c, ok := cond.(*ssa.Call); ok && (calleeName(c) == "equal" && callRecv(c) != nil && typeName(callRecv(c).Type()) == "ValueID" || isIdentityHelper(c.Call.StaticCallee(), 0)) {
				if neg {
					blessed[[2]int{b.Index, 1}] = true
				} else {
					blessed[[2]int{b.Index, 0}] = true
				}
			}
		}
		for _, sc := range setCalls {
			unvalidated := false
			reachFrom(cl, nil, func(from *ssa.BasicBlock, si int) bool { return !blessed[[2]int{from.Index, si}] }, func(in ssa.Instruction) bool {
				if in == sc {
					unvalidated = true
					return true
				}
				return false
			})
			r.Decide(!unvalidated, R, "identity-check:"+name, p.InstrPos(sc),
				fmt.Sprintf("every path to the parent re-set passes the true edge of a ValueID.equal test (%d such edges)", len(blessed)),
				"the parent is re-set on a path that did not confirm that the element still has the child's value id: a stale handle could overwrite another element")
			// the re-lookup (current index / key) dominates the re-set
			dom := false
			eachInstr(cl, func(in ssa.Instruction) {
				if c, ok := in.(ssa.CallInstruction); ok {
					nm := calleeName(c)
					if (nm == "getIndexByValueID" || nm == "get" || nm == "Get") && in.Block().Dominates(sc.Block()) {
						dom = true
					}
				}
			})
			r.Decide(dom, R, "relookup:"+name, p.InstrPos(sc), "current position/key is looked up again before the re-set", "the re-set does not look the child up again (index may have shifted)")
		}
	}
	r.Floor(R, "parent updater closures", 2, len(cls))
}

// N3 callback cleared only when the parent did not find the child.
func ruleN3(p *Prog, r *Report) {
	const R = "N3"
	n := 0
	for _, f := range p.TopFuncs() {
		if !isHandleType(recvName(f)) {
			continue
		}
		eachInstr(f, func(in ssa.Instruction) {
			st, ok := in.(*ssa.Store)
			if !ok {
				return
			}
			fr, ok := asFieldAddr(st.Addr)
			if !ok || fr.Field != "parentUpdater" || isFreshBase(fr.Base) {
				return
			}
			n++
			cons := "parentUpdater-write:" + p.Name(f)
			if !isNilConst(st.Val) {
				r.Decide(f.Name() == "setParentUpdater", R, cons, p.InstrPos(in), "callback installed by setParentUpdater", "parentUpdater assigned outside setParentUpdater")
				return
			}
			// cleared: must be on the found==false, err==nil edge of the callback invocation
			good := false
			for _, b := range f.Blocks {
				ifi, ok := b.Instrs[len(b.Instrs)-1].(*ssa.If)
				if !ok {
					continue
				}
				cond := ifi.Cond
				succFalse := 1 // successor taken when found == false
				if u, ok := cond.(*ssa.UnOp); ok && u.Op == token.NOT {
					cond, succFalse = u.X, 0
				}
				ex, ok := canon(cond).(*ssa.Extract)
				if !ok || ex.Index != 0 {
					continue
				}
				c, ok := ex.Tuple.(*ssa.Call)
				if !ok || c.Call.StaticCallee() != nil || c.Call.IsInvoke() {
					continue
				}
				if fr2, ok := asLoadedField(c.Call.Value); !ok || fr2.Field != "parentUpdater" {
					continue
				}
				if edgeDominates(b, succFalse, in.Block()) {
					good = true
				}
			}
			r.Decide(good, R, cons, p.InstrPos(in), "callback cleared only on the not-found edge of its own invocation", "parentUpdater is cleared on a path other than 'parent did not find this child': a live child would stop notifying its parent")
		})
	}
	r.Floor(R, "parentUpdater writes", 4, n)
}

// L8 root-id preservation.
func ruleL8(p *Prog, r *Report) {
	const R = "L8"
	n := 0
	for _, f := range p.TopFuncs() {
		if !isHandleType(recvName(f)) || len(f.Params) == 0 {
			continue
		}
		recv := f.Params[0]
		eachInstr(f, func(in ssa.Instruction) {
			st, ok := in.(*ssa.Store)
			if !ok {
				return
			}
			fr, ok := asFieldAddr(st.Addr)
			if !ok || fr.Field != "root" || !isHandleType(fr.Owner.Obj().Name()) || isFreshBase(fr.Base) {
				return
			}
			n++
			cons := "root-replace:" + p.Name(f)
			x := canon(st.Val)
			if mi, ok := x.(*ssa.MakeInterface); ok {
				x = canon(mi.X)
			}
			if ci, ok := x.(*ssa.ChangeInterface); ok {
				x = canon(ci.X)
			}
			var idv ssa.Value
			if al, ok := x.(*ssa.Alloc); ok {
				// fresh slab literal: its header.slabID initialiser
				idv = litField(f, al, "header", "slabID")
				if idv == nil {
					r.Bad(R, cons, p.InstrPos(in), "new root slab literal has no slab id initialiser")
					return
				}
			} else if cv, inCallee, ok := constructorField(st.Val, "header", "slabID"); ok && !inCallee {
				// fresh slab built by a private constructor: the id it is given
				idv = cv
			} else if g, lit, call, ok := constructorLiteral(st.Val); ok && rootIDFromParam(g, lit, call, recv) {
				// fresh slab built by a private constructor that is handed the previous root and reads its id itself: the
				// read happens at the call
				clean := true
				why := ""
				entry := f.Blocks[0].Instrs[0]
				reachBackFrom(f, call, func(y ssa.Instruction) bool {
					if cc, ok := y.(ssa.CallInstruction); ok && calleeName(cc) == "SetSlabID" {
						clean, why = false, "SetSlabID at "+p.InstrPos(y)+" precedes the read of the root id"
						return true
					}
					if s2, ok := y.(*ssa.Store); ok {
						if fr2, ok := asFieldAddr(s2.Addr); ok && fr2.Field == "root" && !isFreshBase(fr2.Base) {
							clean, why = false, "the root was already replaced at "+p.InstrPos(y)
							return true
						}
					}
					return y == entry
				})
				r.Decide(clean, R, cons, p.InstrPos(in), "the replacing root is built from the previous root (its constructor reads the id from it) before any id change", "root id not preserved: "+why)
				return
			} else {
				// existing slab promoted: SetSlabID(id) on the new root on every success path after the store - or the one
				// SetSlabID the promoted slab received before it was stored (it dominates the store)
				var setID ssa.CallInstruction
				var pre []ssa.CallInstruction
				eachInstr(f, func(y ssa.Instruction) {
					if c, ok := y.(ssa.CallInstruction); ok && calleeName(c) == "SetSlabID" && callRecv(c) != nil && (sameValue(callRecv(c), st.Val) || canon(callRecv(c)) == x) {
						pre = append(pre, c)
					}
				})
				if len(pre) == 1 {
					pb := pre[0].Block()
					before := pb != in.Block() && pb.Dominates(in.Block())
					if pb == in.Block() {
						for _, z := range pb.Instrs {
							if z == ssa.Instruction(pre[0]) {
								before = true
								break
							}
							if z == in {
								break
							}
						}
					}
					if before {
						setID = pre[0]
					}
				}
				bad := (*ssa.Return)(nil)
				if setID == nil {
					bad = successReturnAvoiding(f, in, func(y ssa.Instruction) bool {
						c, ok := y.(ssa.CallInstruction)
						if ok && calleeName(c) == "SetSlabID" && (isRootOf(callRecv(c), recv) || sameValue(callRecv(c), st.Val)) {
							setID = c
							return true
						}
						return false
					})
				}
				if bad != nil || setID == nil {
					r.Bad(R, cons, p.InstrPos(in), "a different slab becomes the root without SetSlabID(root id) on every success path: the container would change its identifier")
					return
				}
				idv = callArgs(setID)[0]
			}
			// idv must be recv.root.SlabID() read from the old root: before the store and before any SetSlabID on it
			c, ok := canon(idv).(*ssa.Call)
			if !ok || calleeName(c) != "SlabID" || !isRootOf(callRecv(c), recv) {
				r.Bad(R, cons, p.InstrPos(in), "the new root's slab id is not the id read from the previous root (recv.root.SlabID())")
				return
			}
			clean := true
			why := ""
			entry := f.Blocks[0].Instrs[0]
			reachBackFrom(f, c, func(y ssa.Instruction) bool {
				if cc, ok := y.(ssa.CallInstruction); ok && calleeName(cc) == "SetSlabID" {
					clean, why = false, "SetSlabID at "+p.InstrPos(y)+" precedes the read of the root id"
					return true
				}
				if s2, ok := y.(*ssa.Store); ok {
					if fr2, ok := asFieldAddr(s2.Addr); ok && fr2.Field == "root" && !isFreshBase(fr2.Base) {
						clean, why = false, "the root was already replaced at "+p.InstrPos(y)
						return true
					}
				}
				return y == entry
			})
			r.Decide(clean, R, cons, p.InstrPos(in), "the replacing root carries the id read from the previous root before any id change", "root id not preserved: "+why)
		})
	}
	// ValueID / SlabID derivation independent of inlining
	for _, h := range handleTypes {
		if f := p.Method(h, "ValueID"); f != nil {
			dep := false
			eachInstr(f, func(in ssa.Instruction) {
				if c, ok := in.(ssa.CallInstruction); ok && (calleeName(c) == "Inlined" || calleeName(c) == "Inlinable") {
					dep = true
				}
			})
			r.Decide(!dep, R, "valueid-independent:"+p.Name(f), p.Pos(f.Pos()), "value id is derived from the root slab id without consulting the inlined state", "ValueID depends on the inlined state")
		} else {
			r.Unk(R, "anchor:"+h+".ValueID", "-", "method not found")
		}
	}
	r.Floor(R, "root replacement sites", 6, n)
}

// L10 count maintenance of OrderedMap.
func ruleL10(p *Prog, r *Report) {
	const R = "L10"
	nInc, nDec := 0, 0
	for _, f := range p.TopFuncs() {
		if recvName(f) != "OrderedMap" || len(f.Params) == 0 {
			continue
		}
		recv := f.Params[0]
		eachInstr(f, func(in ssa.Instruction) {
			c, ok := in.(ssa.CallInstruction)
			if !ok {
				return
			}
			switch calleeName(c) {
			case "incrementCount":
				nInc++
				cons := "increment:" + p.Name(f)
				// dominated by: err == nil edge of root.Set, and existing == nil edge where existing is result #1 of root.Set
				var setCall *ssa.Call
				eachInstr(f, func(y ssa.Instruction) {
					if sc, ok := y.(*ssa.Call); ok && sc.Call.IsInvoke() && sc.Call.Method.Name() == "Set" && isRootOf(sc.Call.Value, recv) {
						setCall = sc
					}
				})
				if setCall == nil {
					r.Bad(R, cons, p.InstrPos(in), "incrementCount without a root.Set in the same function")
					return
				}
				var existing, errv ssa.Value
				for _, ref := range *setCall.Referrers() {
					if ex, ok := ref.(*ssa.Extract); ok {
						switch {
						case isErrorType(ex.Type()):
							errv = ex
						case ex.Index == 1:
							existing = ex
						}
					}
				}
				good := existing != nil && errv != nil && knownNil(existing, in.Block()) && knownNil(errv, in.Block())
				r.Decide(good, R, cons, p.InstrPos(in), "count incremented exactly when root.Set succeeded and reported no existing value", "incrementCount is not confined to 'root.Set succeeded and there was no existing value': the element count would drift on overwrites or failures")
				// and on that edge the increment is not skipped
				if good {
					// from the Set call every success path with existing==nil passes incrementCount: check that the nil-edge block leads to it unconditionally
					blk := in.Block()
					r.Decide(len(blk.Preds) >= 1, R, cons+":unconditional", p.InstrPos(in), "no further condition between the nil test and the increment", "increment is further conditioned")
				}
			case "decrementCount":
				nDec++
				cons := "decrement:" + p.Name(f)
				var rm *ssa.Call
				eachInstr(f, func(y ssa.Instruction) {
					if sc, ok := y.(*ssa.Call); ok && sc.Call.IsInvoke() && sc.Call.Method.Name() == "Remove" && isRootOf(sc.Call.Value, recv) {
						rm = sc
					}
				})
				if rm == nil {
					r.Bad(R, cons, p.InstrPos(in), "decrementCount without a root.Remove in the same function")
					return
				}
				var errv ssa.Value
				for _, ref := range *rm.Referrers() {
					if ex, ok := ref.(*ssa.Extract); ok && isErrorType(ex.Type()) {
						errv = ex
					}
				}
				good := errv != nil && knownNil(errv, in.Block())
				// unconditional on the success edge: the decrement's block is the err==nil successor itself
				if good {
					cd := controlDeps(f)
					for a := range cd[in.Block()] {
						ifi := a.Instrs[len(a.Instrs)-1].(*ssa.If)
						if v, _, ok := errTestOf(ifi); !ok || !sameValue(v, errv) {
							good = false
						}
					}
				}
				r.Decide(good, R, cons, p.InstrPos(in), "count decremented exactly when root.Remove succeeded", "decrementCount is not exactly on the success edge of root.Remove")
			}
		})
	}
	// writers of MapExtraData.Count
	allowedWriter := func(f *ssa.Function) bool {
		switch f.Name() {
		case "incrementCount", "decrementCount":
			return recvName(f) == "MapExtraData"
		case "PopIterate":
			return recvName(f) == "OrderedMap"
		}
		return false
	}
	nW := 0
	for _, top := range p.TopFuncs() {
		eachInstrDeep(top, func(fn *ssa.Function, in ssa.Instruction) {
			if st, ok := in.(*ssa.Store); ok {
				if fr, ok := asFieldAddr(st.Addr); ok && fr.is("MapExtraData", "Count") && !isFreshBase(fr.Base) {
					nW++
					cons := "count-writer:" + p.Name(top)
					if top.Name() == "PopIterate" {
						z, isC := constInt(st.Val)
						r.Decide(isC && z == 0, R, cons, p.InstrPos(in), "bulk pop resets the count to 0", "bulk pop sets the count to something other than 0")
						return
					}
					r.Decide(allowedWriter(top), R, cons, p.InstrPos(in), "count written by its dedicated mutator", "MapExtraData.Count written outside incrementCount/decrementCount/PopIterate")
				}
			}
		})
	}
	r.Floor(R, "incrementCount sites", 1, nInc)
	r.Floor(R, "decrementCount sites", 1, nDec)
	r.Floor(R, "writers of MapExtraData.Count", 3, nW)
}

var _ = types.Typ

// lookupValueIndex: for a call that looks an element up in recv's root (directly through the slab
// interface, or through a private handle method that tail-returns such a lookup), the index of the
// result that is the element's value storable; -1 if the call is not such a lookup.
func (p *Prog) lookupValueIndex(lk *ssa.Call, recv ssa.Value) int {
	if lk.Call.IsInvoke() {
		if !isRootOf(lk.Call.Value, recv) {
			return -1
		}
		return valueIndexOfLookup(lk.Call.Method.Name(), typeName(lk.Call.Value.Type()))
	}
	g := lk.Call.StaticCallee()
	if g == nil || !isHandleType(recvName(g)) || len(lk.Call.Args) == 0 || !sameValue(lk.Call.Args[0], recv) || len(g.Params) == 0 {
		return -1
	}
	for _, ret := range returnsOf(g) {
		for i, res := range ret.Results {
			ex, ok := canon(res).(*ssa.Extract)
			if !ok {
				continue
			}
			inner, ok := ex.Tuple.(*ssa.Call)
			if !ok || !inner.Call.IsInvoke() || !isRootOf(inner.Call.Value, g.Params[0]) {
				continue
			}
			if vi := valueIndexOfLookup(inner.Call.Method.Name(), typeName(inner.Call.Value.Type())); vi >= 0 && ex.Index == vi {
				return i
			}
		}
	}
	return -1
}

// isAddressIndexConcat: g(sid SlabID) ValueID returns sid.address followed by sid.index: a fresh ValueID whose
// first bytes receive copy(id[:], sid.address[:]) and whose bytes from there on receive copy(id[n:], sid.index[:]).
func (p *Prog) isAddressIndexConcat(g *ssa.Function, addrLen int64) bool {
	if g.Pkg != p.RootSSA || len(g.Blocks) != 1 || len(g.Params) != 1 || typeName(g.Params[0].Type()) != "SlabID" {
		return false
	}
	if at, ok := g.Signature.Results().At(0).Type().Underlying().(*types.Array); !ok || at.Len() <= addrLen {
		return false
	}
	var copies []*ssa.Call
	var out *ssa.Alloc
	okShape := true
	for _, in := range g.Blocks[0].Instrs {
		switch x := in.(type) {
		case *ssa.Call:
			if bi, ok := x.Call.Value.(*ssa.Builtin); ok && bi.Name() == "copy" {
				copies = append(copies, x)
			} else {
				okShape = false
			}
		case *ssa.Store:
			// only the spill of the parameter
			if canon(x.Val) != ssa.Value(g.Params[0]) {
				okShape = false
			}
		case *ssa.Return:
			u, ok := x.Results[0].(*ssa.UnOp)
			if !ok || u.Op != token.MUL {
				return false
			}
			out, _ = u.X.(*ssa.Alloc)
		}
	}
	if !okShape || len(copies) != 2 || out == nil {
		return false
	}
	part := func(c *ssa.Call, field string, lowOK func(ssa.Value) bool) bool {
		dst, ok1 := c.Call.Args[0].(*ssa.Slice)
		src, ok2 := c.Call.Args[1].(*ssa.Slice)
		if !ok1 || !ok2 || dst.X != ssa.Value(out) || dst.High != nil || !lowOK(dst.Low) || src.Low != nil || src.High != nil {
			return false
		}
		fa, ok := src.X.(*ssa.FieldAddr)
		if !ok {
			return false
		}
		_, nm := structFieldName(fa.X.Type(), fa.Field)
		al, ok := fa.X.(*ssa.Alloc)
		return ok && nm == field && canon(singleStoreTo(al)) == ssa.Value(g.Params[0])
	}
	first := part(copies[0], "address", func(lo ssa.Value) bool {
		if lo == nil {
			return true
		}
		k, ok := cInt(lo)
		return ok && k == 0
	})
	second := part(copies[1], "index", func(lo ssa.Value) bool {
		if lo == ssa.Value(copies[0]) {
			return true
		}
		k, ok := cInt(lo)
		return lo != nil && ok && k == addrLen
	})
	return first && second
}

// N4 identity predicate: every method of ValueID that compares the value id with a SlabID and returns a bool is
// true exactly when both components (address, index) are equal. The function is evaluated on the four truth
// assignments of its two component comparisons; which half of the value id is compared with which component is
// checked from the slice bounds.
func ruleN4(p *Prog, r *Report) {
	const R = "N4"
	n := 0
	for _, f := range p.TopFuncs() {
		if recvName(f) != "ValueID" || len(f.Params) != 2 || f.Signature.Results().Len() != 1 {
			continue
		}
		if typeName(f.Params[1].Type()) != "SlabID" {
			continue
		}
		if b, ok := f.Signature.Results().At(0).Type().Underlying().(*types.Basic); !ok || b.Kind() != types.Bool {
			continue
		}
		n++
		cons := "identity-predicate:" + p.Name(f)
		sid := f.Params[1]
		vid := f.Params[0]
		addrLen, ok := p.constVal("SlabAddressLength")
		if !ok {
			r.Unk(R, cons, p.Pos(f.Pos()), "SlabAddressLength not found")
			continue
		}
		// atoms: comparisons of one component
		type atom struct{ comp string }
		atoms := map[ssa.Value]string{}
		problem := ""
		rootsAt := func(v ssa.Value, prm *ssa.Parameter) bool {
			// v is (a slice of) the spilled copy of prm, possibly through a field
			for depth := 0; depth < 6; depth++ {
				switch x := v.(type) {
				case *ssa.Slice:
					v = x.X
				case *ssa.FieldAddr:
					v = x.X
				case *ssa.Alloc:
					return canon(singleStoreTo(x)) == ssa.Value(prm) || singleStoreTo(x) == ssa.Value(prm)
				default:
					return canon(v) == ssa.Value(prm)
				}
			}
			return false
		}
		eachInstr(f, func(in ssa.Instruction) {
			c, ok := in.(*ssa.Call)
			if !ok {
				return
			}
			g := c.Call.StaticCallee()
			if g == nil || g.Pkg == nil || g.Pkg.Pkg.Path() != "bytes" || g.Name() != "Equal" || len(c.Call.Args) != 2 {
				return
			}
			var sidArg, vidArg ssa.Value
			for _, a := range c.Call.Args {
				if rootsAt(a, sid) {
					sidArg = a
				}
				if rootsAt(a, vid) {
					vidArg = a
				}
			}
			if sidArg == nil || vidArg == nil {
				problem = "a comparison does not relate the value id with the slab id"
				return
			}
			comp := ""
			if sl, ok := sidArg.(*ssa.Slice); ok {
				if fa, ok := sl.X.(*ssa.FieldAddr); ok {
					_, comp = structFieldName(fa.X.Type(), fa.Field)
				}
			}
			vs, ok := vidArg.(*ssa.Slice)
			if comp == "" || !ok {
				problem = "component comparison of an unexpected shape"
				return
			}
			lo, hi := int64(0), int64(-1)
			if vs.Low != nil {
				if k, ok := cInt(vs.Low); ok {
					lo = k
				} else {
					problem = "value id half with a non-constant bound"
				}
			}
			if vs.High != nil {
				if k, ok := cInt(vs.High); ok {
					hi = k
				} else {
					problem = "value id half with a non-constant bound"
				}
			}
			switch comp {
			case "address":
				if lo != 0 || hi != addrLen {
					problem = "the address is compared with the wrong part of the value id"
				}
			case "index":
				if lo != addrLen || hi != -1 {
					problem = "the index is compared with the wrong part of the value id"
				}
			default:
				problem = "unknown slab id component " + comp
			}
			atoms[c] = comp
		})
		if problem != "" {
			r.Bad(R, cons, p.Pos(f.Pos()), problem)
			continue
		}
		bad := ""
		for _, asg := range [][2]bool{{false, false}, {false, true}, {true, false}, {true, true}} {
			val := func(v ssa.Value) (bool, bool) { return false, false }
			var eval func(v ssa.Value, from *ssa.BasicBlock) (bool, bool)
			eval = func(v ssa.Value, from *ssa.BasicBlock) (bool, bool) {
				if comp, ok := atoms[v]; ok {
					if comp == "address" {
						return asg[0], true
					}
					return asg[1], true
				}
				switch x := v.(type) {
				case *ssa.Const:
					if x.Value != nil {
						return x.Value.String() == "true", true
					}
				case *ssa.BinOp:
					// vid == concat(sid): whole-array comparison with the verified address||index conversion
					if (x.Op == token.EQL || x.Op == token.NEQ) && typeName(x.X.Type()) == "ValueID" {
						for _, pair := range [][2]ssa.Value{{x.X, x.Y}, {x.Y, x.X}} {
							c, ok := pair[1].(*ssa.Call)
							if !ok || canon(pair[0]) != ssa.Value(vid) || len(c.Call.Args) != 1 || canon(c.Call.Args[0]) != ssa.Value(sid) {
								continue
							}
							if g := c.Call.StaticCallee(); g != nil && p.isAddressIndexConcat(g, addrLen) {
								return (asg[0] && asg[1]) == (x.Op == token.EQL), true
							}
						}
					}
				}
				switch x := v.(type) {
				case *ssa.UnOp:
					if x.Op == token.NOT {
						b, ok := eval(x.X, from)
						return !b, ok
					}
				case *ssa.Phi:
					for i, pr := range x.Block().Preds {
						if pr == from {
							return eval(x.Edges[i], from)
						}
					}
				case *ssa.BinOp:
					a, ok1 := eval(x.X, from)
					b, ok2 := eval(x.Y, from)
					if ok1 && ok2 {
						switch x.Op {
						case token.AND, token.LAND:
							return a && b, true
						case token.OR, token.LOR:
							return a || b, true
						case token.EQL:
							return a == b, true
						case token.NEQ:
							return a != b, true
						}
					}
				}
				return false, false
			}
			_ = val
			b := f.Blocks[0]
			var prev *ssa.BasicBlock
			res, decided := false, false
			// phi edges need the predecessor: track it while walking
			phiFrom := map[*ssa.BasicBlock]*ssa.BasicBlock{}
			for steps := 0; steps < 50; steps++ {
				phiFrom[b] = prev
				last := b.Instrs[len(b.Instrs)-1]
				switch x := last.(type) {
				case *ssa.If:
					c, ok := eval(x.Cond, prev)
					if !ok {
						steps = 100
						break
					}
					prev = b
					if c {
						b = b.Succs[0]
					} else {
						b = b.Succs[1]
					}
					continue
				case *ssa.Jump:
					prev = b
					b = b.Succs[0]
					continue
				case *ssa.Return:
					res, decided = eval(canonRet(x.Results[0]), prev)
				}
				break
			}
			if !decided {
				bad = "the predicate is outside the evaluator's vocabulary"
				break
			}
			if res != (asg[0] && asg[1]) {
				bad = fmt.Sprintf("with address equal=%v and index equal=%v the predicate answers %v", asg[0], asg[1], res)
				break
			}
		}
		// (a predicate that agrees with "address and index equal" on all four assignments involves both components)
		r.Decide(bad == "", R, cons, p.Pos(f.Pos()), "true exactly when address and index both match", "the identity test between a container's value id and a slab id is wrong: "+bad+"; a stale handle could be taken for the element that now occupies its slot")
	}
	// the conversion the identity is defined by: every SlabID -> ValueID function of the package is address || index
	nConv := 0
	if addrLen, ok := p.constVal("SlabAddressLength"); ok {
		for _, f := range p.TopFuncs() {
			if f.Signature.Recv() != nil || len(f.Params) != 1 || f.Signature.Results().Len() != 1 || typeName(f.Params[0].Type()) != "SlabID" || typeName(f.Signature.Results().At(0).Type()) != "ValueID" {
				continue
			}
			nConv++
			r.Decide(p.isAddressIndexConcat(f, addrLen), R, "value-id-conversion:"+p.Name(f), p.Pos(f.Pos()),
				"the value id of a slab id is its address followed by its index, each copied whole",
				"the SlabID to ValueID conversion is not the concatenation of the whole address and the whole index: value ids no longer identify slabs one to one, and the identity test against a slab id answers wrongly")
		}
	}
	r.Floor(R, "SlabID to ValueID conversions", 1, nConv)
	n4Unwrapped(p, r)
	r.Floor(R, "value id / slab id identity predicates", 1, n)
}

// canonRet: look through the defer/recover spill of a return operand.
func canonRet(v ssa.Value) ssa.Value { return stripTrivial(v) }

// sameContainerTest finds a branch on a call that receives both the storable x and a Value parameter of f
// (an identity test between the stored element and the caller's value). It returns the block and the index
// of the successor taken when the test is true.
func sameContainerTest(f *ssa.Function, x ssa.Value) (*ssa.BasicBlock, int) {
	for _, b := range f.Blocks {
		ifi, ok := b.Instrs[len(b.Instrs)-1].(*ssa.If)
		if !ok {
			continue
		}
		cond := ifi.Cond
		trueEdge := 0
		if u, ok := cond.(*ssa.UnOp); ok && u.Op == token.NOT {
			cond, trueEdge = u.X, 1
		}
		c, ok := canon(cond).(*ssa.Call)
		if !ok {
			continue
		}
		hasX, hasV := false, false
		for _, a := range c.Call.Args {
			if sameValue(a, x) {
				hasX = true
			}
			if prm, ok := canon(a).(*ssa.Parameter); ok && typeName(prm.Type()) == "Value" {
				hasV = true
			}
		}
		if hasX && hasV {
			return b, trueEdge
		}
	}
	return nil, -1
}

// N5 an outdated parent-updater never reads the former parent's slabs: the closure a parent installs in a child
// first asks an in-memory registry of the parent (a map field keyed by the child's value id, maintained by
// Set / Remove / PopIterate) whether the child is still an element; only on the "still registered" edge may it
// reach slab storage. Otherwise a child that was removed or overwritten fails on every later mutation once its
// former parent has been disposed of (the lookup in the former parent hits missing slabs).
func ruleN5(p *Prog, r *Report) {
	const R = "N5"
	n := 0
	// functions that can reach SlabStorage.Retrieve
	readsStorage := func(g *ssa.Function) bool {
		for h := range p.ReachFine(g) {
			found := false
			eachInstr(h, func(in ssa.Instruction) {
				if _, ok := p.isIfaceMethodCall(in, "SlabStorage", "Retrieve"); ok {
					found = true
				}
			})
			if found {
				return true
			}
		}
		return false
	}
	for _, cl := range p.parentUpdaterClosures() {
		top := TopLevel(cl)
		if !isHandleType(recvName(top)) {
			continue
		}
		n++
		name := p.Name(cl)
		// membership tests: branch on the ok of a comma-ok lookup in a map field of a handle, or on the bool result
		// of a handle method that does not touch storage
		type test struct {
			blk  *ssa.BasicBlock
			succ int // successor taken when the child is registered
		}
		var tests []test
		for _, b := range cl.Blocks {
			ifi, ok := b.Instrs[len(b.Instrs)-1].(*ssa.If)
			if !ok {
				continue
			}
			cond := ifi.Cond
			yes := 0
			if u, isNot := cond.(*ssa.UnOp); isNot && u.Op == token.NOT {
				cond, yes = u.X, 1
			}
			if call, isCall := canon(cond).(*ssa.Call); isCall {
				// a predicate of the handle that stays in memory
				if g := call.Call.StaticCallee(); g != nil && isHandleType(recvName(g)) && !readsStorage(g) {
					takesID := false
					for _, a := range call.Call.Args {
						if typeName(a.Type()) == "ValueID" {
							takesID = true
						}
					}
					if bt, ok := call.Type().Underlying().(*types.Basic); ok && bt.Kind() == types.Bool && takesID {
						tests = append(tests, test{b, yes})
					}
				}
				continue
			}
			ex, ok := canon(cond).(*ssa.Extract)
			if !ok {
				continue
			}
			switch t := ex.Tuple.(type) {
			case *ssa.Lookup:
				if fr, ok := asLoadedField(t.X); ok && t.CommaOk && fr.Owner != nil && isHandleType(fr.Owner.Obj().Name()) && typeName(t.Index.Type()) == "ValueID" {
					tests = append(tests, test{b, yes})
				}
			case *ssa.Call:
				g := t.Call.StaticCallee()
				takesID := false
				for _, a := range t.Call.Args {
					if typeName(a.Type()) == "ValueID" {
						takesID = true
					}
				}
				if g != nil && isHandleType(recvName(g)) && !readsStorage(g) && takesID {
					if bt, ok := ex.Type().Underlying().(*types.Basic); ok && bt.Kind() == types.Bool {
						tests = append(tests, test{b, yes})
					}
				}
			}
		}
		var bad ssa.Instruction
		eachInstr(cl, func(in ssa.Instruction) {
			c, ok := in.(ssa.CallInstruction)
			if !ok || bad != nil {
				return
			}
			reads := false
			for _, g := range p.Callees(c) {
				if readsStorage(g) {
					reads = true
				}
			}
			if !reads {
				return
			}
			guarded := false
			for _, t := range tests {
				if edgeDominates(t.blk, t.succ, in.Block()) {
					guarded = true
				}
			}
			if !guarded {
				bad = in
			}
		})
		cons := "registered-before-storage:" + name
		if bad != nil {
			r.Bad(R, cons, p.InstrPos(bad), "the parent-updater reads the parent's slabs without first checking an in-memory registry of attached children: after the child was removed or overwritten and the former parent disposed of, every mutation through the child's handle fails with a slab-not-found error (after it was applied)")
		} else {
			r.Ok(R, cons, p.Pos(cl.Pos()), "slab storage is reached only on the edge where the parent's in-memory registry still lists the child")
		}
	}
	r.Floor(R, "parent updater closures", 2, n)
}

// childRegistryField: the field of a handle type that registers attached child containers in memory
// (a map keyed by ValueID); "" if the type has none.
func (p *Prog) childRegistryField(typ string) string {
	if !isHandleType(typ) {
		return ""
	}
	nt := p.LookupType(typ)
	if nt == nil {
		return ""
	}
	st, ok := nt.Underlying().(*types.Struct)
	if !ok {
		return ""
	}
	for i := 0; i < st.NumFields(); i++ {
		if m, ok := st.Field(i).Type().Underlying().(*types.Map); ok && typeName(m.Key()) == "ValueID" {
			return st.Field(i).Name()
		}
	}
	return ""
}

// stripConvIface strips interface conversions only (keeps the named interface type the value was declared with).
func stripConvIface(v ssa.Value) ssa.Value {
	for {
		switch x := v.(type) {
		case *ssa.ChangeInterface:
			v = x.X
		case *ssa.MakeInterface:
			v = x.X
		default:
			return v
		}
	}
}

// isMapKeyStorable: the storable is the key of a map element (typed MapKey where it was produced), possibly
// handed up through package functions as a plain Storable result.
func (p *Prog) isMapKeyStorable(v ssa.Value, depth int) bool {
	if depth > 4 {
		return false
	}
	v = stripConvIface(canon(v))
	if typeName(v.Type()) == "MapKey" {
		return true
	}
	ex, ok := v.(*ssa.Extract)
	if !ok {
		return false
	}
	if typeName(ex.Type()) == "MapKey" {
		return true
	}
	c, ok := ex.Tuple.(*ssa.Call)
	if !ok {
		return false
	}
	callees := p.Callees(c)
	if len(callees) == 0 {
		return false
	}
	for _, g := range callees {
		any := false
		for _, ret := range returnsOf(g) {
			if cl, _ := classifyReturn(ret); cl == retError || ex.Index >= len(ret.Results) {
				continue
			}
			if isNilConst(canon(ret.Results[ex.Index])) {
				continue // error paths hand back nil
			}
			if g.Recover != nil && ret.Block() == g.Recover {
				continue // exit taken only while panicking through a deferred call
			}
			any = true
			if !p.isMapKeyStorable(ret.Results[ex.Index], depth+1) {
				return false
			}
		}
		if !any {
			return false
		}
	}
	return true
}

// isIdentityHelper: g is a private predicate that can answer true only with the result of a ValueID.equal test:
// every return is the constant false, the direct result of ValueID.equal (or of another identity helper), or the
// constant true on the true edge of such a test.
func isIdentityHelper(g *ssa.Function, depth int) bool {
	if g == nil || depth > 2 || len(g.Blocks) == 0 || g.Pkg == nil || g.Pkg.Pkg.Path() != rootPkgPath {
		return false
	}
	res := g.Signature.Results()
	if res.Len() != 1 {
		return false
	}
	if b, ok := res.At(0).Type().Underlying().(*types.Basic); !ok || b.Kind() != types.Bool {
		return false
	}
	isEq := func(v ssa.Value) bool {
		c, ok := canon(v).(*ssa.Call)
		if !ok {
			return false
		}
		if calleeName(c) == "equal" && callRecv(c) != nil && typeName(callRecv(c).Type()) == "ValueID" {
			return true
		}
		return isIdentityHelper(c.Call.StaticCallee(), depth+1)
	}
	sawEq := false
	var okVal func(v ssa.Value, b *ssa.BasicBlock, d int) bool
	okVal = func(v ssa.Value, b *ssa.BasicBlock, d int) bool {
		if d > 4 {
			return false
		}
		v = canon(v)
		if c, ok := v.(*ssa.Const); ok && c.Value != nil {
			if c.Value.String() == "false" {
				return true
			}
			// constant true: only on the true edge of an identity test
			for dd := b; dd != nil; dd = dd.Idom() {
				ifi, ok := dd.Instrs[len(dd.Instrs)-1].(*ssa.If)
				if ok && isEq(ifi.Cond) && edgeDominates(dd, 0, b) {
					sawEq = true
					return true
				}
			}
			return false
		}
		if isEq(v) {
			sawEq = true
			return true
		}
		if ph, ok := v.(*ssa.Phi); ok {
			for i, e := range ph.Edges {
				if !okVal(e, ph.Block().Preds[i], d+1) {
					return false
				}
			}
			return true
		}
		return false
	}
	for _, ret := range returnsOf(g) {
		if len(ret.Results) != 1 || !okVal(ret.Results[0], ret.Block(), 0) {
			return false
		}
	}
	return sawEq
}

// isEmptyValueID: v is (a load of) the package's empty value id.
func isEmptyValueID(v ssa.Value) bool {
	u, ok := canon(v).(*ssa.UnOp)
	if !ok || u.Op != token.MUL {
		return false
	}
	g, ok := u.X.(*ssa.Global)
	return ok && g.Name() == "emptyValueID"
}

// rootIDFromParam: the constructor g gives its literal the slab id `P.SlabID()` of a parameter P, and the call hands
// it the receiver's current root for P.
func rootIDFromParam(g *ssa.Function, lit *ssa.Alloc, call *ssa.Call, recv ssa.Value) bool {
	fv := litField(g, lit, "header", "slabID")
	if fv == nil {
		return false
	}
	c, ok := canon(fv).(*ssa.Call)
	if !ok || calleeName(c) != "SlabID" || callRecv(c) == nil {
		return false
	}
	prm, ok := canon(callRecv(c)).(*ssa.Parameter)
	if !ok {
		return false
	}
	for i, q := range g.Params {
		if q == prm && i < len(call.Call.Args) {
			return isRootOf(call.Call.Args[i], recv)
		}
	}
	return false
}
