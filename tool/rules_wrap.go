package main

// N4 (second half) the identity test sees through wrappers.
//
// An element of a container may be a wrapper (an optional, ...) around the child
// container's storable; the child's identity is that of the wrapped storable. Every
// use of the identity predicate ValueID.equal(SlabID) whose slab id is read out of a
// Storable (by asserting it to a slab-id reference or to an inlined slab) must therefore
// assert on the unwrapped storable - otherwise a wrapped child is never recognised as
// "this child": a self-overwrite un-inlines the element it just stored, a parent
// callback reports its own child as replaced.

import (
	"fmt"
	"go/token"
	"go/types"

	"golang.org/x/tools/go/ssa"
)

// storableUnwrappers: root-package functions Storable -> Storable that invoke UnwrapAtreeStorable.
func (p *Prog) storableUnwrappers() map[*ssa.Function]bool {
	out := map[*ssa.Function]bool{}
	for _, f := range p.TopFuncs() {
		sig := f.Signature
		if sig.Recv() != nil || sig.Params().Len() != 1 || sig.Results().Len() != 1 || typeName(sig.Params().At(0).Type()) != "Storable" || typeName(sig.Results().At(0).Type()) != "Storable" {
			continue
		}
		eachInstr(f, func(in ssa.Instruction) {
			if c, ok := in.(ssa.CallInstruction); ok && c.Common().IsInvoke() && c.Common().Method.Name() == "UnwrapAtreeStorable" {
				out[f] = true
			}
		})
	}
	return out
}

func (p *Prog) isUnwrappedStorable(v ssa.Value, unw map[*ssa.Function]bool, depth int) bool {
	if depth > 4 {
		return false
	}
	v = canon(v)
	switch x := v.(type) {
	case *ssa.Call:
		if g := x.Call.StaticCallee(); g != nil && unw[g] {
			return true
		}
		if x.Call.IsInvoke() && x.Call.Method.Name() == "UnwrapAtreeStorable" {
			return true
		}
	case *ssa.Phi:
		for _, e := range x.Edges {
			if p.isUnwrappedStorable(e, unw, depth+1) {
				return true
			}
		}
	case *ssa.Parameter:
		// a private helper that is handed the storable: every caller hands over an unwrapped one
		fn := x.Parent()
		if fn.Object() == nil || fn.Object().Exported() {
			return false
		}
		idx := -1
		for i, q := range fn.Params {
			if q == x {
				idx = i
			}
		}
		sites := p.CallersOf(fn)
		if idx < 0 || len(sites) == 0 {
			return false
		}
		for _, cs := range sites {
			a := cs.Instr.Common().Args
			if cs.Instr.Common().IsInvoke() || len(a) != len(fn.Params) || !p.isUnwrappedStorable(a[idx], unw, depth+1) {
				return false
			}
		}
		return true
	}
	return false
}

// storableBehindSlabID: the Storable whose dynamic type was asserted to obtain slab id v
// (SlabID(s) for a slab-id reference s, s.SlabID() for an inlined slab s), or nil.
func storableBehindSlabID(v ssa.Value) ssa.Value {
	v = canon(v)
	var asserted ssa.Value
	switch x := v.(type) {
	case *ssa.Convert:
		asserted = x.X
	case *ssa.ChangeType:
		asserted = x.X
	case *ssa.Call:
		if x.Call.IsInvoke() && x.Call.Method.Name() == "SlabID" {
			asserted = x.Call.Value
		} else if rv := callRecv(x); rv != nil && calleeName(x) == "SlabID" {
			asserted = rv
		}
	}
	if asserted == nil {
		asserted = v // the conversion from the reference type is transparent
	}
	asserted = canon(asserted)
	if ex, ok := asserted.(*ssa.Extract); ok {
		asserted = ex.Tuple
	}
	ta, ok := asserted.(*ssa.TypeAssert)
	if !ok {
		return nil
	}
	if _, isIface := ta.X.Type().Underlying().(*types.Interface); !isIface || typeName(ta.X.Type()) != "Storable" {
		return nil
	}
	return ta.X
}

func n4Unwrapped(p *Prog, r *Report) {
	const R = "N4"
	unw := p.storableUnwrappers()
	n := 0
	count := map[string]int{}
	for _, top := range p.TopFuncs() {
		if p.IsTestFile(top.Pos()) {
			continue
		}
		eachInstrDeep(top, func(fn *ssa.Function, in ssa.Instruction) {
			c, ok := in.(*ssa.Call)
			if !ok {
				return
			}
			g := c.Call.StaticCallee()
			if g == nil || recvName(g) != "ValueID" || len(g.Params) != 2 || typeName(g.Params[1].Type()) != "SlabID" || len(c.Call.Args) != 2 {
				return
			}
			if b, ok := g.Signature.Results().At(0).Type().Underlying().(*types.Basic); !ok || b.Kind() != types.Bool {
				return
			}
			st := storableBehindSlabID(c.Call.Args[1])
			if st == nil {
				return
			}
			n++
			count[p.Name(fn)]++
			cons := fmt.Sprintf("identity-unwrapped:%s#%d", p.Name(fn), count[p.Name(fn)])
			// polarity: where the identity test is branched on, the equal edge is not the one that answers
			// "not this child" (found == false) or fails
			if c.Referrers() != nil {
				for _, ref := range *c.Referrers() {
					var cond ssa.Value = c
					neg := false
					if u, ok := ref.(*ssa.UnOp); ok && u.Op == token.NOT {
						cond, neg = u, true
					}
					if cond.Referrers() == nil {
						continue
					}
					for _, r2 := range *cond.Referrers() {
						ifi, ok := r2.(*ssa.If)
						if !ok {
							continue
						}
						eq := ifi.Block().Succs[0]
						if neg {
							eq = ifi.Block().Succs[1]
						}
						ret, ok := eq.Instrs[len(eq.Instrs)-1].(*ssa.Return)
						if !ok {
							continue
						}
						wrong := false
						if cl, _ := classifyReturn(ret); cl == retError {
							wrong = true
						}
						if len(ret.Results) > 0 {
							if k, ok := ret.Results[0].(*ssa.Const); ok && k.Value != nil && k.Value.String() == "false" && lastResultIsError(fn) {
								wrong = true
							}
						}
						n++
						r.Decide(!wrong, R, fmt.Sprintf("identity-polarity:%s#%d", p.Name(fn), count[p.Name(fn)]), p.InstrPos(ifi),
							"a matching identity continues; only a mismatch answers not-found or fails",
							"the equal edge of the identity test returns not-found / an error: the child that IS the element under the tracked position is taken for a stale one (every notification of a live child is refused) and a foreign one is accepted")
					}
				}
			}
			r.Decide(p.isUnwrappedStorable(st, unw, 0), R, cons, p.InstrPos(in),
				"the slab id compared with the value id is read from the unwrapped element storable",
				"the identity test reads the slab id from an element storable that was not unwrapped: a child stored inside a wrapper (an optional around a nested container) is never recognised as this child - a self-overwrite un-inlines the element just stored, a parent callback takes its own child for a replaced one")
		})
	}
	r.Floor(R, "identity tests on element storables", 2, n)
}
