package main

// N8 the registry of child containers is emptied only when the container is.
//
// Array.mutableElementIndex and OrderedMap.mutableElementIDs record, per child value id,
// where the child sits; a child's parent callback answers "not this parent's child any
// more" when its id is not listed. Emptying the registry therefore detaches every child
// handle that was handed out: each one's next mutation changes its inlined slab without
// the parent being told. That is only right when the container itself is emptied at the
// same time. Obligation per whole-registry reset (clear(...) or assigning a new / nil
// map): the same function assigns a fresh root slab to the same handle.

import (
	"go/types"

	"golang.org/x/tools/go/ssa"
)

func isChildRegistryField(fr fieldRef) bool {
	if fr.Owner == nil || (fr.Owner.Obj().Name() != "Array" && fr.Owner.Obj().Name() != "OrderedMap") {
		return false
	}
	mt, ok := fieldType(fr).Underlying().(*types.Map)
	return ok && typeName(mt.Key()) == "ValueID"
}

func ruleN8(p *Prog, r *Report) {
	const R = "N8"
	n := 0
	for _, top := range p.TopFuncs() {
		if p.IsTestFile(top.Pos()) {
			continue
		}
		eachInstrDeep(top, func(fn *ssa.Function, in ssa.Instruction) {
			var fr fieldRef
			found := false
			if cc, ok := isBuiltinCall(in, "clear"); ok && len(cc.Args) == 1 {
				if f, ok := asLoadedField(cc.Args[0]); ok && isChildRegistryField(f) {
					fr, found = f, true
				}
			}
			if st, ok := in.(*ssa.Store); ok {
				if f, ok := asFieldAddr(st.Addr); ok && isChildRegistryField(f) && !isFreshBase(f.Base) {
					// lazily creating the registry when it is nil is not a reset
					lazy := false
					for _, b := range fn.Blocks {
						if ifi, ok := b.Instrs[len(b.Instrs)-1].(*ssa.If); ok && edgeDominates(b, 0, in.Block()) {
							if bo, ok := ifi.Cond.(*ssa.BinOp); ok {
								if l, ok := asLoadedField(bo.X); ok && l.Field == f.Field && isNilConst(bo.Y) {
									lazy = true
								}
							}
						}
					}
					if !lazy {
						fr, found = f, true
					}
				}
			}
			if !found {
				return
			}
			n++
			cons := "registry-reset-with-root-reset:" + p.Name(fn)
			rootReset := false
			eachInstr(fn, func(y ssa.Instruction) {
				if st, ok := y.(*ssa.Store); ok {
					if f, ok := asFieldAddr(st.Addr); ok && f.Field == "root" && f.Owner == fr.Owner && sameValue(f.Base, fr.Base) {
						switch v := canon(stripIface(st.Val)).(type) {
						case *ssa.Alloc:
							rootReset = true
						case *ssa.Call:
							// a private constructor: every return hands back an object it allocated
							if g := v.Call.StaticCallee(); g != nil && g.Pkg == p.RootSSA && len(g.Blocks) > 0 {
								fresh := true
								for _, ret := range returnsOf(g) {
									if len(ret.Results) == 0 {
										fresh = false
										continue
									}
									if _, ok := canon(stripIface(ret.Results[0])).(*ssa.Alloc); !ok {
										fresh = false
									}
								}
								if fresh {
									rootReset = true
								}
							}
						}
					}
				}
			})
			if !rootReset {
				// a private reset helper: the obligation passes to every caller
				if kind, _, ok := p.registryHelper(fn); ok && kind == "clear" {
					sites := p.CallersOf(fn)
					all := len(sites) > 0
					for _, cs := range sites {
						callerReset := false
						recvArg := cs.Instr.Common().Args[0]
						eachInstr(cs.Caller, func(y ssa.Instruction) {
							if st, ok := y.(*ssa.Store); ok {
								if f, ok := asFieldAddr(st.Addr); ok && f.Field == "root" && sameValue(f.Base, recvArg) {
									switch v := canon(stripIface(st.Val)).(type) {
									case *ssa.Alloc:
										callerReset = true
									case *ssa.Call:
										if g := v.Call.StaticCallee(); g != nil && g.Pkg == p.RootSSA {
											callerReset = true
										}
									}
								}
							}
						})
						if !callerReset {
							all = false
						}
					}
					rootReset = all
				}
			}
			r.Decide(rootReset, R, cons, p.InstrPos(in), "the registry of child containers is emptied in the routine that replaces the root by a fresh empty slab",
				"the registry of child containers is emptied although the container keeps its elements: every child handle handed out before is taken for detached at its next mutation (its callback is dropped), so that mutation changes the inlined child without updating or storing the parent")
		})
	}
	r.Floor(R, "whole-registry resets", 2, n)
}

// registryHelper: g is a private method of a handle type that performs one operation on the child registry
// (delete of the entry of its id parameter - possibly behind `id != emptyValueID` -, insertion under it, or a
// whole reset) and nothing else on it. kind: "mapdelete", "mapupdate", "clear"; keyIdx: the parameter that is
// the key (-1 for clear).
func (p *Prog) registryHelper(g *ssa.Function) (kind string, keyIdx int, ok bool) {
	if g == nil || g.Pkg != p.RootSSA || len(g.Blocks) == 0 || g.Object() == nil || g.Object().Exported() || len(g.Params) == 0 {
		return "", -1, false
	}
	rn := recvName(g)
	if rn != "Array" && rn != "OrderedMap" {
		return "", -1, false
	}
	n := 0
	keyIdx = -1
	eachInstr(g, func(in ssa.Instruction) {
		if cc, isClear := isBuiltinCall(in, "clear"); isClear && len(cc.Args) == 1 {
			if lf, ok := asLoadedField(cc.Args[0]); ok && isChildRegistryField(lf) && sameValue(lf.Base, g.Params[0]) {
				n++
				kind = "clear"
			}
			return
		}
		fw, isW := fieldWriteOf(in)
		if !isW || !isChildRegistryField(fw.Ref) || !sameValue(fw.Ref.Base, g.Params[0]) {
			return
		}
		switch fw.Kind {
		case "mapdelete", "mapupdate":
			for i, q := range g.Params {
				if canon(fw.Key) == ssa.Value(q) {
					keyIdx = i
				}
			}
			n++
			kind = fw.Kind
		case "assign":
			// lazy creation of the map is not an operation of its own
		}
	})
	if n != 1 || (kind != "clear" && keyIdx < 0) {
		return "", -1, false
	}
	return kind, keyIdx, true
}
