package main

// Call resolution restricted to what the rules need: static callees, local
// closures, and in-package implementers of interface methods. Calls through
// client-supplied interfaces and func values stay unresolved (opaque).

import (
	"go/types"
	"sort"

	"golang.org/x/tools/go/ssa"
)

type callSite struct {
	Caller *ssa.Function
	Instr  ssa.CallInstruction
}

type implKey struct {
	m *types.Func
	t string
}

type callIndex struct {
	impl2   map[implKey][]*ssa.Function
	impl    map[*types.Func][]*ssa.Function
	callees map[ssa.CallInstruction][]*ssa.Function
	callers map[*ssa.Function][]callSite
	built   bool
}

var cidx = map[*Prog]*callIndex{}

func (p *Prog) ci() *callIndex {
	c := cidx[p]
	if c == nil {
		c = &callIndex{impl2: map[implKey][]*ssa.Function{}, impl: map[*types.Func][]*ssa.Function{}, callees: map[ssa.CallInstruction][]*ssa.Function{}, callers: map[*ssa.Function][]callSite{}}
		cidx[p] = c
	}
	return c
}

// rootNamedTypes lists the named (non-interface) types declared in the root package.
func (p *Prog) rootNamedTypes() []*types.Named {
	var out []*types.Named
	sc := p.Root.Types.Scope()
	names := sc.Names()
	sort.Strings(names)
	for _, n := range names {
		if tn, ok := sc.Lookup(n).(*types.TypeName); ok && !tn.IsAlias() {
			if nt, ok := tn.Type().(*types.Named); ok {
				if nt.TypeParams().Len() > 0 {
					continue
				}
				out = append(out, nt)
			}
		}
	}
	return out
}

// ImplementersOf lists root-package concrete types (T or *T) implementing iface.
func (p *Prog) ImplementersOf(iface *types.Interface) []types.Type {
	var out []types.Type
	for _, nt := range p.rootNamedTypes() {
		if _, isI := nt.Underlying().(*types.Interface); isI {
			continue
		}
		if types.Implements(nt, iface) {
			out = append(out, nt)
		} else if pt := types.NewPointer(nt); types.Implements(pt, iface) {
			out = append(out, pt)
		}
	}
	return out
}

// Implementations returns the root-package methods that an invoke of interface
// method m on a value of static interface type recvT may dispatch to.
func (p *Prog) Implementations(recvT types.Type, m *types.Func) []*ssa.Function {
	c := p.ci()
	ck := implKey{m, recvT.String()}
	if v, ok := c.impl2[ck]; ok {
		return v
	}
	var out []*ssa.Function
	it, ok := recvT.Underlying().(*types.Interface)
	if ok {
		for _, t := range p.ImplementersOf(it) {
			ms := p.SSA.MethodSets.MethodSet(t)
			sel := ms.Lookup(m.Pkg(), m.Name())
			if sel == nil {
				continue
			}
			fn := p.SSA.MethodValue(sel)
			if fn == nil {
				continue
			}
			// unwrap promoted-method / pointer-receiver wrappers to the declared function
			if fn.Synthetic != "" {
				if f, ok := sel.Obj().(*types.Func); ok {
					if d := p.SSA.FuncValue(f); d != nil {
						fn = d
					}
				}
			}
			if fn.Pkg == p.RootSSA {
				out = append(out, fn)
			}
		}
	}
	c.impl2[ck] = out
	return out
}

// Callees resolves a call instruction to root-package functions.
func (p *Prog) Callees(call ssa.CallInstruction) []*ssa.Function {
	c := p.ci()
	if v, ok := c.callees[call]; ok {
		return v
	}
	var out []*ssa.Function
	cc := call.Common()
	if cc.IsInvoke() {
		out = p.Implementations(cc.Value.Type(), cc.Method)
	} else if f := staticCallee(call); f != nil {
		if f.Pkg == p.RootSSA {
			out = []*ssa.Function{f}
		} else if f.Pkg == nil && f.Origin() != nil {
			// generic instantiation: not in root package
		}
	}
	c.callees[call] = out
	return out
}

func (p *Prog) buildCallers() {
	c := p.ci()
	if c.built {
		return
	}
	c.built = true
	for _, fn := range p.Funcs {
		eachInstr(fn, func(in ssa.Instruction) {
			if call, ok := in.(ssa.CallInstruction); ok {
				for _, cal := range p.Callees(call) {
					c.callers[cal] = append(c.callers[cal], callSite{fn, call})
				}
			}
		})
	}
}

func (p *Prog) CallersOf(fn *ssa.Function) []callSite {
	p.buildCallers()
	return p.ci().callers[fn]
}

// calleesDeep lists resolved callees of fn including those of its nested closures
// (a closure's effects are attributed to the function that creates it).
func (p *Prog) calleesDeep(fn *ssa.Function) []*ssa.Function {
	seen := map[*ssa.Function]bool{}
	var out []*ssa.Function
	eachInstrDeep(fn, func(_ *ssa.Function, in ssa.Instruction) {
		if call, ok := in.(ssa.CallInstruction); ok {
			for _, cal := range p.Callees(call) {
				t := TopLevel(cal)
				if !seen[t] {
					seen[t] = true
					out = append(out, t)
				}
			}
		}
	})
	return out
}

// ReachableFrom computes the set of top-level root-package functions reachable
// from the given ones; enter(f) == false prevents descending into f (f itself
// is still recorded as reached).
func (p *Prog) ReachableFrom(from []*ssa.Function, enter func(*ssa.Function) bool) map[*ssa.Function]bool {
	seen := map[*ssa.Function]bool{}
	var rec func(f *ssa.Function)
	rec = func(f *ssa.Function) {
		f = TopLevel(f)
		if seen[f] {
			return
		}
		seen[f] = true
		if enter != nil && !enter(f) {
			return
		}
		for _, c := range p.calleesDeep(f) {
			rec(c)
		}
	}
	for _, f := range from {
		if f != nil {
			rec(f)
		}
	}
	return seen
}

// TopFuncs lists top-level (declared) functions of the root package, non-test.
func (p *Prog) TopFuncs() []*ssa.Function {
	var out []*ssa.Function
	for _, f := range p.Funcs {
		if f.Parent() == nil && !p.IsTestFile(f.Pos()) {
			out = append(out, f)
		}
	}
	return out
}

// recvNamed returns the named receiver type of a method (through pointer), or nil.
func recvNamed(fn *ssa.Function) *types.Named {
	if fn == nil || fn.Signature.Recv() == nil {
		return nil
	}
	t := fn.Signature.Recv().Type()
	if pt, ok := t.(*types.Pointer); ok {
		t = pt.Elem()
	}
	n, _ := t.(*types.Named)
	return n
}

func recvName(fn *ssa.Function) string {
	if n := recvNamed(fn); n != nil {
		return n.Obj().Name()
	}
	return ""
}

// isExportedAPI: exported package-level function, or exported method of an exported type.
func isExportedAPI(fn *ssa.Function) bool {
	if fn.Parent() != nil || fn.Object() == nil || !fn.Object().Exported() {
		return false
	}
	if n := recvNamed(fn); n != nil {
		return n.Obj().Exported()
	}
	return fn.Signature.Recv() == nil
}

func namedOf(t types.Type) *types.Named {
	for {
		switch x := t.(type) {
		case *types.Pointer:
			t = x.Elem()
		case *types.Named:
			return x
		default:
			return nil
		}
	}
}

func typeName(t types.Type) string {
	if n := namedOf(t); n != nil {
		return n.Obj().Name()
	}
	return ""
}

// isIfaceMethodCall reports whether in is an invoke of method `m` on a value
// whose static type is the root-package interface `iface`.
func (p *Prog) isIfaceMethodCall(in ssa.Instruction, iface, m string) (ssa.CallInstruction, bool) {
	call, ok := in.(ssa.CallInstruction)
	if !ok {
		return nil, false
	}
	cc := call.Common()
	if !cc.IsInvoke() || cc.Method.Name() != m {
		return nil, false
	}
	n := namedOf(cc.Value.Type())
	if n == nil || n.Obj().Name() != iface || n.Obj().Pkg() == nil || n.Obj().Pkg().Path() != rootPkgPath {
		return nil, false
	}
	return call, true
}

// isCallToFunc reports a static call of the root-package function or method named name
// (package-relative, as produced by Prog.Name).
func (p *Prog) isCallToFunc(in ssa.Instruction, name string) (ssa.CallInstruction, bool) {
	call, ok := in.(ssa.CallInstruction)
	if !ok {
		return nil, false
	}
	f := staticCallee(call)
	if f == nil || f.Pkg != p.RootSSA {
		return nil, false
	}
	if p.Name(f) == name {
		return call, true
	}
	return nil, false
}

// callValue returns the ssa.Value of a call instruction (nil for go/defer).
func callValue(c ssa.CallInstruction) ssa.Value {
	v, _ := c.(*ssa.Call)
	if v == nil {
		return nil
	}
	return v
}
