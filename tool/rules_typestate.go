package main

import (
	"fmt"
	"go/types"
	"os"
	"sort"
	"strings"

	"golang.org/x/tools/go/ssa"
)

// apiBoundary: functions at which no slab obligation may remain open.
func (p *Prog) apiBoundary() []*ssa.Function {
	var out []*ssa.Function
	for _, f := range p.TopFuncs() {
		if !isExportedAPI(f) {
			continue
		}
		rn := recvName(f)
		switch {
		case isHandleType(rn):
			out = append(out, f)
		case f.Signature.Recv() == nil:
			// package-level constructors and conversions
			out = append(out, f)
		}
	}
	// callbacks installed by a parent container run on behalf of a child's API call
	for _, cl := range p.parentUpdaterClosures() {
		if isHandleType(recvName(TopLevel(cl))) {
			out = append(out, cl)
		}
	}
	return out
}

// R1 dirty-mark.
func ruleR1(p *Prog, r *Report) {
	const R = "R1"
	e := p.typestate()
	if dbg := os.Getenv("ATREELINT_TSDEBUG"); dbg != "" {
		for _, f := range p.Funcs {
			if strings.Contains(p.Name(f), dbg) {
				fmt.Printf("== %s\n", p.Name(f))
				for _, ev := range e.events[f] {
					fmt.Printf("   %-7s %-40s %s (%s)\n", ev.Kind, ev.Obj, p.InstrPos(ev.Instr), ev.Via)
				}
				sm := e.sum[f]
				fmt.Printf("   summary: mutNoStore=%v sto=%v rem=%v fresh=%v alias=%v\n", sm.MutNoStore, sm.Sto, sm.Rem, sm.FreshRes, sm.RetAlias)
			}
		}
	}
	nObl, nStore := 0, 0
	for _, f := range p.Funcs {
		if p.IsTestFile(f.Pos()) {
			continue
		}
		for _, fd := range e.local[f] {
			if fd.Rule == "R1" && !isDiagnosticFile(p.Fset.Position(f.Pos()).Filename) {
				r.Bad(R, "unstored:"+p.Name(f)+":"+stripPos(fd.Construct), fd.Pos, fd.Detail)
			}
		}
		seen := map[string]bool{}
		for _, ev := range e.events[f] {
			if ev.Kind == "STORE" {
				nStore++
			}
			if (ev.Kind == "MUT" || ev.Kind == "NEW" || ev.Kind == "REKEY") && !seen[ev.Obj] {
				seen[ev.Obj] = true
				nObl++
			}
		}
	}
	for _, f := range p.apiBoundary() {
		s := e.sum[f]
		if s == nil {
			continue
		}
		name := p.Name(f)
		if len(s.MutNoStore) == 0 && len(s.FreshRes) == 0 {
			muts := 0
			for _, ev := range e.events[f] {
				if ev.Kind == "MUT" || ev.Kind == "NEW" {
					muts++
				}
			}
			if muts > 0 {
				r.Ok(R, "api-closed:"+name, p.Pos(f.Pos()), fmt.Sprintf("%d mutation/creation event(s); every success path stores or removes each touched slab (stores guarded by !inlined hand over to R4)", muts))
			} else {
				r.add(R, "api-closed:"+name, p.Pos(f.Pos()), OK, "no slab mutation reaches this function unstored", false)
			}
			continue
		}
		var ws []string
		for _, k := range keysS(s.MutNoStore) {
			ws = append(ws, k+": "+s.MutNoStore[k])
		}
		for _, k := range keysI(s.FreshRes) {
			ws = append(ws, fmt.Sprintf("result %d: %s", k, s.FreshRes[k]))
		}
		r.Bad(R, "api-closed:"+name, p.Pos(f.Pos()), "a slab is modified or created but not put into the write set when this API call returns: "+strings.Join(ws, " | "))
	}
	r.Observe(fmt.Sprintf("typestate fixpoint converged in %d round(s)", e.rounds))
	r.Floor(R, "(function, slab object) obligations", 30, nObl)
	r.Floor(R, "store events", 40, nStore)
}

func stripPos(s string) string {
	if i := strings.Index(s, "@"); i >= 0 {
		return s[:i]
	}
	return s
}

// R2 alloc => identity: every id obtained from GenerateSlabID becomes the id of a slab (literal, SetSlabID),
// is handed to a routine that does so, or is returned; together with R1's NEW obligations this is
// "every allocated id is stored or returned".
func ruleR2(p *Prog, r *Report) {
	const R = "R2"
	n := 0
	for _, top := range p.TopFuncs() {
		if recvName(top) == storageT || recvName(top) == "BasicSlabStorage" || recvName(top) == "LedgerBaseStorage" {
			continue
		}
		eachInstrDeep(top, func(fn *ssa.Function, in ssa.Instruction) {
			c, ok := p.isIfaceMethodCall(in, "SlabStorage", "GenerateSlabID")
			if !ok {
				return
			}
			n++
			cv, _ := c.(*ssa.Call)
			var id ssa.Value
			if cv != nil {
				for _, ref := range *cv.Referrers() {
					if ex, ok := ref.(*ssa.Extract); ok && ex.Index == 0 {
						id = ex
					}
				}
			}
			cons := "allocid:" + p.Name(fn)
			if id == nil {
				r.Bad(R, cons, p.InstrPos(in), "allocated slab id is discarded")
				return
			}
			used := false
			var uses []ssa.Instruction
			seenV := map[ssa.Value]bool{}
			var collect func(v ssa.Value)
			collect = func(v ssa.Value) {
				if seenV[v] {
					return
				}
				seenV[v] = true
				for _, u := range effectiveUses(v) {
					if ph, ok := u.(*ssa.Phi); ok {
						collect(ph) // loop-carried id variable
						continue
					}
					uses = append(uses, u)
				}
			}
			collect(id)
			for _, u := range uses {
				switch x := u.(type) {
				case *ssa.Store:
					if fr, ok := asFieldAddr(x.Addr); ok && (fr.Field == "slabID" || fr.Field == "next") {
						used = true
					}
				case *ssa.Return:
					used = true
				case ssa.CallInstruction:
					if calleeName(x) == "SetSlabID" || calleeName(x) == "NewSlabIDStorable" {
						used = true
					}
					if g := staticCallee(x); g != nil && g.Pkg == p.RootSSA {
						used = true
					}
					if x.Common().IsInvoke() && len(p.Callees(x)) > 0 {
						used = true
					}
				case *ssa.Field, *ssa.FieldAddr:
					// reading address/index of the new id (e.g. seed derivation) is not an identity use
				case *ssa.MakeInterface:
					// formatting
				}
			}
			r.Decide(used, R, cons, p.InstrPos(in), "the new id becomes a slab identity (literal / SetSlabID / delegated) or is returned", "the allocated slab id never becomes the identity of a slab: an index is consumed for nothing or a slab is created under another id")
		})
	}
	r.Floor(R, "GenerateSlabID call sites", 15, n)
}

// R3 detach => remove, R3' uninline => store.
func ruleR3(p *Prog, r *Report) {
	const R = "R3"
	e := p.typestate()
	rows := map[string]int{}
	for _, f := range p.Funcs {
		if p.IsTestFile(f.Pos()) || len(f.Blocks) == 0 {
			continue
		}
		evs := e.events[f]
		removeInstrs := func(objs []string) map[ssa.Instruction]bool {
			S := map[ssa.Instruction]bool{}
			for _, ev := range evs {
				if ev.Kind != "REMOVE" {
					continue
				}
				for _, o := range objs {
					if ev.Obj == o {
						S[ev.Instr] = true
					}
				}
			}
			return S
		}
		storeInstrs := func(objs []string) map[ssa.Instruction]bool {
			S := map[ssa.Instruction]bool{}
			for _, ev := range evs {
				if ev.Kind != "STORE" {
					continue
				}
				for _, o := range objs {
					if ev.Obj == o {
						S[ev.Instr] = true
					}
				}
			}
			return S
		}
		t := &tsFunc{e: e, fn: f, memo: map[ssa.Value][]string{}, busy: map[ssa.Value]bool{}, rootAlias: map[string]string{}, idOf: map[string][]ssa.Value{}}
		// rebuild idOf (objects retrieved by id) for REMOVE mapping of ids
		eachInstr(f, func(in ssa.Instruction) {
			call, ok := in.(*ssa.Call)
			if !ok {
				return
			}
			var idArg ssa.Value
			for _, a := range callArgs(call) {
				if typeName(a.Type()) == "SlabID" {
					idArg = a
				}
			}
			if idArg == nil {
				return
			}
			if _, _, _, isCtor := constructorLiteral(call); isCtor {
				return // a private constructor that is given the id of the slab it builds: nothing was retrieved
			}
			for idx := 0; idx < 2; idx++ {
				for _, o := range t.callResultObj(call, idx, call.Type()) {
					if strings.HasPrefix(o, "C:") {
						t.idOf[o] = append(t.idOf[o], idArg)
					}
				}
			}
		})
		name := p.Name(f)
		eachInstr(f, func(in ssa.Instruction) {
			switch x := in.(type) {
			case ssa.CallInstruction:
				nm := calleeName(x)
				recv := callRecv(x)
				if recv == nil || !isSlabT(recv.Type()) {
					break
				}
				switch nm {
				case "Merge":
					args := callArgs(x)
					if len(args) != 1 {
						return
					}
					objs := t.obj(args[0])
					if allColl(objs) {
						// a member of a batch collection has no register only if no member was stored since the
						// collection was (re)built: walk back to the last rebuild (a call returning a slice of slabs) or entry
						storedBefore := ""
						storeOf := storeInstrs(objs)
						entry := f.Blocks[0].Instrs[0]
						reachBackFrom(f, in, func(y ssa.Instruction) bool {
							if storedBefore != "" {
								return true
							}
							if storeOf[y] {
								storedBefore = p.InstrPos(y)
								return true
							}
							if c, ok := y.(*ssa.Call); ok {
								res := c.Type()
								if tup, ok := res.(*types.Tuple); ok && tup.Len() > 0 {
									res = tup.At(0).Type()
								}
								if sl, ok := res.Underlying().(*types.Slice); ok && isSlabT(sl.Elem()) {
									return true // collection rebuilt from fresh slabs
								}
							}
							return y == entry
						})
						rows["merge"]++
						if storedBefore == "" {
							r.Ok(R, "merge-removes-right:"+name, p.InstrPos(in), "merged-away slab is a member of a batch collection none of whose members has been stored since it was built: it has no register")
							return
						}
						bad := openPath(f, in, removeInstrs(objs), nil)
						r.Decide(bad == nil, R, "merge-removes-right:"+name, p.InstrPos(in), "the slab merged away is removed from storage on every success path", "members of the batch collection were already stored at "+storedBefore+" when the last slab is merged away, and its register is never removed: an orphan slab stays in storage")
						return
					}
					rows["merge"]++
					bad := openPath(f, in, removeInstrs(objs), nil)
					r.Decide(bad == nil, R, "merge-removes-right:"+name, p.InstrPos(in), "the slab merged away is removed from storage on every success path", "after left.Merge(right) a success path does not remove right's register: the obsolete slab would stay in storage (leak)")
				case "PopIterate":
					objs := t.obj(recv)
					retrieved := false
					for _, o := range objs {
						if strings.HasPrefix(o, "C:") {
							retrieved = true
						}
					}
					if !retrieved {
						return
					}
					rows["pop"]++
					bad := openPath(f, in, removeInstrs(objs), nil)
					r.Decide(bad == nil, R, "pop-removes-child:"+name, p.InstrPos(in), "a child slab emptied by bulk pop is removed from storage on every success path", "a child slab emptied by PopIterate is not removed from storage on some success path")
				}
			case *ssa.Store:
				fr, ok := asFieldAddr(x.Addr)
				if !ok {
					return
				}
				// inlined flag flips
				if fr.Field == "inlined" && fr.Owner != nil && slabStructs[fr.Owner.Obj().Name()] && !isFreshBase(fr.Base) {
					c, isC := x.Val.(*ssa.Const)
					if !isC {
						return
					}
					objs := t.obj(fr.Base)
					if c.Value.String() == "true" {
						rows["inline"]++
						bad := openPath(f, in, removeInstrs(objs), nil)
						r.Decide(bad == nil, R, "inline-removes:"+name, p.InstrPos(in), "inlining removes the standalone register on every success path", "a slab becomes inlined without its standalone register being removed: the register would dangle (referenced by nobody)")
					} else {
						rows["uninline"]++
						bad := openPath(f, in, storeInstrs(objs), nil)
						r.Decide(bad == nil, R, "uninline-stores:"+name, p.InstrPos(in), "uninlining stores the slab under its own id on every success path", "a slab becomes standalone without being stored: the reference handed to the parent would dangle")
					}
				}
				// promotion: handle.root = child retrieved by id
				if fr.Field == "root" && fr.Owner != nil && isHandleType(fr.Owner.Obj().Name()) && !isFreshBase(fr.Base) {
					var ids []ssa.Value
					for _, o := range t.obj(x.Val) {
						ids = append(ids, t.idOf[o]...)
					}
					if len(ids) == 0 {
						return
					}
					rows["promote"]++
					S := map[ssa.Instruction]bool{}
					eachInstr(f, func(y ssa.Instruction) {
						if c, ok := p.isIfaceMethodCall(y, "SlabStorage", "Remove"); ok {
							for _, id := range ids {
								if sameValue(c.Common().Args[0], id) {
									S[y] = true
								}
							}
						}
					})
					bad := openPath(f, in, S, nil)
					r.Decide(bad == nil, R, "promote-removes-child-register:"+name, p.InstrPos(in), "the promoted child's old register is removed on every success path", "a child slab takes over the root id but its old register is not removed: the same content would live under two ids")
				}
			}
		})
		// inlined => not stored: a data slab that may be inlined is written to storage only on the not-inlined edge
		if rn := recvName(f); (rn == "ArrayDataSlab" || rn == "MapDataSlab" || isHandleType(rn)) && len(f.Params) > 0 {
			tt := &tsFunc{e: e, fn: f, memo: map[ssa.Value][]string{}, busy: map[ssa.Value]bool{}, rootAlias: map[string]string{}, idOf: map[string][]ssa.Value{}}
			tt.exitRoots = map[string]string{}
			tt.takeover = map[string]string{}
			eachInstr(f, func(y ssa.Instruction) {
				if st, ok := y.(*ssa.Store); ok {
					if fa, ok := st.Addr.(*ssa.FieldAddr); ok && isHandleT(fa.X.Type()) && !isFreshBase(fa.X) {
						if _, nm := structFieldName(fa.X.Type(), fa.Field); nm == "root" {
							tt.rootStores = append(tt.rootStores, st)
						}
					}
				}
			})
			for _, st := range tt.rootStores {
				for _, h := range tt.obj(st.Addr.(*ssa.FieldAddr).X) {
					for _, o := range tt.obj(st.Val) {
						tt.exitRoots[o] = "root(" + h + ")"
					}
				}
			}
			tt.memo = map[ssa.Value][]string{}
			eachInstr(f, func(in ssa.Instruction) {
				c, ok := p.isCallToFunc(in, "storeSlab")
				if !ok {
					return
				}
				x := c.Common().Args[1]
				for _, o := range tt.obj(x) {
					mayInline := false
					switch {
					case o == "P0" && !isHandleType(rn):
						mayInline = true
					case o == "root(P0)":
						mayInline = true
					case strings.HasPrefix(o, "A:ArrayDataSlab") || strings.HasPrefix(o, "A:MapDataSlab"):
						// literal: does it carry an inlined flag that is not constant false?
						var al *ssa.Alloc
						eachInstr(f, func(y ssa.Instruction) {
							if a, ok := y.(*ssa.Alloc); ok {
								for _, k := range tt.obj0(a) {
									if k == o {
										al = a
									}
								}
							}
						})
						if al != nil {
							if v := litField(f, al, "inlined"); v != nil {
								if cst, ok := v.(*ssa.Const); !ok || cst.Value == nil || cst.Value.String() != "false" {
									mayInline = true
								}
							}
						}
					}
					// a slab that receives a fresh id here becomes a child of a new index root: children are never inlined
					for _, ev := range evs {
						if ev.Kind == "REKEY" && ev.Obj == o {
							mayInline = false
						}
					}
					if !mayInline {
						continue
					}
					rows["inlined-not-stored"]++
					guarded := false
					// on the not-inlined edge of a test of this object's inlined state
					for _, b := range f.Blocks {
						ifi, ok := b.Instrs[len(b.Instrs)-1].(*ssa.If)
						if !ok {
							continue
						}
						if se := tt.inlinedTrueEdge(ifi, o); se >= 0 && edgeDominates(b, 1-se, in.Block()) {
							guarded = true
						}
					}
					// or after `x.inlined = false`
					eachInstr(f, func(y ssa.Instruction) {
						if st, ok := y.(*ssa.Store); ok {
							if fr, ok := asFieldAddr(st.Addr); ok && fr.Field == "inlined" {
								if cst, ok := st.Val.(*ssa.Const); ok && cst.Value != nil && cst.Value.String() == "false" && instrDominates(st, in) {
									for _, k := range tt.obj(fr.Base) {
										if k == o {
											guarded = true
										}
									}
								}
							}
						}
					})
					r.Decide(guarded, R, "inlined-not-stored:"+name, p.InstrPos(in), "the slab is written to storage only when it is not inlined (or right after being uninlined)",
						"a data slab that may currently be inlined in its parent is written to storage: the same slab would be owned twice (embedded in the parent and as a register nobody references)")
				}
			})
		}
		// external collision group: collapse / pop removes the group's slab
		if recvName(f) == "externalCollisionGroup" && len(f.Params) > 0 {
			S := map[ssa.Instruction]bool{}
			eachInstr(f, func(y ssa.Instruction) {
				if c, ok := p.isIfaceMethodCall(y, "SlabStorage", "Remove"); ok {
					if fr, ok := asLoadedField(c.Common().Args[0]); ok && fr.Field == "slabID" && sameValue(fr.Base, f.Params[0]) {
						S[y] = true
					}
				}
			})
			switch f.Name() {
			case "PopIterate":
				rows["extgroup"]++
				bad := successReturnAvoiding(f, nil, func(y ssa.Instruction) bool { return S[y] })
				r.Decide(bad == nil, R, "extgroup-pop-removes:"+name, p.Pos(f.Pos()), "popping an external collision group removes its slab", "popping an external collision group leaves its slab in storage")
			case "Remove":
				// a success return that hands back an element other than the group itself = collapse
				for _, ret := range returnsOf(f) {
					if c, _ := classifyReturn(ret); c == retError {
						continue
					}
					for i, res := range ret.Results {
						if typeName(res.Type()) != "element" {
							continue
						}
						v := canon(res)
						if mi, ok := v.(*ssa.MakeInterface); ok {
							v = canon(mi.X)
						}
						if v == ssa.Value(f.Params[0]) {
							continue
						}
						rows["extgroup"]++
						// every path to this return passes the removal
						reach := false
						reachFrom(f, nil, nil, func(y ssa.Instruction) bool {
							if S[y] {
								return true
							}
							if y == ssa.Instruction(ret) {
								reach = true
								return true
							}
							return false
						})
						r.Decide(!reach, R, fmt.Sprintf("extgroup-collapse-removes:%s:result%d", name, i), p.InstrPos(ret), "collapsing an external collision group to its last element removes the group's slab", "an external collision group collapses to a single element without removing its slab")
					}
				}
			}
		}
	}
	var ks []string
	for k, v := range rows {
		ks = append(ks, fmt.Sprintf("%s=%d", k, v))
	}
	sort.Strings(ks)
	r.Observe("R3 instances: " + strings.Join(ks, " "))
	r.Floor(R, "merge sites", 2, rows["merge"])
	r.Floor(R, "bulk-pop child removals", 2, rows["pop"])
	r.Floor(R, "inline flips", 2, rows["inline"])
	r.Floor(R, "uninline flips", 2, rows["uninline"])
	r.Floor(R, "root promotions", 2, rows["promote"])
	r.Floor(R, "external collision group removals", 2, rows["extgroup"])
	r.Floor(R, "stores of possibly-inlined data slabs", 8, rows["inlined-not-stored"])
}

func allColl(objs []string) bool {
	if len(objs) == 0 {
		return false
	}
	for _, o := range objs {
		if !strings.HasPrefix(o, "COLL:") {
			return false
		}
	}
	return true
}

// R6 reject-before-effect.
func ruleR6(p *Prog, r *Report) {
	const R = "R6"
	e := p.typestate()
	nRej := 0
	for _, f := range p.Funcs {
		if p.IsTestFile(f.Pos()) {
			continue
		}
		s := e.sum[f]
		if s == nil || !s.MayReject {
			continue
		}
		name := p.Name(f)
		top := TopLevel(f)
		if isDiagnosticFile(p.Fset.Position(f.Pos()).Filename) {
			continue
		}
		nRej++
		if top.Signature.Recv() == nil && strings.Contains(top.Name(), "FromBatchData") {
			r.add(R, "reject-first:"+name, p.Pos(f.Pos()), OK, "batch constructor: builds private state, not a request on an existing container", false)
			continue
		}
		if s.EffBeforeReject == "" {
			r.Ok(R, "reject-first:"+name, p.Pos(f.Pos()), "no mutation, store, removal, id allocation or register write can precede a request rejection on any path")
		} else {
			r.Bad(R, "reject-first:"+name, p.Pos(f.Pos()), "a rejected request can leave a trace: "+s.EffBeforeReject)
		}
	}
	r.Floor(R, "functions with rejection points", 25, nRej)
}
