package main

// D. Concurrency (G1..G5) and C. Determinism (D1..D4).

import (
	"fmt"
	"go/token"
	"go/types"
	"sort"
	"strings"

	"golang.org/x/tools/go/ssa"
)

// closureEffects: effects of a function value (closure or top-level) and everything it can reach.
func (p *Prog) closureEffects(w *ssa.Function) []Effect {
	if w.Parent() == nil {
		return p.TransEffects(w)
	}
	// direct effects of the closure body (and nested closures)
	var out []Effect
	tmp := p.directEffectsOf(w)
	out = append(out, tmp...)
	seen := map[*ssa.Function]bool{}
	eachInstrDeep(w, func(_ *ssa.Function, in ssa.Instruction) {
		if call, ok := in.(ssa.CallInstruction); ok {
			for _, c := range p.Callees(call) {
				t := TopLevel(c)
				if t == TopLevel(w) && c.Parent() != nil {
					continue // sibling closure handled separately if invoked
				}
				if !seen[t] {
					seen[t] = true
					out = append(out, p.TransEffects(t)...)
				}
			}
		}
	})
	return out
}

// directEffectsOf computes direct effects of exactly fn (and closures nested in it).
func (p *Prog) directEffectsOf(fn *ssa.Function) []Effect {
	all := p.effects().direct[TopLevel(fn)]
	var out []Effect
	for _, e := range all {
		for f := e.Fn; f != nil; f = f.Parent() {
			if f == fn {
				out = append(out, e)
				break
			}
		}
	}
	return out
}

func goStatements(p *Prog) []*ssa.Go {
	var out []*ssa.Go
	for _, top := range p.TopFuncs() {
		eachInstrDeep(top, func(_ *ssa.Function, in ssa.Instruction) {
			if g, ok := in.(*ssa.Go); ok {
				out = append(out, g)
			}
		})
	}
	return out
}

// sharedTypes: writes to fields of these types from a worker are data races with the launcher.
func isSharedOwner(what string) bool {
	for _, pre := range []string{"PersistentSlabStorage.", "BasicSlabStorage.", "LedgerBaseStorage.", "Array.", "OrderedMap.",
		"ArrayDataSlab.", "ArrayMetaDataSlab.", "MapDataSlab.", "MapMetaDataSlab.", "StorableSlab.",
		"hkeyElements.", "singleElements.", "singleElement.", "inlineCollisionGroup.", "externalCollisionGroup.",
		"ArrayExtraData.", "MapExtraData.", "ArraySlabHeader.", "MapSlabHeader."} {
		if strings.HasPrefix(what, pre) {
			return true
		}
	}
	return false
}

// G1 worker effects.
func ruleG1(p *Prog, r *Report) {
	const R = "G1"
	gos := goStatements(p)
	for _, g := range gos {
		w := staticCallee(g)
		host := p.Name(g.Parent())
		if w == nil {
			r.Unk(R, "worker:"+host, p.InstrPos(g), "go statement with a dynamic target")
			continue
		}
		effs := p.closureEffects(w)
		var bad []string
		for _, e := range effs {
			switch e.Kind {
			case "field":
				if isSharedOwner(e.What) {
					bad = append(bad, "writes "+e.What+" at "+p.InstrPos(e.Instr))
				}
			case "global":
				bad = append(bad, "writes global "+e.What+" at "+p.InstrPos(e.Instr))
			case "go":
				bad = append(bad, "spawns goroutines")
			}
		}
		// direct body: nothing may be stored through captured variables
		for _, e := range p.directEffectsOf(w) {
			if e.Kind == "mem" && (e.What == "free" || strings.HasPrefix(e.What, "map:free")) {
				bad = append(bad, "writes captured memory at "+p.InstrPos(e.Instr))
			}
		}
		eachInstrDeep(w, func(fn *ssa.Function, in ssa.Instruction) {
			if st, ok := in.(*ssa.Store); ok {
				if _, ok := st.Addr.(*ssa.FreeVar); ok {
					bad = append(bad, "assigns a captured variable at "+p.InstrPos(in))
				}
			}
			// several instances of the worker run at once: a channel it was handed may be closed by the launcher
			// only (a second close panics the process)
			if cc, ok := isBuiltinCall(in, "close"); ok && len(cc.Args) == 1 {
				if _, local := canon(stripChanConv(cc.Args[0])).(*ssa.MakeChan); !local {
					bad = append(bad, "closes a channel it shares with the other workers at "+p.InstrPos(in)+" (two workers doing so panic with 'close of closed channel')")
				}
			}
		})
		// closures of the launcher that the worker can call or hand on (a decoder callback built around a
		// launcher-local cache): their writes to what they captured happen on the worker's goroutine
		seenCl := map[*ssa.Function]bool{}
		var viaClosure func(fn *ssa.Function, depth int)
		viaClosure = func(fn *ssa.Function, depth int) {
			if depth > 3 {
				return
			}
			for _, fv := range fn.FreeVars {
				bound := singleStoreTo(fv)
				if bound == nil {
					continue
				}
				mc, ok := canon(bound).(*ssa.MakeClosure)
				if !ok {
					continue
				}
				cl, ok := mc.Fn.(*ssa.Function)
				if !ok || seenCl[cl] || cl == w {
					continue
				}
				seenCl[cl] = true
				for _, e := range p.directEffectsOf(cl) {
					if e.Kind == "mem" && (e.What == "free" || strings.HasPrefix(e.What, "map:free")) {
						bad = append(bad, "can call the launcher's closure "+p.Name(cl)+", which writes captured memory at "+p.InstrPos(e.Instr))
					}
				}
				eachInstr(cl, func(in ssa.Instruction) {
					if st, ok := in.(*ssa.Store); ok {
						if _, ok := st.Addr.(*ssa.FreeVar); ok {
							bad = append(bad, "can call the launcher's closure "+p.Name(cl)+", which assigns a captured variable at "+p.InstrPos(in))
						}
					}
				})
				viaClosure(cl, depth+1)
			}
			for _, a := range fn.AnonFuncs {
				viaClosure(a, depth+1)
			}
		}
		viaClosure(w, 0)
		sort.Strings(bad)
		bad = uniq(bad)
		cons := "worker:" + p.Name(w)
		if len(bad) > 0 {
			r.Bad(R, cons, p.InstrPos(g), "worker goroutine has shared-memory effects: "+strings.Join(bad, "; "))
		} else {
			r.Ok(R, cons, p.InstrPos(g), fmt.Sprintf("transitive effect set (%d effects) has no write to storage, container, slab or global state; results leave only through channel sends", len(effs)))
		}
	}
	r.Floor(R, "go statements", 3, len(gos))
}

func uniq(s []string) []string {
	var out []string
	for i, x := range s {
		if i == 0 || x != s[i-1] {
			out = append(out, x)
		}
	}
	return out
}

// mapsReadBy lists storage fields (maps) read by the worker closure.
func (p *Prog) fieldsReadBy(w *ssa.Function) map[string]bool {
	out := map[string]bool{}
	eachInstrDeep(w, func(_ *ssa.Function, in ssa.Instruction) {
		if v, ok := in.(ssa.Value); ok {
			if fr, _, ok := mapLookupOf(v); ok && fr.Owner != nil {
				out[fr.Owner.Obj().Name()+"."+fr.Field] = true
			}
		}
		if fr, _, ok := rangeOverField(in); ok && fr.Owner != nil {
			out[fr.Owner.Obj().Name()+"."+fr.Field] = true
		}
	})
	return out
}

// G2 drain before write: if a worker reads a storage map, the launcher writes that map only
// after a receive loop that drains as many results as jobs were queued.
func ruleG2(p *Prog, r *Report) {
	const R = "G2"
	n := 0
	for _, g := range goStatements(p) {
		w := staticCallee(g)
		if w == nil {
			continue
		}
		launcher := g.Parent()
		reads := p.fieldsReadBy(w)
		if len(reads) == 0 {
			r.Ok(R, "worker-reads:"+p.Name(w), p.InstrPos(g), "worker reads no storage map; its inputs arrive by value through the job channel")
			n++
			continue
		}
		n++
		// receive loops of the launcher: blocks with a channel receive inside a counted loop
		eachInstr(launcher, func(in ssa.Instruction) {
			fw, ok := fieldWriteOf(in)
			if !ok || fw.Ref.Owner == nil || !reads[fw.Ref.Owner.Obj().Name()+"."+fw.Ref.Field] {
				return
			}
			cons := fmt.Sprintf("write-after-drain:%s:%s.%s", p.Name(launcher), fw.Ref.Owner.Obj().Name(), fw.Ref.Field)
			// the write must be dominated by the exit of a loop that receives from the result channel
			// exactly len(keys) times, where the job queue was filled from the same keys.
			ok2, why := p.dominatedByFullDrain(launcher, in, w)
			r.Decide(ok2, R, cons, p.InstrPos(in), why, "launcher writes a map that running workers read: "+why)
		})
	}
	r.Floor(R, "worker launch sites", 3, n)
}

// dominatedByFullDrain: instruction `in` is dominated by the exit edge of a counted loop
// (i from 0 while i < N) whose body receives from a channel, where N equals the number of
// jobs queued (len of the slice whose elements were sent to the job channel).
func (p *Prog) dominatedByFullDrain(fn *ssa.Function, in ssa.Instruction, worker *ssa.Function) (bool, string) {
	// number of jobs: `for _, id := range K { jobs <- id }` => N must be len(K)
	var jobSlices []ssa.Value
	eachInstr(fn, func(x ssa.Instruction) {
		if s, ok := x.(*ssa.Send); ok {
			if ld, ok := canon(s.X).(*ssa.UnOp); ok && ld.Op == token.MUL {
				if ia, ok := ld.X.(*ssa.IndexAddr); ok {
					jobSlices = append(jobSlices, canon(ia.X))
				}
			}
		}
	})
	// ... or by a private helper that sends the elements of its slice parameter to the channel it returns
	eachInstr(fn, func(x ssa.Instruction) {
		c, ok := x.(*ssa.Call)
		if !ok {
			return
		}
		g := c.Call.StaticCallee()
		if g == nil || g.Pkg != p.RootSSA || len(g.Blocks) == 0 {
			return
		}
		if _, isChan := c.Type().Underlying().(*types.Chan); !isChan {
			return
		}
		eachInstr(g, func(y ssa.Instruction) {
			snd, ok := y.(*ssa.Send)
			if !ok {
				return
			}
			ld, ok := canon(snd.X).(*ssa.UnOp)
			if !ok || ld.Op != token.MUL {
				return
			}
			ia, ok := ld.X.(*ssa.IndexAddr)
			if !ok {
				return
			}
			for i, q := range g.Params {
				if canon(ia.X) == ssa.Value(q) && i < len(c.Call.Args) {
					jobSlices = append(jobSlices, canon(c.Call.Args[i]))
				}
			}
		})
	})
	// a copy made with the length of another slice has that slice's length
	for _, js := range append([]ssa.Value{}, jobSlices...) {
		if mk, ok := js.(*ssa.MakeSlice); ok {
			if a, isLen := isLenOf(mk.Len); isLen {
				jobSlices = append(jobSlices, canon(a))
			}
		}
	}
	if len(jobSlices) == 0 {
		return false, "job queue is not filled from a slice"
	}
	for _, b := range fn.Blocks {
		ifi, ok := b.Instrs[len(b.Instrs)-1].(*ssa.If)
		if !ok {
			continue
		}
		bo, ok := ifi.Cond.(*ssa.BinOp)
		if !ok || bo.Op != token.LSS {
			continue
		}
		// bound is len(K)
		lc, ok := bo.Y.(*ssa.Call)
		if !ok {
			continue
		}
		bi, ok := lc.Call.Value.(*ssa.Builtin)
		if !ok || bi.Name() != "len" {
			continue
		}
		same := false
		for _, js := range jobSlices {
			if sameValue(lc.Call.Args[0], js) {
				same = true
			}
		}
		if !same {
			continue
		}
		// loop body (succ 0) contains a receive; exit edge (succ 1) dominates `in`
		body := b.Succs[0]
		hasRecv := false
		for _, x := range body.Instrs {
			if u, ok := x.(*ssa.UnOp); ok && u.Op == token.ARROW {
				hasRecv = true
			}
		}
		if !hasRecv {
			continue
		}
		exit := b.Succs[1]
		if exit.Dominates(in.Block()) && !body.Dominates(in.Block()) {
			// the counter must start at 0 and step by 1 (rangeint): bo.X is phi/binop
			return true, "write dominated by the exit of a receive loop counted to len(job keys)"
		}
	}
	return false, "no receive loop counted to the number of queued jobs dominates this write"
}

// G3 lifecycle: defer wg.Done in the worker, wg.Add(n) before launching n workers, close(results)
// only after wg.Wait in a deferred closure, buffered job/result channels.
func ruleG3(p *Prog, r *Report) {
	const R = "G3"
	n := 0
	for _, g := range goStatements(p) {
		w := staticCallee(g)
		if w == nil {
			continue
		}
		n++
		launcher := g.Parent()
		name := p.Name(w)
		// (a) worker defers wg.Done() as its first action
		deferDone := false
		if len(w.Blocks) > 0 {
			for _, in := range w.Blocks[0].Instrs {
				if d, ok := in.(*ssa.Defer); ok {
					if f := d.Call.StaticCallee(); f != nil && f.String() == "(*sync.WaitGroup).Done" {
						deferDone = true
					}
				}
			}
		}
		r.Decide(deferDone, R, "defer-done:"+name, p.Pos(w.Pos()), "worker defers WaitGroup.Done in its entry block", "worker does not defer WaitGroup.Done in its entry block: an early return would leave Wait blocked or close(results) racing")
		// (b) wg.Add(N) dominates the go statement and N is the loop bound of the launching loop
		var addCall *ssa.Call
		eachInstr(launcher, func(in ssa.Instruction) {
			if c, ok := in.(*ssa.Call); ok {
				if f := c.Call.StaticCallee(); f != nil && f.String() == "(*sync.WaitGroup).Add" {
					addCall = c
				}
			}
		})
		okAdd := false
		why := "no WaitGroup.Add in the launcher"
		// per-launch form: wg.Add(1) immediately before each go statement in the same block
		for _, x := range g.Block().Instrs {
			if x == ssa.Instruction(g) {
				break
			}
			if c, ok := x.(*ssa.Call); ok {
				if f := c.Call.StaticCallee(); f != nil && f.String() == "(*sync.WaitGroup).Add" {
					if one, ok := constInt(c.Call.Args[1]); ok && one == 1 {
						okAdd = true
					}
				}
			}
		}
		if addCall != nil && !okAdd {
			why = "WaitGroup.Add does not dominate the go statement"
			if addCall.Block().Dominates(g.Block()) {
				why = "go statement is not inside a loop bounded by the value passed to WaitGroup.Add"
				nv := addCall.Call.Args[1]
				// the go statement sits in a rangeint loop `for range N`: condition `i < N`
				for _, b := range launcher.Blocks {
					if ifi, ok := b.Instrs[len(b.Instrs)-1].(*ssa.If); ok {
						if bo, ok := ifi.Cond.(*ssa.BinOp); ok && bo.Op == token.LSS && sameValue(bo.Y, nv) {
							if b.Succs[0] == g.Block() || b.Succs[0].Dominates(g.Block()) || b == g.Block() {
								okAdd = true
							}
						}
					}
				}
			}
		}
		r.Decide(okAdd, R, "add-matches-launch:"+p.Name(launcher)+":"+name, p.InstrPos(g), "WaitGroup.Add(n) dominates a loop launching exactly n workers", why)
		// (c) close(results) only in a deferred closure after wg.Wait; result channel buffered with job count
		var resultChan ssa.Value
		if len(g.Call.Args) > 0 {
			resultChan = canon(g.Call.Args[len(g.Call.Args)-1])
		}
		closedOK, closedWhy := false, "result channel is never closed after wg.Wait in a deferred closure"
		eachInstrDeep(launcher, func(fn *ssa.Function, in ssa.Instruction) {
			cc, ok := isBuiltinCall(in, "close")
			if !ok {
				return
			}
			if !sameChan(cc.Args[0], resultChan) {
				return
			}
			if fn == launcher {
				closedOK, closedWhy = false, "result channel closed on the launcher's normal path while workers may still send"
				return
			}
			// in a closure: must be deferred by launcher and preceded by wg.Wait in the same block
			deferred := false
			eachInstr(launcher, func(x ssa.Instruction) {
				if d, ok := x.(*ssa.Defer); ok && closureOf(d.Call.Value) == fn {
					deferred = true
				}
			})
			waited := false
			for _, x := range in.Block().Instrs {
				if x == in {
					break
				}
				if c, ok := x.(*ssa.Call); ok {
					if f := c.Call.StaticCallee(); f != nil && f.String() == "(*sync.WaitGroup).Wait" {
						waited = true
					}
				}
			}
			if deferred && waited {
				closedOK, closedWhy = true, "close(results) is deferred and follows wg.Wait"
			} else {
				closedOK, closedWhy = false, "close(results) is not preceded by wg.Wait in a deferred closure"
			}
		})
		r.Decide(closedOK, R, "close-after-wait:"+p.Name(launcher), p.InstrPos(g), closedWhy, closedWhy)
		// (d) the deferred closure is registered after all go statements are issued or wg.Add has been called:
		// the defer must be dominated by wg.Add (otherwise Wait may return before Add).
		// (e) channels buffered: make(chan T, n) with n not the constant 0
		for i, a := range g.Call.Args {
			ch, ok := a.Type().Underlying().(*types.Chan)
			if !ok {
				continue
			}
			if _, isStruct := ch.Elem().Underlying().(*types.Struct); isStruct && ch.Elem().Underlying().(*types.Struct).NumFields() == 0 {
				continue // done signal channel: unbuffered by design, only closed
			}
			mk, ok := canon(a).(*ssa.MakeChan)
			if !ok {
				// a private helper that makes, fills and returns the queue
				if hc, isCall := canon(a).(*ssa.Call); isCall {
					if hg := hc.Call.StaticCallee(); hg != nil && hg.Pkg == p.RootSSA && len(hg.Blocks) > 0 {
						var the *ssa.MakeChan
						all := true
						for _, ret := range returnsOf(hg) {
							m2, isMk := canon(ret.Results[0]).(*ssa.MakeChan)
							if len(ret.Results) != 1 || !isMk || (the != nil && the != m2) {
								all = false
								break
							}
							the = m2
						}
						if all && the != nil {
							mk, ok = the, true
						}
					}
				}
			}
			cons := fmt.Sprintf("buffered-chan:%s:arg%d", p.Name(launcher), i)
			if !ok {
				r.Unk(R, cons, p.InstrPos(g), "channel passed to the worker is not created by a local make")
				continue
			}
			z, isConst := constInt(mk.Size)
			r.Decide(!(isConst && z == 0), R, cons, p.InstrPos(mk), "job/result channel is buffered with the job count: neither side can block", "job/result channel is unbuffered: the launcher queues all jobs before draining, or workers block after an early return")
		}
		// (f) a worker sends one result per job without looking at the done signal, and the launcher stops draining
		// on the first error: the result channel must hold every result, i.e. have the capacity of the job channel
		var jobCap, resCap *ssa.MakeChan
		if callee := p.goCallee(g); callee != nil {
			_ = callee.Signature
			for i, a := range g.Call.Args {
				if i >= len(callee.Params) {
					continue
				}
				ch, ok := callee.Params[i].Type().Underlying().(*types.Chan)
				if !ok {
					continue
				}
				if st, isStruct := ch.Elem().Underlying().(*types.Struct); isStruct && st.NumFields() == 0 {
					continue
				}
				mk, ok := canon(a).(*ssa.MakeChan)
				if !ok {
					continue
				}
				switch ch.Dir() {
				case types.RecvOnly:
					jobCap = mk
				case types.SendOnly:
					resCap = mk
				}
			}
			if jobCap != nil {
				// workers range over the job channel until it is closed, and the launcher's deferred epilogue waits for
				// them: the job channel must be closed on every way out of the launcher once workers run
				isClose := func(y ssa.Instruction) bool {
					switch z := y.(type) {
					case *ssa.Call:
						if bi, ok := z.Call.Value.(*ssa.Builtin); ok && bi.Name() == "close" && len(z.Call.Args) == 1 && sameChan(z.Call.Args[0], jobCap) {
							return true
						}
					case *ssa.Defer:
						if bi, ok := z.Call.Value.(*ssa.Builtin); ok && bi.Name() == "close" && len(z.Call.Args) == 1 && sameChan(z.Call.Args[0], jobCap) {
							return true
						}
						if cl := closureOf(z.Call.Value); cl != nil {
							found := false
							eachInstr(cl, func(w ssa.Instruction) {
								if c2, ok := w.(*ssa.Call); ok {
									if bi, ok := c2.Call.Value.(*ssa.Builtin); ok && bi.Name() == "close" && len(c2.Call.Args) == 1 && sameChan(c2.Call.Args[0], jobCap) {
										found = true
									}
								}
							})
							return found
						}
					}
					return false
				}
				var exit ssa.Instruction
				closedBefore := false
				eachInstr(launcher, func(y ssa.Instruction) {
					if _, isCall := y.(*ssa.Call); isCall && isClose(y) {
						if y.Block() == g.Block() || y.Block().Dominates(g.Block()) {
							closedBefore = true // all jobs queued and the channel closed before any worker starts
						}
					}
				})
				// ... or a defer registered before the launch closes it at every return (in a function literal: before
				// that literal waits for the workers)
				eachInstr(launcher, func(y ssa.Instruction) {
					d, isDefer := y.(*ssa.Defer)
					if !isDefer || !isClose(y) || !(y.Block() == g.Block() || y.Block().Dominates(g.Block())) {
						return
					}
					cl := closureOf(d.Call.Value)
					if cl == nil {
						closedBefore = true
						return
					}
					var closeAt, waitAt ssa.Instruction
					eachInstr(cl, func(w ssa.Instruction) {
						c2, ok := w.(*ssa.Call)
						if !ok {
							return
						}
						if bi, ok := c2.Call.Value.(*ssa.Builtin); ok && bi.Name() == "close" && len(c2.Call.Args) == 1 && sameChan(c2.Call.Args[0], jobCap) {
							closeAt = w
						}
						if calleeName(c2) == "Wait" && waitAt == nil {
							waitAt = w
						}
					})
					if closeAt != nil && (waitAt == nil || canReach(cl, waitAt, func(z ssa.Instruction) bool { return z == closeAt }, nil) == nil) {
						closedBefore = true
					}
				})
				reachFrom(launcher, g, nil, func(y ssa.Instruction) bool {
					if closedBefore || exit != nil || isClose(y) {
						return true
					}
					if _, ok := y.(*ssa.Return); ok {
						exit = y
						return true
					}
					return false
				})
				r.Decide(exit == nil, R, "jobs-closed-on-every-exit:"+p.Name(launcher), p.InstrPos(g), "the job channel is closed (directly or by a registered defer) on every path from the launch to a return", "the launcher can return (for example on an error while queueing jobs) without closing the job channel: workers keep ranging over it and the deferred wg.Wait never returns")
			}
			if jobCap != nil && resCap != nil {
				// sends that cannot block forever: inside a select together with another case
				guarded := true
				eachInstrDeep(callee, func(_ *ssa.Function, y ssa.Instruction) {
					if _, ok := y.(*ssa.Send); ok {
						guarded = false
					}
				})
				same := sameCapacity(jobCap.Size, resCap.Size)
				r.Decide(same || guarded, R, "result-capacity:"+p.Name(launcher), p.InstrPos(resCap), "the result channel holds one result per queued job: workers never block on it after the launcher stops draining", "the result channel is smaller than the job queue while workers send unconditionally: after an early error return the launcher waits for workers that are blocked sending results (deadlock)")
			}
		}
	}
	r.Floor(R, "worker launch sites", 3, n)
}

func sameChan(a, b ssa.Value) bool {
	if a == nil || b == nil {
		return false
	}
	if sameValue(a, b) {
		return true
	}
	// captured cell: compare through free variable binding
	ca, cb := canon(a), canon(b)
	if ua, ok := ca.(*ssa.UnOp); ok && ua.Op == token.MUL {
		if fv, ok := ua.X.(*ssa.FreeVar); ok {
			if st := singleStoreTo(fv); st != nil && canon(st) == cb {
				return true
			}
		}
	}
	return false
}

// goCallee resolves the function started by a go statement (static function or local closure).
func (p *Prog) goCallee(g *ssa.Go) *ssa.Function {
	if f := staticCallee(g); f != nil {
		return f
	}
	if f := closureOf(g.Call.Value); f != nil {
		return f
	}
	return nil
}

// sameCapacity: two channel capacities are the same value (identical SSA value, equal constants, or len of the same collection).
func sameCapacity(a, b ssa.Value) bool {
	if sameValue(a, b) {
		return true
	}
	ka, ok1 := constInt(a)
	kb, ok2 := constInt(b)
	if ok1 && ok2 {
		return ka == kb
	}
	ca, ok1 := canonConv(a).(*ssa.Call)
	cb, ok2 := canonConv(b).(*ssa.Call)
	if ok1 && ok2 {
		ba, ok1 := ca.Call.Value.(*ssa.Builtin)
		bb, ok2 := cb.Call.Value.(*ssa.Builtin)
		if ok1 && ok2 && ba.Name() == "len" && bb.Name() == "len" {
			return sameValue(ca.Call.Args[0], cb.Call.Args[0])
		}
	}
	return false
}
