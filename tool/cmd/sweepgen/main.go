// sweepgen enumerates single-edit source variants of the repository's non-test files
// (statement deletions, dropped guards, relational/logical operator swaps) as byte-range
// replacements. It is a development aid for measuring which edits no rule of atreelint
// notices (tools/sweep.py drives it); it is not part of any check.
package main

import (
	"encoding/json"
	"fmt"
	"go/ast"
	"go/parser"
	"go/token"
	"os"
	"path/filepath"
	"sort"
	"strings"
)

type Mut struct {
	ID   string `json:"id"`
	File string `json:"file"`
	Kind string `json:"kind"`
	Func string `json:"func"`
	Line int    `json:"line"`
	Beg  int    `json:"beg"`
	End  int    `json:"end"`
	Repl string `json:"repl"`
	Orig string `json:"orig"`
}

func main() {
	repo := os.Args[1]
	files, _ := filepath.Glob(filepath.Join(repo, "*.go"))
	sort.Strings(files)
	var out []Mut
	for _, f := range files {
		if strings.HasSuffix(f, "_test.go") {
			continue
		}
		src, err := os.ReadFile(f)
		if err != nil {
			panic(err)
		}
		fset := token.NewFileSet()
		af, err := parser.ParseFile(fset, f, src, parser.ParseComments)
		if err != nil {
			panic(err)
		}
		base := filepath.Base(f)
		off := func(p token.Pos) int { return fset.Position(p).Offset }
		for _, d := range af.Decls {
			fd, ok := d.(*ast.FuncDecl)
			if !ok || fd.Body == nil {
				continue
			}
			fn := fd.Name.Name
			if fd.Recv != nil && len(fd.Recv.List) == 1 {
				t := fd.Recv.List[0].Type
				if s, ok := t.(*ast.StarExpr); ok {
					t = s.X
				}
				if ix, ok := t.(*ast.IndexExpr); ok {
					t = ix.X
				}
				if id, ok := t.(*ast.Ident); ok {
					fn = id.Name + "." + fn
				}
			}
			n := 0
			add := func(kind string, beg, end token.Pos, repl string) {
				b, e := off(beg), off(end)
				o := string(src[b:e])
				if len(o) > 160 {
					o = o[:160] + "..."
				}
				n++
				out = append(out, Mut{ID: fmt.Sprintf("%s:%s:%d:%s", base, fn, n, kind), File: base, Kind: kind, Func: fn,
					Line: fset.Position(beg).Line, Beg: b, End: e, Repl: repl, Orig: o})
			}
			ast.Inspect(fd.Body, func(nd ast.Node) bool {
				switch s := nd.(type) {
				case *ast.ExprStmt:
					if _, ok := s.X.(*ast.CallExpr); ok {
						add("del-call", s.Pos(), s.End(), "")
					}
				case *ast.DeferStmt:
					add("del-defer", s.Pos(), s.End(), "")
				case *ast.IncDecStmt:
					add("del-incdec", s.Pos(), s.End(), "")
				case *ast.AssignStmt:
					if s.Tok == token.DEFINE {
						break
					}
					if s.Tok != token.ASSIGN {
						add("del-opassign", s.Pos(), s.End(), "")
						break
					}
					allNonIdent := true
					for _, l := range s.Lhs {
						if id, ok := l.(*ast.Ident); ok && id.Name != "_" {
							allNonIdent = false
						}
					}
					if allNonIdent {
						add("del-assign", s.Pos(), s.End(), "")
					} else {
						add("del-assign-var", s.Pos(), s.End(), "")
					}
				case *ast.IfStmt:
					if s.Else == nil && len(s.Body.List) == 1 {
						if _, ok := s.Body.List[0].(*ast.ReturnStmt); ok {
							if s.Init == nil {
								add("del-guard", s.Pos(), s.End(), "")
							}
						}
					}
					if s.Else == nil && s.Init == nil {
						// negate condition
						add("neg-cond", s.Cond.Pos(), s.Cond.End(), "!("+string(src[off(s.Cond.Pos()):off(s.Cond.End())])+")")
					}
				case *ast.BinaryExpr:
					var r string
					switch s.Op {
					case token.LSS:
						r = "<="
					case token.LEQ:
						r = "<"
					case token.GTR:
						r = ">="
					case token.GEQ:
						r = ">"
					case token.EQL:
						r = "!="
					case token.NEQ:
						r = "=="
					case token.LAND:
						r = "||"
					case token.LOR:
						r = "&&"
					case token.ADD:
						r = "-"
					case token.SUB:
						r = "+"
					}
					if r != "" {
						kind := "relop"
						if s.Op == token.LAND || s.Op == token.LOR {
							kind = "logic"
						}
						if s.Op == token.ADD || s.Op == token.SUB {
							kind = "arith"
						}
						add(kind, s.OpPos, s.OpPos+token.Pos(len(s.Op.String())), r)
					}
				}
				return true
			})
		}
	}
	enc := json.NewEncoder(os.Stdout)
	for _, m := range out {
		enc.Encode(m)
	}
}
