package main

import (
	"go/token"
	"go/types"

	"golang.org/x/tools/go/ssa"
)

// fieldRef: a reference to field Field of struct type Owner through base Base.
type fieldRef struct {
	Owner *types.Named
	Field string
	Base  ssa.Value
}

func structFieldName(t types.Type, idx int) (*types.Named, string) {
	n := namedOf(t)
	var st *types.Struct
	if n != nil {
		st, _ = n.Underlying().(*types.Struct)
	} else {
		if pt, ok := t.(*types.Pointer); ok {
			t = pt.Elem()
		}
		st, _ = t.Underlying().(*types.Struct)
	}
	if st == nil || idx >= st.NumFields() {
		return n, ""
	}
	return n, st.Field(idx).Name()
}

// asFieldAddr: v is &base.F
func asFieldAddr(v ssa.Value) (fieldRef, bool) {
	fa, ok := v.(*ssa.FieldAddr)
	if !ok {
		return fieldRef{}, false
	}
	n, f := structFieldName(fa.X.Type(), fa.Field)
	base := fa.X
	// a field of a spilled local struct value: the base is the value stored in the cell
	if al, ok := base.(*ssa.Alloc); ok {
		if st := singleStoreTo(al); st != nil {
			base = st
		}
	}
	return fieldRef{n, f, canon(base)}, f != ""
}

// asLoadedField: v is the value of base.F (load of a FieldAddr, a Field of a
// struct value, or the result of a trivial accessor method `return recv.F`).
func asLoadedField(v ssa.Value) (fieldRef, bool) {
	v = stripTrivial(v)
	switch x := v.(type) {
	case *ssa.UnOp:
		if x.Op == token.MUL {
			return asFieldAddr(x.X)
		}
	case *ssa.Field:
		n, f := structFieldName(x.X.Type(), x.Field)
		return fieldRef{n, f, x.X}, f != ""
	case *ssa.Call:
		if f := x.Call.StaticCallee(); f != nil && len(x.Call.Args) >= 1 {
			if fr, ok := accessorField(f); ok {
				fr.Base = x.Call.Args[0]
				return fr, true
			}
		}
	}
	return fieldRef{}, false
}

// accessorField recognises `func (r T) M() X { return r.F }`.
func accessorField(f *ssa.Function) (fieldRef, bool) {
	if f.Signature.Recv() == nil || len(f.Blocks) != 1 || len(f.Params) != 1 {
		return fieldRef{}, false
	}
	b := f.Blocks[0]
	ret, ok := b.Instrs[len(b.Instrs)-1].(*ssa.Return)
	if !ok || len(ret.Results) != 1 {
		return fieldRef{}, false
	}
	var fr fieldRef
	switch x := ret.Results[0].(type) {
	case *ssa.UnOp:
		if x.Op != token.MUL {
			return fieldRef{}, false
		}
		r, ok := asFieldAddr(x.X)
		if !ok {
			return fieldRef{}, false
		}
		fr = r
	case *ssa.Field:
		n, fl := structFieldName(x.X.Type(), x.Field)
		fr = fieldRef{n, fl, x.X}
	default:
		return fieldRef{}, false
	}
	base := fr.Base
	if u, ok := base.(*ssa.UnOp); ok && u.Op == token.MUL {
		base = u.X // spilled value receiver
	}
	if base != f.Params[0] {
		if al, ok := base.(*ssa.Alloc); !ok || al == nil {
			return fieldRef{}, false
		}
	}
	return fr, fr.Field != ""
}

func (fr fieldRef) is(owner, field string) bool {
	return fr.Owner != nil && fr.Owner.Obj().Name() == owner && fr.Owner.Obj().Pkg() != nil &&
		fr.Owner.Obj().Pkg().Path() == rootPkgPath && fr.Field == field
}

// fieldWrite describes one write to a struct field or to the map/slice held in it.
type fieldWrite struct {
	Ref   fieldRef
	Kind  string // "assign", "mapupdate", "mapdelete", "elemstore"
	Instr ssa.Instruction
	Key   ssa.Value // map key for mapupdate/mapdelete
	Val   ssa.Value
}

// fieldWriteOf classifies an instruction as a write through a struct field.
func fieldWriteOf(in ssa.Instruction) (fieldWrite, bool) {
	switch x := in.(type) {
	case *ssa.Store:
		if fr, ok := asFieldAddr(x.Addr); ok {
			return fieldWrite{fr, "assign", in, nil, x.Val}, true
		}
		// store into element of slice/array held in a field: &base.F[i]
		if ia, ok := x.Addr.(*ssa.IndexAddr); ok {
			if fr, ok := asLoadedField(ia.X); ok {
				return fieldWrite{fr, "elemstore", in, ia.Index, x.Val}, true
			}
			if fr, ok := asFieldAddr(ia.X); ok { // array field
				return fieldWrite{fr, "elemstore", in, ia.Index, x.Val}, true
			}
		}
	case *ssa.MapUpdate:
		if fr, ok := asLoadedField(x.Map); ok {
			return fieldWrite{fr, "mapupdate", in, x.Key, x.Value}, true
		}
	default:
		if cc, ok := isBuiltinCall(in, "delete"); ok {
			if fr, ok := asLoadedField(cc.Args[0]); ok {
				return fieldWrite{fr, "mapdelete", in, cc.Args[1], nil}, true
			}
		}
	}
	return fieldWrite{}, false
}

// isFreshBase: the base pointer of a field reference is an object allocated
// in the same function (constructor-style initialisation).
func isFreshBase(v ssa.Value) bool {
	for depth := 0; depth < 6; depth++ {
		switch x := v.(type) {
		case *ssa.Alloc:
			return true
		case *ssa.FieldAddr:
			v = x.X
		case *ssa.UnOp:
			if x.Op == token.MUL {
				// load of a local variable holding the pointer
				if st := singleStoreTo(x.X); st != nil {
					v = st
					continue
				}
			}
			return false
		default:
			return false
		}
	}
	return false
}

// mapLookupOf: in is `m[k]` (value or comma-ok) with m the value of a struct field.
func mapLookupOf(v ssa.Value) (fieldRef, *ssa.Lookup, bool) {
	lk, ok := v.(*ssa.Lookup)
	if !ok {
		return fieldRef{}, nil, false
	}
	fr, ok := asLoadedField(lk.X)
	return fr, lk, ok
}

// rangeOverField: in is `range m` with m the value of a struct field.
func rangeOverField(in ssa.Instruction) (fieldRef, *ssa.Range, bool) {
	r, ok := in.(*ssa.Range)
	if !ok {
		return fieldRef{}, nil, false
	}
	fr, ok := asLoadedField(r.X)
	return fr, r, ok
}

// litField finds the value assigned to a (possibly nested) field of the object that
// pointer obj denotes, looking through composite-literal temporaries: either a chain
// of FieldAddr stores, or a whole-struct store of a local struct cell whose fields
// were stored individually. Returns nil if not found or ambiguous.
func litField(fn *ssa.Function, obj ssa.Value, path ...string) ssa.Value {
	if len(path) == 0 {
		return nil
	}
	var found ssa.Value
	n := 0
	eachInstr(fn, func(in ssa.Instruction) {
		st, ok := in.(*ssa.Store)
		if !ok {
			return
		}
		fa, ok := st.Addr.(*ssa.FieldAddr)
		if !ok || fa.X != obj {
			return
		}
		_, name := structFieldName(fa.X.Type(), fa.Field)
		if name != path[0] {
			return
		}
		n++
		if len(path) == 1 {
			found = st.Val
			return
		}
		// struct value copied from a local literal cell
		if u, ok := st.Val.(*ssa.UnOp); ok && u.Op == token.MUL {
			if cell, ok := u.X.(*ssa.Alloc); ok {
				found = litField(fn, cell, path[1:]...)
			}
		}
	})
	if found != nil && n == 1 {
		return found
	}
	if len(path) > 1 {
		// direct nested address chain: &obj.f.g
		var sub ssa.Value
		eachInstr(fn, func(in ssa.Instruction) {
			if fa, ok := in.(*ssa.FieldAddr); ok && fa.X == obj {
				if _, name := structFieldName(fa.X.Type(), fa.Field); name == path[0] {
					if v := litField(fn, fa, path[1:]...); v != nil {
						sub = v
					}
				}
			}
		})
		if sub != nil {
			return sub
		}
	}
	return nil
}

// constructorLiteral: v is the result of a call to a private constructor of the package that returns a slab literal
// it has just built (every success return yields the same fresh Alloc, possibly boxed into an interface).
// Returns the callee, the literal inside it and the call.
func constructorLiteral(v ssa.Value) (g *ssa.Function, lit *ssa.Alloc, call *ssa.Call, ok bool) {
	v = canon(v)
	for depth := 0; depth < 3; depth++ {
		switch x := v.(type) {
		case *ssa.MakeInterface:
			v = canon(x.X)
			continue
		case *ssa.ChangeInterface:
			v = canon(x.X)
			continue
		}
		break
	}
	c, isCall := v.(*ssa.Call)
	if !isCall {
		return nil, nil, nil, false
	}
	g = c.Call.StaticCallee()
	if g == nil || g.Pkg == nil || g.Pkg.Pkg.Path() != rootPkgPath || len(g.Blocks) == 0 || g.Signature.Results().Len() == 0 {
		return nil, nil, nil, false
	}
	for _, ret := range returnsOf(g) {
		if len(ret.Results) == 0 {
			return nil, nil, nil, false
		}
		if lastResultIsError(g) {
			if cl, _ := classifyReturn(ret); cl == retError {
				continue
			}
		}
		rv := canon(ret.Results[0])
		if mi, isMI := rv.(*ssa.MakeInterface); isMI {
			rv = canon(mi.X)
		}
		al, isAl := rv.(*ssa.Alloc)
		if !isAl || !al.Heap {
			return nil, nil, nil, false
		}
		if lit != nil && lit != al {
			return nil, nil, nil, false
		}
		lit = al
	}
	if lit == nil {
		return nil, nil, nil, false
	}
	return g, lit, c, true
}

// constructorField: the value a constructor call gives to a (nested) field of the literal it returns, seen from the
// caller: a parameter of the constructor is replaced by the actual argument, anything else is returned as is
// (inCallee reports that the value lives in the callee).
func constructorField(v ssa.Value, path ...string) (val ssa.Value, inCallee bool, ok bool) {
	g, lit, call, isC := constructorLiteral(v)
	if !isC {
		return nil, false, false
	}
	fv := litField(g, lit, path...)
	if fv == nil {
		return nil, false, false
	}
	if prm, isP := canon(fv).(*ssa.Parameter); isP {
		for i, q := range g.Params {
			if q == prm && i < len(call.Call.Args) {
				return call.Call.Args[i], false, true
			}
		}
	}
	return fv, true, true
}

// deltaHelper: g is a private method of the storage that, on every path, performs one write of the given
// kind (mapdelete / mapupdate) to a map field of its receiver under a key that is one of its parameters
// (a "retire this id" / "record this id" helper). Returns the field, the kind and the parameter positions.
func (p *Prog) deltaHelper(g *ssa.Function) (fr fieldRef, kind string, keyIdx, valIdx int, ok bool) {
	ws := p.deltaHelperWrites(g)
	if len(ws) != 1 {
		return
	}
	return ws[0].ref, ws[0].kind, ws[0].keyIdx, ws[0].valIdx, true
}

// helperWrite: one of the map writes a retire / record helper performs on its receiver.
type helperWrite struct {
	ref            fieldRef
	kind           string
	keyIdx, valIdx int
	val            ssa.Value // the stored value when it is not a parameter (a constant, e.g. the nil tombstone)
}

// deltaHelperWrites: g is a private method of the storage whose map writes are all of the form "field[param] = x" /
// "delete(field, param)" on its receiver, each performed on every success path (a helper that retires an id from
// the write set and files it in the cache performs two). Returns them in instruction order; nil if g is no such helper.
func (p *Prog) deltaHelperWrites(g *ssa.Function) []helperWrite {
	if g == nil || g.Pkg != p.RootSSA || len(g.Blocks) == 0 || g.Object() == nil || g.Object().Exported() || recvName(g) != storageT {
		return nil
	}
	var out []helperWrite
	bad := false
	eachInstr(g, func(in ssa.Instruction) {
		// a helper that writes the register itself is a register-write wrapper: its map writes are judged inside it
		if _, _, isBW := p.baseWrite(in); isBW {
			bad = true
			return
		}
		fw, isW := fieldWriteOf(in)
		if !isW || (fw.Kind != "mapdelete" && fw.Kind != "mapupdate") || !sameValue(fw.Ref.Base, g.Params[0]) {
			return
		}
		w := helperWrite{ref: fw.Ref, kind: fw.Kind, keyIdx: -1, valIdx: -1}
		for i, q := range g.Params {
			if canon(fw.Key) == ssa.Value(q) {
				w.keyIdx = i
			}
			if fw.Val != nil && canon(stripIface(fw.Val)) == ssa.Value(q) {
				w.valIdx = i
			}
		}
		if w.keyIdx < 0 {
			bad = true
			return
		}
		if fw.Val != nil && w.valIdx < 0 {
			if _, isConst := canon(stripIface(fw.Val)).(*ssa.Const); isConst {
				w.val = fw.Val
			}
		}
		the := fw.Instr
		if successReturnAvoiding(g, nil, func(z ssa.Instruction) bool { return z == the }) != nil {
			bad = true
			return
		}
		out = append(out, w)
	})
	if bad || len(out) > 3 {
		return nil
	}
	return out
}

func stripIface(v ssa.Value) ssa.Value {
	if mi, ok := v.(*ssa.MakeInterface); ok {
		return mi.X
	}
	return v
}

// fieldWriteOfX is fieldWriteOf that also sees a call of a deltaHelper as the write it performs (the first one, for
// helpers that perform several: see fieldWritesOfX).
func (p *Prog) fieldWriteOfX(in ssa.Instruction) (fieldWrite, bool) {
	ws := p.fieldWritesOfX(in)
	if len(ws) == 0 {
		return fieldWrite{}, false
	}
	return ws[0], true
}

// fieldWritesOfX: the map writes instruction `in` performs - its own, or those of the retire / record helper it calls,
// expressed with the caller's arguments.
func (p *Prog) fieldWritesOfX(in ssa.Instruction) []fieldWrite {
	if fw, ok := fieldWriteOf(in); ok {
		return []fieldWrite{fw}
	}
	c, ok := in.(*ssa.Call)
	if !ok {
		return nil
	}
	g := c.Call.StaticCallee()
	var out []fieldWrite
	for _, w := range p.deltaHelperWrites(g) {
		if w.keyIdx >= len(c.Call.Args) {
			return nil
		}
		fr := w.ref
		fr.Base = c.Call.Args[0]
		val := w.val
		if w.valIdx >= 0 && w.valIdx < len(c.Call.Args) {
			val = c.Call.Args[w.valIdx]
		}
		out = append(out, fieldWrite{fr, w.kind, in, c.Call.Args[w.keyIdx], val})
	}
	return out
}
