package main

// G. Shape rules: X1 type-switch exhaustiveness, X2 reference coverage, X3 traversal agreement,
// X4 iterator agreement, X5 can/copy agreement.

import (
	"fmt"
	"go/ast"
	"go/types"
	"sort"
	"strings"

	"golang.org/x/tools/go/ssa"
)

// closedFamilies: in-package interfaces whose implementer set is closed (all implementers live in this package).
var closedFamilyNames = []string{"ArraySlab", "MapSlab", "Slab", "elements", "element", "elementGroup", "ExtraData"}

type family struct {
	name    string
	iface   *types.Interface
	members []types.Type // concrete implementers (T or *T)
}

func (p *Prog) families() []family {
	var out []family
	for _, n := range closedFamilyNames {
		nt := p.LookupType(n)
		if nt == nil {
			continue
		}
		it, ok := nt.Underlying().(*types.Interface)
		if !ok {
			continue
		}
		out = append(out, family{n, it, p.ImplementersOf(it)})
	}
	return out
}

func typeStr(t types.Type) string {
	return types.TypeString(t, func(p *types.Package) string { return "" })
}

// enclosingFuncName finds the declared function containing pos.
func (p *Prog) enclosingFuncName(file *ast.File, n ast.Node) string {
	name := "?"
	for _, d := range file.Decls {
		if fd, ok := d.(*ast.FuncDecl); ok && fd.Pos() <= n.Pos() && n.End() <= fd.End() {
			name = fd.Name.Name
			if fd.Recv != nil && len(fd.Recv.List) > 0 {
				name = "(" + types.ExprString(fd.Recv.List[0].Type) + ")." + name
			}
		}
	}
	return name
}

// endsInErrorOrPanic: the clause body's last statement returns a non-nil error expression or panics.
func (p *Prog) endsInErrorOrPanic(body []ast.Stmt) bool {
	if len(body) == 0 {
		return false
	}
	switch s := body[len(body)-1].(type) {
	case *ast.ReturnStmt:
		if len(s.Results) == 0 {
			return false
		}
		last := s.Results[len(s.Results)-1]
		tv, ok := p.Root.TypesInfo.Types[last]
		if !ok {
			return false
		}
		if tv.IsNil() {
			return false
		}
		return isErrorType(tv.Type) || types.Implements(tv.Type, errorIface())
	case *ast.ExprStmt:
		if c, ok := s.X.(*ast.CallExpr); ok {
			if id, ok := c.Fun.(*ast.Ident); ok && id.Name == "panic" {
				return true
			}
		}
	}
	return false
}

func errorIface() *types.Interface {
	return types.Universe.Lookup("error").Type().Underlying().(*types.Interface)
}

func isDiagnosticFile(name string) bool {
	for _, s := range []string{"_dump.go", "_slab_stats.go", "_verify.go"} {
		if strings.HasSuffix(name, s) {
			return true
		}
	}
	return false
}

// X1 type-switch exhaustiveness over closed families.
func ruleX1(p *Prog, r *Report) {
	const R = "X1"
	fams := p.families()
	n := 0
	for _, file := range p.Root.Syntax {
		fname := p.Fset.Position(file.Pos()).Filename
		if strings.HasSuffix(fname, "_test.go") {
			continue
		}
		ast.Inspect(file, func(node ast.Node) bool {
			ts, ok := node.(*ast.TypeSwitchStmt)
			if !ok {
				return true
			}
			// switched expression
			var x ast.Expr
			switch a := ts.Assign.(type) {
			case *ast.AssignStmt:
				x = a.Rhs[0].(*ast.TypeAssertExpr).X
			case *ast.ExprStmt:
				x = a.X.(*ast.TypeAssertExpr).X
			}
			st := p.Root.TypesInfo.TypeOf(x)
			if st == nil {
				return true
			}
			var caseTypes []types.Type
			var deflt *ast.CaseClause
			hasNilCase := false
			for _, cl := range ts.Body.List {
				cc := cl.(*ast.CaseClause)
				if cc.List == nil {
					deflt = cc
					continue
				}
				for _, e := range cc.List {
					tv := p.Root.TypesInfo.Types[e]
					if tv.IsNil() {
						hasNilCase = true
						continue
					}
					if tv.Type != nil {
						caseTypes = append(caseTypes, tv.Type)
					}
				}
			}
			_ = hasNilCase
			// choose the family: smallest closed family such that every case type is a member or a sub-interface of it
			var best *family
			for i := range fams {
				f := &fams[i]
				all := len(caseTypes) > 0
				for _, ct := range caseTypes {
					if _, isI := ct.Underlying().(*types.Interface); isI {
						// a case on an interface: must itself be a closed family contained in f
						sub := false
						for _, m := range f.members {
							if types.Implements(m, ct.Underlying().(*types.Interface)) {
								sub = true
							}
						}
						in := false
						for _, g := range fams {
							if types.Identical(g.iface, ct.Underlying()) {
								in = true
							}
						}
						if !(sub && in) {
							all = false
						}
						continue
					}
					if !types.Implements(ct, f.iface) {
						all = false
					}
				}
				if all && (best == nil || len(f.members) < len(best.members)) {
					best = f
				}
			}
			if best == nil {
				return true // switch over an open (client) interface or unrelated types
			}
			n++
			fn := p.enclosingFuncName(file, ts)
			cons := fmt.Sprintf("typeswitch:%s:%s", fn, best.name)
			// members that can flow here: implement the static type of the switched expression
			var missing []string
			for _, m := range best.members {
				if sti, ok := st.Underlying().(*types.Interface); ok && !types.Implements(m, sti) {
					continue
				}
				covered := false
				for _, ct := range caseTypes {
					if cti, isI := ct.Underlying().(*types.Interface); isI {
						if types.Implements(m, cti) {
							covered = true
						}
					} else if types.Identical(ct, m) {
						covered = true
					}
				}
				if !covered {
					missing = append(missing, typeStr(m))
				}
			}
			sort.Strings(missing)
			pos := p.Pos(ts.Pos())
			if len(missing) == 0 {
				r.Ok(R, cons, pos, fmt.Sprintf("covers all %d member(s) of family %s that can reach it", len(best.members), best.name))
				return true
			}
			if deflt != nil && p.endsInErrorOrPanic(deflt.Body) {
				r.Ok(R, cons, pos, "missing "+strings.Join(missing, ",")+" handled by a default that reports an error / panics")
				return true
			}
			if isDiagnosticFile(fname) {
				r.add(R, cons, pos, OK, "diagnostic code (dump/stats/verify): partial switch tolerated", false)
				return true
			}
			if why, ok := x1Exempt[fn+":"+best.name+":"+strings.Join(missing, ",")]; ok {
				r.Ok(R, cons, pos, "partial by design: "+why)
				return true
			}
			r.Bad(R, cons, pos, "type switch over closed family "+best.name+" silently falls through for "+strings.Join(missing, ",")+" (no case, no error/panic default): that kind would be skipped")
			return true
		})
	}
	r.Floor(R, "family type switches", 20, n)
}

// x1Exempt: switches that are partial by design, keyed function:family:missing.
var x1Exempt = map[string]string{}

var _ = ssa.BuildSerially
