package main

// X9 a copy carries every field (C17).
//
// The copy functions build the copy field by field (a struct literal or a zero
// value that is then assigned). X6 decides that nothing reference-like is shared;
// this rule decides that nothing is *forgotten*: every field of every in-package
// struct a copy function builds is assigned in that function. A forgotten field
// silently takes the zero value (a hash level 0 in a deeper collision group, a
// count of 0, a missing seed). Fields whose zero value is what a copy must have
// are listed with the reason.

import (
	"fmt"
	"go/types"
	"sort"
	"strings"

	"golang.org/x/tools/go/ssa"
)

var copyZeroOK = map[string]string{
	"ArrayDataSlab.next":           "a slab with a sibling link cannot be copied (rejected up front): the copy has none",
	"ArrayDataSlab.inlined":        "a copy is always a standalone slab",
	"MapDataSlab.next":             "a slab with a sibling link cannot be copied (rejected up front): the copy has none",
	"MapDataSlab.inlined":          "a copy is always a standalone slab",
	"Array.parentUpdater":          "the copy is a new root value: it has no parent",
	"Array.mutableElementIndex":    "a copied container holds plain values only: there are no child containers to track",
	"OrderedMap.parentUpdater":     "the copy is a new root value: it has no parent",
	"OrderedMap.mutableElementIDs": "a copied container holds plain values only: there are no child containers to track",
}

func ruleX9(p *Prog, r *Report) {
	const R = "X9"
	n := 0
	funcs := p.TopFuncs()
	sort.Slice(funcs, func(i, j int) bool { return p.Name(funcs[i]) < p.Name(funcs[j]) })
	for _, f := range funcs {
		if p.IsTestFile(f.Pos()) {
			continue
		}
		ln := strings.ToLower(f.Name())
		if !strings.HasPrefix(ln, "copy") {
			continue
		}
		n += builtStructsComplete(p, r, R, "copy-fields", f, copyZeroOK, nil,
			"every field of the copy is assigned",
			"the copy built here never assigns field(s) %s: the copy silently gets the zero value where the source has content")
	}
	// a copy that starts from a constructor of the receiver's own type: every field the function does not assign
	// afterwards keeps the constructor's default - for a field that the source carries that is a silent reset
	for _, f := range funcs {
		if p.IsTestFile(f.Pos()) || !strings.HasPrefix(strings.ToLower(f.Name()), "copy") || len(f.Params) == 0 {
			continue
		}
		rt := rootNamed(f.Params[0].Type())
		if rt == nil {
			continue
		}
		st, ok := rt.Underlying().(*types.Struct)
		if !ok {
			continue
		}
		eachInstr(f, func(in ssa.Instruction) {
			c, ok := in.(*ssa.Call)
			if !ok {
				return
			}
			g := c.Call.StaticCallee()
			if g == nil || g.Pkg != p.RootSSA || rootNamed(c.Type()) != rt || g == f {
				return
			}
			if _, isPtr := c.Type().Underlying().(*types.Pointer); !isPtr {
				return
			}
			n++
			assigned := map[string]bool{}
			for _, ref := range *c.Referrers() {
				if fa, ok := ref.(*ssa.FieldAddr); ok {
					_, nm := structFieldName(fa.X.Type(), fa.Field)
					for _, r2 := range *fa.Referrers() {
						if s2, ok := r2.(*ssa.Store); ok && s2.Addr == ssa.Value(fa) {
							assigned[nm] = true
						}
					}
				}
			}
			// fields the constructor receives from a non-constant argument count as assigned by the caller
			if _, lit, _, ok := constructorLiteral(c); ok {
				for i := 0; i < st.NumFields(); i++ {
					nm := st.Field(i).Name()
					fv := litField(g, lit, nm)
					if fv == nil {
						continue
					}
					if prm, isP := canon(fv).(*ssa.Parameter); isP {
						for pi, q := range g.Params {
							if q == prm && pi < len(c.Call.Args) {
								if _, isConst := canonConv(c.Call.Args[pi]).(*ssa.Const); !isConst {
									assigned[nm] = true
								}
							}
						}
					}
				}
			}
			var missing []string
			for i := 0; i < st.NumFields(); i++ {
				nm := st.Field(i).Name()
				if assigned[nm] {
					continue
				}
				if _, ok := copyZeroOK[rt.Obj().Name()+"."+nm]; ok {
					continue
				}
				missing = append(missing, nm)
			}
			sort.Strings(missing)
			r.Decide(len(missing) == 0, R, "copy-from-constructor:"+p.Name(f)+":"+rt.Obj().Name(), p.InstrPos(in), "every field of the constructed copy is assigned from the source (or handed to the constructor)", "the copy starts from "+g.Name()+"(..) and never assigns field(s) "+strings.Join(missing, ", ")+": the copy keeps the constructor's default where the source has content (a nested collision group copied with the level of a root list)")
		})
	}
	r.Floor(R, "structs built by copy functions", 6, n)
}

// builtStructsComplete: every in-package struct that f builds field by field has all its fields assigned in f
// (zeroOK lists fields whose zero value is intended; only lists types to look at when non-nil).
func builtStructsComplete(p *Prog, r *Report, R, label string, f *ssa.Function, zeroOK map[string]string, only map[string]bool, okMsg, badFmt string) int {
	n := 0
	ord := map[string]int{}
	eachInstr(f, func(in ssa.Instruction) {
		al, ok := in.(*ssa.Alloc)
		if !ok {
			return
		}
		nt := rootNamed(al.Type())
		if nt == nil || nt.Obj().Pkg() == nil || nt.Obj().Pkg().Path() != rootPkgPath {
			return
		}
		st, ok := nt.Underlying().(*types.Struct)
		if !ok {
			return
		}
		tn := nt.Obj().Name()
		if only != nil && !only[tn] {
			return
		}
		// skip spills of parameters / loaded values (not a literal being built)
		built := false
		for _, ref := range *al.Referrers() {
			switch x := ref.(type) {
			case *ssa.FieldAddr:
				built = true
			case *ssa.Store:
				if x.Addr == ssa.Value(al) {
					if _, isP := x.Val.(*ssa.Parameter); isP {
						return
					}
				}
			}
		}
		if !built {
			return
		}
		// nested header struct literals are checked through their owner
		if strings.HasSuffix(tn, "SlabHeader") {
			for _, ref := range *al.Referrers() {
				if ld, ok := ref.(*ssa.UnOp); ok {
					for _, r2 := range *ld.Referrers() {
						if s2, ok := r2.(*ssa.Store); ok {
							if _, isFA := s2.Addr.(*ssa.FieldAddr); isFA {
								return
							}
						}
					}
				}
			}
		}
		ord[tn]++
		n++
		cons := label + ":" + p.Name(f) + ":" + tn
		if ord[tn] > 1 {
			cons += "#" + itoa(ord[tn])
		}
		var missing []string
		var walk func(prefix []string, s *types.Struct)
		walk = func(prefix []string, s *types.Struct) {
			for i := 0; i < s.NumFields(); i++ {
				fld := s.Field(i)
				path := append(append([]string{}, prefix...), fld.Name())
				if sub, ok := fld.Type().Underlying().(*types.Struct); ok && strings.HasSuffix(typeName(fld.Type()), "SlabHeader") {
					if litField(f, al, path...) == nil {
						walk(path, sub)
					}
					continue
				}
				key := tn + "." + strings.Join(path, ".")
				if _, ok := zeroOK[key]; ok {
					continue
				}
				if litField(f, al, path...) == nil && !fieldAssigned(f, al, path) {
					missing = append(missing, strings.Join(path, "."))
				}
			}
		}
		walk(nil, st)
		r.Decide(len(missing) == 0, R, cons, p.InstrPos(in), okMsg, fmt.Sprintf(badFmt, strings.Join(missing, ", ")))
	})
	return n
}

// fieldAssigned: some store in f writes the field path of object al (through nested FieldAddr).
func fieldAssigned(f *ssa.Function, al ssa.Value, path []string) bool {
	found := false
	eachInstr(f, func(in ssa.Instruction) {
		st, ok := in.(*ssa.Store)
		if !ok || found {
			return
		}
		// collect the field path of the address
		var parts []string
		a := st.Addr
		for depth := 0; depth < 4; depth++ {
			fa, ok := a.(*ssa.FieldAddr)
			if !ok {
				break
			}
			_, fn := structFieldName(fa.X.Type(), fa.Field)
			parts = append([]string{fn}, parts...)
			a = fa.X
			if a == al || canon(a) == al {
				if len(parts) <= len(path) {
					match := true
					for i := range parts {
						if parts[i] != path[i] {
							match = false
						}
					}
					if match {
						found = true
					}
				}
				return
			}
		}
	})
	return found
}

// decodeZeroOK: fields of element structs that a decoder may leave zero, with the reason.
var decodeZeroOK = map[string]string{}

// L24 decoded element structs are complete (C07, C08): every element list / element / collision group struct a decoder
// builds has every field assigned (hash level, digests, elements, cached size, slab id ...). L11 decides the same for
// the slab structs from the fields the in-memory code maintains; this is its counterpart for the parts inside a slab.
func ruleL24(p *Prog, r *Report) {
	const R = "L24"
	scope, _ := p.decodeScope()
	only := map[string]bool{"hkeyElements": true, "singleElements": true, "singleElement": true, "inlineCollisionGroup": true, "externalCollisionGroup": true}
	n := 0
	for _, f := range sortedFuncs(p, scope) {
		n += builtStructsComplete(p, r, R, "decoded-part-fields", f, decodeZeroOK, only,
			"every field of the decoded element structure is assigned",
			"the decoder never assigns field(s) %s of the structure it builds: a reloaded slab differs from the one that was encoded")
	}
	r.Floor(R, "element structures built by decoders", 4, n)
}
