package main

// Iterator rules for C13: I2 cursor advance, I3 range validation.

import (
	"fmt"
	"go/token"
	"strings"

	"golang.org/x/tools/go/ssa"
)

// iteratorTypes: named struct types with a CanMutate method or whose name ends in "Iterator".
func (p *Prog) iteratorTypes() []string {
	var out []string
	for _, nt := range p.rootNamedTypes() {
		nm := nt.Obj().Name()
		if strings.HasSuffix(nm, "Iterator") || strings.HasSuffix(nm, "iterator") {
			out = append(out, nm)
		}
	}
	return out
}

// I2: every Next*/next method that hands out an element advances a cursor on that path.
func ruleI2(p *Prog, r *Report) {
	const R = "I2"
	n := 0
	iters := map[string]bool{}
	for _, t := range p.iteratorTypes() {
		iters[t] = true
	}
	for _, top := range p.TopFuncs() {
		rn := recvName(top)
		if !iters[rn] || len(top.Params) == 0 {
			continue
		}
		nm := top.Name()
		if !(strings.HasPrefix(nm, "Next") || nm == "next") {
			continue
		}
		recv := top.Params[0]
		// success returns whose first result may be a non-nil element
		for _, ret := range returnsOf(top) {
			if c, _ := classifyReturn(ret); c == retError {
				continue
			}
			if len(ret.Results) == 0 {
				continue
			}
			handsOut := false
			for i, res := range ret.Results {
				if i == len(ret.Results)-1 && isErrorType(res.Type()) {
					continue
				}
				if !isNilConst(canon(res)) {
					handsOut = true
				}
			}
			if !handsOut {
				continue
			}
			// tail recursion / delegation: the callee advances
			delegated := false
			if ex, ok := canon(ret.Results[0]).(*ssa.Extract); ok {
				if c, ok := ex.Tuple.(*ssa.Call); ok {
					if g := c.Call.StaticCallee(); g != nil && iters[recvName(g)] && (strings.HasPrefix(g.Name(), "Next") || g.Name() == "next") && recvName(g) == rn {
						delegated = true
					}
				}
			}
			n++
			cons := "cursor-advance:" + p.Name(top)
			if delegated {
				r.Ok(R, cons, p.InstrPos(ret), "delegates to the same iterator's Next (which is checked itself)")
				continue
			}
			// every path entry -> this return passes a cursor effect
			isAdvance := func(y ssa.Instruction) bool {
				if st, ok := y.(*ssa.Store); ok {
					if fr, ok := asFieldAddr(st.Addr); ok && fr.Owner != nil && fr.Owner.Obj().Name() == rn && sameValue(fr.Base, recv) {
						return true
					}
				}
				if c, ok := y.(ssa.CallInstruction); ok {
					for _, g := range p.Callees(c) {
						if !iters[recvName(g)] && !isHandleType(recvName(g)) {
							continue
						}
						// a nested iterator's next, or a handle lookup that is followed by a cursor store (handled above)
						for _, e := range p.FineEffects(g) {
							if e.Kind == "field" && iters[strings.Split(e.What, ".")[0]] {
								return true
							}
						}
					}
				}
				return false
			}
			reach := false
			reachFrom(top, nil, nil, func(y ssa.Instruction) bool {
				if reach {
					return true
				}
				if isAdvance(y) {
					return true
				}
				if y == ssa.Instruction(ret) {
					reach = true
					return true
				}
				return false
			})
			r.Decide(!reach, R, cons, p.InstrPos(ret), "every path that hands out an element first advances the iterator's cursor", "an element can be handed out without advancing the cursor: the same element would be yielded again (or iteration would not terminate)")
			// every counter of the iterator that this method steps (f = f +/- 1) is stepped on every element path
			steps := map[string][]ssa.Instruction{}
			eachInstr(top, func(y ssa.Instruction) {
				st, ok := y.(*ssa.Store)
				if !ok {
					return
				}
				fr, ok := asFieldAddr(st.Addr)
				if !ok || fr.Owner == nil || fr.Owner.Obj().Name() != rn || !sameValue(fr.Base, recv) {
					return
				}
				bo, ok := st.Val.(*ssa.BinOp)
				if !ok || (bo.Op != token.ADD && bo.Op != token.SUB) {
					return
				}
				if k, ok := constInt(bo.Y); !ok || k != 1 {
					return
				}
				if lf, ok := asLoadedField(bo.X); ok && lf.Field == fr.Field {
					steps[fr.Field] = append(steps[fr.Field], y)
				}
			})
			// a counter used to index the element list must be stepped on every element path even if no step is left in the method
			eachInstr(top, func(y ssa.Instruction) {
				var idx ssa.Value
				switch z := y.(type) {
				case *ssa.IndexAddr:
					idx = z.Index
				case *ssa.Index:
					idx = z.Index
				case *ssa.Call:
					if calleeName(z) == "Element" && len(callArgs(z)) == 1 {
						idx = callArgs(z)[0]
					}
				}
				if idx == nil {
					return
				}
				if lf, ok := asLoadedField(canonConv(idx)); ok && lf.Owner != nil && lf.Owner.Obj().Name() == rn && sameValue(lf.Base, recv) {
					if _, ok := steps[lf.Field]; !ok {
						steps[lf.Field] = nil
					}
				}
			})
			for fld, sites := range steps {
				S := map[ssa.Instruction]bool{}
				for _, x := range sites {
					S[x] = true
				}
				miss := false
				reachFrom(top, nil, nil, func(y ssa.Instruction) bool {
					if miss || S[y] {
						return true
					}
					// delegation to a nested iterator hands out the nested element without stepping this level
					if c, ok := y.(ssa.CallInstruction); ok {
						if g := staticCallee(c); g != nil && recvName(g) == rn && (strings.HasPrefix(g.Name(), "Next") || g.Name() == "next") {
							return true
						}
						// a private method of the same iterator that steps the counter on every success path of its own
						if g := staticCallee(c); g != nil && recvName(g) == rn && g.Pkg == p.RootSSA && len(g.Blocks) > 0 && len(g.Params) > 0 && callRecv(c) != nil && sameValue(callRecv(c), recv) {
							stepsIt := func(z ssa.Instruction) bool {
								st, ok := z.(*ssa.Store)
								if !ok {
									return false
								}
								fr, ok := asFieldAddr(st.Addr)
								if !ok || fr.Field != fld || !sameValue(fr.Base, g.Params[0]) {
									return false
								}
								bo, ok := st.Val.(*ssa.BinOp)
								if !ok || (bo.Op != token.ADD && bo.Op != token.SUB) {
									return false
								}
								k, isK := constInt(bo.Y)
								lf, isL := asLoadedField(bo.X)
								return isK && k == 1 && isL && lf.Field == fld
							}
							if successReturnAvoiding(g, nil, stepsIt) == nil {
								return true
							}
						}
					}
					if y == ssa.Instruction(ret) {
						miss = true
						return true
					}
					return false
				})
				r.Decide(!miss, R, "counter-stepped:"+p.Name(top)+":"+fld, p.InstrPos(ret), "counter "+fld+" is stepped on every path that hands out an element", "counter "+fld+" is not stepped on a path that hands out an element: elements would repeat or the remaining count would drift")
			}
		}
	}
	r.Floor(R, "element-returning exits of iterator Next methods", 10, n)
}

// I3: range requests are validated up front: start > end and bounds beyond the count are rejected.
func ruleI3(p *Prog, r *Report) {
	const R = "I3"
	n := 0
	for _, top := range p.TopFuncs() {
		if recvName(top) != "Array" || len(top.Params) < 3 {
			continue
		}
		// methods with (startIndex, endIndex uint64) that build an iterator themselves
		var start, end *ssa.Parameter
		for _, prm := range top.Params[1:] {
			if prm.Type().String() == "uint64" {
				if start == nil {
					start = prm
				} else if end == nil {
					end = prm
				}
			}
		}
		if start == nil || end == nil || !strings.Contains(top.Name(), "Range") {
			continue
		}
		// delegating wrappers are checked through their callee
		buildsIterator := false
		eachInstr(top, func(in ssa.Instruction) {
			if al, ok := in.(*ssa.Alloc); ok && strings.Contains(typeName(al.Type()), "Iterator") {
				buildsIterator = true
			}
		})
		if !buildsIterator {
			continue
		}
		n++
		name := p.Name(top)
		// private validation helpers that are handed start and end: their parameters stand for the same quantities
		alias := map[ssa.Value]*ssa.Parameter{} // helper parameter -> start / end
		var helpers []*ssa.Function
		helperCall := map[*ssa.Call]*ssa.Function{}
		eachInstr(top, func(in ssa.Instruction) {
			c, ok := in.(*ssa.Call)
			if !ok {
				return
			}
			g := c.Call.StaticCallee()
			if g == nil || g.Pkg != p.RootSSA || g.Object() == nil || g.Object().Exported() || len(g.Blocks) == 0 || !lastResultIsError(g) {
				return
			}
			gotS, gotE := false, false
			for i, a := range c.Call.Args {
				if i >= len(g.Params) {
					break
				}
				switch canonConv(a) {
				case ssa.Value(start):
					alias[g.Params[i]] = start
					gotS = true
				case ssa.Value(end):
					alias[g.Params[i]] = end
					gotE = true
				}
			}
			if gotS && gotE {
				helpers = append(helpers, g)
				helperCall[c] = g
			}
		})
		has := func(ctor string, cond func(bo *ssa.BinOp) bool) bool {
			found := false
			for _, hf := range append([]*ssa.Function{top}, helpers...) {
				eachInstr(hf, func(in ssa.Instruction) {
					c, ok := in.(*ssa.Call)
					if !ok || c.Call.StaticCallee() == nil || c.Call.StaticCallee().Name() != ctor {
						return
					}
					if controlDependsOnValue(hf, in.Block(), func(v ssa.Value) bool {
						bo, ok := v.(*ssa.BinOp)
						return ok && cond(bo)
					}) {
						found = true
					}
				})
			}
			return found
		}
		isP := func(v ssa.Value, prm *ssa.Parameter) bool {
			v = canonConv(v)
			return v == ssa.Value(prm) || alias[v] == prm
		}
		isCount := func(v ssa.Value) bool {
			c, ok := canonConv(v).(*ssa.Call)
			return ok && calleeName(c) == "Count"
		}
		// the two kinds of rejection exist and depend on comparisons of the right quantities (whatever their
		// operator shape: the exactness of the guards is decided by the case analysis below)
		involves := func(bo *ssa.BinOp, a, b func(ssa.Value) bool) bool {
			return (a(bo.X) && b(bo.Y)) || (a(bo.Y) && b(bo.X))
		}
		isStart := func(v ssa.Value) bool { return isP(v, start) }
		isEnd := func(v ssa.Value) bool { return isP(v, end) }
		orderOK := has("NewInvalidSliceIndexError", func(bo *ssa.BinOp) bool { return involves(bo, isStart, isEnd) })
		startOK := has("NewSliceOutOfBoundsError", func(bo *ssa.BinOp) bool { return involves(bo, isStart, isCount) })
		endOK := has("NewSliceOutOfBoundsError", func(bo *ssa.BinOp) bool { return involves(bo, isEnd, isCount) })
		r.Decide(orderOK, R, "range-order-rejected:"+name, p.Pos(top.Pos()), "a comparison of start and end controls an InvalidSliceIndexError", "no InvalidSliceIndexError depends on a comparison of start and end any more")
		r.Decide(startOK && endOK, R, "range-bounds-rejected:"+name, p.Pos(top.Pos()), "comparisons of start and of end with the count control a SliceOutOfBoundsError", "no SliceOutOfBoundsError depends on comparisons of both start and end with the element count any more")
		// exactness by case analysis over every ordering of (start, end, count): values 0..2 realise all of them;
		// branches that compare two of the three quantities are decided, every other branch is followed both ways.
		// A success return must be unreachable when the range is invalid and reachable when it is valid.
		{
			n++
			bad := ""
			for sv := 0; sv < 3 && bad == ""; sv++ {
				for ev := 0; ev < 3 && bad == ""; ev++ {
					for cv := 0; cv < 3 && bad == ""; cv++ {
						val := func(v ssa.Value) (int, bool) {
							v = canonConv(v)
							switch {
							case v == ssa.Value(start) || alias[v] == start:
								return sv, true
							case v == ssa.Value(end) || alias[v] == end:
								return ev, true
							case isCount(v):
								return cv, true
							}
							return 0, false
						}
						errEval := func(e ssa.Value) (bool, bool, bool) {
							e = canon(e)
							if ex, ok := e.(*ssa.Extract); ok {
								e = ex.Tuple
							}
							c, ok := e.(*ssa.Call)
							if !ok || helperCall[c] == nil {
								return false, false, false
							}
							hs, hf := orderReach(helperCall[c], val)
							return hs, hf, true
						}
						succ, _ := orderReachE(top, val, errEval)
						valid := sv <= ev && ev <= cv
						if valid && !succ {
							bad = fmt.Sprintf("the valid range start=%d end=%d count=%d is rejected", sv, ev, cv)
						}
						if !valid && succ {
							bad = fmt.Sprintf("the invalid range start=%d end=%d count=%d reaches a success return", sv, ev, cv)
						}
					}
				}
			}
			r.Decide(bad == "", R, "range-validation-exact:"+name, p.Pos(top.Pos()),
				"under every ordering of start, end and count the constructor succeeds exactly for start <= end <= count",
				"the range validation is not exact: "+bad+" (decided over all orderings of the three quantities)")
		}
		// the rejections precede the construction of the iterator
		var firstAlloc ssa.Instruction
		eachInstr(top, func(in ssa.Instruction) {
			if al, ok := in.(*ssa.Alloc); ok && strings.Contains(typeName(al.Type()), "Iterator") && firstAlloc == nil {
				firstAlloc = in
			}
		})
		_ = firstAlloc
	}
	r.Floor(R, "range iterator constructors", 2, n)
}

// I4 removal keeps the order of the remaining elements: the element lists define the enumeration order (digest
// order, insertion order of fully colliding keys, index order). In every Remove of an element list or array
// data slab no element is moved to another position by an element store (`s[i] = s[j]`, the swap-remove idiom);
// elements leave through an order-preserving deletion (slices.Delete, append of the two halves, copy-shift).
func ruleI4(p *Prog, r *Report) {
	const R = "I4"
	n := 0
	owners := map[string]string{"hkeyElements": "elems", "singleElements": "elems", "ArrayDataSlab": "elements"}
	for _, top := range p.TopFuncs() {
		fld, ok := owners[recvName(top)]
		if !ok || top.Name() != "Remove" || len(top.Params) == 0 {
			continue
		}
		n++
		recv := top.Params[0]
		var moved ssa.Instruction
		eachInstr(top, func(in ssa.Instruction) {
			st, ok := in.(*ssa.Store)
			if !ok {
				return
			}
			ia, ok := st.Addr.(*ssa.IndexAddr)
			if !ok {
				return
			}
			fr, ok := asLoadedField(ia.X)
			if !ok || fr.Field != fld || !sameValue(fr.Base, recv) {
				return
			}
			// value loaded from the same list at some index
			v := canon(st.Val)
			if u, ok := v.(*ssa.UnOp); ok && u.Op == token.MUL {
				if ia2, ok := u.X.(*ssa.IndexAddr); ok {
					if fr2, ok := asLoadedField(ia2.X); ok && fr2.Field == fld && sameValue(fr2.Base, recv) && !sameValue(ia2.Index, ia.Index) {
						moved = in
					}
				}
			}
		})
		cons := "order-preserving-removal:" + p.Name(top)
		if moved != nil {
			r.Bad(R, cons, p.InstrPos(moved), "an element is moved to another position while one is removed (swap-remove): the remaining elements are no longer enumerated in their canonical (digest / insertion / index) order")
		} else {
			r.Ok(R, cons, p.Pos(top.Pos()), "no element changes its relative position during removal")
		}
	}
	r.Floor(R, "element-list removals", 3, n)
}

// orderReach walks f's CFG deciding every branch whose condition compares two values known to `val`
// (other branches are followed both ways) and reports whether a success return / an error return is reachable.
func orderReach(f *ssa.Function, val func(ssa.Value) (int, bool)) (success, failure bool) {
	return orderReachE(f, val, nil)
}

// orderReachE: as orderReach; errEval decides tests of an error value that a private validation helper returned
// (can it be nil / non-nil under the valuation), so that a validation moved into a helper is followed.
func orderReachE(f *ssa.Function, val func(ssa.Value) (int, bool), errEval func(ev ssa.Value) (canNil, canNonNil, known bool)) (success, failure bool) {
	seen := map[*ssa.BasicBlock]bool{}
	var walk func(b *ssa.BasicBlock)
	walk = func(b *ssa.BasicBlock) {
		if seen[b] {
			return
		}
		seen[b] = true
		last := b.Instrs[len(b.Instrs)-1]
		switch x := last.(type) {
		case *ssa.Return:
			if cl, rv := classifyReturn(x); cl == retError {
				failure = true
			} else if cl == retPropagate && errEval != nil && rv != nil {
				// the helper's error handed on as it is
				if cn, cnn, known := errEval(rv); known {
					if cn {
						success = true
					}
					if cnn {
						failure = true
					}
				} else {
					success = true
				}
			} else {
				success = true
			}
			return
		case *ssa.If:
			if errEval != nil {
				if ev, nn, ok := errTestOf(x); ok {
					if cn, cnn, known := errEval(ev); known {
						if cnn {
							walk(b.Succs[nn])
						}
						if cn {
							walk(b.Succs[1-nn])
						}
						return
					}
				}
			}
			if bo, ok := x.Cond.(*ssa.BinOp); ok {
				a, ok1 := val(bo.X)
				c, ok2 := val(bo.Y)
				if ok1 && ok2 {
					var t bool
					switch bo.Op {
					case token.LSS:
						t = a < c
					case token.LEQ:
						t = a <= c
					case token.GTR:
						t = a > c
					case token.GEQ:
						t = a >= c
					case token.EQL:
						t = a == c
					case token.NEQ:
						t = a != c
					default:
						walk(b.Succs[0])
						walk(b.Succs[1])
						return
					}
					if t {
						walk(b.Succs[0])
					} else {
						walk(b.Succs[1])
					}
					return
				}
			}
		}
		for _, sc := range b.Succs {
			walk(sc)
		}
	}
	if len(f.Blocks) > 0 {
		walk(f.Blocks[0])
	}
	return
}

// orderReachFrom: like orderReach, starting at block b.
func orderReachFrom(b *ssa.BasicBlock, val func(ssa.Value) (int, bool)) (success, failure bool) {
	seen := map[*ssa.BasicBlock]bool{}
	var walk func(b *ssa.BasicBlock)
	walk = func(b *ssa.BasicBlock) {
		if seen[b] {
			return
		}
		seen[b] = true
		last := b.Instrs[len(b.Instrs)-1]
		switch x := last.(type) {
		case *ssa.Return:
			if cl, _ := classifyReturn(x); cl == retError {
				failure = true
			} else {
				success = true
			}
			return
		case *ssa.If:
			if bo, ok := x.Cond.(*ssa.BinOp); ok {
				a, ok1 := val(bo.X)
				c, ok2 := val(bo.Y)
				if ok1 && ok2 {
					t, known := false, true
					switch bo.Op {
					case token.LSS:
						t = a < c
					case token.LEQ:
						t = a <= c
					case token.GTR:
						t = a > c
					case token.GEQ:
						t = a >= c
					case token.EQL:
						t = a == c
					case token.NEQ:
						t = a != c
					default:
						known = false
					}
					if known {
						if t {
							walk(b.Succs[0])
						} else {
							walk(b.Succs[1])
						}
						return
					}
				}
			}
		}
		for _, sc := range b.Succs {
			walk(sc)
		}
	}
	walk(b)
	return
}
