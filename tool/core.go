package main

// Core: loading /repo's current working tree, SSA construction, naming,
// obligations, and report/evidence output.

import (
	"fmt"
	"go/ast"
	"go/token"
	"go/types"
	"os"
	"path/filepath"
	"sort"
	"strings"

	"golang.org/x/tools/go/callgraph"
	"golang.org/x/tools/go/callgraph/cha"
	"golang.org/x/tools/go/callgraph/vta"
	"golang.org/x/tools/go/packages"
	"golang.org/x/tools/go/ssa"
	"golang.org/x/tools/go/ssa/ssautil"
)

const rootPkgPath = "github.com/onflow/atree"

// Config of one load of the repository.
type LoadConfig struct {
	Repo    string
	Tags    string            // build tags, comma separated
	GOARCH  string            // "" = host
	Tests   bool              // also load _test.go files
	Overlay map[string][]byte // absolute file name -> replacement content
}

func (c LoadConfig) String() string {
	a := c.GOARCH
	if a == "" {
		a = "host"
	}
	t := c.Tags
	if t == "" {
		t = "none"
	}
	return fmt.Sprintf("tags=%s,goarch=%s,tests=%v", t, a, c.Tests)
}

type Prog struct {
	Cfg     LoadConfig
	Fset    *token.FileSet
	Pkgs    []*packages.Package
	Root    *packages.Package
	SSA     *ssa.Program
	RootSSA *ssa.Package
	Funcs   []*ssa.Function // all functions of the root package incl. closures, position order
	byName  map[string]*ssa.Function
	cha     *callgraph.Graph
	vta     *callgraph.Graph
	// syntactic index
	FuncDecl map[*types.Func]*ast.FuncDecl
	fileOf   map[*ast.File]string

	sum any
}

func Load(cfg LoadConfig) (*Prog, error) {
	env := os.Environ()
	// keep the caller's environment but never a workspace file
	env = append(env, "GOWORK=off", "GOFLAGS=-mod=readonly") // never let `go list` rewrite /repo/go.mod
	if cfg.GOARCH != "" {
		env = append(env, "GOARCH="+cfg.GOARCH, "CGO_ENABLED=0")
	}
	pc := &packages.Config{
		Mode:    packages.LoadAllSyntax,
		Dir:     cfg.Repo,
		Tests:   cfg.Tests,
		Env:     env,
		Overlay: cfg.Overlay,
	}
	if cfg.Tags != "" {
		pc.BuildFlags = []string{"-tags=" + cfg.Tags}
	}
	pkgs, err := packages.Load(pc, "./...")
	if err != nil {
		return nil, fmt.Errorf("packages.Load: %w", err)
	}
	if len(pkgs) == 0 {
		return nil, fmt.Errorf("no packages loaded from %s", cfg.Repo)
	}
	var errs []string
	packages.Visit(pkgs, nil, func(p *packages.Package) {
		for _, e := range p.Errors {
			errs = append(errs, e.Error())
		}
	})
	if len(errs) > 0 {
		if len(errs) > 10 {
			errs = errs[:10]
		}
		return nil, fmt.Errorf("type/load errors: %s", strings.Join(errs, "; "))
	}
	p := &Prog{Cfg: cfg, Pkgs: pkgs}
	for _, pk := range pkgs {
		// with Tests on, the root package appears as plain and as test variant; prefer
		// the variant with the most files (test variant is a superset).
		if pk.PkgPath == rootPkgPath {
			if p.Root == nil || len(pk.Syntax) > len(p.Root.Syntax) {
				p.Root = pk
			}
		}
	}
	if p.Root == nil {
		return nil, fmt.Errorf("root package %s not among %d loaded packages", rootPkgPath, len(pkgs))
	}
	p.Fset = p.Root.Fset
	prog, spkgs := ssautil.AllPackages(pkgs, ssa.InstantiateGenerics)
	prog.Build()
	p.SSA = prog
	for i, pk := range pkgs {
		if pk == p.Root {
			p.RootSSA = spkgs[i]
		}
	}
	if p.RootSSA == nil {
		return nil, fmt.Errorf("no SSA package for root")
	}
	p.byName = map[string]*ssa.Function{}
	for fn := range ssautil.AllFunctions(prog) {
		if fn.Pkg != p.RootSSA || fn.Synthetic != "" && fn.Syntax() == nil {
			continue
		}
		if fn.Blocks == nil {
			continue
		}
		p.Funcs = append(p.Funcs, fn)
		p.byName[p.Name(fn)] = fn
	}
	sort.Slice(p.Funcs, func(i, j int) bool {
		pi, pj := p.Fset.Position(p.Funcs[i].Pos()), p.Fset.Position(p.Funcs[j].Pos())
		if pi.Filename != pj.Filename {
			return pi.Filename < pj.Filename
		}
		if pi.Offset != pj.Offset {
			return pi.Offset < pj.Offset
		}
		return p.Name(p.Funcs[i]) < p.Name(p.Funcs[j])
	})
	p.FuncDecl = map[*types.Func]*ast.FuncDecl{}
	for _, f := range p.Root.Syntax {
		for _, d := range f.Decls {
			if fd, ok := d.(*ast.FuncDecl); ok {
				if o, ok := p.Root.TypesInfo.Defs[fd.Name].(*types.Func); ok {
					p.FuncDecl[o] = fd
				}
			}
		}
	}
	return p, nil
}

// Name is the package-relative name of a function: "(*Array).Set", "storeSlab",
// "(*PersistentSlabStorage).FastCommit$1".
func (p *Prog) Name(fn *ssa.Function) string {
	if fn == nil {
		return "<nil>"
	}
	return fn.RelString(p.RootSSA.Pkg)
}

func (p *Prog) Func(name string) *ssa.Function { return p.byName[name] }

// TopLevel returns the outermost enclosing declared function of fn.
func TopLevel(fn *ssa.Function) *ssa.Function {
	for fn.Parent() != nil {
		fn = fn.Parent()
	}
	return fn
}

func (p *Prog) IsTestFile(pos token.Pos) bool {
	return strings.HasSuffix(p.Fset.Position(pos).Filename, "_test.go")
}

func (p *Prog) FileBase(pos token.Pos) string {
	return filepath.Base(p.Fset.Position(pos).Filename)
}

func (p *Prog) Pos(pos token.Pos) string {
	if !pos.IsValid() {
		return "-"
	}
	ps := p.Fset.Position(pos)
	return fmt.Sprintf("%s:%d", filepath.Base(ps.Filename), ps.Line)
}

// InstrPos gives the best known position for an instruction (falls back to
// neighbours in the block, then the function).
func (p *Prog) InstrPos(in ssa.Instruction) string {
	if in == nil {
		return "-"
	}
	if in.Pos().IsValid() {
		return p.Pos(in.Pos())
	}
	if v, ok := in.(ssa.Value); ok {
		_ = v
	}
	b := in.Block()
	if b != nil {
		idx := -1
		for i, x := range b.Instrs {
			if x == in {
				idx = i
			}
		}
		for d := 1; d < len(b.Instrs); d++ {
			for _, j := range []int{idx - d, idx + d} {
				if j >= 0 && j < len(b.Instrs) && b.Instrs[j].Pos().IsValid() {
					return p.Pos(b.Instrs[j].Pos()) + "~"
				}
			}
		}
		return p.Pos(b.Parent().Pos()) + "~"
	}
	return "-"
}

// LookupType finds a named type in the root package; nil if absent.
func (p *Prog) LookupType(name string) *types.Named {
	o := p.Root.Types.Scope().Lookup(name)
	if o == nil {
		return nil
	}
	tn, ok := o.(*types.TypeName)
	if !ok {
		return nil
	}
	n, _ := tn.Type().(*types.Named)
	return n
}

// IfaceMethod finds method m of the in-package interface iface.
func (p *Prog) IfaceMethod(iface, m string) *types.Func {
	n := p.LookupType(iface)
	if n == nil {
		return nil
	}
	it, ok := n.Underlying().(*types.Interface)
	if !ok {
		return nil
	}
	for i := 0; i < it.NumMethods(); i++ {
		if it.Method(i).Name() == m {
			return it.Method(i)
		}
	}
	return nil
}

// Method finds the declared method (pointer or value receiver) of a named type.
func (p *Prog) Method(typ, m string) *ssa.Function {
	n := p.LookupType(typ)
	if n == nil {
		return nil
	}
	for _, t := range []types.Type{types.NewPointer(n), n} {
		ms := p.SSA.MethodSets.MethodSet(t)
		for i := 0; i < ms.Len(); i++ {
			if ms.At(i).Obj().Name() == m {
				fn := p.SSA.MethodValue(ms.At(i))
				if fn != nil && fn.Synthetic == "" {
					return fn
				}
				if fn != nil {
					// wrapper: find the declared one
					if f, ok := ms.At(i).Obj().(*types.Func); ok {
						if d := p.SSA.FuncValue(f); d != nil {
							return d
						}
					}
				}
			}
		}
	}
	return nil
}

func (p *Prog) PkgFunc(name string) *ssa.Function {
	return p.RootSSA.Func(name)
}

func (p *Prog) CHA() *callgraph.Graph {
	if p.cha == nil {
		p.cha = cha.CallGraph(p.SSA)
	}
	return p.cha
}

func (p *Prog) VTA() *callgraph.Graph {
	if p.vta == nil {
		p.vta = vta.CallGraph(ssautil.AllFunctions(p.SSA), p.CHA())
	}
	return p.vta
}

// ---------------------------------------------------------------------------
// Obligations and report

type Verdict int

const (
	OK Verdict = iota
	Violated
	Undecided
)

func (v Verdict) String() string {
	switch v {
	case OK:
		return "discharged"
	case Violated:
		return "violated"
	}
	return "undecided"
}

type Obligation struct {
	Rule      string  `json:"rule"`
	Key       string  `json:"key"` // rule + construct, no line numbers
	Pos       string  `json:"pos"`
	Verdict   Verdict `json:"-"`
	VerdictS  string  `json:"verdict"`
	Detail    string  `json:"detail,omitempty"`
	NonTriv   bool    `json:"-"`
	Known     bool    `json:"known_finding,omitempty"`
	ConfigTag string  `json:"config,omitempty"`
}

type Floor struct {
	Rule   string `json:"rule"`
	What   string `json:"what"`
	Min    int    `json:"min"`
	Actual int    `json:"actual"`
}

type Report struct {
	Obls         []*Obligation
	Floors       []Floor
	Observations []string
	seen         map[string]bool
	curRule      string
}

func NewReport() *Report { return &Report{seen: map[string]bool{}} }

func (r *Report) add(rule, construct, pos string, v Verdict, detail string, nontriv bool) *Obligation {
	key := rule + ":" + construct
	k := key
	for i := 2; r.seen[k]; i++ {
		k = fmt.Sprintf("%s#%d", key, i)
	}
	r.seen[k] = true
	o := &Obligation{Rule: rule, Key: k, Pos: pos, Verdict: v, VerdictS: v.String(), Detail: detail, NonTriv: nontriv}
	r.Obls = append(r.Obls, o)
	return o
}

// Ok / Bad / Unk record one decided obligation.
func (r *Report) Ok(rule, construct, pos, detail string) {
	r.add(rule, construct, pos, OK, detail, true)
}
func (r *Report) Bad(rule, construct, pos, detail string) {
	r.add(rule, construct, pos, Violated, detail, true)
}
func (r *Report) Unk(rule, construct, pos, detail string) {
	r.add(rule, construct, pos, Undecided, detail, true)
}
func (r *Report) Decide(ok bool, rule, construct, pos, okDetail, badDetail string) {
	if ok {
		r.Ok(rule, construct, pos, okDetail)
	} else {
		r.Bad(rule, construct, pos, badDetail)
	}
}

// Floor records a minimum instance count; below the floor is a violation of
// the rule (a rule that matches nothing passes vacuously forever).
func (r *Report) Floor(rule, what string, min, actual int) {
	r.Floors = append(r.Floors, Floor{rule, what, min, actual})
	if actual < min {
		r.add(rule, "floor:"+what, "-", Undecided,
			fmt.Sprintf("rule matched %d instance(s) of %q, fewer than the %d confirmed by reading: anchors not found, the rule would pass vacuously", actual, what, min), true)
	}
}

func (r *Report) Observe(s string) { r.Observations = append(r.Observations, s) }

func (r *Report) CountRule(rule string) int {
	n := 0
	for _, o := range r.Obls {
		if o.Rule == rule {
			n++
		}
	}
	return n
}
