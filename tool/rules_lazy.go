package main

// K4 a lazily computed field is read only behind its fill.
//
// The default digester computes the second hash (levels 1-3) on first use: the field
// that caches it is compared with its empty value and filled when empty, then read. A
// read of the cached words that is not preceded by that test returns the empty value
// when the first request is for a deeper level - which happens: a collision group built
// at level 1 asks a fresh digester directly for level 2. Obligation, per field with a
// lazy fill (a method compares it with an empty value and stores into it on the equal
// edge): every other read of the field in the methods of the type is dominated by the
// block of such a test in the same function (or sits in the fill itself, or in a method
// that overwrites the field wholesale).

import (
	"fmt"
	"go/token"
	"go/types"

	"golang.org/x/tools/go/ssa"
)

func ruleK4(p *Prog, r *Report) {
	const R = "K4"
	type lazyField struct {
		owner string
		field string
	}
	// field address rooted at a field of the receiver: returns owner type and field name
	fieldOfAddr := func(a ssa.Value) (fieldRef, bool) {
		for d := 0; d < 4; d++ {
			switch x := a.(type) {
			case *ssa.IndexAddr:
				a = x.X
				continue
			case *ssa.FieldAddr:
				return asFieldAddr(x)
			}
			break
		}
		return fieldRef{}, false
	}
	isTest := func(ifi *ssa.If) (fieldRef, int, bool) {
		bo, ok := ifi.Cond.(*ssa.BinOp)
		if !ok || (bo.Op != token.EQL && bo.Op != token.NEQ) {
			return fieldRef{}, 0, false
		}
		for _, pr := range [][2]ssa.Value{{bo.X, bo.Y}, {bo.Y, bo.X}} {
			fr, ok := asLoadedField(pr[0])
			if !ok || fr.Owner == nil {
				continue
			}
			// value caches only (an array of words compared with its empty value); lazily created maps,
			// iterators and extra data are objects whose readers test for nil themselves
			if _, isArr := fieldType(fr).Underlying().(*types.Array); !isArr {
				continue
			}
			other := canon(pr[1])
			emptyish := isNilConst(other)
			if u, ok := other.(*ssa.UnOp); ok && u.Op == token.MUL {
				if _, isG := u.X.(*ssa.Global); isG {
					emptyish = true
				}
			}
			if c, ok := other.(*ssa.Const); ok && c.Value == nil {
				emptyish = true
			}
			if !emptyish {
				continue
			}
			eq := 0
			if bo.Op == token.NEQ {
				eq = 1
			}
			return fr, eq, true
		}
		return fieldRef{}, 0, false
	}
	lazy := map[lazyField]bool{}
	fillFuncs := map[*ssa.Function]lazyField{} // methods that test the field and fill it when empty
	fillBlocks := map[*ssa.BasicBlock]bool{}
	for _, f := range p.TopFuncs() {
		if p.IsTestFile(f.Pos()) || f.Signature.Recv() == nil {
			continue
		}
		for _, b := range f.Blocks {
			ifi, ok := b.Instrs[len(b.Instrs)-1].(*ssa.If)
			if !ok {
				continue
			}
			fr, eq, ok := isTest(ifi)
			if !ok || !sameValue(fr.Base, f.Params[0]) {
				continue
			}
			// stores into the field on the equal edge
			fills := false
			for _, fb := range f.Blocks {
				if !edgeDominates(b, eq, fb) {
					continue
				}
				for _, in := range fb.Instrs {
					if st, ok := in.(*ssa.Store); ok {
						if w, ok := fieldOfAddr(st.Addr); ok && w.Field == fr.Field && w.Owner == fr.Owner {
							fills = true
							fillBlocks[fb] = true
						}
					}
				}
			}
			if fills {
				lazy[lazyField{fr.Owner.Obj().Name(), fr.Field}] = true
				fillFuncs[f] = lazyField{fr.Owner.Obj().Name(), fr.Field}
			}
		}
	}
	n := 0
	count := map[string]int{}
	for _, f := range p.TopFuncs() {
		if p.IsTestFile(f.Pos()) || f.Signature.Recv() == nil {
			continue
		}
		// a method that overwrites the field wholesale (Reset) is not a reader
		eachInstr(f, func(in ssa.Instruction) {
			u, ok := in.(*ssa.UnOp)
			if !ok || u.Op != token.MUL {
				return
			}
			fr, ok := fieldOfAddr(u.X)
			if !ok || fr.Owner == nil || !lazy[lazyField{fr.Owner.Obj().Name(), fr.Field}] || !sameValue(fr.Base, f.Params[0]) {
				return
			}
			// the load that feeds a test of the field itself
			isTestLoad := false
			if u.Referrers() != nil {
				for _, ref := range *u.Referrers() {
					if bo, ok := ref.(*ssa.BinOp); ok && (bo.Op == token.EQL || bo.Op == token.NEQ) {
						isTestLoad = true
					}
				}
			}
			if isTestLoad || fillBlocks[in.Block()] {
				return
			}
			n++
			count[p.Name(f)]++
			cons := fmt.Sprintf("lazy-read-behind-fill:%s:%s#%d", p.Name(f), fr.Field, count[p.Name(f)])
			guarded := false
			for _, b := range f.Blocks {
				ifi, ok := b.Instrs[len(b.Instrs)-1].(*ssa.If)
				if !ok {
					continue
				}
				tf, _, ok := isTest(ifi)
				if ok && tf.Field == fr.Field && tf.Owner == fr.Owner && b.Dominates(in.Block()) && b != in.Block() {
					guarded = true
				}
			}
			// ... or by a call of the method that tests and fills it (a compute-if-needed helper)
			for _, b := range f.Blocks {
				for _, y := range b.Instrs {
					c, ok := y.(*ssa.Call)
					if !ok || c.Call.StaticCallee() == nil {
						continue
					}
					lf, isFill := fillFuncs[c.Call.StaticCallee()]
					if !isFill || lf.field != fr.Field || lf.owner != fr.Owner.Obj().Name() || len(c.Call.Args) == 0 || !sameValue(c.Call.Args[0], f.Params[0]) {
						continue
					}
					if (b == in.Block() && instrDominates(y, in)) || (b != in.Block() && b.Dominates(in.Block())) {
						guarded = true
					}
				}
			}
			r.Decide(guarded, R, cons, p.InstrPos(in), "the cached field is read after the test that fills it when empty",
				"the lazily computed field "+fr.Field+" is read on a path that does not pass the test that fills it when it is still empty: the first request that takes this path gets the empty value (a fresh digester asked directly for a deeper level answers 0, so a resident key is filed under a digest that later lookups do not compute)")
		})
	}
	r.Floor(R, "reads of lazily filled fields", 1, n)
}

// X11 a memoised derivative is dropped when its source changes.
//
// Where a method fills a field M of an object lazily (`if x.M == zero { x.M = f(x.F) }`) from another field F of the
// same object, M is a cache of F. Every other place that assigns F of an existing object must reset M in the same
// function - otherwise the object keeps answering from the old F (a map whose type was changed is still written
// with the encoding of its old type).
func ruleX11(p *Prog, r *Report) {
	const R = "X11"
	type memo struct{ owner, m, f string }
	var memos []memo
	for _, g := range p.TopFuncs() {
		if p.IsTestFile(g.Pos()) || g.Signature.Recv() == nil || len(g.Params) == 0 {
			continue
		}
		for _, b := range g.Blocks {
			ifi, ok := b.Instrs[len(b.Instrs)-1].(*ssa.If)
			if !ok {
				continue
			}
			bo, ok := ifi.Cond.(*ssa.BinOp)
			if !ok || (bo.Op != token.EQL && bo.Op != token.NEQ) {
				continue
			}
			var mf fieldRef
			found := false
			for _, pr := range [][2]ssa.Value{{bo.X, bo.Y}, {bo.Y, bo.X}} {
				subject := pr[0]
				if a, isLen := isLenOf(subject); isLen {
					subject = a // len(x.M) == 0
				}
				fr, ok := asLoadedField(subject)
				if !ok || fr.Owner == nil || !sameValue(fr.Base, g.Params[0]) {
					continue
				}
				c, isC := canon(pr[1]).(*ssa.Const)
				if !isC {
					continue
				}
				zero := c.Value == nil || c.Value.String() == `""` || c.Value.String() == "0"
				if zero {
					mf, found = fr, true
				}
			}
			if !found {
				continue
			}
			eq := 0
			if bo.Op == token.NEQ {
				eq = 1
			}
			for _, fb := range g.Blocks {
				if !edgeDominates(b, eq, fb) {
					continue
				}
				for _, in := range fb.Instrs {
					st, ok := in.(*ssa.Store)
					if !ok {
						continue
					}
					w, ok := asFieldAddr(st.Addr)
					if !ok || w.Field != mf.Field || w.Owner != mf.Owner || !sameValue(w.Base, g.Params[0]) {
						continue
					}
					// sources: other fields of the receiver the stored value derives from
					sliceContains(st.Val, func(v ssa.Value) bool {
						if src, ok := asLoadedField(v); ok && src.Owner == mf.Owner && src.Field != mf.Field && sameValue(src.Base, g.Params[0]) {
							memos = append(memos, memo{mf.Owner.Obj().Name(), mf.Field, src.Field})
						}
						return false
					}, 0, map[ssa.Value]bool{})
				}
			}
		}
	}
	n := 0
	seen := map[string]bool{}
	for _, mm := range memos {
		key := mm.owner + "." + mm.m + "<-" + mm.f
		if seen[key] {
			continue
		}
		seen[key] = true
		for _, f := range p.TopFuncs() {
			if p.IsTestFile(f.Pos()) {
				continue
			}
			writesF, resetsM := ssa.Instruction(nil), false
			eachInstr(f, func(in ssa.Instruction) {
				st, ok := in.(*ssa.Store)
				if !ok {
					return
				}
				w, ok := asFieldAddr(st.Addr)
				if !ok || w.Owner == nil || w.Owner.Obj().Name() != mm.owner || isFreshBase(w.Base) {
					return
				}
				if w.Field == mm.f {
					writesF = in
				}
				if w.Field == mm.m {
					resetsM = true
				}
			})
			if writesF == nil {
				continue
			}
			n++
			r.Decide(resetsM, R, "memo-invalidated:"+key+":"+p.Name(f), p.InstrPos(writesF),
				"the cached derivative is reset where its source is assigned",
				"field "+mm.f+" of "+mm.owner+" is assigned here but the field "+mm.m+", which another method fills lazily from it, is not reset: the object keeps answering from the old "+mm.f+" (an encoding of the previous type is written for a map whose type was changed)")
		}
	}
	r.Ok(R, "memo-pairs", "-", fmt.Sprintf("%d lazily filled field(s) derived from another field of the same object; %d assignments of their sources", len(seen), n))
}
