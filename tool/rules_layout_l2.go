package main

// L2 decoder prefix = in-memory prefix: the constant part of the size a decoder assigns to a slab,
// evaluated per state (root / non-root / inlined), equals what getPrefixSize() returns for that state.

import (
	"go/types"
	"fmt"
	"go/token"

	"golang.org/x/tools/go/ssa"
)

type stateAssume struct {
	root, inlined bool
}

// condUnder: value of a branch condition under the state assumption; ok=false if unrelated.
func condUnder(cond ssa.Value, st stateAssume) (val bool, ok bool) {
	neg := false
	c := cond
	if u, isU := c.(*ssa.UnOp); isU && u.Op == token.NOT {
		c, neg = u.X, true
	}
	c = canon(c)
	res := func(b bool) (bool, bool) {
		if neg {
			return !b, true
		}
		return b, true
	}
	if call, isC := c.(*ssa.Call); isC {
		switch calleeName(call) {
		case "isRoot":
			return res(st.root)
		case "Inlined":
			return res(st.inlined)
		}
	}
	if fr, isF := asLoadedField(c); isF && fr.Field == "inlined" {
		return res(st.inlined)
	}
	// a boolean (parameter or local) that the function stores into an `inlined` field: it *is* the inlined state of
	// the object being built (a private constructor `newEmpty...(id, extraData, inlined)`)
	if b, isB := c.Type().Underlying().(*types.Basic); isB && b.Kind() == types.Bool {
		var fn *ssa.Function
		switch x := c.(type) {
		case *ssa.Parameter:
			fn = x.Parent()
		case ssa.Instruction:
			fn = x.Parent()
		}
		if fn != nil {
			init := false
			eachInstr(fn, func(in ssa.Instruction) {
				if stv, ok := in.(*ssa.Store); ok {
					if fr, ok := asFieldAddr(stv.Addr); ok && fr.Field == "inlined" && canon(stv.Val) == c {
						init = true
					}
				}
			})
			if init {
				return res(st.inlined)
			}
		}
	}
	if bo, isB := c.(*ssa.BinOp); isB && (bo.Op == token.NEQ || bo.Op == token.EQL) {
		for _, pr := range [][2]ssa.Value{{bo.X, bo.Y}, {bo.Y, bo.X}} {
			if fr, isF := asLoadedField(pr[0]); isF && fr.Field == "extraData" && isNilConst(pr[1]) {
				b := st.root
				if bo.Op == token.EQL {
					b = !b
				}
				return res(b)
			}
		}
	}
	return false, false
}

// constPart evaluates the state-dependent constant part of an integer expression; calls and loads count 0.
func constPart(v ssa.Value, st stateAssume, depth int, seen map[ssa.Value]bool) (int64, bool) {
	return constPartH(v, st, depth, seen, nil)
}

// constPartH: as constPart, with a hook deciding the constant contributed by a call (ok=false: not handled).
func constPartH(v ssa.Value, st stateAssume, depth int, seen map[ssa.Value]bool, hook func(ssa.Value) (int64, bool)) (int64, bool) {
	if depth > 30 {
		return 0, false
	}
	v = canonConv(v)
	if hook != nil {
		if k, ok := hook(v); ok {
			return k, true
		}
	}
	if k, ok := constInt(v); ok {
		return k, true
	}
	switch x := v.(type) {
	case *ssa.BinOp:
		if x.Op == token.MUL {
			// count * per-entry constant: a variable term
			_, cx := canonConv(x.X).(*ssa.Const)
			_, cy := canonConv(x.Y).(*ssa.Const)
			if cx != cy {
				return 0, true
			}
		}
		a, ok1 := constPartH(x.X, st, depth+1, seen, hook)
		b, ok2 := constPartH(x.Y, st, depth+1, seen, hook)
		if !ok1 || !ok2 {
			return 0, false
		}
		switch x.Op {
		case token.ADD:
			return a + b, true
		case token.SUB:
			return a - b, true
		case token.MUL:
			return a * b, true
		}
		return 0, false
	case *ssa.Extract:
		if c, ok := x.Tuple.(*ssa.Call); ok {
			if k, ok := spliceCallee(c, x.Index, st, depth, hook); ok {
				return k, true
			}
		}
		if c, ok := x.Tuple.(*ssa.Call); ok && x.Index == 0 {
			nm := calleeName(c)
			if nm == "safeAdd2Uint32" || nm == "safeAdd3Uint32" {
				sum := int64(0)
				for _, a := range c.Call.Args {
					k, ok := constPartH(a, st, depth+1, seen, hook)
					if !ok {
						return 0, false
					}
					sum += k
				}
				return sum, true
			}
		}
		return 0, true
	case *ssa.Parameter:
		return 0, true // a caller-supplied amount: variable part
	case *ssa.Call:
		if k, ok := spliceCallee(x, 0, st, depth, hook); ok {
			return k, true
		}
		return 0, true // Size(), ByteSize(): the variable part
	case *ssa.UnOp:
		return 0, true
	case *ssa.Phi:
		if seen[x] {
			return 0, true
		}
		seen[x] = true
		// loop accumulator: take the entry edge; state branch: take the edge selected by the assumption
		hb := x.Block()
		for i, e := range x.Edges {
			pred := hb.Preds[i]
			if hb.Dominates(pred) {
				continue // back edge: adds variable parts only
			}
			// is the edge pred->hb taken under the assumption?
			feasible := true
			for d := pred; d != nil; d = d.Idom() {
				ifi, ok := d.Instrs[len(d.Instrs)-1].(*ssa.If)
				if !ok {
					continue
				}
				val, rel := condUnder(ifi.Cond, st)
				if !rel {
					continue
				}
				if len(d.Succs) != 2 {
					continue
				}
				if d == pred {
					// the edge pred -> phi block itself
					if d.Succs[0] == hb && d.Succs[1] != hb && !val {
						feasible = false
					}
					if d.Succs[1] == hb && d.Succs[0] != hb && val {
						feasible = false
					}
					continue
				}
				// pred lies strictly inside one branch of d
				if edgeDominates(d, 0, pred) && !val {
					feasible = false
				}
				if edgeDominates(d, 1, pred) && val {
					feasible = false
				}
			}
			if !feasible {
				continue
			}
			return constPartH(e, st, depth+1, seen, hook)
		}
		return 0, false
	}
	return 0, false
}

// spliceCallee: the constant part of result #idx of a call to a private helper of the package (a size computation
// that was extracted into its own function): the helper's success returns are evaluated with its parameters bound
// to the constant parts of the actual arguments; all of them must agree. Size accessors (Size, ByteSize, Count,
// getPrefixSize) are not spliced: they are the variable part / handled by the caller's hook.
func spliceCallee(c *ssa.Call, idx int, st stateAssume, depth int, hook func(ssa.Value) (int64, bool)) (int64, bool) {
	g := c.Call.StaticCallee()
	if g == nil || g.Pkg == nil || g.Pkg.Pkg.Path() != rootPkgPath || len(g.Blocks) == 0 || depth > 12 {
		return 0, false
	}
	switch g.Name() {
	case "Size", "ByteSize", "Count", "getPrefixSize", "safeAdd2Uint32", "safeAdd3Uint32":
		return 0, false
	}
	if g.Object() != nil && g.Object().Exported() {
		return 0, false
	}
	res := g.Signature.Results()
	if idx >= res.Len() {
		return 0, false
	}
	if b, ok := res.At(idx).Type().Underlying().(*types.Basic); !ok || b.Info()&types.IsInteger == 0 {
		return 0, false
	}
	args := c.Call.Args
	inner := func(v ssa.Value) (int64, bool) {
		if prm, ok := v.(*ssa.Parameter); ok && prm.Parent() == g {
			for i, q := range g.Params {
				if q == prm && i < len(args) {
					return constPartH(args[i], st, depth+1, map[ssa.Value]bool{}, hook)
				}
			}
		}
		if hook != nil {
			return hook(v)
		}
		return 0, false
	}
	// a return that lies on a branch which the assumed state rules out - the branch condition being a boolean
	// parameter whose argument is a state test (isRoot(), the inlined flag) - does not count
	feasible := func(rb *ssa.BasicBlock) bool {
		for d := rb.Idom(); d != nil; d = d.Idom() {
			ifi, ok := d.Instrs[len(d.Instrs)-1].(*ssa.If)
			if !ok || len(d.Succs) != 2 {
				continue
			}
			cnd := ifi.Cond
			neg := false
			if u, isU := cnd.(*ssa.UnOp); isU && u.Op == token.NOT {
				cnd, neg = u.X, true
			}
			prm, isPrm := canon(cnd).(*ssa.Parameter)
			if !isPrm || prm.Parent() != g {
				continue
			}
			var arg ssa.Value
			for i, q := range g.Params {
				if q == prm && i < len(args) {
					arg = args[i]
				}
			}
			if arg == nil {
				continue
			}
			val, rel := condUnder(arg, st)
			if !rel {
				continue
			}
			if neg {
				val = !val
			}
			if edgeDominates(d, 0, rb) && !val {
				return false
			}
			if edgeDominates(d, 1, rb) && val {
				return false
			}
		}
		return true
	}
	have := false
	var val int64
	for _, ret := range returnsOf(g) {
		if cl, _ := classifyReturn(ret); cl == retError {
			continue
		}
		if !feasible(ret.Block()) {
			continue
		}
		if idx >= len(ret.Results) {
			return 0, false
		}
		k, ok := constPartH(ret.Results[idx], st, depth+1, map[ssa.Value]bool{}, inner)
		if !ok {
			return 0, false
		}
		if have && k != val {
			return 0, false
		}
		have, val = true, k
	}
	return val, have
}

func ruleL2(p *Prog, r *Report) {
	const R = "L2"
	scope, _ := p.decodeScope()
	expected := p.expectedPrefix
	n := 0
	for _, f := range sortedFuncs(p, scope) {
		eachInstr(f, func(in ssa.Instruction) {
			al, ok := in.(*ssa.Alloc)
			if !ok {
				return
			}
			nt := rootNamed(al.Type())
			if nt == nil || !slabStructs[nt.Obj().Name()] || nt.Obj().Name() == "StorableSlab" {
				return
			}
			tn := nt.Obj().Name()
			sizeV := litField(f, al, "header", "size")
			if sizeV == nil {
				return
			}
			inl := litField(f, al, "inlined")
			isInlined := false
			if inl != nil {
				if c, ok := inl.(*ssa.Const); ok && c.Value != nil && c.Value.String() == "true" {
					isInlined = true
				}
			}
			var states []stateAssume
			if isInlined {
				states = []stateAssume{{root: true, inlined: true}}
			} else {
				states = []stateAssume{{root: true}, {root: false}}
			}
			for _, st := range states {
				n++
				cons := fmt.Sprintf("decoded-prefix:%s:%s:root=%v,inlined=%v", p.Name(f), tn, st.root, st.inlined)
				got, ok1 := constPartTop(sizeV, st)
				want, ok2 := int64(0), true
				switch tn {
				case "ArrayDataSlab", "MapDataSlab":
					want, ok2 = expected(tn, st)
				case "ArrayMetaDataSlab":
					want, ok2 = p.constVal("arrayMetaDataSlabPrefixSize")
				case "MapMetaDataSlab":
					want, ok2 = p.constVal("mapMetaDataSlabPrefixSize")
				}
				if !ok1 || !ok2 {
					r.Unk(R, cons, p.InstrPos(in), "size expression or getPrefixSize outside the evaluator's vocabulary")
					continue
				}
				// map data slabs: elements.Size() already contains the element-list prefix; nothing to add
				r.Decide(got == want, R, cons, p.InstrPos(in), fmt.Sprintf("decoder starts the size from %d = in-memory prefix for this state", got),
					fmt.Sprintf("decoder computes the size from a constant part of %d but the in-memory slab in this state uses prefix %d: a reloaded slab would report a different size than the one that was stored", got, want))
			}
		})
	}
	r.Floor(R, "decoded slab literals x states", 10, n)
}

func constPartTop(v ssa.Value, st stateAssume) (int64, bool) {
	return constPart(v, st, 0, map[ssa.Value]bool{})
}

// L11 decoded-field coverage: every slab literal built by a decoder initialises every field the in-memory
// code maintains for that state (standalone: all but `inlined`; inlined: header, elements, extraData, inlined).
func ruleL11(p *Prog, r *Report) {
	const R = "L11"
	scope, _ := p.decodeScope()
	required := map[string]map[bool][]string{
		"ArrayDataSlab":     {false: {"next", "header.slabID", "header.size", "header.count", "elements", "extraData"}, true: {"header.slabID", "header.size", "header.count", "elements", "extraData", "inlined"}},
		"MapDataSlab":       {false: {"next", "header.slabID", "header.size", "header.firstKey", "elements", "extraData", "anySize", "collisionGroup"}, true: {"header.slabID", "header.size", "header.firstKey", "elements", "extraData", "inlined"}},
		"ArrayMetaDataSlab": {false: {"header.slabID", "header.size", "header.count", "childrenHeaders", "childrenCountSum", "extraData"}},
		"MapMetaDataSlab":   {false: {"header.slabID", "header.size", "header.firstKey", "childrenHeaders", "extraData"}},
		"StorableSlab":      {false: {"slabID", "storable"}},
	}
	n := 0
	for _, f := range sortedFuncs(p, scope) {
		eachInstr(f, func(in ssa.Instruction) {
			al, ok := in.(*ssa.Alloc)
			if !ok {
				return
			}
			nt := rootNamed(al.Type())
			if nt == nil || required[nt.Obj().Name()] == nil {
				return
			}
			// skip parameter spills / value receivers
			for _, ref := range *al.Referrers() {
				if st, ok := ref.(*ssa.Store); ok && st.Addr == ssa.Value(al) {
					if _, isP := st.Val.(*ssa.Parameter); isP {
						return
					}
				}
			}
			inl := false
			if v := litField(f, al, "inlined"); v != nil {
				if c, ok := v.(*ssa.Const); ok && c.Value != nil && c.Value.String() == "true" {
					inl = true
				}
			}
			need := required[nt.Obj().Name()][inl]
			if need == nil {
				return
			}
			n++
			var missing []string
			for _, path := range need {
				parts := splitDot(path)
				if litField(f, al, parts...) == nil {
					missing = append(missing, path)
				}
			}
			cons := fmt.Sprintf("decoded-fields:%s:%s:inlined=%v", p.Name(f), nt.Obj().Name(), inl)
			r.Decide(len(missing) == 0, R, cons, p.InstrPos(in), fmt.Sprintf("all %d maintained fields are restored by the decoder", len(need)),
				"the decoder does not restore field(s) "+fmt.Sprint(missing)+": a slab reloaded from the ledger would differ from the in-memory slab that was stored")
		})
	}
	r.Floor(R, "slab literals in decoders", 8, n)
}

func splitDot(s string) []string {
	var out []string
	cur := ""
	for _, ch := range s {
		if ch == '.' {
			out = append(out, cur)
			cur = ""
		} else {
			cur += string(ch)
		}
	}
	return append(out, cur)
}

// expectedPrefix: what getPrefixSize() of the data slab type returns under the state assumption.
func (p *Prog) expectedPrefix(tn string, st stateAssume) (int64, bool) {
	g := p.Method(tn, "getPrefixSize")
	if g == nil {
		return 0, false
	}
	// walk from entry following the assumption
	b := g.Blocks[0]
	for steps := 0; steps < 20; steps++ {
		last := b.Instrs[len(b.Instrs)-1]
		switch x := last.(type) {
		case *ssa.Return:
			return constPartTop(x.Results[0], st)
		case *ssa.If:
			val, rel := condUnder(x.Cond, st)
			if !rel {
				return 0, false
			}
			if val {
				b = b.Succs[0]
			} else {
				b = b.Succs[1]
			}
		case *ssa.Jump:
			b = b.Succs[0]
		default:
			return 0, false
		}
	}
	return 0, false
}
