package main

// C. Determinism: D1 map-range classification, D2 ambient nondeterminism, D3 seed purity, D4 pools.

import (
	"fmt"
	"go/ast"
	"go/token"
	"go/types"
	"sort"
	"strconv"
	"strings"

	"golang.org/x/tools/go/ssa"
)

// loopBlocks returns the natural loop of header h (blocks dominated by h that can reach a back edge to h).
func loopBlocks(h *ssa.BasicBlock) map[*ssa.BasicBlock]bool {
	out := map[*ssa.BasicBlock]bool{h: true}
	var stack []*ssa.BasicBlock
	for _, t := range h.Preds {
		if h.Dominates(t) {
			stack = append(stack, t)
		}
	}
	for len(stack) > 0 {
		b := stack[len(stack)-1]
		stack = stack[:len(stack)-1]
		if out[b] {
			continue
		}
		out[b] = true
		for _, pr := range b.Preds {
			if !out[pr] {
				stack = append(stack, pr)
			}
		}
	}
	return out
}

// relaxedByContract: entry points whose iteration order is explicitly not part of the ledger-determinism contract.
func relaxedByContract(p *Prog, f *ssa.Function) (bool, string) {
	name := p.Name(f)
	switch {
	case recvName(f) == "BasicSlabStorage":
		return true, "BasicSlabStorage is the in-memory test storage; it never writes a ledger"
	case strings.HasSuffix(name, ").SlabIterator"):
		return true, "SlabIterator enumerates slabs for diagnostics/migrations; order is unspecified by contract"
	case recvName(f) == storageT && isCommitEntry(f) && containsFold(f.Name(), "nondeterministic"):
		return true, "the explicitly order-relaxed commit"
	case f.Name() == "CheckStorageHealth" && f.Signature.Recv() == nil:
		return true, "health-check diagnostic; picks any unreachable slab for its error message"
	}
	return false, ""
}

// determinismRoots: everything exported or dynamically reachable, except the relaxed entry points.
func determinismScope(p *Prog) map[*ssa.Function]bool {
	var roots []*ssa.Function
	for _, f := range p.TopFuncs() {
		if ok, _ := relaxedByContract(p, f); ok {
			continue
		}
		if isExportedAPI(f) || implementsAnyRootIface(p, f) || f.Name() == "init" {
			roots = append(roots, f)
		}
	}
	return p.ReachableFrom(roots, func(f *ssa.Function) bool {
		ok, _ := relaxedByContract(p, f)
		return !ok
	})
}

// D1 map-range classification.
func ruleD1(p *Prog, r *Report) {
	const R = "D1"
	scope := determinismScope(p)
	n, nClassified := 0, 0
	for _, top := range p.TopFuncs() {
		eachInstrDeep(top, func(fn *ssa.Function, in ssa.Instruction) {
			rg, ok := in.(*ssa.Range)
			if !ok {
				return
			}
			if _, isMap := rg.X.Type().Underlying().(*types.Map); !isMap {
				return
			}
			n++
			cons := "map-range:" + p.Name(fn)
			if relaxed, why := relaxedByContract(p, top); relaxed {
				// must not be reachable from the deterministic scope
				if scope[top] {
					r.Bad(R, cons, p.InstrPos(in), "order-relaxed routine with a Go-map range is reachable from deterministic code")
				} else {
					r.Ok(R, cons, p.InstrPos(in), "order-relaxed by contract ("+why+") and unreachable from deterministic entry points")
					nClassified++
				}
				return
			}
			if !scope[top] && !isExportedAPI(top) && len(p.CallersOf(top)) > 0 && !p.IsTestFile(top.Pos()) {
				// a private helper that deterministic code cannot reach: it only serves order-relaxed routines
				r.Ok(R, cons, p.InstrPos(in), "private helper reachable only from routines that are order-relaxed by contract")
				nClassified++
				return
			}
			next, keys := rangeKeyValues(rg)
			if next == nil {
				r.Unk(R, cons, p.InstrPos(in), "range without next")
				return
			}
			class, why := p.classifyMapLoop(fn, rg, next, keys)
			switch class {
			case "collect-then-sort", "commutative":
				nClassified++
				r.Ok(R, cons, p.InstrPos(in), class+": "+why)
			default:
				r.Bad(R, cons, p.InstrPos(in), "iteration over a Go map whose order can reach results: "+why)
			}
		})
	}
	r.Floor(R, "map range sites", 8, n)
	r.Floor(R, "classified map range sites", 8, nClassified)
}

// classifyMapLoop decides whether the loop body's observable effect is independent of iteration order.
func (p *Prog) classifyMapLoop(fn *ssa.Function, rg *ssa.Range, next *ssa.Next, keys []ssa.Value) (string, string) {
	blocks := loopBlocks(next.Block())
	// the loop region also contains blocks that leave the function from inside the body
	if len(next.Block().Succs) == 2 {
		body := next.Block().Succs[0]
		for _, b := range fn.Blocks {
			if body.Dominates(b) {
				blocks[b] = true
			}
		}
	}
	rangedField, hasField := asLoadedField(rg.X)
	isKey := func(v ssa.Value) bool {
		for _, k := range keys {
			if sameValue(v, k) {
				return true
			}
		}
		return false
	}
	appends := 0
	var appendTargets []ssa.Value
	var problems []string
	returnsInLoop := 0
	for _, b := range fn.Blocks {
		if !blocks[b] {
			continue
		}
		for _, in := range b.Instrs {
			switch x := in.(type) {
			case *ssa.MapUpdate:
				fr, ok := asLoadedField(x.Map)
				if ok && hasField && fr.Field == rangedField.Field && fr.Owner == rangedField.Owner && isKey(x.Key) {
					continue // per-key update of the ranged map
				}
				if rootOfAddr(x.Map) == "fresh" && isKey(x.Key) {
					continue // building a fresh map keyed by the range key
				}
				problems = append(problems, "map update at "+p.InstrPos(in))
			case *ssa.Store:
				if al, ok := x.Addr.(*ssa.Alloc); ok {
					// local variable: appended slice cell or accumulator
					if c, ok := x.Val.(*ssa.Call); ok {
						if bi, ok := c.Call.Value.(*ssa.Builtin); ok && bi.Name() == "append" {
							appends++
							appendTargets = append(appendTargets, x.Addr)
							continue
						}
					}
					if blocks[al.Block()] && al.Block() != next.Block() {
						continue // variable scoped to one iteration
					}
					if !isAccumulationOf(x.Val, func(v ssa.Value) bool {
						u, ok := v.(*ssa.UnOp)
						return ok && u.Op == token.MUL && u.X == ssa.Value(al)
					}, 0) {
						problems = append(problems, "last-writer-wins assignment to a variable that outlives the loop at "+p.InstrPos(in))
					}
					continue
				}
				if ia, ok := x.Addr.(*ssa.IndexAddr); ok {
					if rootOfAddr(ia.X) == "fresh" {
						// varargs backing array for append/format, or a fresh result slice
						continue
					}
				}
				if rootOfAddr(x.Addr) == "fresh" {
					continue
				}
				problems = append(problems, "store at "+p.InstrPos(in))
			case *ssa.Send:
				problems = append(problems, "channel send at "+p.InstrPos(in))
			case *ssa.Go, *ssa.Defer:
				problems = append(problems, "go/defer at "+p.InstrPos(in))
			case ssa.CallInstruction:
				cc := x.Common()
				if bi, ok := cc.Value.(*ssa.Builtin); ok {
					switch bi.Name() {
					case "append":
						// value-form append (register): ordered unless sorted later
						if v, ok := in.(*ssa.Call); ok {
							if rs := v.Referrers(); rs != nil {
								isCellStore := false
								for _, ref := range *rs {
									if st, ok := ref.(*ssa.Store); ok {
										if _, ok := st.Addr.(*ssa.Alloc); ok {
											isCellStore = true
										}
									}
								}
								if !isCellStore {
									appends++
									appendTargets = append(appendTargets, v)
								}
							}
						}
					case "delete":
						if len(cc.Args) == 2 && isKey(cc.Args[1]) {
							continue
						}
						problems = append(problems, "delete at "+p.InstrPos(in))
					}
					continue
				}
				// calls: must be free of writes
				impure := ""
				for _, c := range p.Callees(x) {
					for _, e := range p.TransEffects(c) {
						switch e.Kind {
						case "field", "global", "mem", "send", "go":
							impure = p.Name(c) + " " + e.Kind + ":" + e.What
						case "ext":
							if !pureExternal(e.What) {
								impure = p.Name(c) + " calls " + e.What
							}
						case "invoke":
							if !pureClientMethod(e.What) {
								impure = p.Name(c) + " invokes " + e.What
							}
						}
					}
				}
				if len(p.Callees(x)) == 0 {
					if cc.IsInvoke() {
						if !pureClientMethod(typeName(cc.Value.Type()) + "." + cc.Method.Name()) {
							impure = "invokes " + typeName(cc.Value.Type()) + "." + cc.Method.Name()
						}
					} else if f := staticCallee(x); f != nil {
						if !pureExternal(f.String()) {
							impure = "calls " + f.String()
						}
					} else {
						impure = "dynamic call"
					}
				}
				if impure != "" {
					problems = append(problems, "call with effects at "+p.InstrPos(in)+" ("+impure+")")
				}
			case *ssa.Return:
				returnsInLoop++
				// an early return is order-independent only if it returns constants or aborts with an error
				for i, res := range x.Results {
					if _, ok := res.(*ssa.Const); ok {
						continue
					}
					if isErrorType(res.Type()) && i == len(x.Results)-1 {
						continue // abort: whether some entry violates the condition does not depend on order
					}
					problems = append(problems, "early return of an iteration-dependent value at "+p.InstrPos(in))
				}
			}
		}
	}
	// leaving the loop before the map is exhausted (break, a counter that stops the scan): which entries were
	// processed then depends on the iteration order - unless nothing was done to any entry (a pure search
	// whose result is a constant or an abort)
	perKeyEffects := false
	for _, b := range fn.Blocks {
		if !blocks[b] {
			continue
		}
		for _, in := range b.Instrs {
			switch x := in.(type) {
			case *ssa.MapUpdate:
				_ = x
				perKeyEffects = true
			case *ssa.Store:
				if _, isAl := x.Addr.(*ssa.Alloc); !isAl && rootOfAddr(x.Addr) != "fresh" {
					perKeyEffects = true
				}
			}
			if cc, ok := isBuiltinCall(in, "delete"); ok && len(cc.Args) == 2 {
				perKeyEffects = true
			}
		}
	}
	if perKeyEffects {
		for _, b := range fn.Blocks {
			if !blocks[b] || b == next.Block() {
				continue
			}
			for _, sc := range b.Succs {
				if blocks[sc] {
					continue
				}
				// an exit from inside the body: fine if it only leads to returns of constants / errors
				last := sc.Instrs[len(sc.Instrs)-1]
				if ret, ok := last.(*ssa.Return); ok {
					if cl, _ := classifyReturn(ret); cl == retError {
						continue // abort with an error: the request fails whatever was processed
					}
				}
				problems = append(problems, "the loop updates entries and can be left before the map is exhausted (exit at "+p.InstrPos(b.Instrs[len(b.Instrs)-1])+"): which entries were updated depends on the iteration order")
			}
		}
	}
	// loop-carried variables: only commutative accumulation
	for _, in := range next.Block().Instrs {
		phi, ok := in.(*ssa.Phi)
		if !ok {
			continue
		}
		for i, e := range phi.Edges {
			if !blocks[next.Block().Preds[i]] {
				continue
			}
			// a slice that grows by append(slice, ...) is an ordered collection: decided by collect-then-sort below
			if c, ok := e.(*ssa.Call); ok {
				if bi, ok := c.Call.Value.(*ssa.Builtin); ok && bi.Name() == "append" && len(c.Call.Args) > 0 && c.Call.Args[0] == ssa.Value(phi) {
					continue
				}
			}
			if !isAccumulationOf(e, func(v ssa.Value) bool { return v == ssa.Value(phi) }, 0) {
				problems = append(problems, "loop-carried variable "+phi.Comment+" is overwritten (last iteration wins) rather than accumulated")
			}
		}
	}
	// loop exits by break carrying a key-dependent value: phi at the exit blocks fed from inside the loop
	for _, b := range fn.Blocks {
		if blocks[b] {
			continue
		}
		for _, in := range b.Instrs {
			phi, ok := in.(*ssa.Phi)
			if !ok {
				break
			}
			for i, e := range phi.Edges {
				if blocks[b.Preds[i]] && b.Preds[i] != next.Block() {
					if _, isConst := e.(*ssa.Const); !isConst {
						problems = append(problems, "value selected by breaking out of the loop at "+p.InstrPos(b.Preds[i].Instrs[len(b.Preds[i].Instrs)-1]))
					}
				}
			}
		}
	}
	if len(problems) > 0 {
		return "", strings.Join(problems, "; ")
	}
	if appends > 0 {
		// collect-then-sort: a sort call on the same slice that every return passes
		var sortIn ssa.Instruction
		var sorted ssa.Value
		eachInstr(fn, func(x ssa.Instruction) {
			if s, _, _, ok := sortCallOf(x); ok {
				sortIn, sorted = x, s
			}
		})
		if sortIn == nil {
			return "", "keys/values are appended to a slice in map order and the slice is never sorted"
		}
		match := false
		for _, t := range appendTargets {
			if cellOrValue(sorted) == t {
				match = true
			}
			// register form: the sorted value is the loop's phi that the append feeds
			if ph, ok := canon(sorted).(*ssa.Phi); ok {
				for _, e := range ph.Edges {
					if e == t {
						match = true
					}
				}
			}
		}
		if !match {
			return "", "the slice that is sorted is not the slice filled in map order"
		}
		if bad := successReturnAvoiding(fn, rg, func(x ssa.Instruction) bool { return x == sortIn }); bad != nil {
			return "", "a return at " + p.InstrPos(bad) + " is reachable from the loop without passing the sort"
		}
		return "collect-then-sort", "slice filled in map order is sorted before any return"
	}
	return "commutative", fmt.Sprintf("body has only accumulations, per-key updates of the ranged map, constant/abort returns (%d) and effect-free calls", returnsInLoop)
}

// D2 no ambient nondeterminism.
func ruleD2(p *Prog, r *Report) {
	const R = "D2"
	forbidden := map[string]string{
		"math/rand": "random numbers", "math/rand/v2": "random numbers", "crypto/rand": "random numbers", "time": "wall clock",
		"os": "process environment", "unsafe": "address arithmetic", "syscall": "process state", "runtime": "scheduler/goroutine state",
		"os/signal": "signals", "net": "network",
	}
	nfiles := 0
	for _, f := range p.Root.Syntax {
		fname := p.Fset.Position(f.Pos()).Filename
		if strings.HasSuffix(fname, "_test.go") {
			continue
		}
		nfiles++
		for _, im := range f.Imports {
			path, _ := strconv.Unquote(im.Path.Value)
			if why, bad := forbidden[path]; bad {
				r.Bad(R, "import:"+path, p.Pos(im.Pos()), "package imports "+path+" ("+why+"): an ambient nondeterminism source is in reach of encoded bytes")
			}
		}
		ast.Inspect(f, func(n ast.Node) bool {
			if bl, ok := n.(*ast.BasicLit); ok && bl.Kind == token.STRING && strings.Contains(bl.Value, "%p") {
				r.Bad(R, "format-%p", p.Pos(bl.Pos()), "%p formats a pointer value (address-dependent output)")
			}
			return true
		})
	}
	// conversions to uintptr / unsafe.Pointer anywhere in non-test functions
	nconv := 0
	for _, top := range p.TopFuncs() {
		eachInstrDeep(top, func(fn *ssa.Function, in ssa.Instruction) {
			if c, ok := in.(*ssa.Convert); ok {
				if b, ok := c.Type().Underlying().(*types.Basic); ok && (b.Kind() == types.Uintptr || b.Kind() == types.UnsafePointer) {
					nconv++
					r.Bad(R, "uintptr-conversion:"+p.Name(fn), p.InstrPos(in), "conversion to uintptr/unsafe.Pointer")
				}
			}
			// select with more than one ready case, or default-less multi-way select, is scheduler dependent: only the
			// nonblocking single-case done-probe is allowed
			if s, ok := in.(*ssa.Select); ok {
				if !(len(s.States) == 1 && !s.Blocking) {
					r.Bad(R, "select:"+p.Name(fn), p.InstrPos(in), "multi-way or blocking select: outcome depends on scheduling")
				}
			}
		})
	}
	r.Ok(R, "imports", "-", fmt.Sprintf("%d non-test files import none of %d forbidden packages; no %%p verb; %d uintptr conversions", nfiles, len(forbidden), nconv))
	r.Floor(R, "non-test files scanned", 40, nfiles)
}

// backwardLeaves collects the leaves of the backward slice of v (through pure operators).
func backwardLeaves(v ssa.Value, leaves *[]ssa.Value, seen map[ssa.Value]bool, depth int) {
	if v == nil || seen[v] || depth > 40 {
		return
	}
	seen[v] = true
	v2 := canon(v)
	if v2 != v {
		backwardLeaves(v2, leaves, seen, depth+1)
		return
	}
	switch x := v.(type) {
	case *ssa.Const:
		return
	case *ssa.BinOp:
		backwardLeaves(x.X, leaves, seen, depth+1)
		backwardLeaves(x.Y, leaves, seen, depth+1)
	case *ssa.UnOp:
		if x.Op == token.MUL {
			// load: field of something
			if fa, ok := x.X.(*ssa.FieldAddr); ok {
				_ = fa
				*leaves = append(*leaves, v)
				return
			}
			*leaves = append(*leaves, v)
			return
		}
		backwardLeaves(x.X, leaves, seen, depth+1)
	case *ssa.Convert:
		backwardLeaves(x.X, leaves, seen, depth+1)
	case *ssa.ChangeType:
		backwardLeaves(x.X, leaves, seen, depth+1)
	case *ssa.Phi:
		for _, e := range x.Edges {
			backwardLeaves(e, leaves, seen, depth+1)
		}
	case *ssa.Slice:
		backwardLeaves(x.X, leaves, seen, depth+1)
	case *ssa.FieldAddr:
		backwardLeaves(x.X, leaves, seen, depth+1)
	case *ssa.Field:
		backwardLeaves(x.X, leaves, seen, depth+1)
	case *ssa.Extract:
		*leaves = append(*leaves, v)
	case *ssa.Alloc:
		// local struct cell: everything stored into it
		for _, ref := range *x.Referrers() {
			if st, ok := ref.(*ssa.Store); ok && st.Addr == ssa.Value(x) {
				backwardLeaves(st.Val, leaves, seen, depth+1)
			}
		}
	case *ssa.Call:
		f := x.Call.StaticCallee()
		if f != nil && pureSeedFunc(f.String()) {
			for _, a := range x.Call.Args {
				if n := namedOf(a.Type()); n != nil && n.Obj().Pkg() != nil && n.Obj().Pkg().Path() == "encoding/binary" {
					continue // stateless byte-order receiver
				}
				backwardLeaves(a, leaves, seen, depth+1)
			}
			return
		}
		*leaves = append(*leaves, v)
	default:
		*leaves = append(*leaves, v)
	}
}

func pureSeedFunc(name string) bool {
	switch name {
	case "(encoding/binary.littleEndian).Uint64", "(encoding/binary.bigEndian).Uint64", "github.com/fxamacker/circlehash.Hash64Uint64x2", "github.com/fxamacker/circlehash.Hash64":
		return true
	}
	return false
}

// D3 seed purity.
func ruleD3(p *Prog, r *Report) {
	const R = "D3"
	n := 0
	classify := func(fn *ssa.Function, v ssa.Value) (bool, string) {
		var leaves []ssa.Value
		backwardLeaves(v, &leaves, map[ssa.Value]bool{}, 0)
		var kinds []string
		ok := true
		for _, l := range leaves {
			switch x := l.(type) {
			case *ssa.Parameter:
				kinds = append(kinds, "parameter "+x.Name())
			case *ssa.Extract:
				if c, okc := x.Tuple.(*ssa.Call); okc {
					if _, isGen := p.isIfaceMethodCall(c, "SlabStorage", "GenerateSlabID"); isGen {
						kinds = append(kinds, "fresh slab id")
						continue
					}
					if f := c.Call.StaticCallee(); f != nil && strings.Contains(f.String(), "cbor") && strings.Contains(f.Name(), "Decode") {
						kinds = append(kinds, "decoded from register")
						continue
					}
					if c.Call.IsInvoke() && strings.HasPrefix(c.Call.Method.Name(), "Decode") {
						kinds = append(kinds, "decoded from register")
						continue
					}
				}
				ok = false
				kinds = append(kinds, "result of "+l.String())
			case *ssa.UnOp:
				if fr, okf := asLoadedField(x); okf && (fr.Field == "Seed" || fr.Field == "seed" || fr.Field == "k0") {
					kinds = append(kinds, "copied seed field "+fr.Field)
					continue
				}
				if g, okg := x.X.(*ssa.Global); okg {
					ok = false
					kinds = append(kinds, "global "+g.Name())
					continue
				}
				ok = false
				kinds = append(kinds, "memory load "+l.String())
			default:
				ok = false
				kinds = append(kinds, fmt.Sprintf("%T %s", l, l.String()))
			}
		}
		sort.Strings(kinds)
		return ok, strings.Join(uniq(kinds), ", ")
	}
	for _, top := range p.TopFuncs() {
		eachInstrDeep(top, func(fn *ssa.Function, in ssa.Instruction) {
			// stores to MapExtraData.Seed
			if st, ok := in.(*ssa.Store); ok {
				if fr, ok := asFieldAddr(st.Addr); ok && fr.is("MapExtraData", "Seed") {
					n++
					okc, why := classify(fn, st.Val)
					r.Decide(okc, R, "seed-store:"+p.Name(fn), p.InstrPos(in), "seed derives only from: "+why, "map seed depends on a source other than the fresh slab id / an existing seed / the register: "+why)
				}
			}
			// calls of DigesterBuilder.SetSeed
			if c, ok := p.isIfaceMethodCall(in, "DigesterBuilder", "SetSeed"); ok {
				n++
				for i, a := range c.Common().Args {
					okc, why := classify(fn, a)
					r.Decide(okc, R, fmt.Sprintf("setseed-arg%d:%s", i, p.Name(fn)), p.InstrPos(in), "seed argument derives only from: "+why, "SetSeed argument depends on a source other than the fresh slab id / an existing seed / the register: "+why)
				}
			}
		})
	}
	r.Floor(R, "seed definition sites", 4, n)
}

// D4 pools are state-free.
func ruleD4(p *Prog, r *Report) {
	const R = "D4"
	nPut, nGet := 0, 0
	for _, top := range p.TopFuncs() {
		eachInstrDeep(top, func(fn *ssa.Function, in ssa.Instruction) {
			call, ok := in.(ssa.CallInstruction)
			if !ok {
				return
			}
			f := call.Common().StaticCallee()
			if f == nil {
				return
			}
			switch f.String() {
			case "(*sync.Pool).Put":
				nPut++
				x := call.Common().Args[1]
				if mi, ok := x.(*ssa.MakeInterface); ok {
					x = mi.X
				}
				// preceded on all paths by x.Reset()
				resetSeen := true
				entry := fn.Blocks[0].Instrs[0]
				reachBackFrom(fn, in, func(y ssa.Instruction) bool {
					if c, ok := y.(ssa.CallInstruction); ok {
						cc := c.Common()
						isReset := (cc.IsInvoke() && cc.Method.Name() == "Reset" && sameValue(cc.Value, x)) ||
							(!cc.IsInvoke() && cc.StaticCallee() != nil && cc.StaticCallee().Name() == "Reset" && len(cc.Args) > 0 && sameValue(cc.Args[0], x))
						if isReset {
							return true
						}
					}
					if y == entry {
						resetSeen = false
						return true
					}
					return false
				})
				if entry == in {
					resetSeen = false
				}
				r.Decide(resetSeen, R, "put-after-reset:"+p.Name(fn), p.InstrPos(in), "object is Reset on every path before it is returned to the pool", "object returned to a process-wide pool without Reset: the next user (possibly another storage) observes leftover state")
			case "(*sync.Pool).Get":
				nGet++
				// wrapper: single block, returns the asserted value
				okw := len(fn.Blocks) == 1 && fn.Parent() == nil
				r.Decide(okw, R, "get-wrapper:"+p.Name(fn), p.InstrPos(in), "Pool.Get only inside a trivial wrapper", "Pool.Get used outside a trivial get-wrapper")
			}
		})
	}
	// Reset of every pooled in-package type assigns every field the other methods load
	for _, nt := range p.rootNamedTypes() {
		reset := p.Method(nt.Obj().Name(), "Reset")
		if reset == nil || recvNamed(reset) != nt {
			continue
		}
		st, ok := nt.Underlying().(*types.Struct)
		if !ok {
			continue
		}
		written := map[string]bool{}
		eachInstr(reset, func(in ssa.Instruction) {
			if s, ok := in.(*ssa.Store); ok {
				if fr, ok := asFieldAddr(s.Addr); ok && fr.Owner == nt {
					written[fr.Field] = true
				}
			}
		})
		loaded := map[string]bool{}
		for _, f := range p.TopFuncs() {
			if recvNamed(f) != nt || f == reset {
				continue
			}
			eachInstr(f, func(in ssa.Instruction) {
				if u, ok := in.(*ssa.UnOp); ok && u.Op == token.MUL {
					a := u.X
					if ia, ok := a.(*ssa.IndexAddr); ok {
						a = ia.X
					}
					if fr, ok := asFieldAddr(a); ok && fr.Owner == nt {
						loaded[fr.Field] = true
					}
				}
			})
		}
		var missing []string
		for i := 0; i < st.NumFields(); i++ {
			fn := st.Field(i).Name()
			if loaded[fn] && !written[fn] {
				missing = append(missing, fn)
			}
		}
		r.Decide(len(missing) == 0, R, "reset-complete:"+nt.Obj().Name(), p.Pos(reset.Pos()),
			fmt.Sprintf("Reset assigns all %d field(s) that other methods read", len(loaded)),
			"Reset leaves fields that other methods read untouched: "+strings.Join(missing, ", "))
	}
	r.Floor(R, "Pool.Put sites", 3, nPut)
	r.Floor(R, "Pool.Get sites", 3, nGet)
}

// isAccumulationOf: v is base, or a commutative-associative combination of an
// accumulation of base with anything (+, |, &, ^, *), or a phi of accumulations, or a constant
// boolean/flag set (x = true).
func isAccumulationOf(v ssa.Value, isBase func(ssa.Value) bool, depth int) bool {
	if depth > 8 {
		return false
	}
	if isBase(v) {
		return true
	}
	switch x := v.(type) {
	case *ssa.Const:
		return true // setting a flag to a constant: every iteration that sets it sets the same value
	case *ssa.BinOp:
		switch x.Op {
		case token.ADD, token.OR, token.AND, token.XOR, token.MUL:
			if b, isB := x.Type().Underlying().(*types.Basic); isB && b.Info()&types.IsString != 0 {
				return false // string concatenation is ordered
			}
			return isAccumulationOf(x.X, isBase, depth+1) || isAccumulationOf(x.Y, isBase, depth+1)
		case token.SUB:
			return isAccumulationOf(x.X, isBase, depth+1)
		}
	case *ssa.Phi:
		for _, e := range x.Edges {
			if !isAccumulationOf(e, isBase, depth+1) {
				return false
			}
		}
		return true
	case *ssa.Convert:
		return isAccumulationOf(x.X, isBase, depth+1)
	}
	return false
}
