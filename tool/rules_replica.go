package main

// N6 a handle holds no private replica of container state (C10, C11, C08).
//
// Array and OrderedMap are Go handle objects; a new one is built by every
// StoredValue / New*WithRootID / lookup. Fields of the handle that its own
// methods keep rewriting as the container evolves (the root slab pointer that
// splitRoot / promoteChildAsNewRoot / PopIterate replace, the registry of child
// containers, the parent callback) are replicas of shared state, private to one
// handle object. The properties quantify over any number of live handles and over
// cache evictions with live handles: an operation through one handle, or a re-decode
// of the slab after DropCache, leaves the replicas of the other handles stale
// (finding F10). The obligation per evolving field is discharged only if handles
// are interned - every function that builds a handle first looks an existing one up -
// which is not the case today.

import (
	"go/types"
	"sort"
	"strings"

	"golang.org/x/tools/go/ssa"
)

func ruleN6(p *Prog, r *Report) {
	const R = "N6"
	n := 0
	for _, hn := range []string{"Array", "OrderedMap"} {
		nt := p.LookupType(hn)
		if nt == nil {
			r.Unk(R, "anchor:"+hn, "-", "handle type not found")
			continue
		}
		st, ok := nt.Underlying().(*types.Struct)
		if !ok {
			continue
		}
		// writers of each field among the handle's own methods (receiver-based stores)
		writers := map[string][]string{}
		builders := map[*ssa.Function]bool{}
		for _, f := range p.TopFuncs() {
			if p.IsTestFile(f.Pos()) {
				continue
			}
			eachInstr(f, func(in ssa.Instruction) {
				if al, ok := in.(*ssa.Alloc); ok && al.Heap {
					if a := rootNamed(al.Type()); a != nil && a.Obj() == nt.Obj() {
						builders[f] = true
					}
				}
				stv, ok := in.(*ssa.Store)
				if !ok {
					return
				}
				fr, ok := asFieldAddr(stv.Addr)
				if !ok || fr.Owner == nil || fr.Owner.Obj() != nt.Obj() {
					return
				}
				if recvName(f) != hn || len(f.Params) == 0 || !sameValue(fr.Base, f.Params[0]) {
					return // initialisation of a freshly built handle
				}
				writers[fr.Field] = append(writers[fr.Field], p.Name(f))
			})
		}
		// are handles interned? every builder must obtain the handle from a lookup before building one
		interned := len(builders) > 0
		for b := range builders {
			found := false
			eachInstr(b, func(in ssa.Instruction) {
				if lk, ok := in.(*ssa.Lookup); ok {
					if a := rootNamed(lk.Type()); a != nil && a.Obj() == nt.Obj() {
						found = true
					}
					if tup, ok := lk.Type().(*types.Tuple); ok && tup.Len() > 0 {
						if a := rootNamed(tup.At(0).Type()); a != nil && a.Obj() == nt.Obj() {
							found = true
						}
					}
				}
			})
			if !found {
				interned = false
			}
		}
		var bl []string
		for b := range builders {
			bl = append(bl, p.Name(b))
		}
		sort.Strings(bl)
		if len(bl) > 4 {
			bl = append(bl[:4], "...")
		}
		for i := 0; i < st.NumFields(); i++ {
			fn := st.Field(i).Name()
			ws := uniq(writers[fn])
			if len(ws) == 0 {
				continue // set once when the handle is built
			}
			sort.Strings(ws)
			n++
			r.Decide(interned, R, "handle-replica:"+hn+"."+fn, p.Pos(nt.Obj().Pos()),
				"handles are interned: there is one handle object per container",
				"field "+fn+" of the "+hn+" handle is rewritten by the handle's own methods ("+strings.Join(ws, ", ")+") as the container evolves, and every call of "+strings.Join(bl, ", ")+" builds a new handle object with its own copy: with two live handles of one container (or after the slab was decoded again following DropCache) an operation through one leaves the other's copy stale - wrong counts, mutations applied to a slab that is no longer the root, parent sizes not updated")
		}
	}
	r.Floor(R, "evolving handle fields", 4, n)
}

// N7 a map handle built for an existing map hashes like the map was built (C12, C02).
//
// Which digest a key gets is decided by the DigesterBuilder the map was created with
// (plus the persisted seed). Every function that builds an OrderedMap handle must take
// the builder from its caller or from the handle it derives from; a handle built with a
// fresh default builder hashes keys of a map that was created with another builder to
// digests the map does not contain (finding F11: the handles handed out by a parent).
func ruleN7(p *Prog, r *Report) {
	const R = "N7"
	n := 0
	for _, f := range p.TopFuncs() {
		if p.IsTestFile(f.Pos()) || isDiagnosticFile(p.Fset.Position(f.Pos()).Filename) {
			continue
		}
		eachInstr(f, func(in ssa.Instruction) {
			al, ok := in.(*ssa.Alloc)
			if !ok {
				return
			}
			nt := rootNamed(al.Type())
			if nt == nil || nt.Obj().Name() != "OrderedMap" || nt.Obj().Pkg() == nil || nt.Obj().Pkg().Path() != rootPkgPath {
				return
			}
			v := litField(f, al, "digesterBuilder")
			if v == nil {
				return
			}
			n++
			cons := "handle-builder:" + p.Name(f)
			// provenance: a parameter, or a field / accessor of another handle; not a call that makes a new builder
			src := canon(v)
			good, why := false, ""
			switch x := src.(type) {
			case *ssa.Parameter:
				good = true
			case *ssa.Call:
				if g := x.Call.StaticCallee(); g != nil && strings.HasPrefix(g.Name(), "New") {
					why = "a builder freshly made by " + g.Name() + "()"
				} else {
					good = true
				}
			case *ssa.MakeInterface:
				why = "a builder constructed on the spot"
			default:
				good = true // loaded from another handle / variable
			}
			r.Decide(good, R, cons, p.InstrPos(in),
				"the handle hashes with the builder its caller supplied or the one of the handle it derives from",
				"a handle for an existing map is built with "+why+": a nested map that was created with another DigesterBuilder gets, through the handle its parent hands out, digests it does not contain - present keys are reported as not found and inserts go to the wrong place")
		})
	}
	r.Floor(R, "OrderedMap handles built", 4, n)
}
