package main

// Small exact rules of the fifth mutant round.
//
// E7  a wrap helper is never applied to an error that is known to be nil there: wrapError*IfNeeded(nil) is nil, so
//     a failure branch that "returns the wrapped error" of an earlier successful call returns success with zero
//     results (a decoder then hands a typed nil on, and the next use panics).
// S15 a slab read out of the write set or the read cache is tested for nil before a method is called on it: both
//     maps hold nil on purpose (pending removals, known-deleted registers).
// S16 Store and Remove record every accepted request in the write set: each success return is preceded by the
//     write of deltas[id] (a shortcut that looks only at the read cache forgets a pending re-store above it).

import (
	"fmt"
	"go/token"
	"go/types"
	"sort"
	"strings"

	"golang.org/x/tools/go/ssa"
)

func ruleE7(p *Prog, r *Report) {
	const R = "E7"
	n := 0
	count := map[string]int{}
	for _, top := range p.TopFuncs() {
		if p.IsTestFile(top.Pos()) {
			continue
		}
		eachInstrDeep(top, func(fn *ssa.Function, in ssa.Instruction) {
			c, ok := in.(*ssa.Call)
			if !ok || !isWrapHelperCall(c) || len(c.Call.Args) == 0 {
				return
			}
			n++
			ev := c.Call.Args[0]
			if !knownNil(ev, in.Block()) && !isNilConst(canon(ev)) {
				return
			}
			count[p.Name(fn)]++
			r.Bad(R, fmt.Sprintf("wrap-of-nil:%s#%d", p.Name(fn), count[p.Name(fn)]), p.InstrPos(in),
				"the error handed to the wrap helper is known to be nil here (this block lies on the err == nil edge of its test): the helper returns nil, so this failure branch reports success - with zero results that the caller then uses")
		})
	}
	r.Ok(R, "wrap-helper-arguments", "-", fmt.Sprintf("%d wrap-helper calls; none is applied to an error that is known nil at the call", n))
	r.Floor(R, "wrap helper calls", 50, n)
}

func ruleS15(p *Prog, r *Report) {
	const R = "S15"
	n := 0
	count := map[string]int{}
	for _, top := range p.TopFuncs() {
		if p.IsTestFile(top.Pos()) {
			continue
		}
		eachInstrDeep(top, func(fn *ssa.Function, in ssa.Instruction) {
			c, ok := in.(ssa.CallInstruction)
			if !ok || !c.Common().IsInvoke() {
				return
			}
			recv := c.Common().Value
			// the receiver is a value looked up in deltas / cache
			v := canon(recv)
			var lk *ssa.Lookup
			switch x := v.(type) {
			case *ssa.Lookup:
				lk = x
			case *ssa.Extract:
				if l, ok := x.Tuple.(*ssa.Lookup); ok && x.Index == 0 {
					lk = l
				}
			}
			if lk == nil {
				return
			}
			fr, ok := asLoadedField(lk.X)
			if !ok || !(fr.is(storageT, "deltas") || fr.is(storageT, "cache")) {
				return
			}
			n++
			count[p.Name(fn)]++
			cons := fmt.Sprintf("layer-value-nil-checked:%s#%d", p.Name(fn), count[p.Name(fn)])
			guarded := false
			for _, b := range fn.Blocks {
				ifi, ok := b.Instrs[len(b.Instrs)-1].(*ssa.If)
				if !ok {
					continue
				}
				tv, nn, ok := nilTestOf(ifi)
				if ok && sameValue(tv, recv) && edgeDominates(b, nn, in.Block()) {
					guarded = true
				}
			}
			r.Decide(guarded, R, cons, p.InstrPos(in), "the slab taken from the "+fr.Field+" map is known non-nil where a method is called on it",
				"a method is called on a value read from the "+fr.Field+" map without a nil test: that map holds nil on purpose (pending removals / known-deleted registers), so this call panics for such an id")
		})
	}
	r.Ok(R, "layer-values", "-", fmt.Sprintf("%d method calls on values read from deltas / cache", n))
}

func ruleS16(p *Prog, r *Report) {
	const R = "S16"
	n := 0
	for _, nm := range []string{"Store", "Remove"} {
		f := p.Method(storageT, nm)
		if f == nil {
			r.Unk(R, "anchor:"+nm, "-", "method not found")
			continue
		}
		n++
		isRecord := func(z ssa.Instruction) bool {
			for _, fw := range p.fieldWritesOfX(z) {
				if !fw.Ref.is(storageT, "deltas") || fw.Kind != "mapupdate" {
					continue
				}
				// under the id parameter
				for _, q := range f.Params {
					if typeName(q.Type()) == "SlabID" && sameValue(fw.Key, q) {
						return true
					}
				}
			}
			return false
		}
		bad := successReturnAvoiding(f, nil, isRecord)
		pos := p.Pos(f.Pos())
		if bad != nil {
			pos = p.InstrPos(bad)
		}
		r.Decide(bad == nil, R, "request-recorded:"+nm, pos, "every accepted "+nm+" writes deltas[id]",
			nm+" can return success without writing deltas[id]: the request is dropped (a removal that is skipped because the read cache already holds a tombstone leaves a slab that was stored again since then visible, pending and committed)")
	}
	r.Floor(R, "Store / Remove of the persistent storage", 2, n)
}

// E8 a slab that the storage does not have is an error, not an answer.
//
// Retrieve reports a missing slab as (nil, false, nil). In the containers and iterators a referenced slab that is
// missing means a damaged tree: the not-found edge must end in an error return. (A merged test `err != nil || !found`
// that returns the wrapped err returns nil on the not-found edge - for an iterator that is "end of iteration".)
// Obligation per SlabStorage.Retrieve call outside the storage implementations and outside routines that hand the
// found flag on to their caller: from the not-found edge of the test of its found result, only error returns are
// reachable.
func ruleE8(p *Prog, r *Report) {
	const R = "E8"
	n := 0
	count := map[string]int{}
	for _, top := range p.TopFuncs() {
		if p.IsTestFile(top.Pos()) || isDiagnosticFile(p.Fset.Position(top.Pos()).Filename) {
			continue
		}
		if strings.HasSuffix(recvName(top), "SlabStorage") || recvName(top) == "LedgerBaseStorage" {
			continue
		}
		eachInstrDeep(top, func(fn *ssa.Function, in ssa.Instruction) {
			c, ok := in.(*ssa.Call)
			if !ok || !c.Call.IsInvoke() || c.Call.Method.Name() != "Retrieve" || typeName(c.Call.Value.Type()) != "SlabStorage" {
				return
			}
			if !lastResultIsError(fn) {
				return
			}
			// routines that return the found flag themselves pass the decision on
			res := fn.Signature.Results()
			for i := 0; i < res.Len(); i++ {
				if b, ok := res.At(i).Type().Underlying().(*types.Basic); ok && b.Kind() == types.Bool {
					return
				}
			}
			var found ssa.Value
			if c.Referrers() != nil {
				for _, ref := range *c.Referrers() {
					if ex, ok := ref.(*ssa.Extract); ok && ex.Index == 1 {
						found = ex
					}
				}
			}
			n++
			count[p.Name(fn)]++
			cons := fmt.Sprintf("missing-slab-is-an-error:%s#%d", p.Name(fn), count[p.Name(fn)])
			if found == nil {
				r.Bad(R, cons, p.InstrPos(in), "the found result of Retrieve is discarded: a missing slab is not noticed")
				return
			}
			// every test of found: its false edge
			var esc ssa.Instruction
			tested := false
			for _, b := range fn.Blocks {
				ifi, ok := b.Instrs[len(b.Instrs)-1].(*ssa.If)
				if !ok {
					continue
				}
				cnd := ifi.Cond
				notFoundSucc := 1
				if u, ok := cnd.(*ssa.UnOp); ok && u.Op == token.NOT {
					cnd, notFoundSucc = u.X, 0
				}
				if cnd != found {
					continue
				}
				tested = true
				type edge struct{ from, to *ssa.BasicBlock }
				seen := map[edge]bool{}
				var walk func(from, x *ssa.BasicBlock)
				walk = func(from, x *ssa.BasicBlock) {
					if seen[edge{from, x}] || esc != nil {
						return
					}
					seen[edge{from, x}] = true
					last := x.Instrs[len(x.Instrs)-1]
					if ret, ok := last.(*ssa.Return); ok {
						cl, rv := classifyReturn(ret)
						if cl == retError {
							return
						}
						if c2, ok := classifyOnEdge(rv, from, x); ok && c2 == retError {
							return
						}
						esc = ret
						return
					}
					if _, ok := last.(*ssa.Panic); ok {
						return
					}
					for _, sc := range x.Succs {
						walk(x, sc)
					}
				}
				walk(b, b.Succs[notFoundSucc])
			}
			if !tested {
				r.Bad(R, cons, p.InstrPos(in), "the found result of Retrieve is never branched on: a missing slab is not noticed")
				return
			}
			if esc != nil {
				r.Bad(R, cons, p.InstrPos(in), "from the not-found edge of this Retrieve the return at "+p.InstrPos(esc)+" is reachable, which does not carry a non-nil error: a referenced slab that the storage does not have is taken for an answer (for an iterator: the end of the iteration, so elements are silently missing)")
			} else {
				r.Ok(R, cons, p.InstrPos(in), "the not-found edge ends in error returns")
			}
		})
	}
	r.Floor(R, "Retrieve calls in containers and iterators", 5, n)
}

// R9 the parent is notified on success paths only.
//
// notifyParentIfNeeded makes the parent re-set this container in itself and store its slab (and its ancestors do
// the same). A rejected request must leave no trace (C18): the notification may not be deferred (a deferred call
// also runs on the early returns of rejected requests) and may not sit in the handling of a failure.
func ruleR9(p *Prog, r *Report) {
	const R = "R9"
	n := 0
	count := map[string]int{}
	for _, top := range p.TopFuncs() {
		if p.IsTestFile(top.Pos()) {
			continue
		}
		eachInstrDeep(top, func(fn *ssa.Function, in ssa.Instruction) {
			c, ok := in.(ssa.CallInstruction)
			if !ok || calleeName(c) != "notifyParentIfNeeded" {
				return
			}
			n++
			count[p.Name(top)]++
			cons := fmt.Sprintf("notify-on-success-only:%s#%d", p.Name(top), count[p.Name(top)])
			_, isDefer := in.(*ssa.Defer)
			inDeferred := false
			if fn != top {
				eachInstrDeep(top, func(_ *ssa.Function, y ssa.Instruction) {
					if d, ok := y.(*ssa.Defer); ok && closureOf(d.Call.Value) == fn {
						inDeferred = true
					}
				})
			}
			switch {
			case isDefer || inDeferred:
				r.Bad(R, cons, p.InstrPos(in), "the parent notification is deferred: it also runs on the early returns of rejected requests (absent key, failing hash-input provider), so a rejected request re-sets and stores the parent and its ancestors - a pending write and an identical register rewritten at the next commit")
			case inErrorHandler(fn, in.Block()):
				r.Bad(R, cons, p.InstrPos(in), "the parent is notified while a failure is being handled: a failed request leaves a pending write in the ancestors")
			default:
				r.Ok(R, cons, p.InstrPos(in), "notified on a success path, not deferred")
			}
		})
	}
	r.Floor(R, "parent notifications", 5, n)
}

// L34 what was put into the encoder's scratch buffer is written out before another encoder runs.
//
// Encoder.Scratch is one 64-byte buffer shared by every routine that receives the encoder. A routine that fills
// it (a slab id, a length head) and writes it out later must not hand the encoder to another routine in between:
// that routine may use the same buffer (the compact-map entry assembles digests there), and the bytes written
// afterwards are no longer the ones that were prepared (a sibling link that points nowhere).
func ruleL34(p *Prog, r *Report) {
	const R = "L34"
	n := 0
	count := map[string]int{}
	isScratchOf := func(v ssa.Value) (ssa.Value, bool) {
		// v is enc.Scratch[...] (a slice of the Scratch array field of an Encoder)
		sl, ok := canon(v).(*ssa.Slice)
		if !ok {
			return nil, false
		}
		fa, ok := sl.X.(*ssa.FieldAddr)
		if !ok {
			return nil, false
		}
		if _, nm := structFieldName(fa.X.Type(), fa.Field); nm != "Scratch" || !isEncoderPtr(fa.X.Type()) {
			return nil, false
		}
		return canon(fa.X), true
	}
	for _, top := range p.TopFuncs() {
		if p.IsTestFile(top.Pos()) {
			continue
		}
		eachInstr(top, func(in ssa.Instruction) {
			// a fill: a call (other than a write-out) that receives enc.Scratch[..], or a store into enc.Scratch[i]
			c, ok := in.(ssa.CallInstruction)
			if !ok {
				return
			}
			nm := calleeName(c)
			if nm == "Write" || nm == "EncodeRawBytes" || nm == "EncodeBytes" {
				return
			}
			var enc ssa.Value
			for _, a := range c.Common().Args {
				if e, ok := isScratchOf(a); ok {
					enc = e
				}
			}
			if enc == nil {
				return
			}
			n++
			count[p.Name(top)]++
			cons := fmt.Sprintf("scratch-written-out-first:%s#%d", p.Name(top), count[p.Name(top)])
			var bad ssa.Instruction
			reachFrom(top, in, nil, func(y ssa.Instruction) bool {
				if bad != nil || y == in {
					return bad != nil
				}
				cy, ok := y.(ssa.CallInstruction)
				if !ok {
					return false
				}
				ny := calleeName(cy)
				// the write-out of the scratch ends the obligation on this path
				for _, a := range cy.Common().Args {
					if e, ok := isScratchOf(a); ok && sameValue(e, enc) && (ny == "Write" || ny == "EncodeRawBytes" || ny == "EncodeBytes") {
						return true
					}
				}
				// another fill of the same buffer also ends it (the earlier content is given up on purpose)
				for _, a := range cy.Common().Args {
					if e, ok := isScratchOf(a); ok && sameValue(e, enc) {
						return true
					}
				}
				// the encoder handed on
				for _, a := range cy.Common().Args {
					if isEncoderPtr(a.Type()) && sameValue(a, enc) {
						bad = y
						return true
					}
				}
				return false
			})
			if bad != nil {
				r.Bad(R, cons, p.InstrPos(in), "the scratch buffer is filled here and the encoder is handed to another routine at "+p.InstrPos(bad)+" before the buffer is written out: that routine may use the same scratch buffer, so the bytes written afterwards are not the ones prepared here")
			} else {
				r.Ok(R, cons, p.InstrPos(in), "written out (or refilled) before the encoder is handed on")
			}
		})
	}
	r.Ok(R, "scratch-fills", "-", fmt.Sprintf("%d fills of an encoder's scratch buffer by a call", n))
}

// S17 only the loaded-value readers ask whether a slab is in memory.
//
// C08: whether a slab is served from the write set, the read cache or the ledger never changes an outcome. The
// one API whose answer depends on what is in memory (RetrieveIfLoaded) exists for the loaded-value iterators and
// getLoadedValue, which are documented to see loaded data only. A mutation or lookup path that consults it makes a
// structural choice depend on the cache (which sibling to rebalance with): every resulting tree is valid, but the
// registers differ between schedules of commits, evictions and reopenings.
func ruleS17(p *Prog, r *Report) {
	const R = "S17"
	n := 0
	for _, top := range p.TopFuncs() {
		if p.IsTestFile(top.Pos()) || strings.HasSuffix(recvName(top), "SlabStorage") {
			continue
		}
		eachInstrDeep(top, func(fn *ssa.Function, in ssa.Instruction) {
			c, ok := in.(ssa.CallInstruction)
			if !ok || !c.Common().IsInvoke() || c.Common().Method.Name() != "RetrieveIfLoaded" {
				return
			}
			n++
			// allowed: loaded-value readers, and private helpers only they call
			var allowed func(f *ssa.Function, d int) bool
			allowed = func(f *ssa.Function, d int) bool {
				// the loaded-value iterators (types) and the loaded-value reader of a storable
				rn := recvName(f)
				if strings.Contains(rn, "Loaded") || strings.Contains(rn, "loaded") || (f.Signature.Recv() == nil && f.Name() == "getLoadedValue") {
					return true
				}
				if d > 2 || f.Object() == nil || f.Object().Exported() {
					return false
				}
				sites := p.CallersOf(f)
				if len(sites) == 0 {
					return false
				}
				for _, cs := range sites {
					if !allowed(TopLevel(cs.Caller), d+1) {
						return false
					}
				}
				return true
			}
			r.Decide(allowed(top, 0), R, "loaded-query-only-in-loaded-readers:"+p.Name(top), p.InstrPos(in),
				"asked by a loaded-value reader",
				"a routine that is not one of the loaded-value readers asks whether a slab is in memory: what it does next depends on the state of the write set and the read cache, so the same history yields different registers under different schedules of commits, evictions and reopenings")
		})
	}
	r.Floor(R, "is-loaded queries", 3, n)
}

// N9 the child's callback is evaluated when it runs, and the setter always installs.
//
// (a) setParentUpdater stores its argument on every path: a child that is handed to a new parent must get that
// parent's callback, whatever it had before. (b) The callback a parent installs looks at the child's state when it
// is called: a closure that captures a boolean computed from the child at installation time (is it inlined, would it
// fit) decides with a snapshot that another handle of the same child may have invalidated.
func ruleN9(p *Prog, r *Report) {
	const R = "N9"
	n := 0
	for _, f := range p.TopFuncs() {
		if p.IsTestFile(f.Pos()) || f.Name() != "setParentUpdater" || len(f.Params) != 2 {
			continue
		}
		n++
		isStore := func(z ssa.Instruction) bool {
			st, ok := z.(*ssa.Store)
			if !ok {
				return false
			}
			fr, ok := asFieldAddr(st.Addr)
			return ok && sameValue(fr.Base, f.Params[0]) && canon(st.Val) == ssa.Value(f.Params[1])
		}
		bad := successReturnAvoiding(f, nil, isStore)
		r.Decide(bad == nil, R, "setter-always-installs:"+p.Name(f), p.Pos(f.Pos()), "the callback handed in is stored on every path",
			"setParentUpdater can return without installing the callback it was given: a child that moves to another parent keeps the callback of its former parent, whose next run reports 'not my child' and is dropped - the new parent is never notified")
	}
	// (b) closures handed to setParentUpdater
	for _, top := range p.TopFuncs() {
		if p.IsTestFile(top.Pos()) {
			continue
		}
		eachInstr(top, func(in ssa.Instruction) {
			c, ok := in.(ssa.CallInstruction)
			if !ok || calleeName(c) != "setParentUpdater" {
				return
			}
			args := callArgs(c)
			if len(args) == 0 {
				return
			}
			cl := closureOf(args[len(args)-1])
			mc, _ := canon(args[len(args)-1]).(*ssa.MakeClosure)
			if mc == nil {
				if bc, ok := canon(args[len(args)-1]).(*ssa.Call); ok {
					mc = builtClosure(bc) // the callback is built by a helper that returns it
				}
			}
			if cl == nil || mc == nil {
				return
			}
			n++
			bad := ""
			for i, b := range mc.Bindings {
				// what the captured cell holds
				v := singleStoreTo(b)
				if v == nil {
					v = b
				}
				if bt, ok := v.Type().Underlying().(*types.Basic); !ok || bt.Kind() != types.Bool {
					continue
				}
				if sliceContains(v, func(x ssa.Value) bool {
					cc, ok := x.(*ssa.Call)
					return ok && cc.Call.IsInvoke() && (cc.Call.Method.Name() == "Inlined" || cc.Call.Method.Name() == "Inlinable")
				}, 0, map[ssa.Value]bool{}) {
					if i < len(cl.FreeVars) {
						bad = cl.FreeVars[i].Name()
					} else {
						bad = "?"
					}
				}
			}
			r.Decide(bad == "", R, "callback-reads-live-state:"+p.Name(top), p.InstrPos(in), "the callback captures no snapshot of the child's inlined / inlinable state",
				"the callback captures "+bad+", a boolean computed from the child's inlined / inlinable state when the callback was installed: another handle of the same child may have changed that state since, and the callback then skips an update that is needed (or the other way round)")
		})
	}
	// (c) a child that was recorded is a child whose callback is installed
	for _, top := range p.TopFuncs() {
		if p.IsTestFile(top.Pos()) {
			continue
		}
		var inst []ssa.Instruction
		eachInstr(top, func(in ssa.Instruction) {
			c, ok := in.(ssa.CallInstruction)
			if !ok || calleeName(c) != "setParentUpdater" {
				return
			}
			args := callArgs(c)
			if len(args) > 0 && closureOf(args[len(args)-1]) != nil {
				inst = append(inst, in)
			}
		})
		if len(inst) == 0 {
			continue
		}
		isInst := func(in ssa.Instruction) bool {
			for _, x := range inst {
				if x == in {
					return true
				}
			}
			return false
		}
		eachInstr(top, func(in ssa.Instruction) {
			recorded := false
			if fw, ok := fieldWriteOf(in); ok && fw.Kind == "mapupdate" && isChildRegistryField(fw.Ref) {
				recorded = true
			}
			if c, ok := in.(ssa.CallInstruction); ok && !recorded {
				if k, _, ok := p.registryHelper(c.Common().StaticCallee()); ok && k == "mapupdate" {
					recorded = true
				}
			}
			if !recorded {
				return
			}
			n++
			bad := successReturnAvoiding(top, in, isInst)
			r.Decide(bad == nil, R, "recorded-child-gets-callback:"+p.Name(top), p.InstrPos(in), "every return after the child was recorded passes through the installation of this parent's callback",
				"the child is recorded as an element of this parent, but the function can return without installing this parent's callback: a child that still carries the callback of a former parent keeps it, that callback reports 'not my child' and is dropped, and this parent is never told about the child's mutations")
		})
	}
	r.Floor(R, "callback setters and installations", 6, n)
}

// L35 the position a lower-bound search returns is compared with the key before it counts as a hit.
//
// sort.Search / sort.SearchStrings / sort.SearchInts return the insertion point, not "found": an index inside the
// list only means the key is not larger than everything. Obligation per call: some test in the function compares the
// element at the returned index with the searched key (or the function uses a search that reports found). A missing
// comparison makes every key that sorts before an entry pass for that entry (an inlined child written with a
// reference to another child's type).
func ruleL35(p *Prog, r *Report) {
	const R = "L35"
	n := 0
	for _, top := range p.TopFuncs() {
		if p.IsTestFile(top.Pos()) {
			continue
		}
		eachInstrDeep(top, func(fn *ssa.Function, in ssa.Instruction) {
			c, ok := in.(*ssa.Call)
			if !ok || c.Call.StaticCallee() == nil || c.Call.StaticCallee().Pkg == nil || c.Call.StaticCallee().Pkg.Pkg.Path() != "sort" {
				return
			}
			nm := c.Call.StaticCallee().Name()
			if nm != "SearchStrings" && nm != "SearchInts" && nm != "SearchFloat64s" && nm != "Search" {
				return
			}
			n++
			compared := false
			eachInstr(fn, func(y ssa.Instruction) {
				bo, ok := y.(*ssa.BinOp)
				if !ok || (bo.Op != token.EQL && bo.Op != token.NEQ) {
					return
				}
				for _, side := range []ssa.Value{bo.X, bo.Y} {
					// an element of some list at the returned index
					if u, ok := canon(side).(*ssa.UnOp); ok && u.Op == token.MUL {
						if ia, ok := u.X.(*ssa.IndexAddr); ok && sliceContains(ia.Index, func(v ssa.Value) bool { return v == ssa.Value(c) }, 0, map[ssa.Value]bool{}) {
							compared = true
						}
					}
				}
			})
			r.Decide(compared, R, "search-hit-compared:"+p.Name(fn), p.InstrPos(in), "the element at the returned position is compared with the key",
				"the position returned by a lower-bound search is used as a hit without comparing the element there with the key: every key that is absent but sorts before some entry is taken for that entry")
		})
	}
	r.Ok(R, "lower-bound-searches", "-", fmt.Sprintf("%d calls of sort.Search*", n))
}

// S18 the base storage's counters are reports, never grounds for a decision.
//
// BaseStorage's parameterless numeric methods (SegmentCounts, Size, and the usage reporter's counters) describe what
// the *committed* store has seen: they know nothing of the write set, and the ledger-backed store answers 0 for
// some of them. A branch of library code that depends on one of them - directly or through a pass-through such as
// (*PersistentSlabStorage).Count - gives a different answer for the same logical content depending on how much of it
// happens to be committed. Obligation: no If condition in the library is computed from such a counter. Instances:
// the counters of the interface, the pass-through functions, and every call of either in library code.
func ruleS18(p *Prog, r *Report) {
	const R = "S18"
	isBaseStorageIface := func(t types.Type) *types.Interface {
		it, ok := t.Underlying().(*types.Interface)
		if !ok {
			return nil
		}
		has := map[string]bool{}
		for i := 0; i < it.NumMethods(); i++ {
			has[it.Method(i).Name()] = true
		}
		if has["Store"] && has["Retrieve"] && has["GenerateSlabID"] {
			return it
		}
		return nil
	}
	counters := map[string]bool{}
	for _, m := range p.RootSSA.Members {
		tp, ok := m.(*ssa.Type)
		if !ok {
			continue
		}
		it := isBaseStorageIface(tp.Type())
		if it == nil {
			continue
		}
		for i := 0; i < it.NumMethods(); i++ {
			sg := it.Method(i).Type().(*types.Signature)
			if sg.Params().Len() != 0 || sg.Results().Len() != 1 {
				continue
			}
			if bt, ok := sg.Results().At(0).Type().Underlying().(*types.Basic); ok && bt.Info()&types.IsNumeric != 0 {
				counters[it.Method(i).Name()] = true
			}
		}
	}
	isCounterCall := func(v ssa.Value, pass map[*ssa.Function]bool) bool {
		c, ok := v.(*ssa.Call)
		if !ok {
			return false
		}
		if c.Call.IsInvoke() {
			return counters[c.Call.Method.Name()] && isBaseStorageIface(c.Call.Value.Type()) != nil
		}
		g := c.Call.StaticCallee()
		if g == nil {
			return false
		}
		if pass[g] {
			return true
		}
		// a concrete base storage's own counter
		if counters[g.Name()] && g.Signature.Recv() != nil && len(g.Params) == 1 {
			if ms := p.SSA.MethodSets.MethodSet(g.Signature.Recv().Type()); ms.Lookup(g.Pkg.Pkg, "GenerateSlabID") != nil && ms.Lookup(g.Pkg.Pkg, "Retrieve") != nil && ms.Lookup(g.Pkg.Pkg, "Store") != nil {
				if sg := ms.Lookup(g.Pkg.Pkg, "Store").Type().(*types.Signature); sg.Params().Len() == 2 {
					if _, isSlice := sg.Params().At(1).Type().Underlying().(*types.Slice); isSlice {
						return true
					}
				}
			}
		}
		return false
	}
	pass := map[*ssa.Function]bool{}
	for changed := true; changed; {
		changed = false
		for _, f := range p.TopFuncs() {
			if pass[f] || p.IsTestFile(f.Pos()) || f.Signature.Results().Len() != 1 {
				continue
			}
			all, any := true, false
			eachInstr(f, func(in ssa.Instruction) {
				ret, ok := in.(*ssa.Return)
				if !ok || len(ret.Results) != 1 {
					return
				}
				any = true
				if !sliceContains(ret.Results[0], func(x ssa.Value) bool { return isCounterCall(x, pass) }, 0, map[ssa.Value]bool{}) {
					all = false
				}
			})
			if any && all {
				pass[f] = true
				changed = true
			}
		}
	}
	nCalls := 0
	for _, top := range p.TopFuncs() {
		if p.IsTestFile(top.Pos()) {
			continue
		}
		eachInstrDeep(top, func(fn *ssa.Function, in ssa.Instruction) {
			if v, ok := in.(ssa.Value); ok && isCounterCall(v, pass) {
				nCalls++
			}
			ifi, ok := in.(*ssa.If)
			if !ok {
				return
			}
			var src ssa.Value
			sliceContains(ifi.Cond, func(x ssa.Value) bool {
				if isCounterCall(x, pass) {
					src = x
					return true
				}
				return false
			}, 0, map[ssa.Value]bool{})
			if src != nil {
				r.Bad(R, "counter-not-a-ground:"+p.Name(fn), p.InstrPos(in), "this branch depends on "+src.String()+": a count of what the committed store holds, which ignores the write set (and is 0 on a ledger-backed store) - the same logical content gives different answers before and after a commit")
			}
		})
	}
	names := []string{}
	for k := range counters {
		names = append(names, k)
	}
	sort.Strings(names)
	r.Decide(true, R, "counters-identified", p.Pos(p.RootSSA.Pkg.Scope().Lookup("BaseStorage").Pos()), "counters of the base-storage interface: "+strings.Join(names, ", ")+"; pass-through functions: "+itoa(len(pass))+"; calls in library code: "+itoa(nCalls)+"; none feeds a branch", "")
	r.Floor(R, "base-storage counters", 2, len(counters))
	r.Floor(R, "pass-through functions and counter calls", 2, len(pass)+nCalls)
}

// L36 digests are only compared, never computed with.
//
// A Digest is an opaque position in the key space: every value from 0 to 2^64-1 is the digest of possible keys, so
// the code that routes by digest (binary searches over first keys, sorted element lists) must work at both ends of
// the range. Comparison does; arithmetic does not (hkey+1 wraps to 0 for the largest digest and sends its key to the
// wrong child). Obligation: no arithmetic or shift instruction of library code has an operand or result of type
// Digest. Instances counted for the floor: the ordered comparisons of digests (the routing decisions).
func ruleL36(p *Prog, r *Report) {
	const R = "L36"
	isDigest := func(t types.Type) bool {
		nt, ok := t.(*types.Named)
		return ok && nt.Obj().Name() == "Digest" && nt.Obj().Pkg() == p.RootSSA.Pkg
	}
	nCmp := 0
	for _, top := range p.TopFuncs() {
		if p.IsTestFile(top.Pos()) {
			continue
		}
		eachInstrDeep(top, func(fn *ssa.Function, in ssa.Instruction) {
			bo, ok := in.(*ssa.BinOp)
			if !ok || !(isDigest(bo.X.Type()) || isDigest(bo.Y.Type()) || isDigest(bo.Type())) {
				return
			}
			switch bo.Op {
			case token.EQL, token.NEQ, token.LSS, token.LEQ, token.GTR, token.GEQ:
				nCmp++
				return
			}
			r.Bad(R, "digest-arithmetic:"+p.Name(fn), p.InstrPos(in), "a digest is computed with ("+bo.Op.String()+"): digests cover the whole 64-bit range, so the result wraps for keys at the end of the range and the routing that uses it sends those keys to the wrong slab (present keys are reported missing, inserts land where lookups do not search)")
		})
	}
	r.Decide(true, R, "digest-comparisons", "-", "ordered / equality comparisons of digests in library code: "+itoa(nCmp)+"; no arithmetic on a digest", "")
	r.Floor(R, "digest comparisons", 10, nCmp)
}

// K5 the last digest level has no digest: a collision group does not fail for want of one.
//
// A collision group one level below `level` asks `digester.Digest(level+1)`. The guard in front of it rejects
// `level+1 > Levels()` only, so `level+1 == Levels()` - the list of fully colliding keys at the bottom - is a legal
// state, and for it the Digester contract answers with an error (there is no digest at that level; the value is not
// used by a list without digests). Obligation per `Digest` call in a method of a collision group: if its error result
// is tested and the non-nil edge leads to an error return, the guard in front of the call must reject equality too
// (`>=`); with the `>` guard the error must be ignored, as all sites do today. A site that starts to return it makes
// every operation through that site fail on maps whose keys collide on all levels.
func ruleK5(p *Prog, r *Report) {
	const R = "K5"
	n := 0
	for _, top := range p.TopFuncs() {
		if p.IsTestFile(top.Pos()) {
			continue
		}
		eachInstr(top, func(in ssa.Instruction) {
			c, ok := in.(*ssa.Call)
			if !ok || !c.Call.IsInvoke() || c.Call.Method.Name() != "Digest" || len(c.Call.Args) != 1 {
				return
			}
			if _, isConst := cInt(c.Call.Args[0]); isConst {
				return // the first level always has a digest: its error is a real failure
			}
			if typeName(c.Call.Value.Type()) != "Digester" {
				return
			}
			n++
			cons := "bottom-level-tolerated:" + p.Name(top)
			lvl := c.Call.Args[0]
			// is equality with Levels() rejected before the call?
			strict := false
			for _, b := range top.Blocks {
				ifi, ok := b.Instrs[len(b.Instrs)-1].(*ssa.If)
				if !ok {
					continue
				}
				bo, ok := ifi.Cond.(*ssa.BinOp)
				if !ok {
					continue
				}
				isLevels := func(v ssa.Value) bool {
					cc, ok := canon(v).(*ssa.Call)
					return ok && cc.Call.IsInvoke() && cc.Call.Method.Name() == "Levels"
				}
				isLvl := func(v ssa.Value) bool {
					if v == lvl || sameValue(canonConv(v), canonConv(lvl)) {
						return true
					}
					// `level + 1` written twice (no common subexpressions in SSA)
					a, ok1 := canonConv(v).(*ssa.BinOp)
					b2, ok2 := canonConv(lvl).(*ssa.BinOp)
					if ok1 && ok2 && a.Op == token.ADD && b2.Op == token.ADD && canon(a.X) == canon(b2.X) {
						k1, c1 := cInt(a.Y)
						k2, c2 := cInt(b2.Y)
						return c1 && c2 && k1 == k2
					}
					return false
				}
				switch {
				case bo.Op == token.GEQ && isLvl(bo.X) && isLevels(bo.Y) && edgeDominates(b, 1, in.Block()),
					bo.Op == token.LSS && isLvl(bo.X) && isLevels(bo.Y) && edgeDominates(b, 0, in.Block()),
					bo.Op == token.LEQ && isLevels(bo.X) && isLvl(bo.Y) && edgeDominates(b, 1, in.Block()),
					bo.Op == token.GTR && isLevels(bo.X) && isLvl(bo.Y) && edgeDominates(b, 0, in.Block()):
					strict = true
				case bo.Op == token.EQL && ((isLvl(bo.X) && isLevels(bo.Y)) || (isLevels(bo.X) && isLvl(bo.Y))) && edgeDominates(b, 1, in.Block()),
					bo.Op == token.NEQ && ((isLvl(bo.X) && isLevels(bo.Y)) || (isLevels(bo.X) && isLvl(bo.Y))) && edgeDominates(b, 0, in.Block()):
					strict = true // the bottom level took another branch
				}
			}
			var errV ssa.Value
			for _, ref := range *c.Referrers() {
				if ex, ok := ref.(*ssa.Extract); ok && ex.Index == 1 {
					errV = ex
				}
			}
			returned := false
			if errV != nil {
				for _, b := range top.Blocks {
					ifi, ok := b.Instrs[len(b.Instrs)-1].(*ssa.If)
					if !ok {
						continue
					}
					v, nn, ok := errTestOf(ifi)
					if !ok || !sameValue(v, errV) {
						continue
					}
					reachFrom(top, b.Succs[nn].Instrs[0], nil, func(z ssa.Instruction) bool {
						if ret, ok := z.(*ssa.Return); ok {
							if cl, _ := classifyReturn(ret); cl == retError {
								returned = true
							}
							return true
						}
						return false
					})
					if ret, ok := b.Succs[nn].Instrs[0].(*ssa.Return); ok {
						if cl, _ := classifyReturn(ret); cl == retError {
							returned = true
						}
					}
				}
			}
			r.Decide(!returned || strict, R, cons, p.InstrPos(in), "the digest error of the bottom level is not turned into a failure (or equality with Levels() is rejected before)", "the error of digester.Digest(level) is returned although the guard in front admits level == Levels(), the bottom list of fully colliding keys, for which the digester has no digest by contract: every operation through this site fails on a map whose keys collide on all levels")
		})
	}
	r.Floor(R, "digest requests at a variable level", 1, n)
}

// E9 what a callback returned next to its error is looked at only after the error.
//
// The element providers of the batch constructors (and every other caller-supplied function or interface method that
// returns `(value, error)`) report failure as `(nil, err)`. A nil test of the value that comes before the error test
// takes a failure for "no more elements" and the constructor returns a shorter container without an error.
// Obligation per call of a func-typed value or interface method in library code whose error result is tested: every
// branch on `value == nil` of a value result of the same call lies on the err == nil edge of that test.
func ruleE9(p *Prog, r *Report) {
	const R = "E9"
	n := 0
	for _, top := range p.TopFuncs() {
		if p.IsTestFile(top.Pos()) || isDiagnosticFile(p.Fset.Position(top.Pos()).Filename) {
			continue
		}
		eachInstrDeep(top, func(fn *ssa.Function, in ssa.Instruction) {
			c, ok := in.(*ssa.Call)
			if !ok {
				return
			}
			if c.Call.StaticCallee() != nil {
				return
			}
			if _, isB := c.Call.Value.(*ssa.Builtin); isB {
				return
			}
			tup, ok := c.Type().(*types.Tuple)
			if !ok || tup.Len() < 2 || !isErrorType(tup.At(tup.Len()-1).Type()) {
				return
			}
			var errV ssa.Value
			var vals []*ssa.Extract
			for _, ref := range *c.Referrers() {
				if ex, ok := ref.(*ssa.Extract); ok {
					if ex.Index == tup.Len()-1 {
						errV = ex
					} else {
						vals = append(vals, ex)
					}
				}
			}
			if errV == nil || len(vals) == 0 {
				return
			}
			for _, v := range vals {
				for _, blk := range fn.Blocks {
					ifi, ok := blk.Instrs[len(blk.Instrs)-1].(*ssa.If)
					if !ok {
						continue
					}
					x, _, ok := nilTestOf(ifi)
					if !ok || !(x == ssa.Value(v) || sameValue(x, v)) {
						continue
					}
					n++
					r.Decide(knownNil(errV, blk), R, "value-after-error:"+p.Name(fn), p.InstrPos(ifi), "the nil test of the callback's value lies on the err == nil edge of its error test", "a value returned by a caller-supplied function is tested for nil before the error it was returned with: a failure reported as (nil, err) is taken for 'nothing more to do' and the error is lost - a batch build returns a shorter container and no error")
				}
			}
		})
	}
	r.Floor(R, "nil tests of callback values", 2, n)
}

// D5 a constructor that is given a seed returns a map that carries it.
//
// The copy constructor receives the source map's seed; the digests of the streamed keys were computed with it and
// every later lookup derives digests from the seed stored in the root's extra data. Obligation for every non-test
// function with a `seed uint64` parameter that returns a map handle: every success return passes through a store of
// that parameter into the Seed field of the map's extra data (a path that returns a map built some other way - a
// fresh NewMap for an empty stream - silently swaps the seed).
func ruleD5(p *Prog, r *Report) {
	const R = "D5"
	n := 0
	for _, top := range p.TopFuncs() {
		if p.IsTestFile(top.Pos()) || len(top.Blocks) == 0 {
			continue
		}
		var seed *ssa.Parameter
		for _, q := range top.Params {
			if bt, ok := q.Type().Underlying().(*types.Basic); ok && bt.Kind() == types.Uint64 && q.Name() == "seed" {
				seed = q
			}
		}
		if seed == nil {
			continue
		}
		res := top.Signature.Results()
		if res.Len() == 0 || typeName(res.At(0).Type()) != "OrderedMap" {
			continue
		}
		n++
		isSeedStore := func(z ssa.Instruction) bool {
			st, ok := z.(*ssa.Store)
			if !ok || canonConv(st.Val) != ssa.Value(seed) {
				return false
			}
			fa, ok := st.Addr.(*ssa.FieldAddr)
			if !ok {
				return false
			}
			_, fn := structFieldName(fa.X.Type(), fa.Field)
			return fn == "Seed"
		}
		bad := successReturnAvoiding(top, nil, isSeedStore)
		pos := p.Pos(top.Pos())
		if bad != nil {
			pos = p.InstrPos(bad)
		}
		r.Decide(bad == nil, R, "given-seed-kept:"+p.Name(top), pos, "every success return passes the store of the seed parameter into the extra data", "a success return is reachable without storing the given seed in the map's extra data: the map handed back carries another seed than the one its keys were digested with (or than its source), so copies stop being equivalent to their source")
	}
	r.Floor(R, "map constructors that are given a seed", 1, n)
}

// D6 the sorted key list of the deterministic commit is not reordered before it is applied.
//
// FastCommit writes registers in the order of the list sortedOwnedDeltaKeys() returns (ascending owner, index).
// Obligation: in a function that receives that list from the collector, the list - under any name, slices share their
// backing array - is never handed to a routine of package sort / slices and no element of it is stored to; a "schedule
// the big slabs first" sort of an alias reorders the register writes too, and the order then depends on the worker
// count.
func ruleD6(p *Prog, r *Report) {
	const R = "D6"
	n := 0
	for _, top := range p.TopFuncs() {
		if p.IsTestFile(top.Pos()) {
			continue
		}
		if ok, _ := relaxedByContract(p, top); ok {
			continue
		}
		eachInstr(top, func(in ssa.Instruction) {
			c, ok := in.(*ssa.Call)
			if !ok {
				return
			}
			g := c.Call.StaticCallee()
			if g == nil || recvName(g) != storageT || !isSlabIDSlice(c.Type()) || g == top {
				return
			}
			// the collector sorts what it returns
			sorts := false
			eachInstrDeep(g, func(_ *ssa.Function, y ssa.Instruction) {
				if cc, ok := y.(*ssa.Call); ok {
					switch pkgPathOfCallee(cc.Call.StaticCallee()) {
					case "sort", "slices":
						sorts = true
					}
				}
			})
			if !sorts {
				return
			}
			n++
			cons := "sorted-keys-stay-sorted:" + p.Name(top)
			var bad ssa.Instruction
			isK := func(v ssa.Value) bool {
				v = canon(v)
				for depth := 0; depth < 4; depth++ {
					if v == ssa.Value(c) {
						return true
					}
					if sl, ok := v.(*ssa.Slice); ok {
						v = canon(sl.X)
						continue
					}
					break
				}
				return false
			}
			eachInstrDeep(top, func(fn *ssa.Function, y ssa.Instruction) {
				if bad != nil {
					return
				}
				switch x := y.(type) {
				case *ssa.Call:
					if pth := pkgPathOfCallee(x.Call.StaticCallee()); pth != "sort" && pth != "slices" {
						return
					}
					for _, a := range x.Call.Args {
						if mi, ok := a.(*ssa.MakeInterface); ok {
							a = mi.X
						}
						if isK(a) {
							bad = y
						}
					}
				case *ssa.Store:
					if ia, ok := x.Addr.(*ssa.IndexAddr); ok && isK(ia.X) {
						bad = y
					}
				}
			})
			r.Decide(bad == nil, R, cons, p.InstrPos(in), "the sorted key list is only read", "the key list the collector returned in ascending (owner, index) order is reordered"+func() string {
				if bad != nil {
					return " at " + p.InstrPos(bad)
				}
				return ""
			}()+" (slices alias their backing array): the register writes of the deterministic commit follow the new order")
		})
	}
	r.Floor(R, "sorted key lists received from a collector", 1, n)
}

// pkgPathOfCallee: the package a (possibly instantiated generic) function was declared in.
func pkgPathOfCallee(g *ssa.Function) string {
	if g == nil {
		return ""
	}
	if o := g.Origin(); o != nil {
		g = o
	}
	if g.Pkg != nil {
		return g.Pkg.Pkg.Path()
	}
	if g.Object() != nil && g.Object().Pkg() != nil {
		return g.Object().Pkg().Path()
	}
	return ""
}
