package main

// Small exact rules of the fifth mutant round.
//
// E7  a wrap helper is never applied to an error that is known to be nil there: wrapError*IfNeeded(nil) is nil, so
//     a failure branch that "returns the wrapped error" of an earlier successful call returns success with zero
//     results (a decoder then hands a typed nil on, and the next use panics).
// S15 a slab read out of the write set or the read cache is tested for nil before a method is called on it: both
//     maps hold nil on purpose (pending removals, known-deleted registers).
// S16 Store and Remove record every accepted request in the write set: each success return is preceded by the
//     write of deltas[id] (a shortcut that looks only at the read cache forgets a pending re-store above it).

import (
	"fmt"
	"go/token"
	"go/types"
	"sort"
	"strings"

	"golang.org/x/tools/go/ssa"
)

func ruleE7(p *Prog, r *Report) {
	const R = "E7"
	n := 0
	count := map[string]int{}
	for _, top := range p.TopFuncs() {
		if p.IsTestFile(top.Pos()) {
			continue
		}
		eachInstrDeep(top, func(fn *ssa.Function, in ssa.Instruction) {
			c, ok := in.(*ssa.Call)
			if !ok || !isWrapHelperCall(c) || len(c.Call.Args) == 0 {
				return
			}
			n++
			ev := c.Call.Args[0]
			if !knownNil(ev, in.Block()) && !isNilConst(canon(ev)) {
				return
			}
			count[p.Name(fn)]++
			r.Bad(R, fmt.Sprintf("wrap-of-nil:%s#%d", p.Name(fn), count[p.Name(fn)]), p.InstrPos(in),
				"the error handed to the wrap helper is known to be nil here (this block lies on the err == nil edge of its test): the helper returns nil, so this failure branch reports success - with zero results that the caller then uses")
		})
	}
	r.Ok(R, "wrap-helper-arguments", "-", fmt.Sprintf("%d wrap-helper calls; none is applied to an error that is known nil at the call", n))
	r.Floor(R, "wrap helper calls", 50, n)
}

func ruleS15(p *Prog, r *Report) {
	const R = "S15"
	n := 0
	count := map[string]int{}
	for _, top := range p.TopFuncs() {
		if p.IsTestFile(top.Pos()) {
			continue
		}
		eachInstrDeep(top, func(fn *ssa.Function, in ssa.Instruction) {
			c, ok := in.(ssa.CallInstruction)
			if !ok || !c.Common().IsInvoke() {
				return
			}
			recv := c.Common().Value
			// the receiver is a value looked up in deltas / cache
			v := canon(recv)
			var lk *ssa.Lookup
			switch x := v.(type) {
			case *ssa.Lookup:
				lk = x
			case *ssa.Extract:
				if l, ok := x.Tuple.(*ssa.Lookup); ok && x.Index == 0 {
					lk = l
				}
			}
			if lk == nil {
				return
			}
			fr, ok := asLoadedField(lk.X)
			if !ok || !(fr.is(storageT, "deltas") || fr.is(storageT, "cache")) {
				return
			}
			n++
			count[p.Name(fn)]++
			cons := fmt.Sprintf("layer-value-nil-checked:%s#%d", p.Name(fn), count[p.Name(fn)])
			guarded := false
			for _, b := range fn.Blocks {
				ifi, ok := b.Instrs[len(b.Instrs)-1].(*ssa.If)
				if !ok {
					continue
				}
				tv, nn, ok := nilTestOf(ifi)
				if ok && sameValue(tv, recv) && edgeDominates(b, nn, in.Block()) {
					guarded = true
				}
			}
			r.Decide(guarded, R, cons, p.InstrPos(in), "the slab taken from the "+fr.Field+" map is known non-nil where a method is called on it",
				"a method is called on a value read from the "+fr.Field+" map without a nil test: that map holds nil on purpose (pending removals / known-deleted registers), so this call panics for such an id")
		})
	}
	r.Ok(R, "layer-values", "-", fmt.Sprintf("%d method calls on values read from deltas / cache", n))
}

func ruleS16(p *Prog, r *Report) {
	const R = "S16"
	n := 0
	for _, nm := range []string{"Store", "Remove"} {
		f := p.Method(storageT, nm)
		if f == nil {
			r.Unk(R, "anchor:"+nm, "-", "method not found")
			continue
		}
		n++
		isRecord := func(z ssa.Instruction) bool {
			for _, fw := range p.fieldWritesOfX(z) {
				if !fw.Ref.is(storageT, "deltas") || fw.Kind != "mapupdate" {
					continue
				}
				// under the id parameter
				for _, q := range f.Params {
					if typeName(q.Type()) == "SlabID" && sameValue(fw.Key, q) {
						return true
					}
				}
			}
			return false
		}
		bad := successReturnAvoiding(f, nil, isRecord)
		pos := p.Pos(f.Pos())
		if bad != nil {
			pos = p.InstrPos(bad)
		}
		r.Decide(bad == nil, R, "request-recorded:"+nm, pos, "every accepted "+nm+" writes deltas[id]",
			nm+" can return success without writing deltas[id]: the request is dropped (a removal that is skipped because the read cache already holds a tombstone leaves a slab that was stored again since then visible, pending and committed)")
	}
	r.Floor(R, "Store / Remove of the persistent storage", 2, n)
}

// E8 a slab that the storage does not have is an error, not an answer.
//
// Retrieve reports a missing slab as (nil, false, nil). In the containers and iterators a referenced slab that is
// missing means a damaged tree: the not-found edge must end in an error return. (A merged test `err != nil || !found`
// that returns the wrapped err returns nil on the not-found edge - for an iterator that is "end of iteration".)
// Obligation per SlabStorage.Retrieve call outside the storage implementations and outside routines that hand the
// found flag on to their caller: from the not-found edge of the test of its found result, only error returns are
// reachable.
func ruleE8(p *Prog, r *Report) {
	const R = "E8"
	n := 0
	count := map[string]int{}
	for _, top := range p.TopFuncs() {
		if p.IsTestFile(top.Pos()) || isDiagnosticFile(p.Fset.Position(top.Pos()).Filename) {
			continue
		}
		if strings.HasSuffix(recvName(top), "SlabStorage") || recvName(top) == "LedgerBaseStorage" {
			continue
		}
		eachInstrDeep(top, func(fn *ssa.Function, in ssa.Instruction) {
			c, ok := in.(*ssa.Call)
			if !ok || !c.Call.IsInvoke() || c.Call.Method.Name() != "Retrieve" || typeName(c.Call.Value.Type()) != "SlabStorage" {
				return
			}
			if !lastResultIsError(fn) {
				return
			}
			// routines that return the found flag themselves pass the decision on
			res := fn.Signature.Results()
			for i := 0; i < res.Len(); i++ {
				if b, ok := res.At(i).Type().Underlying().(*types.Basic); ok && b.Kind() == types.Bool {
					return
				}
			}
			var found ssa.Value
			if c.Referrers() != nil {
				for _, ref := range *c.Referrers() {
					if ex, ok := ref.(*ssa.Extract); ok && ex.Index == 1 {
						found = ex
					}
				}
			}
			n++
			count[p.Name(fn)]++
			cons := fmt.Sprintf("missing-slab-is-an-error:%s#%d", p.Name(fn), count[p.Name(fn)])
			if found == nil {
				r.Bad(R, cons, p.InstrPos(in), "the found result of Retrieve is discarded: a missing slab is not noticed")
				return
			}
			// every test of found: its false edge
			var esc ssa.Instruction
			tested := false
			for _, b := range fn.Blocks {
				ifi, ok := b.Instrs[len(b.Instrs)-1].(*ssa.If)
				if !ok {
					continue
				}
				cnd := ifi.Cond
				notFoundSucc := 1
				if u, ok := cnd.(*ssa.UnOp); ok && u.Op == token.NOT {
					cnd, notFoundSucc = u.X, 0
				}
				if cnd != found {
					continue
				}
				tested = true
				type edge struct{ from, to *ssa.BasicBlock }
				seen := map[edge]bool{}
				var walk func(from, x *ssa.BasicBlock)
				walk = func(from, x *ssa.BasicBlock) {
					if seen[edge{from, x}] || esc != nil {
						return
					}
					seen[edge{from, x}] = true
					last := x.Instrs[len(x.Instrs)-1]
					if ret, ok := last.(*ssa.Return); ok {
						cl, rv := classifyReturn(ret)
						if cl == retError {
							return
						}
						if c2, ok := classifyOnEdge(rv, from, x); ok && c2 == retError {
							return
						}
						esc = ret
						return
					}
					if _, ok := last.(*ssa.Panic); ok {
						return
					}
					for _, sc := range x.Succs {
						walk(x, sc)
					}
				}
				walk(b, b.Succs[notFoundSucc])
			}
			if !tested {
				r.Bad(R, cons, p.InstrPos(in), "the found result of Retrieve is never branched on: a missing slab is not noticed")
				return
			}
			if esc != nil {
				r.Bad(R, cons, p.InstrPos(in), "from the not-found edge of this Retrieve the return at "+p.InstrPos(esc)+" is reachable, which does not carry a non-nil error: a referenced slab that the storage does not have is taken for an answer (for an iterator: the end of the iteration, so elements are silently missing)")
			} else {
				r.Ok(R, cons, p.InstrPos(in), "the not-found edge ends in error returns")
			}
		})
	}
	r.Floor(R, "Retrieve calls in containers and iterators", 5, n)
}

// R9 the parent is notified on success paths only.
//
// notifyParentIfNeeded makes the parent re-set this container in itself and store its slab (and its ancestors do
// the same). A rejected request must leave no trace (C18): the notification may not be deferred (a deferred call
// also runs on the early returns of rejected requests) and may not sit in the handling of a failure.
func ruleR9(p *Prog, r *Report) {
	const R = "R9"
	n := 0
	count := map[string]int{}
	for _, top := range p.TopFuncs() {
		if p.IsTestFile(top.Pos()) {
			continue
		}
		eachInstrDeep(top, func(fn *ssa.Function, in ssa.Instruction) {
			c, ok := in.(ssa.CallInstruction)
			if !ok || calleeName(c) != "notifyParentIfNeeded" {
				return
			}
			n++
			count[p.Name(top)]++
			cons := fmt.Sprintf("notify-on-success-only:%s#%d", p.Name(top), count[p.Name(top)])
			_, isDefer := in.(*ssa.Defer)
			inDeferred := false
			if fn != top {
				eachInstrDeep(top, func(_ *ssa.Function, y ssa.Instruction) {
					if d, ok := y.(*ssa.Defer); ok && closureOf(d.Call.Value) == fn {
						inDeferred = true
					}
				})
			}
			switch {
			case isDefer || inDeferred:
				r.Bad(R, cons, p.InstrPos(in), "the parent notification is deferred: it also runs on the early returns of rejected requests (absent key, failing hash-input provider), so a rejected request re-sets and stores the parent and its ancestors - a pending write and an identical register rewritten at the next commit")
			case inErrorHandler(fn, in.Block()):
				r.Bad(R, cons, p.InstrPos(in), "the parent is notified while a failure is being handled: a failed request leaves a pending write in the ancestors")
			default:
				r.Ok(R, cons, p.InstrPos(in), "notified on a success path, not deferred")
			}
		})
	}
	r.Floor(R, "parent notifications", 5, n)
}

// L34 what was put into the encoder's scratch buffer is written out before another encoder runs.
//
// Encoder.Scratch is one 64-byte buffer shared by every routine that receives the encoder. A routine that fills
// it (a slab id, a length head) and writes it out later must not hand the encoder to another routine in between:
// that routine may use the same buffer (the compact-map entry assembles digests there), and the bytes written
// afterwards are no longer the ones that were prepared (a sibling link that points nowhere).
func ruleL34(p *Prog, r *Report) {
	const R = "L34"
	n := 0
	count := map[string]int{}
	isScratchOf := func(v ssa.Value) (ssa.Value, bool) {
		// v is enc.Scratch[...] (a slice of the Scratch array field of an Encoder)
		sl, ok := canon(v).(*ssa.Slice)
		if !ok {
			return nil, false
		}
		fa, ok := sl.X.(*ssa.FieldAddr)
		if !ok {
			return nil, false
		}
		if _, nm := structFieldName(fa.X.Type(), fa.Field); nm != "Scratch" || !isEncoderPtr(fa.X.Type()) {
			return nil, false
		}
		return canon(fa.X), true
	}
	for _, top := range p.TopFuncs() {
		if p.IsTestFile(top.Pos()) {
			continue
		}
		eachInstr(top, func(in ssa.Instruction) {
			// a fill: a call (other than a write-out) that receives enc.Scratch[..], or a store into enc.Scratch[i]
			c, ok := in.(ssa.CallInstruction)
			if !ok {
				return
			}
			nm := calleeName(c)
			if nm == "Write" || nm == "EncodeRawBytes" || nm == "EncodeBytes" {
				return
			}
			var enc ssa.Value
			for _, a := range c.Common().Args {
				if e, ok := isScratchOf(a); ok {
					enc = e
				}
			}
			if enc == nil {
				return
			}
			n++
			count[p.Name(top)]++
			cons := fmt.Sprintf("scratch-written-out-first:%s#%d", p.Name(top), count[p.Name(top)])
			var bad ssa.Instruction
			reachFrom(top, in, nil, func(y ssa.Instruction) bool {
				if bad != nil || y == in {
					return bad != nil
				}
				cy, ok := y.(ssa.CallInstruction)
				if !ok {
					return false
				}
				ny := calleeName(cy)
				// the write-out of the scratch ends the obligation on this path
				for _, a := range cy.Common().Args {
					if e, ok := isScratchOf(a); ok && sameValue(e, enc) && (ny == "Write" || ny == "EncodeRawBytes" || ny == "EncodeBytes") {
						return true
					}
				}
				// another fill of the same buffer also ends it (the earlier content is given up on purpose)
				for _, a := range cy.Common().Args {
					if e, ok := isScratchOf(a); ok && sameValue(e, enc) {
						return true
					}
				}
				// the encoder handed on
				for _, a := range cy.Common().Args {
					if isEncoderPtr(a.Type()) && sameValue(a, enc) {
						bad = y
						return true
					}
				}
				return false
			})
			if bad != nil {
				r.Bad(R, cons, p.InstrPos(in), "the scratch buffer is filled here and the encoder is handed to another routine at "+p.InstrPos(bad)+" before the buffer is written out: that routine may use the same scratch buffer, so the bytes written afterwards are not the ones prepared here")
			} else {
				r.Ok(R, cons, p.InstrPos(in), "written out (or refilled) before the encoder is handed on")
			}
		})
	}
	r.Ok(R, "scratch-fills", "-", fmt.Sprintf("%d fills of an encoder's scratch buffer by a call", n))
}

// S17 only the loaded-value readers ask whether a slab is in memory.
//
// C08: whether a slab is served from the write set, the read cache or the ledger never changes an outcome. The
// one API whose answer depends on what is in memory (RetrieveIfLoaded) exists for the loaded-value iterators and
// getLoadedValue, which are documented to see loaded data only. A mutation or lookup path that consults it makes a
// structural choice depend on the cache (which sibling to rebalance with): every resulting tree is valid, but the
// registers differ between schedules of commits, evictions and reopenings.
func ruleS17(p *Prog, r *Report) {
	const R = "S17"
	n := 0
	for _, top := range p.TopFuncs() {
		if p.IsTestFile(top.Pos()) || strings.HasSuffix(recvName(top), "SlabStorage") {
			continue
		}
		eachInstrDeep(top, func(fn *ssa.Function, in ssa.Instruction) {
			c, ok := in.(ssa.CallInstruction)
			if !ok || !c.Common().IsInvoke() || c.Common().Method.Name() != "RetrieveIfLoaded" {
				return
			}
			n++
			// allowed: loaded-value readers, and private helpers only they call
			var allowed func(f *ssa.Function, d int) bool
			allowed = func(f *ssa.Function, d int) bool {
				// the loaded-value iterators (types) and the loaded-value reader of a storable
				rn := recvName(f)
				if strings.Contains(rn, "Loaded") || strings.Contains(rn, "loaded") || (f.Signature.Recv() == nil && f.Name() == "getLoadedValue") {
					return true
				}
				if d > 2 || f.Object() == nil || f.Object().Exported() {
					return false
				}
				sites := p.CallersOf(f)
				if len(sites) == 0 {
					return false
				}
				for _, cs := range sites {
					if !allowed(TopLevel(cs.Caller), d+1) {
						return false
					}
				}
				return true
			}
			r.Decide(allowed(top, 0), R, "loaded-query-only-in-loaded-readers:"+p.Name(top), p.InstrPos(in),
				"asked by a loaded-value reader",
				"a routine that is not one of the loaded-value readers asks whether a slab is in memory: what it does next depends on the state of the write set and the read cache, so the same history yields different registers under different schedules of commits, evictions and reopenings")
		})
	}
	r.Floor(R, "is-loaded queries", 3, n)
}

// N9 the child's callback is evaluated when it runs, and the setter always installs.
//
// (a) setParentUpdater stores its argument on every path: a child that is handed to a new parent must get that
// parent's callback, whatever it had before. (b) The callback a parent installs looks at the child's state when it
// is called: a closure that captures a boolean computed from the child at installation time (is it inlined, would it
// fit) decides with a snapshot that another handle of the same child may have invalidated.
func ruleN9(p *Prog, r *Report) {
	const R = "N9"
	n := 0
	for _, f := range p.TopFuncs() {
		if p.IsTestFile(f.Pos()) || f.Name() != "setParentUpdater" || len(f.Params) != 2 {
			continue
		}
		n++
		isStore := func(z ssa.Instruction) bool {
			st, ok := z.(*ssa.Store)
			if !ok {
				return false
			}
			fr, ok := asFieldAddr(st.Addr)
			return ok && sameValue(fr.Base, f.Params[0]) && canon(st.Val) == ssa.Value(f.Params[1])
		}
		bad := successReturnAvoiding(f, nil, isStore)
		r.Decide(bad == nil, R, "setter-always-installs:"+p.Name(f), p.Pos(f.Pos()), "the callback handed in is stored on every path",
			"setParentUpdater can return without installing the callback it was given: a child that moves to another parent keeps the callback of its former parent, whose next run reports 'not my child' and is dropped - the new parent is never notified")
	}
	// (b) closures handed to setParentUpdater
	for _, top := range p.TopFuncs() {
		if p.IsTestFile(top.Pos()) {
			continue
		}
		eachInstr(top, func(in ssa.Instruction) {
			c, ok := in.(ssa.CallInstruction)
			if !ok || calleeName(c) != "setParentUpdater" {
				return
			}
			args := callArgs(c)
			if len(args) == 0 {
				return
			}
			cl := closureOf(args[len(args)-1])
			mc, _ := canon(args[len(args)-1]).(*ssa.MakeClosure)
			if mc == nil {
				if bc, ok := canon(args[len(args)-1]).(*ssa.Call); ok {
					mc = builtClosure(bc) // the callback is built by a helper that returns it
				}
			}
			if cl == nil || mc == nil {
				return
			}
			n++
			bad := ""
			for i, b := range mc.Bindings {
				// what the captured cell holds
				v := singleStoreTo(b)
				if v == nil {
					v = b
				}
				if bt, ok := v.Type().Underlying().(*types.Basic); !ok || bt.Kind() != types.Bool {
					continue
				}
				if sliceContains(v, func(x ssa.Value) bool {
					cc, ok := x.(*ssa.Call)
					return ok && cc.Call.IsInvoke() && (cc.Call.Method.Name() == "Inlined" || cc.Call.Method.Name() == "Inlinable")
				}, 0, map[ssa.Value]bool{}) {
					if i < len(cl.FreeVars) {
						bad = cl.FreeVars[i].Name()
					} else {
						bad = "?"
					}
				}
			}
			r.Decide(bad == "", R, "callback-reads-live-state:"+p.Name(top), p.InstrPos(in), "the callback captures no snapshot of the child's inlined / inlinable state",
				"the callback captures "+bad+", a boolean computed from the child's inlined / inlinable state when the callback was installed: another handle of the same child may have changed that state since, and the callback then skips an update that is needed (or the other way round)")
		})
	}
	// (c) a child that was recorded is a child whose callback is installed
	for _, top := range p.TopFuncs() {
		if p.IsTestFile(top.Pos()) {
			continue
		}
		var inst []ssa.Instruction
		eachInstr(top, func(in ssa.Instruction) {
			c, ok := in.(ssa.CallInstruction)
			if !ok || calleeName(c) != "setParentUpdater" {
				return
			}
			args := callArgs(c)
			if len(args) > 0 && closureOf(args[len(args)-1]) != nil {
				inst = append(inst, in)
			}
		})
		if len(inst) == 0 {
			continue
		}
		isInst := func(in ssa.Instruction) bool {
			for _, x := range inst {
				if x == in {
					return true
				}
			}
			return false
		}
		eachInstr(top, func(in ssa.Instruction) {
			recorded := false
			if fw, ok := fieldWriteOf(in); ok && fw.Kind == "mapupdate" && isChildRegistryField(fw.Ref) {
				recorded = true
			}
			if c, ok := in.(ssa.CallInstruction); ok && !recorded {
				if k, _, ok := p.registryHelper(c.Common().StaticCallee()); ok && k == "mapupdate" {
					recorded = true
				}
			}
			if !recorded {
				return
			}
			n++
			bad := successReturnAvoiding(top, in, isInst)
			r.Decide(bad == nil, R, "recorded-child-gets-callback:"+p.Name(top), p.InstrPos(in), "every return after the child was recorded passes through the installation of this parent's callback",
				"the child is recorded as an element of this parent, but the function can return without installing this parent's callback: a child that still carries the callback of a former parent keeps it, that callback reports 'not my child' and is dropped, and this parent is never told about the child's mutations")
		})
	}
	r.Floor(R, "callback setters and installations", 6, n)
}

// L35 the position a lower-bound search returns is compared with the key before it counts as a hit.
//
// sort.Search / sort.SearchStrings / sort.SearchInts return the insertion point, not "found": an index inside the
// list only means the key is not larger than everything. Obligation per call: some test in the function compares the
// element at the returned index with the searched key (or the function uses a search that reports found). A missing
// comparison makes every key that sorts before an entry pass for that entry (an inlined child written with a
// reference to another child's type).
func ruleL35(p *Prog, r *Report) {
	const R = "L35"
	n := 0
	for _, top := range p.TopFuncs() {
		if p.IsTestFile(top.Pos()) {
			continue
		}
		eachInstrDeep(top, func(fn *ssa.Function, in ssa.Instruction) {
			c, ok := in.(*ssa.Call)
			if !ok || c.Call.StaticCallee() == nil || c.Call.StaticCallee().Pkg == nil || c.Call.StaticCallee().Pkg.Pkg.Path() != "sort" {
				return
			}
			nm := c.Call.StaticCallee().Name()
			if nm != "SearchStrings" && nm != "SearchInts" && nm != "SearchFloat64s" && nm != "Search" {
				return
			}
			n++
			compared := false
			eachInstr(fn, func(y ssa.Instruction) {
				bo, ok := y.(*ssa.BinOp)
				if !ok || (bo.Op != token.EQL && bo.Op != token.NEQ) {
					return
				}
				for _, side := range []ssa.Value{bo.X, bo.Y} {
					// an element of some list at the returned index
					if u, ok := canon(side).(*ssa.UnOp); ok && u.Op == token.MUL {
						if ia, ok := u.X.(*ssa.IndexAddr); ok && sliceContains(ia.Index, func(v ssa.Value) bool { return v == ssa.Value(c) }, 0, map[ssa.Value]bool{}) {
							compared = true
						}
					}
				}
			})
			r.Decide(compared, R, "search-hit-compared:"+p.Name(fn), p.InstrPos(in), "the element at the returned position is compared with the key",
				"the position returned by a lower-bound search is used as a hit without comparing the element there with the key: every key that is absent but sorts before some entry is taken for that entry")
		})
	}
	r.Ok(R, "lower-bound-searches", "-", fmt.Sprintf("%d calls of sort.Search*", n))
}

// S18 the base storage's counters are reports, never grounds for a decision.
//
// BaseStorage's parameterless numeric methods (SegmentCounts, Size, and the usage reporter's counters) describe what
// the *committed* store has seen: they know nothing of the write set, and the ledger-backed store answers 0 for
// some of them. A branch of library code that depends on one of them - directly or through a pass-through such as
// (*PersistentSlabStorage).Count - gives a different answer for the same logical content depending on how much of it
// happens to be committed. Obligation: no If condition in the library is computed from such a counter. Instances:
// the counters of the interface, the pass-through functions, and every call of either in library code.
func ruleS18(p *Prog, r *Report) {
	const R = "S18"
	isBaseStorageIface := func(t types.Type) *types.Interface {
		it, ok := t.Underlying().(*types.Interface)
		if !ok {
			return nil
		}
		has := map[string]bool{}
		for i := 0; i < it.NumMethods(); i++ {
			has[it.Method(i).Name()] = true
		}
		if has["Store"] && has["Retrieve"] && has["GenerateSlabID"] {
			return it
		}
		return nil
	}
	counters := map[string]bool{}
	for _, m := range p.RootSSA.Members {
		tp, ok := m.(*ssa.Type)
		if !ok {
			continue
		}
		it := isBaseStorageIface(tp.Type())
		if it == nil {
			continue
		}
		for i := 0; i < it.NumMethods(); i++ {
			sg := it.Method(i).Type().(*types.Signature)
			if sg.Params().Len() != 0 || sg.Results().Len() != 1 {
				continue
			}
			if bt, ok := sg.Results().At(0).Type().Underlying().(*types.Basic); ok && bt.Info()&types.IsNumeric != 0 {
				counters[it.Method(i).Name()] = true
			}
		}
	}
	isCounterCall := func(v ssa.Value, pass map[*ssa.Function]bool) bool {
		c, ok := v.(*ssa.Call)
		if !ok {
			return false
		}
		if c.Call.IsInvoke() {
			return counters[c.Call.Method.Name()] && isBaseStorageIface(c.Call.Value.Type()) != nil
		}
		g := c.Call.StaticCallee()
		if g == nil {
			return false
		}
		if pass[g] {
			return true
		}
		// a concrete base storage's own counter
		if counters[g.Name()] && g.Signature.Recv() != nil && len(g.Params) == 1 {
			if ms := p.SSA.MethodSets.MethodSet(g.Signature.Recv().Type()); ms.Lookup(g.Pkg.Pkg, "GenerateSlabID") != nil && ms.Lookup(g.Pkg.Pkg, "Retrieve") != nil && ms.Lookup(g.Pkg.Pkg, "Store") != nil {
				if sg := ms.Lookup(g.Pkg.Pkg, "Store").Type().(*types.Signature); sg.Params().Len() == 2 {
					if _, isSlice := sg.Params().At(1).Type().Underlying().(*types.Slice); isSlice {
						return true
					}
				}
			}
		}
		return false
	}
	pass := map[*ssa.Function]bool{}
	for changed := true; changed; {
		changed = false
		for _, f := range p.TopFuncs() {
			if pass[f] || p.IsTestFile(f.Pos()) || f.Signature.Results().Len() != 1 {
				continue
			}
			all, any := true, false
			eachInstr(f, func(in ssa.Instruction) {
				ret, ok := in.(*ssa.Return)
				if !ok || len(ret.Results) != 1 {
					return
				}
				any = true
				if !sliceContains(ret.Results[0], func(x ssa.Value) bool { return isCounterCall(x, pass) }, 0, map[ssa.Value]bool{}) {
					all = false
				}
			})
			if any && all {
				pass[f] = true
				changed = true
			}
		}
	}
	nCalls := 0
	for _, top := range p.TopFuncs() {
		if p.IsTestFile(top.Pos()) {
			continue
		}
		eachInstrDeep(top, func(fn *ssa.Function, in ssa.Instruction) {
			if v, ok := in.(ssa.Value); ok && isCounterCall(v, pass) {
				nCalls++
			}
			ifi, ok := in.(*ssa.If)
			if !ok {
				return
			}
			var src ssa.Value
			sliceContains(ifi.Cond, func(x ssa.Value) bool {
				if isCounterCall(x, pass) {
					src = x
					return true
				}
				return false
			}, 0, map[ssa.Value]bool{})
			if src != nil {
				r.Bad(R, "counter-not-a-ground:"+p.Name(fn), p.InstrPos(in), "this branch depends on "+src.String()+": a count of what the committed store holds, which ignores the write set (and is 0 on a ledger-backed store) - the same logical content gives different answers before and after a commit")
			}
		})
	}
	names := []string{}
	for k := range counters {
		names = append(names, k)
	}
	sort.Strings(names)
	r.Decide(true, R, "counters-identified", p.Pos(p.RootSSA.Pkg.Scope().Lookup("BaseStorage").Pos()), "counters of the base-storage interface: "+strings.Join(names, ", ")+"; pass-through functions: "+itoa(len(pass))+"; calls in library code: "+itoa(nCalls)+"; none feeds a branch", "")
	r.Floor(R, "base-storage counters", 2, len(counters))
	r.Floor(R, "pass-through functions and counter calls", 2, len(pass)+nCalls)
}

// L36 digests are only compared, never computed with.
//
// A Digest is an opaque position in the key space: every value from 0 to 2^64-1 is the digest of possible keys, so
// the code that routes by digest (binary searches over first keys, sorted element lists) must work at both ends of
// the range. Comparison does; arithmetic does not (hkey+1 wraps to 0 for the largest digest and sends its key to the
// wrong child). Obligation: no arithmetic or shift instruction of library code has an operand or result of type
// Digest. Instances counted for the floor: the ordered comparisons of digests (the routing decisions).
func ruleL36(p *Prog, r *Report) {
	const R = "L36"
	isDigest := func(t types.Type) bool {
		nt, ok := t.(*types.Named)
		return ok && nt.Obj().Name() == "Digest" && nt.Obj().Pkg() == p.RootSSA.Pkg
	}
	nCmp := 0
	for _, top := range p.TopFuncs() {
		if p.IsTestFile(top.Pos()) {
			continue
		}
		eachInstrDeep(top, func(fn *ssa.Function, in ssa.Instruction) {
			bo, ok := in.(*ssa.BinOp)
			if !ok || !(isDigest(bo.X.Type()) || isDigest(bo.Y.Type()) || isDigest(bo.Type())) {
				return
			}
			switch bo.Op {
			case token.EQL, token.NEQ, token.LSS, token.LEQ, token.GTR, token.GEQ:
				nCmp++
				return
			}
			r.Bad(R, "digest-arithmetic:"+p.Name(fn), p.InstrPos(in), "a digest is computed with ("+bo.Op.String()+"): digests cover the whole 64-bit range, so the result wraps for keys at the end of the range and the routing that uses it sends those keys to the wrong slab (present keys are reported missing, inserts land where lookups do not search)")
		})
	}
	r.Decide(true, R, "digest-comparisons", "-", "ordered / equality comparisons of digests in library code: "+itoa(nCmp)+"; no arithmetic on a digest", "")
	r.Floor(R, "digest comparisons", 10, nCmp)
}
