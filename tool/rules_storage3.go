package main

// S10 every collected key is applied (C03, C09, C14, C15).
//
// A commit routine first collects the owned keys of the write set (S2 decides that
// every owned key is collected) and then walks what it collected. Nothing in S3/S4
// notices a collection that is never walked, or a view of the collection that is
// not what was collected: a commit that returns nil would leave pending changes
// behind, or - for removals - a register that is gone from the view and still in
// the ledger. The rule identifies the collections of each commit entry point
//
//   - the slice returned by a collector function (a function of the storage that
//     ranges over the write set and returns a slice of keys),
//   - the exact regions of a local array filled inside a range over the write set
//     (front region [:c] where c is the counter the front stores index by, back
//     region [len-c:] likewise); any other slice view of such an array is reported,
//
// and requires that on every path from the collection to a success return the
// collection is applied: handed to a helper that walks its key parameter and writes
// registers, or walked by a loop that writes registers, or walked by a loop that
// feeds the workers - in which case a loop that receives results and writes
// registers must follow on every success path. Paths on which the collection is
// known to be empty (true edge of len/counter == 0) are exempt.

import (
	"go/token"
	"go/types"

	"golang.org/x/tools/go/ssa"
)

// walksAndWrites: g has a slice parameter that it ranges over, writing a register per key.
func (p *Prog) walksAndWrites(g *ssa.Function) int {
	if g == nil || len(g.Blocks) == 0 {
		return -1
	}
	for i, prm := range g.Params {
		if !isSlabIDSlice(prm.Type()) {
			continue
		}
		if p.loopOverWrites(g, prm) != nil {
			return i
		}
	}
	return -1
}

func isSlabIDSlice(t interface{ String() string }) bool {
	s := t.String()
	return s == "[]github.com/onflow/atree.SlabID"
}

// loopsOver: headers of loops in f that read elements of slice v (IndexAddr on v inside the loop).
func loopsOver(f *ssa.Function, v ssa.Value) []*ssa.BasicBlock {
	var out []*ssa.BasicBlock
	seen := map[*ssa.BasicBlock]bool{}
	eachInstr(f, func(in ssa.Instruction) {
		ia, ok := in.(*ssa.IndexAddr)
		if !ok || !(canon(ia.X) == canon(v) || sameValue(ia.X, v)) {
			return
		}
		if h := loopHeadOf(in.Block()); h != nil && !seen[h] {
			seen[h] = true
			out = append(out, h)
		}
	})
	return out
}

// loopOverWrites: a loop of f over v whose body writes a register; returns its header.
func (p *Prog) loopOverWrites(f *ssa.Function, v ssa.Value) *ssa.BasicBlock {
	for _, h := range loopsOver(f, v) {
		for b := range loopBlocks(h) {
			for _, in := range b.Instrs {
				if _, _, _, ok := p.registerWrite(in); ok {
					return h
				}
			}
		}
	}
	return nil
}

func ruleS10(p *Prog, r *Report) {
	const R = "S10"
	n := 0
	for _, f := range p.commitGraph() {
		if !isCommitEntry(f) {
			continue
		}
		type coll struct {
			def   ssa.Instruction
			v     ssa.Value
			what  string
			count ssa.Value // counter whose == 0 means empty (nil: use len(v))
		}
		var colls []coll
		var helperCollectors []*ssa.Function
		// (i) collector calls
		eachInstr(f, func(in ssa.Instruction) {
			c, ok := in.(*ssa.Call)
			if !ok {
				return
			}
			g := c.Call.StaticCallee()
			if g == nil || recvName(g) != storageT || len(g.Blocks) == 0 {
				return
			}
			tup, isTuple := c.Type().(*types.Tuple)
			if !isSlabIDSlice(c.Type()) && !isTuple {
				return
			}
			rangesDeltas := false
			eachInstrDeep(g, func(_ *ssa.Function, x ssa.Instruction) {
				if fr, _, ok := rangeOverField(x); ok && fr.is(storageT, "deltas") {
					rangesDeltas = true
				}
			})
			if !rangesDeltas {
				return
			}
			if !isTuple {
				colls = append(colls, coll{in, c, "keys returned by " + g.Name(), nil})
				return
			}
			// a collector that returns several regions (modified / deleted): each extracted slice is a collection
			any := false
			for _, ref := range *c.Referrers() {
				if ex, ok := ref.(*ssa.Extract); ok && ex.Index < tup.Len() && isSlabIDSlice(ex.Type()) {
					colls = append(colls, coll{ex, ex, "keys returned by " + g.Name(), nil})
					any = true
				}
			}
			if any {
				helperCollectors = append(helperCollectors, g)
			}
		})
		// (ii) local collector arrays (of the entry point itself, or of a collector helper that returns the views)
		views := func(fn *ssa.Function, add bool) {
			eachInstr(fn, func(in ssa.Instruction) {
				mk, ok := in.(*ssa.MakeSlice)
				if !ok || !isSlabIDSlice(mk.Type()) {
					return
				}
				// stores into it inside a range over the write set
				type fill struct {
					idx ssa.Value
				}
				var fills []fill
				eachInstr(fn, func(x ssa.Instruction) {
					st, ok := x.(*ssa.Store)
					if !ok {
						return
					}
					ia, ok := st.Addr.(*ssa.IndexAddr)
					if !ok || canon(ia.X) != ssa.Value(mk) {
						return
					}
					fills = append(fills, fill{ia.Index})
				})
				if len(fills) == 0 {
					return
				}
				// every slice view of the array
				ord := 0
				eachInstr(fn, func(x ssa.Instruction) {
					sl, ok := x.(*ssa.Slice)
					if !ok || canon(sl.X) != ssa.Value(mk) {
						return
					}
					ord++
					exact := false
					var counter ssa.Value
					// linear forms over len(A), loop phis and constants: a fill at index I(P) (P = the counter's header
					// phi, advanced by one per fill) fills {I(0..P-1)}; the view must be exactly that set:
					// front I(P) = P with view [:P], back I(P) = len-1-P with view [len-P:]
					lo, okLo := linOf(sl.Low, mk)
					hi, okHi := linOf(sl.High, mk)
					if sl.Low == nil {
						lo, okLo = linForm{}, true
					}
					if sl.High == nil {
						hi, okHi = linForm{lenC: 1}, true
					}
					if okLo && okHi {
						for _, fl := range fills {
							fi, ok := linOf(fl.idx, mk)
							if !ok || len(fi.phis) != 1 {
								continue
							}
							var ph *ssa.Phi
							var pc int64
							for k, v := range fi.phis {
								ph, pc = k, v
							}
							switch {
							case pc == 1 && fi.lenC == 0 && fi.c == 0:
								// front: view [0 : P]
								if lo.isZero() && hi.lenC == 0 && hi.c == 0 && len(hi.phis) == 1 && hi.phis[ph] == 1 {
									exact, counter = true, ph
								}
							case pc == -1 && fi.lenC == 1 && fi.c == -1:
								// back: view [len-P : len]
								if hi.lenC == 1 && hi.c == 0 && len(hi.phis) == 0 && lo.lenC == 1 && lo.c == 0 && len(lo.phis) == 1 && lo.phis[ph] == -1 {
									exact, counter = true, ph
								}
							}
						}
					}
					n++
					cons := "collector-view:" + p.Name(fn)
					if ord > 1 {
						cons += "#" + itoa(ord)
					}
					if exact {
						// the counter that bounds the region advances with every fill: c is a loop phi and the block of
						// each fill that indexes by c also computes c + 1, which flows back into the phi
						adv := false
						if ph, ok := canon(counter).(*ssa.Phi); ok {
							eachInstr(fn, func(y ssa.Instruction) {
								bo, ok := y.(*ssa.BinOp)
								if !ok || bo.Op != token.ADD || canon(bo.X) != ssa.Value(ph) {
									return
								}
								if k, isK := constInt(bo.Y); !isK || k != 1 {
									return
								}
								flows := false
								for _, e := range ph.Edges {
									if canon(e) == ssa.Value(bo) {
										flows = true
									}
									if p2, ok := canon(e).(*ssa.Phi); ok {
										for _, e2 := range p2.Edges {
											if canon(e2) == ssa.Value(bo) {
												flows = true
											}
										}
									}
								}
								if !flows {
									return
								}
								// a fill in the same block
								for _, z := range bo.Block().Instrs {
									if st, ok := z.(*ssa.Store); ok {
										if ia, ok := st.Addr.(*ssa.IndexAddr); ok && canon(ia.X) == ssa.Value(mk) {
											adv = true
										}
									}
								}
							})
						}
						if !adv {
							r.Bad(R, cons, p.InstrPos(x), "the counter that bounds this region of the collector array is not advanced together with the fills that index by it: the region stays empty (or too short) and the keys collected into it are never applied")
							return
						}
					}
					if !exact {
						r.Bad(R, cons, p.InstrPos(x), "this slice of the array the commit keys were collected into is neither the region filled from the front ([:counter]) nor the region filled from the back ([len-counter:]): it can contain unset (zero) identifiers and miss collected ones")
						return
					}
					r.Ok(R, cons, p.InstrPos(x), "exact region of the collector array")
					if add {
						colls = append(colls, coll{x, sl, "region of the collector array", counter})
					}
				})
			})
		}
		views(f, true)
		for _, g := range helperCollectors {
			views(g, false)
		}
		// consumption of every collection
		hasRecvWriteLoop := func(from ssa.Instruction, edgeOK func(*ssa.BasicBlock, int) bool) bool {
			// every success path after `from` passes through a loop that receives from a channel and writes a register
			heads := map[*ssa.BasicBlock]bool{}
			for _, b := range f.Blocks {
				h := loopHeadOf(b)
				if h == nil || heads[h] {
					continue
				}
				recv, wr := false, false
				for lb := range loopBlocks(h) {
					for _, x := range lb.Instrs {
						if u, ok := x.(*ssa.UnOp); ok && u.Op == token.ARROW {
							recv = true
						}
						if _, _, _, ok := p.registerWrite(x); ok {
							wr = true
						}
					}
				}
				if recv && wr {
					heads[h] = true
				}
			}
			// FastCommit shape: receive loop fills a map, a later loop over the keys writes: accepted through the
			// key loop itself (it is an applying loop of the collection), so only the direct shape is needed here
			var esc *ssa.Return
			reachFrom(f, from, edgeOK, func(z ssa.Instruction) bool {
				if esc != nil || heads[z.Block()] {
					return true
				}
				if ret, ok := z.(*ssa.Return); ok {
					if cl, ev := classifyReturn(ret); cl != retError && !recordedError(ev, ret.Block()) {
						esc = ret
					}
					return true
				}
				return false
			})
			return esc == nil
		}
		for ci, c := range colls {
			n++
			cons := "collection-applied:" + p.Name(f)
			if ci > 0 {
				cons += "#" + itoa(ci+1)
			}
			// applying instructions
			applies := map[ssa.Instruction]bool{}
			applyBlocks := map[*ssa.BasicBlock]bool{}
			// helper calls with the collection (possibly through append)
			var derived func(v ssa.Value, depth int) bool
			derived = func(v ssa.Value, depth int) bool {
				if depth > 5 {
					return false
				}
				v = canon(v)
				if v == canon(c.v) || sameValue(v, c.v) {
					return true
				}
				switch x := v.(type) {
				case *ssa.Call:
					if bi, ok := x.Call.Value.(*ssa.Builtin); ok && bi.Name() == "append" {
						for _, a := range x.Call.Args {
							if derived(a, depth+1) {
								return true
							}
						}
					}
				case *ssa.Phi:
					for _, e := range x.Edges {
						if derived(e, depth+1) {
							return true
						}
					}
				case *ssa.Slice:
					// a full re-slice v[:] / v[0:len(v)] of the collection
					if x.Low == nil && x.High == nil {
						return derived(x.X, depth+1)
					}
				}
				return false
			}
			eachInstr(f, func(x ssa.Instruction) {
				call, ok := x.(ssa.CallInstruction)
				if !ok {
					return
				}
				g := staticCallee(call)
				if g == nil {
					return
				}
				if i := p.walksAndWrites(g); i >= 0 && i < len(call.Common().Args) && derived(call.Common().Args[i], 0) {
					applies[x] = true
				}
			})
			// empty-collection edges
			emptyEdge := func(from *ssa.BasicBlock, succ int) bool {
				ifi, ok := from.Instrs[len(from.Instrs)-1].(*ssa.If)
				if !ok {
					return true
				}
				bo, ok := ifi.Cond.(*ssa.BinOp)
				if !ok {
					return true
				}
				isCnt := func(v ssa.Value) bool {
					return (c.count != nil && sameValue(v, c.count)) || isLenOfSlice(v, c.v)
				}
				if z, isz := constInt(bo.Y); isz && z == 0 && isCnt(bo.X) {
					if (bo.Op == token.EQL && succ == 0) || (bo.Op == token.NEQ && succ == 1) || (bo.Op == token.GTR && succ == 1) {
						return false // known empty: exempt
					}
				}
				if z, isz := constInt(bo.X); isz && z == 0 && isCnt(bo.Y) && bo.Op == token.LSS && succ == 1 {
					return false // zero-trip edge of a loop counted to the collection's size
				}
				return true
			}
			// loops over the collection
			feedOnly := true
			for _, h := range loopsOver(f, c.v) {
				writes, sends := false, false
				for lb := range loopBlocks(h) {
					for _, x := range lb.Instrs {
						if _, _, _, ok := p.registerWrite(x); ok {
							writes = true
						}
						if _, ok := x.(*ssa.Send); ok {
							sends = true
						}
					}
				}
				if writes {
					applyBlocks[h] = true
					feedOnly = false
				} else if sends {
					// feeding the workers counts when a receive-and-write loop follows on every success path
					first := h.Instrs[0]
					if hasRecvWriteLoop(first, emptyEdge) {
						applyBlocks[h] = true
					}
				}
			}
			_ = feedOnly
			var bad *ssa.Return
			reachFrom(f, c.def, emptyEdge, func(z ssa.Instruction) bool {
				if bad != nil {
					return true
				}
				if applies[z] || applyBlocks[z.Block()] {
					return true
				}
				if ret, ok := z.(*ssa.Return); ok {
					if cl, ev := classifyReturn(ret); cl != retError && !recordedError(ev, ret.Block()) {
						bad = ret
					}
					return true
				}
				return false
			})
			r.Decide(bad == nil, R, cons, p.InstrPos(c.def),
				"on every success path the "+c.what+" is walked by a register-writing loop or helper (or fed to the workers whose results are applied)",
				func() string {
					if bad == nil {
						return ""
					}
					return "the commit can return success at " + p.InstrPos(bad) + " without walking the " + c.what + ": the pending changes it names stay in the write set, or are dropped from the view while the ledger keeps them"
				}())
		}
	}
	r.Floor(R, "collections of commit keys and their views", 4, n)
}

func isLenOfSlice(v ssa.Value, s ssa.Value) bool {
	c, ok := canonConv(v).(*ssa.Call)
	if !ok {
		return false
	}
	bi, ok := c.Call.Value.(*ssa.Builtin)
	return ok && bi.Name() == "len" && len(c.Call.Args) == 1 && (canon(c.Call.Args[0]) == canon(s) || sameValue(c.Call.Args[0], s))
}

// recordedError: the returned error was looked up in a map of errors and found (comma-ok true edge): an error that
// was recorded earlier, not a success return.
func recordedError(ev ssa.Value, b *ssa.BasicBlock) bool {
	if ev == nil {
		return false
	}
	ex, ok := canon(ev).(*ssa.Extract)
	if !ok || ex.Index != 0 {
		return false
	}
	lk, ok := ex.Tuple.(*ssa.Lookup)
	if !ok || !lk.CommaOk || !isErrorType(ex.Type()) {
		return false
	}
	for d := b; d != nil; d = d.Idom() {
		ifi, ok := d.Instrs[len(d.Instrs)-1].(*ssa.If)
		if !ok {
			continue
		}
		if okv, isEx := canon(ifi.Cond).(*ssa.Extract); isEx && okv.Tuple == ssa.Value(lk) && okv.Index == 1 && edgeDominates(d, 0, b) {
			return true
		}
	}
	return false
}

// S11 the storage's own bookkeeping obligations that no caller-visible test of the pinned suite exercises (C15, C09):
//
//	retire-after-write   after a register write of id succeeded in a commit routine, the write-set entry of id is
//	                     deleted before the next key is taken (C15: a commit empties the owned write set)
//	drop-replaces-layer  DropDeltas assigns the write set, DropCache the read cache, a fresh empty map on every path
//	                     (C15: dropping both reverts the view to the last commit)
//	temp-id-advances     on the temporary-address path of GenerateSlabID the counter the identifier is built from is
//	                     advanced on every call (C09: two live slabs never share an identifier)
//
// storageLayerFields: the fields of PersistentSlabStorage that make up the overlay model.
var storageLayerFields = map[string]bool{"deltas": true, "cache": true, "baseStorage": true, "tempSlabIndex": true,
	"cborEncMode": true, "cborDecMode": true, "DecodeStorable": true, "DecodeTypeInfo": true}

func ruleS11(p *Prog, r *Report) {
	const R = "S11"
	n := 0
	// retire-after-write
	for _, top := range p.commitGraph() {
		eachInstrDeep(top, func(fn *ssa.Function, in ssa.Instruction) {
			c, idv, kind, ok := p.registerWrite(in)
			if !ok {
				return
			}
			_, _, inWrapper := p.regWriteWrapper(fn)
			// a call of a helper that writes the register and retires the entry itself needs nothing more
			if g := staticCallee(c); g != nil && g.Pkg == p.RootSSA {
				if _, _, isW := p.regWriteWrapper(g); isW && p.wrapperRetires(g) {
					n++
					r.Ok(R, "retire-after-write:"+p.Name(fn)+":"+kind, p.InstrPos(in), "the helper that writes the register also retires the write-set entry")
					return
				}
			}
			if inWrapper {
				return // decided at the call sites (the helper either retires the entry itself or its callers do)
			}
			v := callValue(c)
			if v == nil {
				return
			}
			// the err == nil edge of the write
			var test *ssa.If
			nn := 0
			for _, b := range fn.Blocks {
				if ifi, ok := b.Instrs[len(b.Instrs)-1].(*ssa.If); ok {
					if x, s, ok := errTestOf(ifi); ok && sameValue(x, v) {
						test, nn = ifi, s
					}
				}
			}
			if test == nil {
				return // S5 reports an untested write
			}
			n++
			head := loopHeadOf(in.Block())
			okEdge := test.Block().Succs[1-nn]
			// walk from the success edge: must meet delete(deltas, id) before reaching the loop header again or a return
			var escape ssa.Instruction
			seen := map[*ssa.BasicBlock]bool{}
			var walk func(b *ssa.BasicBlock)
			walk = func(b *ssa.BasicBlock) {
				if seen[b] || escape != nil {
					return
				}
				seen[b] = true
				if b == head {
					escape = b.Instrs[0]
					return
				}
				for _, x := range b.Instrs {
					retired := false
					for _, fw := range p.fieldWritesOfX(x) {
						if fw.Kind == "mapdelete" && fw.Ref.is(storageT, "deltas") && sameValue(fw.Key, idv) {
							retired = true
						}
					}
					if retired {
						return
					}
					if ret, ok := x.(*ssa.Return); ok {
						if cl, _ := classifyReturn(ret); cl != retError {
							escape = x
						}
						return
					}
				}
				for _, s := range b.Succs {
					walk(s)
				}
			}
			walk(okEdge)
			r.Decide(escape == nil, R, "retire-after-write:"+p.Name(fn)+":"+kind, p.InstrPos(in),
				"after the register write succeeded the write-set entry of the same id is deleted before the next key is taken",
				"after BaseStorage."+kind+" succeeded the commit can go on to the next key (or return) without deleting the write-set entry of that id: a commit that returns nil leaves the owned write set non-empty, the change is written again by every later commit and HasUnsavedChanges stays true")
		})
	}
	// drop-replaces-layer
	for _, d := range []struct{ method, field string }{{"DropDeltas", "deltas"}, {"DropCache", "cache"}} {
		f := p.Method(storageT, d.method)
		if f == nil {
			r.Unk(R, "anchor:"+d.method, "-", "method not found")
			continue
		}
		n++
		isFresh := func(z ssa.Instruction) bool {
			st, ok := z.(*ssa.Store)
			if !ok {
				return false
			}
			fr, ok := asFieldAddr(st.Addr)
			if !ok || !fr.is(storageT, d.field) {
				return false
			}
			if mm, ok := canon(st.Val).(*ssa.MakeMap); ok {
				_ = mm
				return true
			}
			return isNilConst(canon(st.Val))
		}
		bad := successReturnAvoiding(f, nil, isFresh)
		// and nothing else of the storage is touched
		other := ""
		eachInstr(f, func(z ssa.Instruction) {
			if st, ok := z.(*ssa.Store); ok {
				// (a field outside the layering model - a statistic kept beside a layer - is not the other layer)
				if fr, ok := asFieldAddr(st.Addr); ok && fr.Owner != nil && fr.Owner.Obj().Name() == storageT && fr.Field != d.field && storageLayerFields[fr.Field] {
					other = fr.Field
				}
			}
		})
		r.Decide(bad == nil && other == "", R, "drop-replaces-layer:"+d.method, p.Pos(f.Pos()),
			"assigns a fresh empty map to "+d.field+" on every path and touches nothing else",
			func() string {
				if other != "" {
					return d.method + " also writes " + other + ": dropping one layer must not change the other"
				}
				return d.method + " can return without replacing " + d.field + " by an empty map: the view does not revert to the last commit"
			}())
	}
	// temp-id-advances
	if f := p.Method(storageT, "GenerateSlabID"); f != nil {
		n++
		// the address test; on the temporary edge every success return is preceded by a store tempSlabIndex = tempSlabIndex + k
		var tempBlock *ssa.BasicBlock
		for _, b := range f.Blocks {
			ifi, ok := b.Instrs[len(b.Instrs)-1].(*ssa.If)
			if !ok {
				continue
			}
			bo, ok := ifi.Cond.(*ssa.BinOp)
			if !ok || (bo.Op != token.EQL && bo.Op != token.NEQ) {
				continue
			}
			isUndef := func(v ssa.Value) bool {
				u, ok := v.(*ssa.UnOp)
				if !ok {
					return false
				}
				g, ok := u.X.(*ssa.Global)
				return ok && g.Name() == "AddressUndefined"
			}
			if isUndef(bo.X) || isUndef(bo.Y) {
				if bo.Op == token.EQL {
					tempBlock = b.Succs[0]
				} else {
					tempBlock = b.Succs[1]
				}
			}
		}
		good := false
		if tempBlock != nil && len(tempBlock.Instrs) > 0 {
			var isAdvance func(z ssa.Instruction) bool
			isAdvance = func(z ssa.Instruction) bool {
				// a private helper of the storage that advances the counter on every path
				if c, ok := z.(*ssa.Call); ok {
					if g := c.Call.StaticCallee(); g != nil && g.Pkg == p.RootSSA && recvName(g) == storageT && g != f && len(g.Blocks) > 0 && g.Object() != nil && !g.Object().Exported() {
						return successReturnAvoiding(g, nil, isAdvance) == nil
					}
					return false
				}
				st, ok := z.(*ssa.Store)
				if !ok {
					return false
				}
				fr, ok := asFieldAddr(st.Addr)
				if !ok || !fr.is(storageT, "tempSlabIndex") {
					return false
				}
				bo, ok := canonConv(st.Val).(*ssa.BinOp)
				if !ok || bo.Op != token.ADD {
					return false
				}
				k, isK := constInt(bo.Y)
				lf, isL := asLoadedField(bo.X)
				return isK && k >= 1 && isL && lf.is(storageT, "tempSlabIndex")
			}
			first := tempBlock.Instrs[0]
			if isAdvance(first) {
				good = true
			} else {
				esc := false
				reachFrom(f, first, nil, func(z ssa.Instruction) bool {
					if esc || isAdvance(z) {
						return true
					}
					if ret, ok := z.(*ssa.Return); ok {
						if cl, _ := classifyReturn(ret); cl != retError {
							esc = true
						}
						return true
					}
					return false
				})
				good = !esc
			}
		}
		r.Decide(good, R, "temp-id-advances:GenerateSlabID", p.Pos(f.Pos()),
			"every temporary identifier is built after advancing the storage's counter",
			"on the temporary-address path GenerateSlabID can return without advancing tempSlabIndex: two live temporary slabs get the same identifier and the second Store replaces the first")
	}
	r.Floor(R, "storage bookkeeping obligations", 6, n)
}

// wrapperRetires: a register-write helper deletes the write-set entry of the key it was given on every success path.
func (p *Prog) wrapperRetires(g *ssa.Function) bool {
	i, _, ok := p.regWriteWrapper(g)
	if !ok || i >= len(g.Params) {
		return false
	}
	key := g.Params[i]
	isDel := func(z ssa.Instruction) bool {
		for _, fw := range p.fieldWritesOfX(z) {
			if fw.Kind == "mapdelete" && fw.Ref.is(storageT, "deltas") && sameValue(fw.Key, key) {
				return true
			}
		}
		return false
	}
	return successReturnAvoiding(g, nil, isDel) == nil
}

// linForm: coefLen*len(A) + sum(coef*phi) + c
type linForm struct {
	lenC int64
	phis map[*ssa.Phi]int64
	c    int64
}

func (l linForm) isZero() bool { return l.lenC == 0 && l.c == 0 && len(l.phis) == 0 }

// linOf expresses v as a linear form over len(arr), loop phis (a phi whose only non-self source is an increment of
// itself is taken as the symbol; an incremented counter P+1 is P plus one) and constants.
func linOf(v ssa.Value, arr ssa.Value) (linForm, bool) {
	out := linForm{phis: map[*ssa.Phi]int64{}}
	var rec func(v ssa.Value, sign int64, depth int) bool
	rec = func(v ssa.Value, sign int64, depth int) bool {
		if v == nil || depth > 12 {
			return false
		}
		v = canonConv(v)
		if k, ok := constInt(v); ok {
			out.c += sign * k
			return true
		}
		if isLenOfSlice(v, arr) {
			out.lenC += sign
			return true
		}
		switch x := v.(type) {
		case *ssa.Phi:
			out.phis[x] += sign
			return true
		case *ssa.BinOp:
			switch x.Op {
			case token.ADD:
				return rec(x.X, sign, depth+1) && rec(x.Y, sign, depth+1)
			case token.SUB:
				return rec(x.X, sign, depth+1) && rec(x.Y, -sign, depth+1)
			}
		}
		return false
	}
	if !rec(v, 1, 0) {
		return linForm{}, false
	}
	for k, c := range out.phis {
		if c == 0 {
			delete(out.phis, k)
		}
	}
	return out, true
}
