package main

// Effect typestate over slab objects (rules R1, R2, R3, R3', R6).
//
// Objects are access paths inside one function: a parameter (P<i>), the logical
// root of a handle (root(P<i>)), a slab literal (A:...), a call result (C:...),
// a collapsed collection of slabs (COLL:...). Parts of a slab (element lists,
// elements, extra data, headers) are folded into the slab that holds them.
// Events: MUT, NEW, STORE, REMOVE, ALLOCID. Summaries are computed to a
// fixpoint over the call graph; interface invokes join over the in-package
// implementers.

import (
	"fmt"
	"go/token"
	"go/types"
	"sort"
	"strings"

	"golang.org/x/tools/go/ssa"
)

var slabStructs = map[string]bool{"ArrayDataSlab": true, "ArrayMetaDataSlab": true, "MapDataSlab": true, "MapMetaDataSlab": true, "StorableSlab": true}
var slabIfaces = map[string]bool{"Slab": true, "ArraySlab": true, "MapSlab": true}
var partStructs = map[string]bool{"hkeyElements": true, "singleElements": true, "singleElement": true, "inlineCollisionGroup": true, "externalCollisionGroup": true, "ArrayExtraData": true, "MapExtraData": true}
var partIfaces = map[string]bool{"elements": true, "element": true, "elementGroup": true}

func rootNamed(t types.Type) *types.Named {
	n := namedOf(t)
	if n == nil || n.Obj().Pkg() == nil || n.Obj().Pkg().Path() != rootPkgPath {
		return nil
	}
	return n
}

func isSlabT(t types.Type) bool {
	n := rootNamed(t)
	if n == nil {
		return false
	}
	if _, isPtr := t.(*types.Pointer); isPtr {
		return slabStructs[n.Obj().Name()]
	}
	return slabIfaces[n.Obj().Name()]
}

func isPartT(t types.Type) bool {
	n := rootNamed(t)
	if n == nil {
		return false
	}
	if _, isPtr := t.(*types.Pointer); isPtr {
		return partStructs[n.Obj().Name()]
	}
	return partIfaces[n.Obj().Name()]
}

func isHandleT(t types.Type) bool {
	n := rootNamed(t)
	if n == nil {
		return false
	}
	_, isPtr := t.(*types.Pointer)
	return isPtr && isHandleType(n.Obj().Name())
}

func isTrackedT(t types.Type) bool { return isSlabT(t) || isPartT(t) || isHandleT(t) }

type tsEvent struct {
	Kind  string // MUT NEW STORE REMOVE ALLOCID
	Obj   string
	Instr ssa.Instruction
	Via   string
}

type tsSummary struct {
	MutNoStore      map[string]string // object key (P<i>, root(P<i>)) -> witness
	Rekey           map[string]bool   // the open obligation stems from a re-keyed object: only a later store closes it
	Sto             map[string]bool   // must-store on every success path
	Rem             map[string]bool   // must-remove on every success path
	Mut             map[string]bool   // may mutate
	FreshRes        map[int]string    // result index -> witness: returns a new slab that it did not store
	RetAlias        map[int]string    // result index -> object key it may alias (P<i>)
	MayEffect       bool              // may mutate a non-fresh tracked object, store, remove or allocate an id
	MayReject       bool              // may return a request-rejection error
	EffBeforeReject string            // witness: an effect can precede a rejection
}

func newSummary() *tsSummary {
	return &tsSummary{Rekey: map[string]bool{}, MutNoStore: map[string]string{}, Sto: map[string]bool{}, Rem: map[string]bool{}, Mut: map[string]bool{}, FreshRes: map[int]string{}, RetAlias: map[int]string{}}
}

type tsEngine struct {
	p      *Prog
	sum    map[*ssa.Function]*tsSummary
	decode map[*ssa.Function]bool // decode call graph: slabs are born clean
	events map[*ssa.Function][]tsEvent
	local  map[*ssa.Function][]tsFinding // obligations that cannot be exported (violations inside the function)
	rounds int
}

type tsFinding struct {
	Rule, Construct, Pos, Detail string
}

var tsCache = map[*Prog]*tsEngine{}

func (p *Prog) typestate() *tsEngine {
	if e := tsCache[p]; e != nil {
		return e
	}
	e := &tsEngine{p: p, sum: map[*ssa.Function]*tsSummary{}, decode: map[*ssa.Function]bool{}, events: map[*ssa.Function][]tsEvent{}, local: map[*ssa.Function][]tsFinding{}}
	tsCache[p] = e
	// decode scope: everything reachable from DecodeSlab and the inlined-storable decoders
	var roots []*ssa.Function
	for _, n := range []string{"DecodeSlab", "DecodeInlinedArrayStorable", "DecodeInlinedMapStorable", "DecodeInlinedCompactMapStorable"} {
		if f := p.PkgFunc(n); f != nil {
			roots = append(roots, f)
		}
	}
	for _, r := range roots {
		for g := range p.ReachFine(r) {
			e.decode[g] = true
		}
	}
	for _, f := range p.Funcs {
		e.sum[f] = newSummary()
	}
	for round := 0; round < 12; round++ {
		changed := false
		for _, f := range p.Funcs {
			if p.IsTestFile(f.Pos()) {
				continue
			}
			ns, fnd := e.analyze(f)
			if !summaryEqual(e.sum[f], ns) {
				changed = true
			}
			e.sum[f] = ns
			e.local[f] = fnd
		}
		e.rounds = round + 1
		if !changed {
			break
		}
	}
	return e
}

func summaryEqual(a, b *tsSummary) bool {
	return fmt.Sprint(a.Rekey, keysS(a.MutNoStore), a.Sto, a.Rem, a.Mut, keysI(a.FreshRes), a.RetAlias, a.MayEffect, a.MayReject, a.EffBeforeReject != "") ==
		fmt.Sprint(b.Rekey, keysS(b.MutNoStore), b.Sto, b.Rem, b.Mut, keysI(b.FreshRes), b.RetAlias, b.MayEffect, b.MayReject, b.EffBeforeReject != "")
}

func keysS(m map[string]string) []string {
	var o []string
	for k := range m {
		o = append(o, k)
	}
	sort.Strings(o)
	return o
}
func keysI(m map[int]string) []int {
	var o []int
	for k := range m {
		o = append(o, k)
	}
	sort.Ints(o)
	return o
}

// ---------------------------------------------------------------------------
// objects

type tsFunc struct {
	e    *tsEngine
	fn   *ssa.Function
	memo map[ssa.Value][]string
	busy map[ssa.Value]bool
	// root alias: objects assigned to handle.root inside this function are the logical root
	rootAlias  map[string]string      // unused (kept for construction compatibility)
	rootStores []*ssa.Store           // stores to <handle>.root in this function
	exitRoots  map[string]string      // object key that is a handle's root when the function returns -> root(<handle>) key
	takeover   map[string]string      // new root object -> old root key whose register it takes over
	inlInit    map[string][]ssa.Value // object -> values its inlined flag was initialised from
	idOf       map[string][]ssa.Value // object -> id values it was retrieved by
}

func (t *tsFunc) paramIndex(v ssa.Value) int {
	for i, prm := range t.fn.Params {
		if ssa.Value(prm) == v {
			return i
		}
	}
	return -1
}

func (t *tsFunc) posKey(in ssa.Instruction) string {
	// stable within one analysis run: block index + instruction index
	b := in.Block()
	for i, x := range b.Instrs {
		if x == in {
			return fmt.Sprintf("%d.%d", b.Index, i)
		}
	}
	return "?"
}

// obj maps a value of tracked type to object keys.
func (t *tsFunc) obj(v ssa.Value) []string {
	if v == nil {
		return nil
	}
	if r, ok := t.memo[v]; ok {
		return r
	}
	if t.busy[v] {
		return nil
	}
	t.busy[v] = true
	r := t.obj0(v)
	delete(t.busy, v)
	partial := len(t.busy) > 0 // computed inside a cycle: may be incomplete, do not memoise
	// logical root aliasing
	var out []string
	seen := map[string]bool{}
	for _, k := range r {
		if !seen[k] {
			seen[k] = true
			out = append(out, k)
		}
	}
	if !partial {
		t.memo[v] = out
	}
	return out
}

func (t *tsFunc) obj0(v ssa.Value) []string {
	c := canon(v)
	switch x := c.(type) {
	case *ssa.MakeInterface:
		return t.obj(x.X)
	case *ssa.ChangeInterface:
		return t.obj(x.X)
	case *ssa.TypeAssert:
		return t.obj(x.X)
	case *ssa.Parameter:
		if i := t.paramIndex(x); i >= 0 && isTrackedT(x.Type()) {
			return []string{fmt.Sprintf("P%d", i)}
		}
		return nil
	case *ssa.FreeVar:
		if isTrackedT(x.Type()) {
			return []string{"F:" + x.Name()}
		}
		// captured cell holding a tracked pointer
		if pt, ok := x.Type().(*types.Pointer); ok && isTrackedT(pt.Elem()) {
			return []string{"F:" + x.Name()}
		}
		return nil
	case *ssa.Alloc:
		if n := rootNamed(x.Type()); n != nil && (slabStructs[n.Obj().Name()] || partStructs[n.Obj().Name()]) {
			// spilled value receiver / parameter copy: a private copy, never a register
			for _, ref := range *x.Referrers() {
				if st, ok := ref.(*ssa.Store); ok && st.Addr == ssa.Value(x) {
					if _, isParam := st.Val.(*ssa.Parameter); isParam {
						return nil
					}
				}
			}
			return []string{"A:" + n.Obj().Name() + "@" + t.posKey(x)}
		}
		// a local variable cell holding a tracked value: union of what is stored
		var out []string
		for _, ref := range *x.Referrers() {
			if st, ok := ref.(*ssa.Store); ok && st.Addr == ssa.Value(x) {
				out = append(out, t.obj(st.Val)...)
			}
		}
		return out
	case *ssa.Phi:
		var out []string
		for _, e := range x.Edges {
			out = append(out, t.obj(e)...)
		}
		return out
	case *ssa.Extract:
		if call, ok := x.Tuple.(*ssa.Call); ok {
			return t.callResultObj(call, x.Index, x.Type())
		}
		if ta, ok := x.Tuple.(*ssa.TypeAssert); ok && x.Index == 0 {
			return t.obj(ta.X)
		}
		if lk, ok := x.Tuple.(*ssa.Lookup); ok && x.Index == 0 {
			return t.collObj(lk.X)
		}
		return nil
	case *ssa.Call:
		return t.callResultObj(x, 0, x.Type())
	case *ssa.UnOp:
		if x.Op != token.MUL {
			return nil
		}
		switch a := x.X.(type) {
		case *ssa.FieldAddr:
			base := t.obj(a.X)
			_, fname := structFieldName(a.X.Type(), a.Field)
			if isHandleT(a.X.Type()) && fname == "root" {
				var out []string
				// flow-sensitive: a load that every path reaches only after a store to root sees the new root
				var dom, may []*ssa.Store
				for _, st := range t.rootStores {
					if !sameValue(st.Addr.(*ssa.FieldAddr).X, a.X) {
						continue
					}
					if instrDominates(st, x) {
						dom = append(dom, st)
					} else if canReach(t.fn, st, func(y ssa.Instruction) bool { return y == ssa.Instruction(x) }, nil) != nil {
						may = append(may, st)
					}
				}
				for _, st := range append(dom, may...) {
					out = append(out, t.obj(st.Val)...)
				}
				if len(dom) == 0 {
					for _, b := range base {
						out = append(out, "root("+b+")")
					}
				}
				return out
			}
			if fname == "slabs" || strings.HasSuffix(fname, "Slabs") {
				return base
			}
			// a part held by a slab (or a slab held by a part): fold into the owner
			if len(base) > 0 && isTrackedT(x.Type()) {
				return base
			}
			return nil
		case *ssa.IndexAddr:
			// element of a small local array literal ([...]Slab{left, right, root}): one of the values stored into it
			if isTrackedT(x.Type()) {
				if al, ok := a.X.(*ssa.Alloc); ok {
					if _, isArr := al.Type().(*types.Pointer).Elem().Underlying().(*types.Array); isArr && al.Referrers() != nil {
						var out []string
						for _, ref := range *al.Referrers() {
							ia, ok := ref.(*ssa.IndexAddr)
							if !ok || ia.Referrers() == nil {
								continue
							}
							for _, r2 := range *ia.Referrers() {
								if st, ok := r2.(*ssa.Store); ok && st.Addr == ssa.Value(ia) {
									out = append(out, t.obj(st.Val)...)
								}
							}
						}
						if len(out) > 0 {
							return out
						}
					}
				}
			}
			// element of a slice of slabs / elements
			if isTrackedT(x.Type()) {
				if own := t.ownerOfSlice(a.X); len(own) > 0 {
					return own
				}
				return t.collObj(a.X)
			}
			return nil
		case *ssa.FreeVar:
			return t.obj(a)
		case *ssa.Alloc:
			return t.obj(a)
		}
		return nil
	case *ssa.Lookup:
		if isTrackedT(x.Type()) {
			return t.collObj(x.X)
		}
	case *ssa.Index:
		if isTrackedT(x.Type()) {
			// a range over a local array literal reads a copy of the array value
			if u, ok := x.X.(*ssa.UnOp); ok && u.Op == token.MUL {
				if al, ok := u.X.(*ssa.Alloc); ok && al.Referrers() != nil {
					var out []string
					for _, ref := range *al.Referrers() {
						ia, ok := ref.(*ssa.IndexAddr)
						if !ok || ia.Referrers() == nil {
							continue
						}
						for _, r2 := range *ia.Referrers() {
							if st, ok := r2.(*ssa.Store); ok && st.Addr == ssa.Value(ia) {
								out = append(out, t.obj(st.Val)...)
							}
						}
					}
					if len(out) > 0 {
						return out
					}
				}
			}
			return t.collObj(x.X)
		}
	}
	return nil
}

// ownerOfSlice: a slice loaded from a field of a tracked object (e.g. e.elems) belongs to that object.
func (t *tsFunc) ownerOfSlice(s ssa.Value) []string {
	s = canon(s)
	if u, ok := s.(*ssa.UnOp); ok && u.Op == token.MUL {
		if fa, ok := u.X.(*ssa.FieldAddr); ok {
			return t.obj(fa.X)
		}
	}
	if sl, ok := s.(*ssa.Slice); ok {
		return t.ownerOfSlice(sl.X)
	}
	return nil
}

// collObj: a local slice/map of slabs is one collapsed collection object.
func (t *tsFunc) collObj(s ssa.Value) []string {
	s = canon(s)
	for depth := 0; depth < 8; depth++ {
		switch x := s.(type) {
		case *ssa.Slice:
			s = canon(x.X)
			continue
		case *ssa.Phi:
			// all edges are the same logical slice variable (append chain)
			return []string{"COLL:" + x.Comment}
		case *ssa.Call:
			if b, ok := x.Call.Value.(*ssa.Builtin); ok && b.Name() == "append" {
				s = canon(x.Call.Args[0])
				continue
			}
			return []string{"COLL:call@" + t.posKey(x)}
		case *ssa.Extract:
			if c, ok := x.Tuple.(*ssa.Call); ok {
				return []string{"COLL:call@" + t.posKey(c)}
			}
		case *ssa.Parameter:
			return []string{"COLL:P" + fmt.Sprint(t.paramIndex(x))}
		case *ssa.UnOp:
			if al, ok := x.X.(*ssa.Alloc); ok {
				return []string{"COLL:" + al.Comment}
			}
		case *ssa.Const:
			return []string{"COLL:nil"}
		}
		break
	}
	return []string{"COLL:?"}
}

// callResultObj: result idx of a call.
func (t *tsFunc) callResultObj(call *ssa.Call, idx int, typ types.Type) []string {
	if tup, ok := call.Type().(*types.Tuple); ok && idx < tup.Len() {
		typ = tup.At(idx).Type()
	}
	if b, ok := call.Call.Value.(*ssa.Builtin); ok {
		if b.Name() == "append" {
			return nil
		}
		return nil
	}
	if !isTrackedT(typ) {
		return nil
	}
	var out []string
	alias := false
	for _, g := range t.e.p.Callees(call) {
		if s := t.e.sum[g]; s != nil {
			if a, ok := s.RetAlias[idx]; ok {
				alias = true
				out = append(out, t.mapCalleeObj(call, a)...)
			}
		}
	}
	_ = alias
	if isPartT(typ) || isHandleT(typ) {
		// parts are not registers: a part returned by a call matters only when it aliases an argument
		// (accessor / in-place update); otherwise it is a fresh part, relevant once attached to a slab
		if isHandleT(typ) {
			out = append(out, "C:"+calleeName(call)+fmt.Sprintf("#%d@", idx)+t.posKey(call))
		}
		return out
	}
	out = append(out, "C:"+calleeName(call)+fmt.Sprintf("#%d@", idx)+t.posKey(call))
	return out
}

// mapCalleeObj translates a callee-side object key (P<j>, root(P<j>)) to caller-side keys at a call.
func (t *tsFunc) mapCalleeObj(call ssa.CallInstruction, key string) []string {
	cc := call.Common()
	args := cc.Args
	if cc.IsInvoke() {
		args = append([]ssa.Value{cc.Value}, cc.Args...)
	}
	isRoot := false
	k := key
	if strings.HasPrefix(k, "root(") {
		isRoot = true
		k = strings.TrimSuffix(strings.TrimPrefix(k, "root("), ")")
	}
	var j int
	if _, err := fmt.Sscanf(k, "P%d", &j); err != nil || j >= len(args) {
		return nil
	}
	var out []string
	for _, o := range t.obj(args[j]) {
		if isRoot {
			out = append(out, "root("+o+")")
		} else {
			out = append(out, o)
		}
	}
	return out
}

// addrRootObj walks an address expression up to the tracked object it points into.
func (t *tsFunc) addrRootObj(a ssa.Value) []string {
	for depth := 0; depth < 12; depth++ {
		switch x := a.(type) {
		case *ssa.FieldAddr:
			if isTrackedT(x.X.Type()) {
				if isHandleT(x.X.Type()) {
					return nil // handle fields are not slab state (root assignment handled separately)
				}
				return t.obj(x.X)
			}
			a = x.X
		case *ssa.IndexAddr:
			a = x.X
		case *ssa.UnOp:
			if x.Op != token.MUL {
				return nil
			}
			if isTrackedT(x.Type()) {
				return t.obj(x)
			}
			a = x.X
		case *ssa.Slice:
			a = x.X
		case *ssa.Alloc:
			// literal temp of a struct that is later copied: not a mutation of a tracked object
			if isTrackedT(x.Type()) {
				return t.obj(x)
			}
			return nil
		case *ssa.Call:
			// pointer returned by an accessor (e.g. root.ExtraData()): belongs to the receiver
			if r := callRecv(x); r != nil && isTrackedT(r.Type()) && isPartT(x.Type()) {
				return t.obj(r)
			}
			if isTrackedT(x.Type()) {
				return t.obj(x)
			}
			return nil
		case *ssa.Extract:
			if isTrackedT(x.Type()) {
				return t.obj(x)
			}
			return nil
		case *ssa.Phi:
			if isTrackedT(x.Type()) {
				return t.obj(x)
			}
			return nil
		case *ssa.Parameter, *ssa.FreeVar, *ssa.MakeInterface, *ssa.ChangeInterface, *ssa.TypeAssert:
			if v, ok := a.(ssa.Value); ok && isTrackedT(v.Type()) {
				return t.obj(v)
			}
			return nil
		default:
			return nil
		}
	}
	return nil
}

// isFreshObj: an object created in this function (literal), not yet visible to anyone else.
func isFreshObj(k string) bool { return strings.HasPrefix(k, "A:") }

// idObjs maps a SlabID value to the objects it names.
func (t *tsFunc) idObjs(id ssa.Value) []string {
	c := canon(id)
	var out []string
	// x.SlabID()
	if call, ok := c.(*ssa.Call); ok && calleeName(call) == "SlabID" {
		if r := callRecv(call); r != nil {
			out = append(out, t.obj(r)...)
		}
	}
	// x.header.slabID (own id)
	if fr, ok := asLoadedField(c); ok && fr.Field == "slabID" {
		base := fr.Base
		if u, ok := base.(*ssa.UnOp); ok && u.Op == token.MUL {
			base = u.X
		}
		if fa, ok := base.(*ssa.FieldAddr); ok {
			if _, nm := structFieldName(fa.X.Type(), fa.Field); nm == "header" {
				out = append(out, t.obj(fa.X)...)
			}
		}
		if fa, ok := fr.Base.(*ssa.FieldAddr); ok {
			if _, nm := structFieldName(fa.X.Type(), fa.Field); nm == "header" {
				out = append(out, t.obj(fa.X)...)
			}
		}
	}
	// objects retrieved by the same id value
	for o, ids := range t.idOf {
		for _, iv := range ids {
			if sameValue(iv, id) {
				out = append(out, o)
			}
		}
	}
	sort.Strings(out)
	return uniq(out)
}

// instrDominates: a is executed before b on every path to b.
func instrDominates(a, b ssa.Instruction) bool {
	if a.Block() == b.Block() {
		ia, ib := -1, -1
		for i, x := range a.Block().Instrs {
			if x == a {
				ia = i
			}
			if x == b {
				ib = i
			}
		}
		return ia >= 0 && ia < ib
	}
	return a.Block().Dominates(b.Block())
}
