package main

// L26 an identity-initialised index work list is only permuted.
//
// The compact-map value encoder matches the cached field order against the map's own
// field order with a work list of field indexes that starts as the identity and from
// which matched indexes are moved to the front. Every field index must stay in the
// list exactly once - a lost index makes its field unfindable (the encode fails for a
// legal map) and a duplicated one writes a value twice. Structural obligation: after
// the identity initialisation, every store into the work list is one half of an
// exchange of two of its entries (s[a], s[b] = s[b], s[a]).

import (
	"fmt"
	"go/types"

	"golang.org/x/tools/go/ssa"
)

func ruleL26(p *Prog, r *Report) {
	const R = "L26"
	n := 0
	for _, top := range p.TopFuncs() {
		if p.IsTestFile(top.Pos()) {
			continue
		}
		eachInstr(top, func(in ssa.Instruction) {
			mk, ok := in.(*ssa.MakeSlice)
			if !ok {
				return
			}
			sl, ok := mk.Type().Underlying().(*types.Slice)
			if !ok {
				return
			}
			if b, ok := sl.Elem().Underlying().(*types.Basic); !ok || b.Info()&types.IsInteger == 0 {
				return
			}
			// stores into entries of this slice
			var stores []*ssa.Store
			escapes := false
			for _, ref := range *mk.Referrers() {
				switch x := ref.(type) {
				case *ssa.IndexAddr:
					for _, r2 := range *x.Referrers() {
						if st, ok := r2.(*ssa.Store); ok && st.Addr == ssa.Value(x) {
							stores = append(stores, st)
						}
					}
				case *ssa.Call:
					if _, isB := x.Call.Value.(*ssa.Builtin); !isB {
						escapes = true
					}
				case *ssa.Store, *ssa.MakeInterface, *ssa.Return, *ssa.Phi, *ssa.Slice:
					escapes = true
				}
			}
			if escapes {
				return
			}
			// identity initialisation: a store s[i] = i
			var init *ssa.Store
			for _, st := range stores {
				ia := st.Addr.(*ssa.IndexAddr)
				if canonConv(st.Val) == canonConv(ia.Index) {
					init = st
				}
			}
			if init == nil || len(stores) < 2 {
				return
			}
			n++
			cons := fmt.Sprintf("work-list-permuted:%s", p.Name(top))
			bad := ""
			var rest []*ssa.Store
			for _, st := range stores {
				if st != init {
					rest = append(rest, st)
				}
			}
			// an entry loaded from the same list at index idx
			loadedAt := func(v ssa.Value) ssa.Value {
				u, ok := v.(*ssa.UnOp)
				if !ok {
					return nil
				}
				ia, ok := u.X.(*ssa.IndexAddr)
				if !ok || ia.X != ssa.Value(mk) {
					return nil
				}
				return ia.Index
			}
			for _, st := range rest {
				a := st.Addr.(*ssa.IndexAddr).Index
				from := loadedAt(st.Val)
				partner := false
				if from != nil {
					for _, st2 := range rest {
						if st2 == st || st2.Block() != st.Block() {
							continue
						}
						b := st2.Addr.(*ssa.IndexAddr).Index
						from2 := loadedAt(st2.Val)
						if from2 != nil && sameValue(b, from) && sameValue(from2, a) {
							partner = true
						}
					}
				}
				if !partner {
					bad = p.InstrPos(st)
				}
			}
			r.Decide(bad == "", R, cons, p.InstrPos(mk), "after the identity initialisation the index work list is only changed by exchanging two of its entries",
				"the index work list that starts as the identity is written at "+bad+" by something other than an exchange of two of its entries: an index can be lost (its field is then not found and a legal map cannot be encoded) or duplicated (a value is written twice)")
		})
	}
	r.Floor(R, "identity-initialised index work lists", 1, n)
}
