package main

// L12 inline / uninline decision table of Array.Storable / OrderedMap.Storable, decided by evaluating the
// method's CFG on the four (inlinable, inlined) states; L13 merge-only-when-no-sibling-can-lend.

import (
	"fmt"
	"go/token"
	"go/types"
	"strings"

	"golang.org/x/tools/go/ssa"
)

func ruleL12(p *Prog, r *Report) {
	const R = "L12"
	n := 0
	for _, h := range handleTypes {
		f := p.Method(h, "Storable")
		if f == nil || len(f.Params) == 0 {
			r.Unk(R, "anchor:"+h+".Storable", "-", "method not found")
			continue
		}
		recv := f.Params[0]
		for _, inlinable := range []bool{false, true} {
			for _, inlined := range []bool{false, true} {
				n++
				cons := fmt.Sprintf("storable-decision:%s:inlinable=%v,inlined=%v", h, inlinable, inlined)
				// walk the CFG, taking branches decided by the two predicates and the err==nil edge of Inline/Uninline
				b := f.Blocks[0]
				var actions []string
				result := ""
				ok := true
				boolOf := func(v ssa.Value) (bool, bool) {
					c, isC := canon(v).(*ssa.Call)
					if !isC {
						return false, false
					}
					switch calleeName(c) {
					case "Inlined":
						return inlined, true
					case "Inlinable":
						return inlinable, true
					}
					return false, false
				}
				for steps := 0; steps < 60 && ok && result == ""; steps++ {
					for _, in := range b.Instrs {
						if c, isC := in.(ssa.CallInstruction); isC {
							nm := calleeName(c)
							if (nm == "Inline" || nm == "Uninline") && callRecv(c) != nil && isRootOf(callRecv(c), recv) {
								actions = append(actions, nm)
							}
						}
					}
					switch last := b.Instrs[len(b.Instrs)-1].(type) {
					case *ssa.If:
						cond := last.Cond
						neg := false
						if u, isU := cond.(*ssa.UnOp); isU && u.Op == token.NOT {
							cond, neg = u.X, true
						}
						if v, known := boolOf(cond); known {
							if neg {
								v = !v
							}
							if v {
								b = b.Succs[0]
							} else {
								b = b.Succs[1]
							}
						} else if ev, nn, isErr := errTestOf(last); isErr {
							_ = ev
							b = b.Succs[1-nn] // success edge of Inline/Uninline
						} else if bo, isBo := cond.(*ssa.BinOp); isBo && (bo.Op == token.LAND || bo.Op == token.LOR) {
							ok = false
						} else {
							ok = false
						}
					case *ssa.Jump:
						b = b.Succs[0]
					case *ssa.Return:
						v := canon(last.Results[0])
						if ci, isCI := v.(*ssa.ChangeInterface); isCI && isRootOf(ci.X, recv) {
							result = "inlined-slab"
						} else if mi, isMI := v.(*ssa.MakeInterface); isMI && typeName(mi.X.Type()) == "SlabIDStorable" {
							result = "slab-id"
						} else if isRootOf(v, recv) {
							result = "inlined-slab"
						} else {
							result = "other"
						}
					case *ssa.Panic:
						result = "panic"
					default:
						ok = false
					}
				}
				if !ok || result == "" {
					r.Unk(R, cons, p.Pos(f.Pos()), "Storable() has a branch the decision-table evaluator cannot decide from Inlined()/Inlinable()")
					continue
				}
				wantAct, wantRes := "", "slab-id"
				if inlinable {
					wantRes = "inlined-slab"
				}
				if inlinable && !inlined {
					wantAct = "Inline"
				}
				if !inlinable && inlined {
					wantAct = "Uninline"
				}
				got := ""
				if len(actions) == 1 {
					got = actions[0]
				} else if len(actions) > 1 {
					got = fmt.Sprint(actions)
				}
				r.Decide(got == wantAct && result == wantRes, R, cons, p.Pos(f.Pos()),
					fmt.Sprintf("transition %q, returns %s", got, result),
					fmt.Sprintf("for this state Storable() performs transition %q and returns %s; a child must be inlined exactly when it is inlinable (expected transition %q, result %s)", got, result, wantAct, wantRes))
			}
		}
		// Inlinable of an index slab is constant false; of a data slab it requires a root (extra data) and compares the inlined size with the limit
	}
	for _, tn := range []string{"ArrayMetaDataSlab", "MapMetaDataSlab"} {
		if f := p.Method(tn, "Inlinable"); f != nil {
			n++
			allFalse := true
			for _, ret := range returnsOf(f) {
				if c, ok := canon(ret.Results[0]).(*ssa.Const); !ok || c.Value == nil || c.Value.String() != "false" {
					allFalse = false
				}
			}
			r.Decide(allFalse, R, "index-slab-never-inlinable:"+tn, p.Pos(f.Pos()), "a multi-slab container is never inlinable", "an index slab can report itself inlinable: a multi-slab container would be embedded in its parent")
		}
	}
	for _, tn := range []string{"ArrayDataSlab", "MapDataSlab"} {
		if f := p.Method(tn, "Inlinable"); f != nil && len(f.Params) == 2 {
			n++
			// a true result must depend on extraData (root), and on a comparison involving the limit parameter
			lim := f.Params[1]
			okRoot, okLim := false, false
			for _, ret := range returnsOf(f) {
				v := canon(ret.Results[0])
				if c, ok := v.(*ssa.Const); ok && c.Value != nil && c.Value.String() == "false" {
					continue
				}
				if sliceContains(v, func(x ssa.Value) bool { return x == ssa.Value(lim) }, 0, map[ssa.Value]bool{}) {
					okLim = true
				}
				if controlDependsOnValue(f, ret.Block(), func(x ssa.Value) bool {
					fr, ok := asLoadedField(x)
					return ok && fr.Field == "extraData"
				}) {
					okRoot = true
				}
			}
			r.Decide(okRoot && okLim, R, "data-slab-inlinable:"+tn, p.Pos(f.Pos()), "inlinable only for a root data slab whose inlined size is compared with the caller's limit", "Inlinable no longer requires a root slab and/or no longer compares the inlined size with the limit")
		}
	}
	r.Floor(R, "decision states and inlinable predicates", 10, n)
}

// L13: in MergeOrRebalanceChildSlab, merging happens only when no sibling can lend; rebalancing only when one can.
func ruleL13(p *Prog, r *Report) {
	const R = "L13"
	n := 0
	for _, tn := range []string{"ArrayMetaDataSlab", "MapMetaDataSlab"} {
		f := p.Method(tn, "MergeOrRebalanceChildSlab")
		if f == nil {
			r.Unk(R, "anchor:"+tn+".MergeOrRebalanceChildSlab", "-", "not found")
			continue
		}
		// the deciding condition: derived from CanLendToRight / CanLendToLeft results
		isLendCond := func(v ssa.Value) bool {
			return sliceContains(v, func(x ssa.Value) bool {
				c, ok := x.(*ssa.Call)
				return ok && (calleeName(c) == "CanLendToRight" || calleeName(c) == "CanLendToLeft")
			}, 0, map[ssa.Value]bool{})
		}
		eachInstr(f, func(in ssa.Instruction) {
			c, ok := in.(ssa.CallInstruction)
			if !ok {
				return
			}
			nm := calleeName(c)
			if nm != "mergeChildren" && nm != "rebalanceChildren" {
				return
			}
			n++
			// find the If on the lend condition whose edge dominates this call
			good := false
			for _, b := range f.Blocks {
				ifi, ok := b.Instrs[len(b.Instrs)-1].(*ssa.If)
				if !ok || !isLendCond(ifi.Cond) {
					continue
				}
				// the top-level `canRebalance` test: cond is a phi/or of both lend results
				lenders := map[string]bool{}
				var scan func(v ssa.Value, depth int)
				seenV := map[ssa.Value]bool{}
				scan = func(v ssa.Value, depth int) {
					if depth > 6 || seenV[v] {
						return
					}
					seenV[v] = true
					sliceContains(v, func(x ssa.Value) bool {
						if cc, ok := x.(*ssa.Call); ok && (calleeName(cc) == "CanLendToRight" || calleeName(cc) == "CanLendToLeft") {
							lenders[calleeName(cc)] = true
						}
						// short-circuit || and &&: a phi fed from a branch on the other operand
						if ph, ok := x.(*ssa.Phi); ok {
							for _, pred := range ph.Block().Preds {
								if pif, ok := pred.Instrs[len(pred.Instrs)-1].(*ssa.If); ok {
									scan(pif.Cond, depth+1)
								}
							}
						}
						return false
					}, 0, map[ssa.Value]bool{})
				}
				scan(ifi.Cond, 0)
				if len(lenders) < 2 {
					continue
				}
				if nm == "rebalanceChildren" && edgeDominates(b, 0, in.Block()) {
					good = true
				}
				if nm == "mergeChildren" && edgeDominates(b, 1, in.Block()) {
					good = true
				}
			}
			if nm == "mergeChildren" {
				r.Decide(good, R, "merge-only-if-no-lender:"+tn, p.InstrPos(in), "children are merged only on the edge where neither sibling can lend", "children can be merged although a sibling could lend (or the decision no longer consults both siblings): the merged slab may exceed the maximum size")
			} else {
				r.Decide(good, R, "rebalance-only-if-lender:"+tn, p.InstrPos(in), "children are rebalanced only on the edge where a sibling can lend", "children can be rebalanced although no sibling can lend: a side may drop below the minimum size")
			}
		})
	}
	r.Floor(R, "merge / rebalance decisions", 4, n)
}

// L14: the direct-build fast path (newArrayWithElements) is taken only when the real summed element size was
// compared with the slab-size threshold on a dominating edge.
func ruleL14(p *Prog, r *Report) {
	const R = "L14"
	n := 0
	scope, _ := p.decodeScope()
	// direct-build sites: a whole element list is installed into an array data slab from outside the slab's own
	// methods (not an append to / re-slice of the slab's own list), together with a relative size update
	type site struct {
		f     *ssa.Function
		store *ssa.Store
		list  ssa.Value
		size  ssa.Value // the amount added to header.size
	}
	var sites []site
	for _, f := range p.Funcs {
		if p.IsTestFile(f.Pos()) || scope[f] || recvName(f) == "ArrayDataSlab" || strings.HasPrefix(strings.ToLower(f.Name()), "copy") {
			continue
		}
		eachInstr(f, func(in ssa.Instruction) {
			st, ok := in.(*ssa.Store)
			if !ok {
				return
			}
			fr, ok := asFieldAddr(st.Addr)
			if !ok || fr.Field != "elements" || fr.Owner == nil || fr.Owner.Obj().Name() != "ArrayDataSlab" || isFreshBase(fr.Base) {
				return
			}
			// skip lists derived from the slab's own list (append / re-slice in the batch builder)
			own := sliceContains(st.Val, func(v ssa.Value) bool {
				lf, ok := asLoadedField(v)
				return ok && lf.Field == "elements"
			}, 0, map[ssa.Value]bool{})
			if own || isNilConst(canon(st.Val)) {
				return
			}
			// the size update of the same object in the same function
			var add ssa.Value
			eachInstr(f, func(y ssa.Instruction) {
				s2, ok := y.(*ssa.Store)
				if !ok {
					return
				}
				fa, ok := s2.Addr.(*ssa.FieldAddr)
				if !ok {
					return
				}
				if _, fn := structFieldName(fa.X.Type(), fa.Field); fn != "size" {
					return
				}
				in2, ok := fa.X.(*ssa.FieldAddr)
				if !ok || !sameValue(in2.X, fr.Base) {
					return
				}
				if bo, ok := canonConv(s2.Val).(*ssa.BinOp); ok && bo.Op == token.ADD {
					if lf, ok := asLoadedField(bo.X); ok && lf.Field == "size" {
						add = bo.Y
					} else if lf, ok := asLoadedField(bo.Y); ok && lf.Field == "size" {
						add = bo.X
					}
				}
			})
			if add != nil {
				sites = append(sites, site{f, st, st.Val, add})
			}
		})
	}
	fits := func(f *ssa.Function, at ssa.Instruction, sz ssa.Value) bool {
		good := false
		for _, b := range f.Blocks {
			ifi, ok := b.Instrs[len(b.Instrs)-1].(*ssa.If)
			if !ok {
				continue
			}
			bo, ok := ifi.Cond.(*ssa.BinOp)
			if !ok || (bo.Op != token.LSS && bo.Op != token.LEQ) {
				continue
			}
			hasSize := sliceContains(bo.X, func(v ssa.Value) bool { return sameValue(v, sz) }, 0, map[ssa.Value]bool{})
			th := globalLoadName(bo.Y)
			if th == "" {
				if cv, ok := canon(bo.Y).(*ssa.Convert); ok {
					th = globalLoadName(cv.X)
				}
			}
			if hasSize && (th == "targetThreshold" || th == "maxThreshold") && edgeDominates(b, 0, at.Block()) {
				good = true
			}
		}
		return good
	}
	decide := func(f *ssa.Function, at ssa.Instruction, sz, list ssa.Value) {
		n++
		r.Decide(fits(f, at, sz), R, "fast-path-fits:"+p.Name(f), p.InstrPos(at), "the single-slab fast path is taken only when the real element size was checked against the slab size", "a root data slab is built directly from caller data without checking its real size against the slab size: an oversized slab would be created")
		n++
		okSum, why := sizeIsSumOverList(sz, list)
		if okSum {
			r.Ok(R, "fast-path-size-is-sum:"+p.Name(f), p.InstrPos(at), "the element size handed to the direct build is accumulated from ByteSize() of every element placed in the list")
		} else {
			r.Bad(R, "fast-path-size-is-sum:"+p.Name(f), p.InstrPos(at), "the element size handed to the direct build is not the sum of ByteSize() over the elements placed in the list ("+why+"): the root slab would report a size that differs from the bytes written")
		}
	}
	for _, s := range sites {
		sp, sIsP := canon(s.size).(*ssa.Parameter)
		lp, lIsP := canon(s.list).(*ssa.Parameter)
		if sIsP && lIsP {
			// a helper that installs what its callers hand over: decided at every call site
			si, li := -1, -1
			for i, q := range s.f.Params {
				if q == sp {
					si = i
				}
				if q == lp {
					li = i
				}
			}
			for _, c := range p.CallersOf(s.f) {
				ct := c.Caller
				if p.IsTestFile(ct.Pos()) {
					continue
				}
				args := c.Instr.Common().Args
				if si < 0 || li < 0 || si >= len(args) || li >= len(args) {
					continue
				}
				decide(ct, c.Instr, args[si], args[li])
			}
			continue
		}
		decide(s.f, s.store, s.size, s.list)
	}
	r.Floor(R, "direct-build obligations", 2, n)
}

// L17 batch builders: (a) the next tree level is built only from at least two slabs of the level below (the
// length of the very slice value that is handed to nextLevel*Slabs was tested on a dominating edge), so a level
// that collapsed to one slab becomes the root instead of getting a one-child index slab; (b) the underfull last
// slab of a level is merged into its left sibling only on the edge where the sibling cannot lend, and borrows
// only where it can, both under the IsUnderflow edge.
func ruleL17(p *Prog, r *Report) {
	const R = "L17"
	n := 0
	for _, f := range p.TopFuncs() {
		if p.IsTestFile(f.Pos()) {
			continue
		}
		eachInstr(f, func(in ssa.Instruction) {
			c, ok := in.(*ssa.Call)
			if !ok || c.Call.StaticCallee() == nil {
				return
			}
			nm := c.Call.StaticCallee().Name()
			if nm != "nextLevelArraySlabs" && nm != "nextLevelMapSlabs" {
				return
			}
			n++
			arg := canon(c.Call.Args[len(c.Call.Args)-1])
			good := false
			for _, b := range f.Blocks {
				ifi, ok := b.Instrs[len(b.Instrs)-1].(*ssa.If)
				if !ok {
					continue
				}
				bo, ok := ifi.Cond.(*ssa.BinOp)
				if !ok {
					continue
				}
				lenOf := func(v ssa.Value) bool {
					cc, ok := canonConv(v).(*ssa.Call)
					if !ok {
						return false
					}
					bi, ok := cc.Call.Value.(*ssa.Builtin)
					return ok && bi.Name() == "len" && canon(cc.Call.Args[0]) == arg
				}
				var k int64
				var op token.Token
				if kk, isK := constInt(bo.Y); isK && lenOf(bo.X) {
					k, op = kk, bo.Op
				} else if kk, isK := constInt(bo.X); isK && lenOf(bo.Y) {
					k = kk
					switch bo.Op { // mirror
					case token.LSS:
						op = token.GTR
					case token.LEQ:
						op = token.GEQ
					case token.GTR:
						op = token.LSS
					case token.GEQ:
						op = token.LEQ
					default:
						op = bo.Op
					}
				} else {
					continue
				}
				// which edge establishes len >= 2 (the slice is never empty here: len == 1 is the only smaller case)
				edge := -1
				switch {
				case op == token.EQL && k == 1, op == token.LSS && k == 2, op == token.LEQ && k == 1:
					edge = 1
				case op == token.NEQ && k == 1, op == token.GTR && k == 1, op == token.GEQ && k == 2:
					edge = 0
				}
				if edge >= 0 && edgeDominates(b, edge, in.Block()) {
					good = true
				}
			}
			r.Decide(good, R, "next-level-needs-two:"+p.Name(f), p.InstrPos(in), "the slice handed to "+nm+" was tested to hold at least two slabs after its last change", "the next level can be built from a level that the tail merge reduced to a single slab: the tree gets a root index slab with one child instead of promoting that slab to root")
		})
		// (b) tail decision
		eachInstr(f, func(in ssa.Instruction) {
			c, ok := in.(ssa.CallInstruction)
			if !ok || !c.Common().IsInvoke() {
				return
			}
			nm := c.Common().Method.Name()
			if nm != "Merge" && nm != "LendToRight" {
				return
			}
			if !strings.Contains(f.Name(), "FromBatchData") {
				// ... or a private helper that only the batch builders call
				only := f.Object() != nil && !f.Object().Exported() && len(p.CallersOf(f)) > 0
				for _, cs := range p.CallersOf(f) {
					if !strings.Contains(TopLevel(cs.Caller).Name(), "FromBatchData") {
						only = false
					}
				}
				if !only {
					return
				}
			}
			n++
			recv := c.Common().Value
			good := false
			under := false
			for _, b := range f.Blocks {
				ifi, ok := b.Instrs[len(b.Instrs)-1].(*ssa.If)
				if !ok {
					continue
				}
				cc, ok := canon(ifi.Cond).(*ssa.Call)
				if ok && cc.Common().IsInvoke() && cc.Common().Method.Name() == "CanLendToRight" && sameValue(cc.Common().Value, recv) {
					if nm == "LendToRight" && edgeDominates(b, 0, in.Block()) {
						good = true
					}
					if nm == "Merge" && edgeDominates(b, 1, in.Block()) {
						good = true
					}
				}
				if ex, ok := canon(ifi.Cond).(*ssa.Extract); ok && ex.Index == 1 {
					if c2, ok := ex.Tuple.(*ssa.Call); ok && c2.Common().IsInvoke() && c2.Common().Method.Name() == "IsUnderflow" && edgeDominates(b, 0, in.Block()) {
						under = true
					}
				}
			}
			if nm == "Merge" {
				// the merged-away slab leaves the level: before the slice is used again (stored, handed to the next
				// level, next loop iteration) it is resliced to one element less
				n++
				var escape ssa.Instruction
				ab := in.Block()
				reachFrom(f, in, nil, func(y ssa.Instruction) bool {
					if escape != nil {
						return true
					}
					if sl, ok := y.(*ssa.Slice); ok && sl.High != nil {
						if bo, ok := canonConv(sl.High).(*ssa.BinOp); ok && bo.Op == token.SUB {
							if k, ok := constInt(bo.Y); ok && k == 1 {
								if _, isSlabs := sl.Type().Underlying().(*types.Slice); isSlabs && isSlabT(sl.Type().Underlying().(*types.Slice).Elem()) {
									return true
								}
							}
						}
					}
					if cc, ok := y.(*ssa.Call); ok && isDropLastHelper(p, cc.Call.StaticCallee()) {
						return true
					}
					if _, ok := y.(*ssa.Return); ok {
						if c, _ := classifyReturn(y.(*ssa.Return)); c != retError {
							escape = y
						}
						return true
					}
					if cc, ok := y.(ssa.CallInstruction); ok {
						nm2 := calleeName(cc)
						if nm2 == "storeSlab" || nm2 == "nextLevelArraySlabs" || nm2 == "nextLevelMapSlabs" {
							escape = y
							return true
						}
					}
					if y.Block() != ab && y.Block().Dominates(ab) && len(y.Block().Preds) > 1 {
						escape = y
						return true
					}
					return false
				})
				r.Decide(escape == nil, R, "merged-slab-dropped:"+p.Name(f), p.InstrPos(in), "after the tail merge the emptied last slab is dropped from the level before the level is used again", "after the tail merge the emptied last slab stays in the level: it is stored and referenced by the next level although its elements were moved to its left sibling")
				r.Decide(good && under, R, "tail-merge-only-if-no-lender:"+p.Name(f), p.InstrPos(in), "the underfull last slab is merged only where its left sibling cannot lend", "the last slab of a level can be merged although its sibling could lend (or without being underfull): the merged slab may exceed the maximum size")
			} else {
				r.Decide(good && under, R, "tail-borrow-only-if-lender:"+p.Name(f), p.InstrPos(in), "the underfull last slab borrows only where its left sibling can lend", "the last slab of a level borrows from a sibling that cannot lend (or without being underfull): a slab may drop below the minimum size")
			}
		})
	}
	r.Floor(R, "batch-builder level decisions", 8, n)
}

// sizeIsSumOverList: sz is a loop accumulator that starts at 0 and grows, once per iteration, by ByteSize() of
// the very value that the same iteration places into list (indexed store into a slice made with the loop's trip
// count, or append).
func sizeIsSumOverList(sz, list ssa.Value) (bool, string) {
	ph, ok := canonConv(sz).(*ssa.Phi)
	if !ok || len(ph.Edges) != 2 {
		return false, "the size is not a loop accumulator"
	}
	var step *ssa.BinOp
	zero := false
	for _, e := range ph.Edges {
		if k, isK := constInt(e); isK && k == 0 {
			zero = true
			continue
		}
		if bo, isB := e.(*ssa.BinOp); isB && bo.Op == token.ADD {
			step = bo
		}
	}
	if !zero || step == nil {
		return false, "the accumulator does not start at 0 and grow by addition"
	}
	var addend ssa.Value
	switch {
	case step.X == ssa.Value(ph):
		addend = step.Y
	case step.Y == ssa.Value(ph):
		addend = step.X
	default:
		return false, "the accumulator's step does not add to the previous value"
	}
	call, ok := canonConv(addend).(*ssa.Call)
	if !ok || calleeName(call) != "ByteSize" {
		return false, "the amount added per iteration is not ByteSize() of an element"
	}
	elem := callRecv(call)
	if elem == nil {
		return false, "ByteSize() receiver not identified"
	}
	strip := func(v ssa.Value) ssa.Value {
		for {
			v = canon(v)
			switch x := v.(type) {
			case *ssa.MakeInterface:
				v = x.X
				continue
			case *ssa.ChangeType:
				v = x.X
				continue
			}
			return v
		}
	}
	elemC := strip(elem)
	header := ph.Block()
	inLoop := func(b *ssa.BasicBlock) bool {
		// b is in the loop of header: header dominates b and b reaches header
		if !header.Dominates(b) {
			return false
		}
		seen := map[*ssa.BasicBlock]bool{}
		var dfs func(x *ssa.BasicBlock) bool
		dfs = func(x *ssa.BasicBlock) bool {
			if x == header {
				return true
			}
			if seen[x] {
				return false
			}
			seen[x] = true
			for _, s := range x.Succs {
				if dfs(s) {
					return true
				}
			}
			return false
		}
		for _, s := range b.Succs {
			if dfs(s) {
				return true
			}
		}
		return false
	}
	listC := canon(list)
	// form 1: indexed store into a slice made with the trip count
	if mk, ok := listC.(*ssa.MakeSlice); ok {
		placed := false
		var idx ssa.Value
		eachInstr(step.Parent(), func(in ssa.Instruction) {
			st, ok := in.(*ssa.Store)
			if !ok || st.Block() != step.Block() {
				return
			}
			ia, ok := st.Addr.(*ssa.IndexAddr)
			if !ok || canon(ia.X) != listC {
				return
			}
			if strip(st.Val) == elemC || sameValue(strip(st.Val), elemC) {
				placed = true
				idx = ia.Index
			}
		})
		if !placed {
			return false, "the element whose size is added is not the one stored into the list in that iteration"
		}
		// the loop runs over every index of the list: header condition idx < N with N == len the slice was made with
		ifi, ok := header.Instrs[len(header.Instrs)-1].(*ssa.If)
		if !ok {
			return false, "loop shape not recognised"
		}
		bo, ok := ifi.Cond.(*ssa.BinOp)
		if !ok || bo.Op != token.LSS || !sameValue(bo.X, idx) || !sameValue(bo.Y, mk.Len) {
			return false, "the loop does not visit every index of the list (bound differs from the length the list was made with)"
		}
		// the index starts at 0 and advances by one
		if ib, ok := canon(idx).(*ssa.BinOp); !ok || ib.Op != token.ADD {
			return false, "index step not recognised"
		} else if k, isK := constInt(ib.Y); !isK || k != 1 {
			return false, "index does not advance by one"
		} else if ip, ok := ib.X.(*ssa.Phi); !ok || ip.Block() != header {
			return false, "index is not the loop counter"
		} else {
			startOK := false
			for _, e := range ip.Edges {
				if k, isK := constInt(e); isK && k == -1 {
					startOK = true
				}
			}
			if !startOK {
				return false, "the loop does not start at the first element"
			}
		}
		return true, ""
	}
	// form 2: append in the same iteration
	if lp, ok := listC.(*ssa.Phi); ok && lp.Block() == header {
		for _, e := range lp.Edges {
			c, ok := canon(e).(*ssa.Call)
			if !ok {
				continue
			}
			if bi, ok := c.Call.Value.(*ssa.Builtin); !ok || bi.Name() != "append" || len(c.Call.Args) != 2 {
				continue
			}
			if canon(c.Call.Args[0]) != ssa.Value(lp) || !inLoop(c.Block()) || c.Block() != step.Block() {
				continue
			}
			// append(list, []T{e}...): the variadic slice holds the element
			if sl, ok := canon(c.Call.Args[1]).(*ssa.Slice); ok {
				if al, ok := sl.X.(*ssa.Alloc); ok {
					found := false
					for _, ref := range *al.Referrers() {
						if ia, ok := ref.(*ssa.IndexAddr); ok {
							for _, r2 := range *ia.Referrers() {
								if st, ok := r2.(*ssa.Store); ok && (strip(st.Val) == elemC || sameValue(strip(st.Val), elemC)) {
									found = true
								}
							}
						}
					}
					if found {
						return true, ""
					}
				}
			}
		}
		return false, "the element whose size is added is not the one appended in that iteration"
	}
	return false, "the list is neither filled index by index nor by append in the accumulating loop"
}

// isDropLastHelper: g(list) returns list[:len(list)-1] on every path (a private "drop the last slab" helper).
func isDropLastHelper(p *Prog, g *ssa.Function) bool {
	if g == nil || g.Pkg != p.RootSSA || len(g.Blocks) == 0 || len(g.Params) == 0 || g.Signature.Results().Len() != 1 {
		return false
	}
	rets := returnsOf(g)
	if len(rets) == 0 {
		return false
	}
	for _, ret := range rets {
		sl, ok := canon(ret.Results[0]).(*ssa.Slice)
		if !ok || sl.Low != nil || sl.High == nil {
			return false
		}
		prm, ok := canon(sl.X).(*ssa.Parameter)
		if !ok {
			return false
		}
		if st, ok := prm.Type().Underlying().(*types.Slice); !ok || !isSlabT(st.Elem()) {
			return false
		}
		bo, ok := canonConv(sl.High).(*ssa.BinOp)
		if !ok || bo.Op != token.SUB {
			return false
		}
		if k, ok := constInt(bo.Y); !ok || k != 1 {
			return false
		}
		if a, isLen := isLenOf(bo.X); !isLen || canon(a) != ssa.Value(prm) {
			return false
		}
	}
	return true
}
