package main

import (
	"fmt"
	"go/token"
	"sort"
	"strings"

	"golang.org/x/tools/go/ssa"
)

// P15 the work of decoding one register is at most quadratic in its size.
//
// "Never hangs" has a structural part: how deep the loops over input-sized collections nest, across calls. Loops of
// the decode scope are of two kinds. A *consuming* loop hands the stream decoder to something in its body (it reads
// the next item of the register each time round): however such loops nest, together they run once per item, so they
// count once. A *re-scan* loop walks something already decoded (a sortedness check, a duplicate check); each level of
// nesting multiplies. A loop that descends recursively into the children of a decoded tree is counted like a consuming
// loop (each node is visited once). The degree of a point is (1 if it lies under a consuming loop) + (number of re-scan loops it
// lies under), summed along the call chain from the decode entry points (recursion contributes what one round of it
// contributes; loops whose exits compare a counter with constants are skipped). Obligation: degree <= 2 everywhere
// reachable from the decode scope - a duplicate check nested in another loop and called once per decoded key is
// degree 3: a register of a few tens of kilobytes then costs seconds to minutes.
type cxCost struct {
	r int // nested re-scan loops
	c bool
}

func (a cxCost) deg() int {
	if a.c {
		return a.r + 1
	}
	return a.r
}

func (a cxCost) plus(b cxCost) cxCost {
	o := cxCost{a.r + b.r, a.c || b.c}
	if o.r > 4 {
		o.r = 4
	}
	return o
}

func (a cxCost) less(b cxCost) bool {
	if a.deg() != b.deg() {
		return a.deg() < b.deg()
	}
	return a.r < b.r
}

type cxLoop struct {
	head      *ssa.BasicBlock
	blocks    map[*ssa.BasicBlock]bool
	constant  bool
	consuming bool
}

func ruleP15(p *Prog, r *Report) {
	const R = "P15"
	scope, _ := p.decodeScope()
	// functions reachable from the decode scope (root package)
	reach := p.ReachableFrom(sortedFuncs(p, scope), func(f *ssa.Function) bool { return !p.IsTestFile(f.Pos()) })
	var funcs []*ssa.Function
	for f := range reach {
		if f.Pkg == p.RootSSA && len(f.Blocks) > 0 && !p.IsTestFile(f.Pos()) {
			funcs = append(funcs, f)
		}
	}
	sort.Slice(funcs, func(i, j int) bool { return funcs[i].Pos() < funcs[j].Pos() })
	passesDecoder := func(c ssa.CallInstruction) bool {
		cm := c.Common()
		vals := append([]ssa.Value{}, cm.Args...)
		if cm.IsInvoke() {
			vals = append(vals, cm.Value)
		}
		for _, a := range vals {
			if tn := typeName(a.Type()); tn == "StreamDecoder" || tn == "Decoder" {
				return true
			}
		}
		return false
	}
	// all functions incl. closures of the reachable tops
	var all []*ssa.Function
	for _, f := range funcs {
		eachFuncDeep(f, func(g *ssa.Function) { all = append(all, g) })
	}
	// consuming functions: pass the decoder on, directly or through a callee
	consumes := map[*ssa.Function]bool{}
	for changed := true; changed; {
		changed = false
		for _, f := range all {
			if consumes[f] {
				continue
			}
			eachInstr(f, func(in ssa.Instruction) {
				c, ok := in.(ssa.CallInstruction)
				if !ok || consumes[f] {
					return
				}
				if passesDecoder(c) {
					consumes[f] = true
					changed = true
					return
				}
				for _, g := range p.Callees(c) {
					if consumes[g] {
						consumes[f] = true
						changed = true
						return
					}
				}
			})
		}
	}
	// call reachability among these functions (for recursion)
	succs := map[*ssa.Function]map[*ssa.Function]bool{}
	for _, f := range all {
		succs[f] = map[*ssa.Function]bool{}
		eachInstr(f, func(in ssa.Instruction) {
			switch x := in.(type) {
			case ssa.CallInstruction:
				for _, g := range p.Callees(x) {
					succs[f][g] = true
				}
			case *ssa.MakeClosure:
				if g, ok := x.Fn.(*ssa.Function); ok {
					succs[f][g] = true
				}
			}
		})
	}
	reaches := func(from, to *ssa.Function) bool {
		seen := map[*ssa.Function]bool{}
		stack := []*ssa.Function{from}
		for len(stack) > 0 {
			g := stack[len(stack)-1]
			stack = stack[:len(stack)-1]
			if g == to {
				return true
			}
			if seen[g] {
				continue
			}
			seen[g] = true
			for h := range succs[g] {
				stack = append(stack, h)
			}
		}
		return false
	}
	// loops
	loops := map[*ssa.Function][]*cxLoop{}
	nLoops, nConsuming, nConst := 0, 0, 0
	for _, f := range all {
		for _, h := range f.Blocks {
			isHead := false
			for _, t := range h.Preds {
				if h.Dominates(t) {
					isHead = true
				}
			}
			if !isHead {
				continue
			}
			l := &cxLoop{head: h, blocks: loopBlocks(h)}
			// constant trip count: every exit test compares with a constant
			exits, constExits := 0, 0
			for b := range l.blocks {
				ifi, ok := b.Instrs[len(b.Instrs)-1].(*ssa.If)
				if !ok {
					continue
				}
				leaves := false
				for _, s := range b.Succs {
					if !l.blocks[s] {
						leaves = true
					}
				}
				if !leaves {
					continue
				}
				exits++
				if bo, ok := ifi.Cond.(*ssa.BinOp); ok {
					_, kx := cInt(bo.X)
					_, ky := cInt(bo.Y)
					if kx != ky { // one side constant
						var other ssa.Value = bo.X
						if kx {
							other = bo.Y
						}
						// the other side is a counter of this loop
						if ph, ok := canonConv(other).(*ssa.Phi); ok && l.blocks[ph.Block()] {
							constExits++
						} else if b2, ok := canonConv(other).(*ssa.BinOp); ok && b2.Op == token.ADD {
							if ph, ok := canonConv(b2.X).(*ssa.Phi); ok && l.blocks[ph.Block()] {
								constExits++
							}
						}
					}
				}
			}
			l.constant = exits > 0 && constExits > 0 && hasOnlyErrorExitsBeside(l, constExits, exits)
			for b := range l.blocks {
				for _, in := range b.Instrs {
					c, ok := in.(ssa.CallInstruction)
					if !ok {
						continue
					}
					if passesDecoder(c) {
						l.consuming = true
					}
					for _, g := range p.Callees(c) {
						if consumes[g] {
							l.consuming = true
						}
						// structural recursion: the loop walks the children of a decoded tree and descends into each; over
						// the whole tree every node is visited once, like the items of the register
						if reaches(g, f) {
							l.consuming = true
						}
					}
				}
			}
			nLoops++
			if l.constant {
				nConst++
			} else if l.consuming {
				nConsuming++
			}
			loops[f] = append(loops[f], l)
		}
	}
	nest := func(f *ssa.Function, b *ssa.BasicBlock) cxCost {
		var o cxCost
		for _, l := range loops[f] {
			if !l.blocks[b] || l.constant {
				continue
			}
			if l.consuming {
				o.c = true
			} else {
				o.r++
			}
		}
		return o
	}
	// D(f): for the points below f, the deepest re-scan nesting seen outside any consuming context ([0]) and inside
	// one ([1]); -1 = no such point. A callee that consumes input itself scans what it has read - its own part of the
	// register, and the parts handed to the calls of a loop are disjoint (sum of part^k <= (sum of parts)^k) - so the
	// caller's consuming context is not carried into it; a callee that only re-scans works on what the caller hands it
	// (possibly everything decoded so far), so the context is carried.
	type dcost [2]int
	degOf := func(d dcost) int {
		o := d[0]
		if d[1] >= 0 && d[1]+1 > o {
			o = d[1] + 1
		}
		if o < 0 {
			o = 0
		}
		return o
	}
	capr := func(x int) int {
		if x > 4 {
			return 4
		}
		return x
	}
	D := map[*ssa.Function]dcost{}
	type witness struct {
		in ssa.Instruction
		g  *ssa.Function
	}
	W := map[*ssa.Function][2]witness{}
	for _, f := range all {
		D[f] = dcost{-1, -1}
	}
	for round := 0; round < 16; round++ {
		changed := false
		for _, f := range all {
			best := D[f]
			w := W[f]
			upd := func(k, v int, wi witness) {
				if v > best[k] {
					best[k] = capr(v)
					w[k] = wi
				}
			}
			for _, b := range f.Blocks {
				nb := nest(f, b)
				k := 0
				if nb.c {
					k = 1
				}
				upd(k, nb.r, witness{b.Instrs[0], nil})
				callee := func(in ssa.Instruction, g *ssa.Function) {
					dg, ok := D[g]
					if !ok {
						return
					}
					if dg[0] >= 0 {
						kk := 0
						if nb.c && !consumes[g] {
							kk = 1
						}
						upd(kk, nb.r+dg[0], witness{in, g})
					}
					if dg[1] >= 0 {
						upd(1, nb.r+dg[1], witness{in, g})
					}
				}
				for _, in := range b.Instrs {
					switch x := in.(type) {
					case ssa.CallInstruction:
						for _, g := range p.Callees(x) {
							callee(in, g)
						}
					case *ssa.MakeClosure:
						if g, ok := x.Fn.(*ssa.Function); ok {
							callee(in, g)
						}
					}
				}
			}
			if D[f] != best {
				D[f], W[f] = best, w
				changed = true
			}
		}
		if !changed {
			break
		}
	}
	worst := func(f *ssa.Function) int { // which component carries the degree
		d := D[f]
		if d[1] >= 0 && d[1]+1 >= d[0] {
			return 1
		}
		return 0
	}
	maxDeg := 0
	for _, f := range all {
		d := degOf(D[f])
		if d > maxDeg {
			maxDeg = d
		}
		if d <= 2 {
			continue
		}
		// reported once, at the function in which the degree crosses the bound
		if w := W[f][worst(f)]; w.g != nil && degOf(D[w.g]) > 2 {
			continue
		}
		var chain []string
		g := f
		for i := 0; i < 8 && g != nil; i++ {
			w := W[g][worst(g)]
			if w.in == nil {
				break
			}
			nb := nest(g, w.in.Block())
			chain = append(chain, fmt.Sprintf("%s at %s (under %d re-scan loop(s)%s)", p.Name(g), p.InstrPos(w.in), nb.r, map[bool]string{true: " and a consuming loop", false: ""}[nb.c]))
			g = w.g
		}
		r.Bad(R, "decode-degree:"+p.Name(f), p.Pos(f.Pos()), fmt.Sprintf("loops over input-sized collections nest to degree %d below this function: %s - the work per register grows faster than the square of its size, and a register of ordinary size can keep the decoder busy for seconds or minutes", d, strings.Join(chain, " -> ")))
	}
	r.Decide(true, R, "loops-classified", "-", fmt.Sprintf("functions reachable from the decode scope: %d; loops: %d (constant trip count %d, consuming %d, re-scan %d); largest degree below a decode-scope function: %d", len(all), nLoops, nConst, nConsuming, nLoops-nConst-nConsuming, maxDeg), "")
	r.Floor(R, "loops reachable from the decode scope", 15, nLoops)
	r.Floor(R, "consuming loops", 5, nConsuming)
}

// hasOnlyErrorExitsBeside: a loop counts as constant-bounded when at least one exit compares its counter with a
// constant; other exits (error returns, early breaks) only make it shorter.
func hasOnlyErrorExitsBeside(l *cxLoop, constExits, exits int) bool { return constExits >= 1 }

func eachFuncDeep(f *ssa.Function, visit func(*ssa.Function)) {
	visit(f)
	for _, a := range f.AnonFuncs {
		eachFuncDeep(a, visit)
	}
}
