package main

// Intra-procedural path queries over the go/ssa CFG.

import (
	"go/constant"
	"go/token"
	"go/types"

	"golang.org/x/tools/go/ssa"
)

// ---------------------------------------------------------------------------
// small helpers

func isErrorType(t types.Type) bool {
	n, ok := t.(*types.Named)
	return ok && n.Obj().Pkg() == nil && n.Obj().Name() == "error"
}

// lastResultIsError reports whether fn's last result has type error.
func lastResultIsError(fn *ssa.Function) bool {
	res := fn.Signature.Results()
	return res.Len() > 0 && isErrorType(res.At(res.Len()-1).Type())
}

func isNilConst(v ssa.Value) bool {
	c, ok := v.(*ssa.Const)
	return ok && c.Value == nil
}

func constInt(v ssa.Value) (int64, bool) {
	c, ok := v.(*ssa.Const)
	if !ok || c.Value == nil || c.Value.Kind() != constant.Int {
		return 0, false
	}
	i, ok := constant.Int64Val(c.Value)
	return i, ok
}

// staticCallee returns the statically known callee of a call instruction
// (function, method, or closure bound to a local MakeClosure), or nil.
func staticCallee(c ssa.CallInstruction) *ssa.Function {
	cc := c.Common()
	if cc.IsInvoke() {
		return nil
	}
	if f := cc.StaticCallee(); f != nil {
		return f
	}
	return closureOf(cc.Value)
}

// closureOf follows a func value back to the anonymous function it was made
// from, through local variables that are assigned exactly once.
func closureOf(v ssa.Value) *ssa.Function {
	for depth := 0; depth < 8; depth++ {
		switch x := v.(type) {
		case *ssa.MakeClosure:
			if f, ok := x.Fn.(*ssa.Function); ok {
				return f
			}
			return nil
		case *ssa.Function:
			return x
		case *ssa.UnOp:
			if x.Op != token.MUL {
				return nil
			}
			// load of a local alloc or a free variable cell: find the single store
			st := singleStoreTo(x.X)
			if st == nil {
				return nil
			}
			v = st
		case *ssa.ChangeType:
			v = x.X
		case *ssa.Call:
			// a private constructor of the callback: every return hands back a closure of one anonymous function
			if mc := builtClosure(x); mc != nil {
				v = mc
				continue
			}
			return nil
		default:
			return nil
		}
	}
	return nil
}

// builtClosure: call is a static call of a function with a single result whose every return is a MakeClosure of the
// same anonymous function (a helper that builds a callback and returns it); returns that MakeClosure.
func builtClosure(call *ssa.Call) *ssa.MakeClosure {
	g := call.Call.StaticCallee()
	if g == nil || len(g.Blocks) == 0 || g.Signature.Results().Len() != 1 {
		return nil
	}
	var the *ssa.MakeClosure
	for _, ret := range returnsOf(g) {
		if len(ret.Results) != 1 {
			return nil
		}
		v := ret.Results[0]
		if ct, ok := v.(*ssa.ChangeType); ok {
			v = ct.X
		}
		mc, ok := v.(*ssa.MakeClosure)
		if !ok {
			return nil
		}
		if the != nil && the.Fn != mc.Fn {
			return nil
		}
		the = mc
	}
	return the
}

// singleStoreTo returns the value stored to addr if there is exactly one
// store to it in the enclosing function tree (alloc or captured variable).
var singleStoreCache = map[ssa.Value]struct {
	v  ssa.Value
	ok bool
}{}

func singleStoreTo(addr ssa.Value) ssa.Value {
	if c, ok := singleStoreCache[addr]; ok {
		return c.v
	}
	v := singleStoreTo0(addr)
	singleStoreCache[addr] = struct {
		v  ssa.Value
		ok bool
	}{v, true}
	return v
}

func singleStoreTo0(addr ssa.Value) ssa.Value {
	var cell ssa.Value = addr
	// a FreeVar refers to the Alloc bound by the enclosing MakeClosure
	for {
		fv, ok := cell.(*ssa.FreeVar)
		if !ok {
			break
		}
		par := fv.Parent().Parent()
		if par == nil {
			return nil
		}
		var found ssa.Value
		idx := -1
		for i, f := range fv.Parent().FreeVars {
			if f == fv {
				idx = i
			}
		}
		eachInstr(par, func(in ssa.Instruction) {
			if mc, ok := in.(*ssa.MakeClosure); ok && mc.Fn == fv.Parent() && idx >= 0 && idx < len(mc.Bindings) {
				found = mc.Bindings[idx]
			}
		})
		if found == nil {
			return nil
		}
		cell = found
	}
	al, ok := cell.(*ssa.Alloc)
	if !ok {
		return nil
	}
	var stored ssa.Value
	n := 0
	var visit func(fn *ssa.Function)
	visit = func(fn *ssa.Function) {
		eachInstr(fn, func(in ssa.Instruction) {
			if st, ok := in.(*ssa.Store); ok {
				if addrRootsTo(st.Addr, al) {
					stored = st.Val
					n++
				}
			}
		})
		for _, a := range fn.AnonFuncs {
			visit(a)
		}
	}
	visit(al.Parent())
	if n == 1 {
		return stored
	}
	return nil
}

// addrRootsTo reports whether address expression a denotes the cell al,
// directly or through free-variable capture.
func addrRootsTo(a ssa.Value, al *ssa.Alloc) bool {
	for depth := 0; depth < 6; depth++ {
		switch x := a.(type) {
		case *ssa.Alloc:
			return x == al
		case *ssa.FreeVar:
			fn := x.Parent()
			par := fn.Parent()
			if par == nil {
				return false
			}
			idx := -1
			for i, f := range fn.FreeVars {
				if f == x {
					idx = i
				}
			}
			var b ssa.Value
			eachInstr(par, func(in ssa.Instruction) {
				if mc, ok := in.(*ssa.MakeClosure); ok && mc.Fn == fn && idx >= 0 && idx < len(mc.Bindings) {
					b = mc.Bindings[idx]
				}
			})
			if b == nil {
				return false
			}
			a = b
		default:
			return false
		}
	}
	return false
}

func eachInstr(fn *ssa.Function, f func(ssa.Instruction)) {
	for _, b := range fn.Blocks {
		for _, in := range b.Instrs {
			f(in)
		}
	}
}

// eachInstrDeep visits fn and all anonymous functions nested in it.
func eachInstrDeep(fn *ssa.Function, f func(*ssa.Function, ssa.Instruction)) {
	eachInstr(fn, func(in ssa.Instruction) { f(fn, in) })
	for _, a := range fn.AnonFuncs {
		eachInstrDeep(a, f)
	}
}

// invokedMethod returns the interface method of an invoke-mode call.
func invokedMethod(c ssa.CallInstruction) *types.Func {
	cc := c.Common()
	if cc.IsInvoke() {
		return cc.Method
	}
	return nil
}

// isBuiltinCall reports a call of the named builtin.
func isBuiltinCall(in ssa.Instruction, name string) (*ssa.CallCommon, bool) {
	c, ok := in.(ssa.CallInstruction)
	if !ok {
		return nil, false
	}
	b, ok := c.Common().Value.(*ssa.Builtin)
	if !ok || b.Name() != name {
		return nil, false
	}
	return c.Common(), true
}

// ---------------------------------------------------------------------------
// positions inside a function

type ipos struct {
	b *ssa.BasicBlock
	i int
}

func posOf(in ssa.Instruction) ipos {
	b := in.Block()
	for i, x := range b.Instrs {
		if x == in {
			return ipos{b, i}
		}
	}
	return ipos{b, -1}
}

// reachFrom explores all CFG paths starting just after `from` (or at function
// entry if from is nil). On each instruction it calls visit; visit returns
// stop=true to cut the path at that instruction (the instruction "absorbs" the
// path). Edges for which edgeOK returns false are not followed (nil = all).
func reachFrom(fn *ssa.Function, from ssa.Instruction, edgeOK func(from *ssa.BasicBlock, succIdx int) bool, visit func(in ssa.Instruction) (stop bool)) {
	if len(fn.Blocks) == 0 {
		return
	}
	seen := map[*ssa.BasicBlock]bool{}
	var walkBlock func(b *ssa.BasicBlock, start int)
	walkBlock = func(b *ssa.BasicBlock, start int) {
		for i := start; i < len(b.Instrs); i++ {
			if visit(b.Instrs[i]) {
				return
			}
		}
		for si, s := range b.Succs {
			if edgeOK != nil && !edgeOK(b, si) {
				continue
			}
			if !seen[s] {
				seen[s] = true
				walkBlock(s, 0)
			}
		}
	}
	if from == nil {
		seen[fn.Blocks[0]] = true
		walkBlock(fn.Blocks[0], 0)
		return
	}
	p := posOf(from)
	walkBlock(p.b, p.i+1)
}

// reachBackFrom explores all CFG paths backwards from just before `from`.
func reachBackFrom(fn *ssa.Function, from ssa.Instruction, visit func(in ssa.Instruction) (stop bool)) {
	seen := map[*ssa.BasicBlock]bool{}
	var walkBlock func(b *ssa.BasicBlock, start int)
	walkBlock = func(b *ssa.BasicBlock, start int) {
		for i := start; i >= 0; i-- {
			if visit(b.Instrs[i]) {
				return
			}
		}
		for _, pr := range b.Preds {
			if !seen[pr] {
				seen[pr] = true
				walkBlock(pr, len(pr.Instrs)-1)
			}
		}
	}
	p := posOf(from)
	walkBlock(p.b, p.i-1)
}

// ---------------------------------------------------------------------------
// error edges and return classification

// errTest describes `v != nil` / `v == nil` tests of an error value.
// nonNilSucc returns for an If instruction testing an error against nil the
// tested value and the successor index taken when the value is non-nil.
func errTestOf(ifi *ssa.If) (v ssa.Value, nonNilSucc int, ok bool) {
	bo, isb := ifi.Cond.(*ssa.BinOp)
	if !isb {
		return nil, 0, false
	}
	var x ssa.Value
	switch {
	case isNilConst(bo.Y):
		x = bo.X
	case isNilConst(bo.X):
		x = bo.Y
	default:
		return nil, 0, false
	}
	if !isErrorType(x.Type()) {
		return nil, 0, false
	}
	switch bo.Op {
	case token.NEQ:
		return x, 0, true
	case token.EQL:
		return x, 1, true
	}
	return nil, 0, false
}

// nilTestOf is errTestOf for any nil-comparable value.
func nilTestOf(ifi *ssa.If) (v ssa.Value, nonNilSucc int, ok bool) {
	bo, isb := ifi.Cond.(*ssa.BinOp)
	if !isb {
		return nil, 0, false
	}
	var x ssa.Value
	switch {
	case isNilConst(bo.Y):
		x = bo.X
	case isNilConst(bo.X):
		x = bo.Y
	default:
		return nil, 0, false
	}
	switch bo.Op {
	case token.NEQ:
		return x, 0, true
	case token.EQL:
		return x, 1, true
	}
	return nil, 0, false
}

// edgeDominates reports whether every path to block b goes through the edge
// from->from.Succs[succIdx].
func edgeDominates(from *ssa.BasicBlock, succIdx int, b *ssa.BasicBlock) bool {
	return edgeDominatesN(from, succIdx, b, 0)
}

// edgeDominatesN additionally sees through a boolean that was computed earlier and tested later
// (`ok := a && b; ...; if ok {`): the true edge of a test of phi(false, ..., v) is only taken when the
// phi was entered from the one predecessor that does not carry the constant false (dually for || and
// the false edge), so whatever dominates that predecessor has been passed.
func edgeDominatesN(from *ssa.BasicBlock, succIdx int, b *ssa.BasicBlock, depth int) bool {
	if edgeDominates0(from, succIdx, b) {
		return true
	}
	if depth > 2 {
		return false
	}
	for _, q := range from.Parent().Blocks {
		if len(q.Instrs) == 0 {
			continue
		}
		ifi, ok := q.Instrs[len(q.Instrs)-1].(*ssa.If)
		if !ok {
			continue
		}
		phi, ok := ifi.Cond.(*ssa.Phi)
		if !ok || len(phi.Edges) < 2 {
			continue
		}
		for _, polarity := range []bool{true, false} {
			k := 0
			if !polarity {
				k = 1
			}
			if !edgeDominates0(q, k, b) {
				continue
			}
			live := -1
			n := 0
			for i, e := range phi.Edges {
				c, isC := e.(*ssa.Const)
				if isC && c.Value != nil && (c.Value.String() == "true") != polarity {
					continue
				}
				live = i
				n++
			}
			if n != 1 {
				continue
			}
			pred := phi.Block().Preds[live]
			if pred == from && len(from.Succs) == 1 {
				continue
			}
			if edgeDominatesN(from, succIdx, pred, depth+1) {
				return true
			}
		}
	}
	return false
}

func edgeDominates0(from *ssa.BasicBlock, succIdx int, b *ssa.BasicBlock) bool {
	s := from.Succs[succIdx]
	if !s.Dominates(b) {
		return false
	}
	// s must be entered only via this edge (or via back edges from blocks it dominates)
	for _, p := range s.Preds {
		if p == from {
			// make sure the other successor is not s as well
			continue
		}
		if !s.Dominates(p) {
			return false
		}
	}
	// both successors identical?
	if len(from.Succs) == 2 && from.Succs[0] == from.Succs[1] {
		return false
	}
	return true
}

// knownNonNil reports whether error value v is known non-nil in block b
// (b is dominated by the non-nil edge of a test of v).
func knownNonNil(v ssa.Value, b *ssa.BasicBlock) bool {
	fn := b.Parent()
	for _, blk := range fn.Blocks {
		if len(blk.Instrs) == 0 {
			continue
		}
		ifi, ok := blk.Instrs[len(blk.Instrs)-1].(*ssa.If)
		if !ok {
			continue
		}
		x, nn, ok := nilTestOf(ifi)
		if !ok || !sameValue(x, v) {
			continue
		}
		if edgeDominates(blk, nn, b) {
			return true
		}
	}
	return false
}

// knownNil reports whether v is known nil in block b.
func knownNil(v ssa.Value, b *ssa.BasicBlock) bool {
	fn := b.Parent()
	for _, blk := range fn.Blocks {
		if len(blk.Instrs) == 0 {
			continue
		}
		ifi, ok := blk.Instrs[len(blk.Instrs)-1].(*ssa.If)
		if !ok {
			continue
		}
		x, nn, ok := nilTestOf(ifi)
		if !ok || !sameValue(x, v) {
			continue
		}
		if edgeDominates(blk, 1-nn, b) {
			return true
		}
	}
	return false
}

// sameValue: identity after canonicalisation (see canon); additionally two
// loads of the same field of the same base object are the same value when the
// enclosing function never stores to that field of that base.
func sameValue(a, b ssa.Value) bool {
	a, b = canon(a), canon(b)
	if a == b {
		return true
	}
	// len(x) of the same x
	if ca, ok := a.(*ssa.Call); ok {
		if cb, ok := b.(*ssa.Call); ok {
			ba, ok1 := ca.Call.Value.(*ssa.Builtin)
			bb, ok2 := cb.Call.Value.(*ssa.Builtin)
			if ok1 && ok2 && ba.Name() == "len" && bb.Name() == "len" && len(ca.Call.Args) == 1 && len(cb.Call.Args) == 1 {
				return sameValue(ca.Call.Args[0], cb.Call.Args[0])
			}
		}
	}
	la, ok1 := a.(*ssa.UnOp)
	lb, ok2 := b.(*ssa.UnOp)
	if ok1 && ok2 && la.Op == token.MUL && lb.Op == token.MUL {
		// two loads of one package-level variable (rule G5: not written after init) or of one captured
		// variable that the closure itself never assigns
		if ga, ok := la.X.(*ssa.Global); ok {
			if gb, ok := lb.X.(*ssa.Global); ok && ga == gb {
				return true
			}
		}
		// two loads of one local cell when everything that can write it (stores, calls that receive its address)
		// happens before both loads
		if aa, ok := la.X.(*ssa.Alloc); ok {
			if ab, ok := lb.X.(*ssa.Alloc); ok && aa == ab && aa.Referrers() != nil {
				before := func(w ssa.Instruction, l *ssa.UnOp) bool {
					if w.Block() == l.Block() {
						for _, in := range w.Block().Instrs {
							if in == w {
								return true
							}
							if in == ssa.Instruction(l) {
								return false
							}
						}
					}
					return w.Block().Dominates(l.Block())
				}
				okAll := true
				for _, ref := range *aa.Referrers() {
					if u, isLoad := ref.(*ssa.UnOp); isLoad && u.Op == token.MUL {
						continue
					}
					if _, isDbg := ref.(*ssa.DebugRef); isDbg {
						continue
					}
					if !before(ref, la) || !before(ref, lb) {
						okAll = false
					}
				}
				if okAll {
					return true
				}
			}
		}
		if fa, ok := la.X.(*ssa.FreeVar); ok {
			if fb, ok := lb.X.(*ssa.FreeVar); ok && fa == fb {
				written := false
				eachInstr(la.Parent(), func(in ssa.Instruction) {
					if st, ok := in.(*ssa.Store); ok && st.Addr == ssa.Value(fa) {
						written = true
					}
				})
				return !written
			}
		}
		fa, ok1 := la.X.(*ssa.FieldAddr)
		fb, ok2 := lb.X.(*ssa.FieldAddr)
		if ok1 && ok2 && fa.Field == fb.Field && sameValue(fa.X, fb.X) {
			written := false
			eachInstr(la.Parent(), func(in ssa.Instruction) {
				if st, ok := in.(*ssa.Store); ok {
					if f, ok := st.Addr.(*ssa.FieldAddr); ok && f.Field == fa.Field && canon(f.X) == canon(fa.X) {
						written = true
					}
				}
			})
			return !written
		}
	}
	return false
}

func stripTrivial(v ssa.Value) ssa.Value {
	for {
		switch x := v.(type) {
		case *ssa.ChangeType:
			v = x.X
		case *ssa.ChangeInterface:
			v = x.X
		default:
			return v
		}
	}
}

// canon maps an SSA value to a canonical representative: conversions that do
// not change identity are stripped, and a load from a local cell (go/ssa
// spills address-taken locals, captured variables and defer-time results) is
// replaced by the value stored to it when that is unambiguous: the cell has a
// single whole-cell store, or the latest store precedes the load in the same
// block.
func canon(v ssa.Value) ssa.Value {
	for depth := 0; depth < 10; depth++ {
		v = stripTrivial(v)
		u, ok := v.(*ssa.UnOp)
		if !ok || u.Op != token.MUL {
			return v
		}
		switch u.X.(type) {
		case *ssa.Alloc, *ssa.FreeVar:
		default:
			return v
		}
		// same-block preceding store
		if al, ok := u.X.(*ssa.Alloc); ok {
			b := u.Block()
			idx := -1
			for i, in := range b.Instrs {
				if in == ssa.Instruction(u) {
					idx = i
				}
			}
			var found ssa.Value
			for i := idx - 1; i >= 0; i-- {
				if st, ok := b.Instrs[i].(*ssa.Store); ok && st.Addr == ssa.Value(al) {
					found = st.Val
					break
				}
			}
			if found != nil {
				v = found
				continue
			}
		}
		if st := singleStoreTo(u.X); st != nil {
			v = st
			continue
		}
		return v
	}
	return v
}

// effectiveUses lists the instructions that use value v, looking through
// spill cells: a store of v into a local cell that is only ever assigned once
// is replaced by the uses of the loads of that cell (and of its field addresses).
func effectiveUses(v ssa.Value) []ssa.Instruction {
	var out []ssa.Instruction
	seen := map[ssa.Value]bool{}
	var rec func(x ssa.Value)
	rec = func(x ssa.Value) {
		if seen[x] || x.Referrers() == nil {
			return
		}
		seen[x] = true
		for _, ref := range *x.Referrers() {
			switch r := ref.(type) {
			case *ssa.Store:
				if al, ok := r.Addr.(*ssa.Alloc); ok && r.Val == x && singleStoreTo(al) == x {
					// uses of the cell
					for _, cr := range *al.Referrers() {
						switch c := cr.(type) {
						case *ssa.UnOp:
							rec(c)
						case *ssa.FieldAddr:
							out = append(out, c)
						case *ssa.Store:
							// the defining store itself
						default:
							out = append(out, cr)
						}
					}
					continue
				}
				out = append(out, ref)
			case *ssa.ChangeType:
				rec(r)
			case *ssa.ChangeInterface:
				rec(r)
			default:
				out = append(out, ref)
			}
		}
	}
	rec(v)
	return out
}

type retClass int

const (
	retSuccess   retClass = iota // error operand is the nil constant (or function has no error result)
	retError                     // error operand proven non-nil, or a freshly constructed error
	retPropagate                 // error operand is the direct result of a call: callee decides
	retUnknown                   // anything else (treated as possibly-success)
)

// classifyReturn classifies a Return instruction by its error operand.
func classifyReturn(ret *ssa.Return) (retClass, ssa.Value) {
	fn := ret.Parent()
	if !lastResultIsError(fn) {
		return retSuccess, nil
	}
	ev := resolveNamedResult(ret, len(ret.Results)-1)
	return classifyErrValue(ev, ret.Block(), 0), ev
}

// resolveNamedResult: result #i of ret; when the function has named results and a defer, go/ssa stores the
// returned value into the result cell, runs the defers and returns a load of the cell - the value stored last in
// the return's own block is what the return statement wrote (a deferred function may still replace it; the
// rules that care look at the defers themselves).
func resolveNamedResult(ret *ssa.Return, i int) ssa.Value {
	v := ret.Results[i]
	u, ok := v.(*ssa.UnOp)
	if !ok || u.Op != token.MUL {
		return v
	}
	al, ok := u.X.(*ssa.Alloc)
	if !ok {
		return v
	}
	var last ssa.Value
	for _, in := range ret.Block().Instrs {
		if st, ok := in.(*ssa.Store); ok && st.Addr == ssa.Value(al) {
			last = st.Val
		}
	}
	if last != nil {
		return last
	}
	return v
}

func classifyErrValue(ev ssa.Value, b *ssa.BasicBlock, depth int) retClass {
	if depth > 6 {
		return retUnknown
	}
	ev = canon(ev)
	if isNilConst(ev) {
		return retSuccess
	}
	if knownNonNil(ev, b) {
		return retError
	}
	if knownNil(ev, b) {
		return retSuccess
	}
	switch x := ev.(type) {
	case *ssa.MakeInterface:
		// a concrete error value boxed into error: freshly built error
		return retError
	case *ssa.Call:
		// direct result of a call
		if isWrapHelperCall(x) && len(x.Call.Args) > 0 {
			// wrapError*IfNeeded(e, ...) is nil exactly when e is nil
			return classifyErrValue(x.Call.Args[0], b, depth+1)
		}
		if isErrorConstructorCall(x) {
			return retError
		}
		return retPropagate
	case *ssa.Extract:
		if _, ok := x.Tuple.(*ssa.Call); ok {
			return retPropagate
		}
	case *ssa.Phi:
		// all edges classified
		cls := retClass(-1)
		for i, e := range x.Edges {
			var c retClass
			pred := x.Block().Preds[i]
			c = classifyErrValue(e, pred, depth+1)
			if cls == -1 {
				cls = c
			} else if cls != c {
				return retUnknown
			}
		}
		if cls >= 0 {
			return cls
		}
	}
	return retUnknown
}

// isErrorConstructorCall: a call to a function named New*Error* / wrapError*
// in the root package whose single result is error, with at least one path
// that returns non-nil unconditionally. We approximate: static callee in the
// root package whose name starts with "New" and ends in "Error"/"Errorf".
// wrapError* helpers return nil for nil input: classifyErrValue looks through
// them to their argument before this function is consulted.
// isWrapHelperCall: wrapError*AsExternalErrorIfNeeded(err, ...) of the root package (returns nil for a nil argument).
func isWrapHelperCall(c *ssa.Call) bool {
	f := c.Call.StaticCallee()
	if f == nil || f.Pkg == nil || f.Pkg.Pkg.Path() != rootPkgPath {
		return false
	}
	n := f.Name()
	return len(n) > 9 && n[:9] == "wrapError" && f.Signature.Params().Len() >= 1 && isErrorType(f.Signature.Params().At(0).Type())
}

func isErrorConstructorCall(c *ssa.Call) bool {
	f := c.Call.StaticCallee()
	if f != nil && (f.String() == "fmt.Errorf" || f.String() == "errors.New") {
		return true
	}
	if f == nil || f.Pkg == nil || f.Pkg.Pkg.Path() != rootPkgPath {
		return false
	}
	if f.Signature.Results().Len() != 1 || !isErrorType(f.Signature.Results().At(0).Type()) {
		return false
	}
	n := f.Name()
	if len(n) > 3 && (n[:3] == "New" || n[:3] == "new") && (hasSuffix(n, "Error") || hasSuffix(n, "Errorf")) {
		return true
	}
	if len(n) > 9 && n[:9] == "wrapError" {
		return true
	}
	return false
}

func hasSuffix(s, suf string) bool { return len(s) >= len(suf) && s[len(s)-len(suf):] == suf }

// returnsOf lists the Return instructions of fn.
func returnsOf(fn *ssa.Function) []*ssa.Return {
	var out []*ssa.Return
	for _, b := range fn.Blocks {
		if len(b.Instrs) == 0 {
			continue
		}
		if r, ok := b.Instrs[len(b.Instrs)-1].(*ssa.Return); ok {
			out = append(out, r)
		}
	}
	return out
}

// successReturnAvoiding searches for a path from `from` (nil = entry) to a
// return that may be a success return, avoiding every instruction for which
// hit returns true. It returns the offending return, or nil when every such
// path passes through a hit.
func successReturnAvoiding(fn *ssa.Function, from ssa.Instruction, hit func(ssa.Instruction) bool) *ssa.Return {
	var bad *ssa.Return
	reachFrom(fn, from, nil, func(in ssa.Instruction) bool {
		if bad != nil {
			return true
		}
		if hit(in) {
			return true
		}
		if r, ok := in.(*ssa.Return); ok {
			c, _ := classifyReturn(r)
			if c != retError {
				bad = r
			}
			return true
		}
		if _, ok := in.(*ssa.Panic); ok {
			return true
		}
		return false
	})
	return bad
}

// canReach reports whether target is reachable from `from` avoiding hits.
func canReach(fn *ssa.Function, from ssa.Instruction, target func(ssa.Instruction) bool, avoid func(ssa.Instruction) bool) ssa.Instruction {
	var found ssa.Instruction
	reachFrom(fn, from, nil, func(in ssa.Instruction) bool {
		if found != nil {
			return true
		}
		if avoid != nil && avoid(in) {
			return true
		}
		if target(in) {
			found = in
			return true
		}
		return false
	})
	return found
}

// ---------------------------------------------------------------------------
// post-dominance / control dependence (block level)

type postDom struct {
	fn    *ssa.Function
	exit  int // virtual exit index
	ipdom []int
}

// controlDeps returns the set of (If-terminated) blocks on which block b is
// control dependent, transitively.
func controlDeps(fn *ssa.Function) map[*ssa.BasicBlock]map[*ssa.BasicBlock][]int {
	// b is control dependent on edge (a -> s) if b post-dominates s (or b == s)
	// and b does not strictly post-dominate a.
	n := len(fn.Blocks)
	// post-dominator sets via iterative dataflow
	full := make([]bool, n)
	for i := range full {
		full[i] = true
	}
	pd := make([][]bool, n)
	isExit := func(b *ssa.BasicBlock) bool { return len(b.Succs) == 0 }
	for i, b := range fn.Blocks {
		pd[i] = make([]bool, n)
		if isExit(b) {
			pd[i][i] = true
		} else {
			copy(pd[i], full)
		}
	}
	changed := true
	for changed {
		changed = false
		for i := n - 1; i >= 0; i-- {
			b := fn.Blocks[i]
			if isExit(b) {
				continue
			}
			nw := make([]bool, n)
			copy(nw, full)
			for _, s := range b.Succs {
				for k := 0; k < n; k++ {
					nw[k] = nw[k] && pd[s.Index][k]
				}
			}
			nw[i] = true
			for k := 0; k < n; k++ {
				if nw[k] != pd[i][k] {
					changed = true
				}
			}
			pd[i] = nw
		}
	}
	direct := map[*ssa.BasicBlock]map[*ssa.BasicBlock][]int{}
	for _, a := range fn.Blocks {
		if len(a.Succs) < 2 {
			continue
		}
		for si, s := range a.Succs {
			for _, b := range fn.Blocks {
				if pd[s.Index][b.Index] && !(pd[a.Index][b.Index] && a != b) {
					if direct[b] == nil {
						direct[b] = map[*ssa.BasicBlock][]int{}
					}
					direct[b][a] = append(direct[b][a], si)
				}
			}
		}
	}
	return direct
}

// controlDependsOnValue reports whether block b is (transitively) control
// dependent on an If whose condition's backward slice (within the function,
// through BinOp/UnOp/Field/Call args) contains a value satisfying pred.
func controlDependsOnValue(fn *ssa.Function, b *ssa.BasicBlock, pred func(ssa.Value) bool) bool {
	cd := controlDeps(fn)
	seen := map[*ssa.BasicBlock]bool{}
	var rec func(x *ssa.BasicBlock) bool
	rec = func(x *ssa.BasicBlock) bool {
		if seen[x] {
			return false
		}
		seen[x] = true
		for a := range cd[x] {
			ifi, ok := a.Instrs[len(a.Instrs)-1].(*ssa.If)
			if ok && sliceContains(ifi.Cond, pred, 0, map[ssa.Value]bool{}) {
				return true
			}
			if rec(a) {
				return true
			}
		}
		return false
	}
	return rec(b)
}

// sliceContains walks the operand tree of v (bounded) looking for pred.
func sliceContains(v ssa.Value, pred func(ssa.Value) bool, depth int, seen map[ssa.Value]bool) bool {
	if v == nil || seen[v] || depth > 12 {
		return false
	}
	seen[v] = true
	if pred(v) {
		return true
	}
	in, ok := v.(ssa.Instruction)
	if !ok {
		return false
	}
	for _, op := range in.Operands(nil) {
		if *op != nil && sliceContains(*op, pred, depth+1, seen) {
			return true
		}
	}
	return false
}
