package main

// E5 a failed lookup is not taken for an answer.
//
// Where the library tests an error it received (err != nil) the non-nil edge must end in
// a return that carries an error. The one conversion of an error into an answer the
// library makes is "absent": the true edge of errors.As(err, *KeyNotFoundError) (the
// collision-limit test, the parent callback of a removed child) and of
// errors.As(err, *SlabNotFoundError). A non-nil edge from which a normal continuation
// or a nil-error return is reachable without passing such an edge drops every other
// failure - a failing key comparator, hash-input provider or ledger read is then taken
// for "key absent" (C18: such failures are reported as external errors).

import (
	"fmt"
	"go/types"
	"strings"

	"golang.org/x/tools/go/ssa"
)

// absentAsEdge: block b ends in `if errors.As(ev, &x)` with x of an "absent" error type; returns the true successor index.
func absentAsEdge(b *ssa.BasicBlock, ev ssa.Value) (int, bool) {
	ifi, ok := b.Instrs[len(b.Instrs)-1].(*ssa.If)
	if !ok {
		return 0, false
	}
	c, ok := canon(ifi.Cond).(*ssa.Call)
	if !ok || c.Call.StaticCallee() == nil {
		return 0, false
	}
	// a private predicate isAbsent(err) that is errors.As(err, &absentType) inside
	if g := c.Call.StaticCallee(); g.String() != "errors.As" && g.Pkg != nil && g.Pkg.Pkg.Path() == rootPkgPath && len(g.Params) == 1 && len(c.Call.Args) == 1 && len(g.Blocks) > 0 && sameValue(c.Call.Args[0], ev) {
		all := true
		rets := returnsOf(g)
		for _, ret := range rets {
			if len(ret.Results) != 1 {
				all = false
				continue
			}
			ic, ok := canon(ret.Results[0]).(*ssa.Call)
			if !ok || ic.Call.StaticCallee() == nil || ic.Call.StaticCallee().String() != "errors.As" || len(ic.Call.Args) != 2 || canon(ic.Call.Args[0]) != ssa.Value(g.Params[0]) {
				all = false
				continue
			}
			t := ic.Call.Args[1].Type()
			if mi, ok := ic.Call.Args[1].(*ssa.MakeInterface); ok {
				t = mi.X.Type()
			}
			if !strings.Contains(t.String(), "KeyNotFoundError") && !strings.Contains(t.String(), "SlabNotFoundError") {
				all = false
			}
		}
		if all && len(rets) > 0 {
			return 0, true
		}
		return 0, false
	}
	if c.Call.StaticCallee().String() != "errors.As" || len(c.Call.Args) != 2 {
		return 0, false
	}
	if !sameValue(c.Call.Args[0], ev) {
		return 0, false
	}
	t := c.Call.Args[1].Type()
	if mi, ok := c.Call.Args[1].(*ssa.MakeInterface); ok {
		t = mi.X.Type()
	}
	s := t.String()
	if strings.Contains(s, "KeyNotFoundError") || strings.Contains(s, "SlabNotFoundError") {
		return 0, true
	}
	return 0, false
}

func ruleE5(p *Prog, r *Report) {
	const R = "E5"
	n := 0
	count := map[string]int{}
	for _, top := range p.TopFuncs() {
		if p.IsTestFile(top.Pos()) || isDiagnosticFile(p.Fset.Position(top.Pos()).Filename) {
			continue
		}
		eachInstrDeep(top, func(fn *ssa.Function, in ssa.Instruction) {
			ifi, ok := in.(*ssa.If)
			if !ok {
				return
			}
			ev, nn, ok := errTestOf(ifi)
			if !ok {
				return
			}
			// only errors received from a call
			src := canon(ev)
			if ex, ok := src.(*ssa.Extract); ok {
				src = ex.Tuple
			}
			if _, isCall := src.(*ssa.Call); !isCall {
				return
			}
			if !lastResultIsError(fn) {
				return // a function that cannot report errors is judged by the rules of its kind (callbacks, workers)
			}
			n++
			count[p.Name(fn)]++
			cons := fmt.Sprintf("failure-not-an-answer:%s#%d", p.Name(fn), count[p.Name(fn)])
			type edge struct{ from, to *ssa.BasicBlock }
			seen := map[edge]bool{}
			var escape ssa.Instruction
			var walk func(from, b *ssa.BasicBlock)
			walk = func(from, b *ssa.BasicBlock) {
				if seen[edge{from, b}] || escape != nil {
					return
				}
				seen[edge{from, b}] = true
				if b == ifi.Block() {
					escape = b.Instrs[len(b.Instrs)-1] // back at the test: the failure was left behind
					return
				}
				last := b.Instrs[len(b.Instrs)-1]
				if ret, ok := last.(*ssa.Return); ok {
					c, rv := classifyReturn(ret)
					if c == retSuccess || c == retUnknown {
						if c2, ok := classifyOnEdge(rv, from, b); ok && (c2 == retError || c2 == retPropagate) {
							return
						}
						if c == retSuccess {
							escape = ret
						}
					}
					return
				}
				if _, ok := last.(*ssa.Panic); ok {
					return
				}
				if ti, ok := absentAsEdge(b, ev); ok {
					// the "absent" edge may answer; the other edge is still a failure
					walk(b, b.Succs[1-ti])
					return
				}
				// a second test of the same error adds nothing; any other branching continues on both sides
				for _, s := range b.Succs {
					walk(b, s)
				}
			}
			walk(ifi.Block(), ifi.Block().Succs[nn])
			if escape != nil {
				r.Bad(R, cons, p.InstrPos(ifi), "from the non-nil edge of this error test "+p.InstrPos(escape)+" is reachable - a nil-error return or the normal continuation - without passing the 'absent' edge of errors.As(err, *KeyNotFoundError / *SlabNotFoundError): every other failure of the call (a failing comparator, hash-input provider or ledger read) is dropped and taken for an answer")
			} else {
				r.Ok(R, cons, p.InstrPos(ifi), "the non-nil edge ends in error returns (or in the 'absent' conversion)")
			}
		})
	}
	r.Floor(R, "error tests on call results", 300, n)
	_ = types.Typ
}
