package main

// P3/P4: every slice, index and fixed-width read in decode scope is covered by a
// dominating length fact (constant guards, exact-length guards, range loops,
// symbolic index guards) or by one of two loop idioms (header-table stride loops,
// chunked reads). Anything else is listed as unproven.

import (
	"fmt"
	"go/token"
	"go/types"
	"strings"

	"golang.org/x/tools/go/ssa"
)

type lbCtx struct {
	p     *Prog
	depth int
	busy  map[string]bool
}

func isLenOf(v ssa.Value) (ssa.Value, bool) {
	c, ok := canonConv(v).(*ssa.Call)
	if !ok {
		return nil, false
	}
	b, ok := c.Call.Value.(*ssa.Builtin)
	if !ok || b.Name() != "len" {
		return nil, false
	}
	return c.Call.Args[0], true
}

// guardFacts: lower bound (and exactness) of len(v) implied by If edges dominating block at.
func (c *lbCtx) guardLB(f *ssa.Function, v ssa.Value, at *ssa.BasicBlock) (lb int64, exact bool) {
	for _, b := range f.Blocks {
		if len(b.Instrs) == 0 {
			continue
		}
		ifi, ok := b.Instrs[len(b.Instrs)-1].(*ssa.If)
		if !ok {
			continue
		}
		bo, ok := ifi.Cond.(*ssa.BinOp)
		if !ok {
			continue
		}
		op := bo.Op
		var k int64
		var kOK bool
		if x, isLen := isLenOf(bo.X); isLen && sameValue(x, v) {
			k, kOK = cInt((bo.Y))
		} else if y, isLen := isLenOf(bo.Y); isLen && sameValue(y, v) {
			k, kOK = cInt((bo.X))
			// swap: K op len  ==> len op' K
			switch op {
			case token.LSS:
				op = token.GTR
			case token.GTR:
				op = token.LSS
			case token.LEQ:
				op = token.GEQ
			case token.GEQ:
				op = token.LEQ
			}
		} else {
			continue
		}
		if !kOK {
			continue
		}
		// facts on the true / false edge
		type fact struct {
			lb    int64
			exact bool
		}
		var onTrue, onFalse *fact
		switch op {
		case token.LSS: // len < K
			onFalse = &fact{k, false}
		case token.LEQ: // len <= K
			onFalse = &fact{k + 1, false}
		case token.GEQ:
			onTrue = &fact{k, false}
		case token.GTR:
			onTrue = &fact{k + 1, false}
		case token.NEQ:
			onFalse = &fact{k, true}
		case token.EQL:
			onTrue = &fact{k, true}
		}
		if onTrue != nil && edgeDominates(b, 0, at) && onTrue.lb > lb {
			lb, exact = onTrue.lb, onTrue.exact
		}
		if onFalse != nil && edgeDominates(b, 1, at) && onFalse.lb > lb {
			lb, exact = onFalse.lb, onFalse.exact
		}
	}
	return
}

// lenLB: a lower bound of len(v) valid in block at.
func (c *lbCtx) lenLB(f *ssa.Function, v ssa.Value, at *ssa.BasicBlock) int64 {
	key := fmt.Sprintf("%p/%p", v, at)
	if c.busy[key] || c.depth > 12 {
		return 0
	}
	c.busy[key] = true
	c.depth++
	defer func() { delete(c.busy, key); c.depth-- }()

	best, _ := c.guardLB(f, v, at)
	if l := c.callFactsLB(f, v, at); l > best {
		best = l
	}
	cv := canon(v)
	if cv != v {
		if g, _ := c.guardLB(f, cv, at); g > best {
			best = g
		}
	}
	switch x := cv.(type) {
	case *ssa.Slice:
		// array operand: length is the array length
		if at2, ok := derefArray(x.X.Type()); ok {
			n := at2.Len()
			lo, hi := int64(0), n
			if x.Low != nil {
				if k, ok := cInt((x.Low)); ok {
					lo = k
				} else {
					return best
				}
			}
			if x.High != nil {
				if k, ok := cInt((x.High)); ok {
					hi = k
				} else {
					return best
				}
			}
			if hi-lo > best {
				best = hi - lo
			}
			return best
		}
		lo := int64(0)
		loConst := true
		if x.Low != nil {
			lo, loConst = cInt((x.Low))
		}
		if x.High != nil {
			if hi, ok := cInt((x.High)); ok && loConst {
				if hi-lo > best {
					best = hi - lo
				}
			}
			return best
		}
		if loConst {
			inner := c.lenLB(f, x.X, x.Block())
			if inner-lo > best {
				best = inner - lo
			}
		} else if x.Low != nil {
			// data[off:] inside a stride / chunk loop: at least one whole entry is left
			for _, k := range []int64{64, 32, 28, 16, 14, 8, 4, 2, 1} {
				if k <= best {
					break
				}
				if ok, _ := strideProven(f, canon(x.X), x.Low, k, x.Block()); ok {
					best = k
					break
				}
				if ok, _ := chunkProven(f, canon(x.X), x.Low, k, x.Block()); ok {
					best = k
					break
				}
			}
		}
	case *ssa.Phi:
		m := int64(-1)
		for i, e := range x.Edges {
			l := c.lenLB(f, e, x.Block().Preds[i])
			if m < 0 || l < m {
				m = l
			}
		}
		if m > best {
			best = m
		}
	case *ssa.MakeSlice:
		if k, ok := cInt((x.Len)); ok && k > best {
			best = k
		}
	case *ssa.Parameter:
		// every in-package call site (unexported functions only)
		if f.Object() != nil && !f.Object().Exported() && f.Parent() == nil {
			idx := -1
			for i, prm := range f.Params {
				if prm == x {
					idx = i
				}
			}
			cs := c.p.CallersOf(f)
			m := int64(-1)
			for _, s := range cs {
				if c.p.IsTestFile(s.Caller.Pos()) {
					continue
				}
				args := s.Instr.Common().Args
				if idx < 0 || idx >= len(args) {
					m = 0
					break
				}
				in, _ := s.Instr.(ssa.Instruction)
				l := c.lenLB(s.Caller, args[idx], in.Block())
				if m < 0 || l < m {
					m = l
				}
			}
			if m > best {
				best = m
			}
		}
	}
	return best
}

func derefArray(t types.Type) (*types.Array, bool) {
	if p, ok := t.Underlying().(*types.Pointer); ok {
		t = p.Elem()
	}
	a, ok := t.Underlying().(*types.Array)
	return a, ok
}

// indexGuarded: a dominating edge establishes idx < len(x).
func indexGuarded(f *ssa.Function, idx, x ssa.Value, at *ssa.BasicBlock) bool {
	for _, b := range f.Blocks {
		if len(b.Instrs) == 0 {
			continue
		}
		ifi, ok := b.Instrs[len(b.Instrs)-1].(*ssa.If)
		if !ok {
			continue
		}
		bo, ok := ifi.Cond.(*ssa.BinOp)
		if !ok {
			continue
		}
		isIdx := func(v ssa.Value) bool {
			if !sameValue(canonConv(v), canonConv(idx)) {
				return false
			}
			// a comparison made on a signed view of a 64-bit unsigned input value proves nothing about huge values:
			// int(u) is negative for u >= 2^63, passes `< len` and then panics as an index
			if bt, ok := v.Type().Underlying().(*types.Basic); ok && bt.Info()&types.IsUnsigned == 0 {
				if rt, ok := canonConv(idx).Type().Underlying().(*types.Basic); ok && rt.Info()&types.IsUnsigned != 0 {
					if rt.Kind() == types.Uint64 || rt.Kind() == types.Uint || rt.Kind() == types.Uintptr {
						return false
					}
				}
			}
			return true
		}
		isLen := func(v ssa.Value) bool {
			if a, ok := isLenOf(v); ok && sameValue(a, x) {
				return true
			}
			// a constant array length
			if at2, ok := derefArray(x.Type()); ok {
				if k, ok := cInt((v)); ok && k <= at2.Len() {
					return true
				}
			}
			// the count the slice was made with (make succeeded, so the count is its length)
			if m, ok := makeLenOf(x); ok {
				if _, isConst := canonConv(m).(*ssa.Const); !isConst && sameValue(canonConv(m), canonConv(v)) {
					return true
				}
			}
			return false
		}
		// idx < m with m itself below (or at) the length on the way here: `for i < len(xs) { for j < i { xs[j] } }`
		viaBound := func(m ssa.Value) bool {
			if _, isConst := m.(*ssa.Const); isConst {
				return false
			}
			if bt, ok := m.Type().Underlying().(*types.Basic); !ok || bt.Info()&types.IsInteger == 0 {
				return false
			}
			for _, b2 := range f.Blocks {
				if len(b2.Instrs) == 0 {
					continue
				}
				if2, ok := b2.Instrs[len(b2.Instrs)-1].(*ssa.If)
				if !ok {
					continue
				}
				c2, ok := if2.Cond.(*ssa.BinOp)
				if !ok {
					continue
				}
				isM := func(v ssa.Value) bool { return v == m || sameValue(canonConv(v), canonConv(m)) && v.Type() == m.Type() }
				switch {
				case (c2.Op == token.LSS || c2.Op == token.LEQ) && isM(c2.X) && isLen(c2.Y) && edgeDominates(b2, 0, at):
					return true
				case (c2.Op == token.GEQ || c2.Op == token.GTR) && isM(c2.X) && isLen(c2.Y) && edgeDominates(b2, 1, at):
					return true
				case (c2.Op == token.GTR || c2.Op == token.GEQ) && isLen(c2.X) && isM(c2.Y) && edgeDominates(b2, 0, at):
					return true
				case (c2.Op == token.LEQ || c2.Op == token.LSS) && isLen(c2.X) && isM(c2.Y) && edgeDominates(b2, 1, at):
					return true
				}
			}
			return false
		}
		switch {
		case bo.Op == token.LSS && isIdx(bo.X) && edgeDominates(b, 0, at) && viaBound(bo.Y):
			return true
		case bo.Op == token.GEQ && isIdx(bo.X) && edgeDominates(b, 1, at) && viaBound(bo.Y):
			return true
		case bo.Op == token.GTR && isIdx(bo.Y) && edgeDominates(b, 0, at) && viaBound(bo.X):
			return true
		case bo.Op == token.LEQ && isIdx(bo.Y) && edgeDominates(b, 1, at) && viaBound(bo.X):
			return true
		case bo.Op == token.LSS && isIdx(bo.X) && isLen(bo.Y) && edgeDominates(b, 0, at):
			return true
		case bo.Op == token.GEQ && isIdx(bo.X) && isLen(bo.Y) && edgeDominates(b, 1, at):
			return true
		case bo.Op == token.GTR && isLen(bo.X) && isIdx(bo.Y) && edgeDominates(b, 0, at):
			return true
		case bo.Op == token.LEQ && isLen(bo.X) && isIdx(bo.Y) && edgeDominates(b, 1, at):
			return true
		}
	}
	return false
}

// rangeIndexOf: idx is the index of a `for i := range s` loop (SSA rangeindex form) and at is inside its body;
// returns the ranged slice/len bound value.
func rangeBound(idx ssa.Value, at *ssa.BasicBlock) (bound ssa.Value, ok bool) {
	// counter loop form: i = phi[0, i+1]; header tests i < bound
	if phi, isPhi := canonConv(idx).(*ssa.Phi); isPhi {
		okInit, okStep := false, false
		for _, e := range phi.Edges {
			if k, isK := cInt(e); isK {
				okInit = k == 0
				continue
			}
			if bo, isBo := canonConv(e).(*ssa.BinOp); isBo && bo.Op == token.ADD && bo.X == ssa.Value(phi) {
				if one, isOne := cInt(bo.Y); isOne && one == 1 {
					okStep = true
				}
			}
		}
		hb := phi.Block()
		if ifi, isIf := hb.Instrs[len(hb.Instrs)-1].(*ssa.If); isIf && okInit && okStep {
			if c, isC := ifi.Cond.(*ssa.BinOp); isC && c.Op == token.LSS && canonConv(c.X) == ssa.Value(phi) && edgeDominates(hb, 0, at) {
				return c.Y, true
			}
		}
		return nil, false
	}
	bo, isBo := canonConv(idx).(*ssa.BinOp)
	if !isBo || bo.Op != token.ADD {
		return nil, false
	}
	phi, isPhi := bo.X.(*ssa.Phi)
	one, isOne := constInt(bo.Y)
	if !isPhi || !isOne || one != 1 {
		return nil, false
	}
	// header block: if idx < bound
	hb := phi.Block()
	ifi, isIf := hb.Instrs[len(hb.Instrs)-1].(*ssa.If)
	if !isIf {
		return nil, false
	}
	c, isC := ifi.Cond.(*ssa.BinOp)
	if !isC || c.Op != token.LSS || c.X != ssa.Value(bo) {
		return nil, false
	}
	if !edgeDominates(hb, 0, at) {
		return nil, false
	}
	return c.Y, true
}

// lenEquals: value n is known to equal len(x): n is len(x), or x = make([]T, m) and n == m.
func lenEquals(n ssa.Value, x ssa.Value) bool {
	if a, ok := isLenOf(n); ok && sameValue(a, x) {
		return true
	}
	if a, ok := isLenOf(n); ok {
		// len(mk) where mk = make([]T, m): compare m with x? not needed here
		_ = a
	}
	return false
}

// makeLen: if v is (len of) a slice created by make([]T, m), return m.
func makeLenOf(v ssa.Value) (ssa.Value, bool) {
	if a, ok := isLenOf(v); ok {
		v = a
	}
	if mk, ok := canon(v).(*ssa.MakeSlice); ok {
		return mk.Len, true
	}
	return nil, false
}

// affineInPhi: v = phi + k along straight-line constant additions; returns the phi and k.
func affineInPhi(v ssa.Value) (*ssa.Phi, int64, bool) {
	k := int64(0)
	for depth := 0; depth < 12; depth++ {
		v = canonConv(v)
		switch x := v.(type) {
		case *ssa.Phi:
			return x, k, true
		case *ssa.BinOp:
			if x.Op != token.ADD {
				return nil, 0, false
			}
			c, ok := cInt((x.Y))
			if !ok {
				return nil, 0, false
			}
			k += c
			v = x.X
		default:
			return nil, 0, false
		}
	}
	return nil, 0, false
}

// strideProven: idiom A. off is `phi + k`; phi is an induction variable of a range loop over
// make([]T, n) with per-iteration step S; a dominating exact-length guard says
// len(data[init:]) == S * n (or len(data) == S*n with init == 0). The read needs `need` bytes at off.
func strideProven(f *ssa.Function, data, off ssa.Value, need int64, at *ssa.BasicBlock) (bool, string) {
	var hb *ssa.BasicBlock
	var init, step, k int64
	if h2, s2, k2, ok := mulIndexOffset(off); ok {
		// offset recomputed per iteration as (loop index) * S + k: entry i starts at i*S
		hb, init, step, k = h2, 0, s2, k2
	} else {
		phi, k1, ok := affineInPhi(off)
		if !ok {
			return false, "offset is not an induction variable plus a constant"
		}
		k = k1
		hb = phi.Block()
		// init and step
		initOK := false
		stepOK := true
		for i, e := range phi.Edges {
			pred := hb.Preds[i]
			if hb.Dominates(pred) { // back edge
				p2, k2, ok := affineInPhi(e)
				if !ok || p2 != phi {
					return false, "offset is not advanced by constants"
				}
				if step != 0 && step != k2 {
					stepOK = false
				}
				step = k2
			} else {
				c, ok := cInt((e))
				if !ok {
					return false, "offset does not start at a constant"
				}
				init, initOK = c, true
			}
		}
		if !initOK || !stepOK || step <= 0 {
			return false, "offset induction not recognised"
		}
	}
	if k+need > step {
		return false, fmt.Sprintf("read of %d byte(s) at +%d exceeds the per-entry stride %d", need, k, step)
	}
	// the loop is a range loop whose bound is len(make([]T, n))
	ifi, isIf := hb.Instrs[len(hb.Instrs)-1].(*ssa.If)
	if !isIf {
		return false, "loop header has no bound test"
	}
	c, isC := ifi.Cond.(*ssa.BinOp)
	if !isC || c.Op != token.LSS || !edgeDominates(hb, 0, at) {
		return false, "loop bound test not recognised"
	}
	n, isMk := makeLenOf(c.Y)
	if !isMk {
		// `for i := 0; i < count; i++`: the count itself bounds a counter that starts at 0 and advances by one per round
		cp, ok := canonConv(c.X).(*ssa.Phi)
		if !ok || cp.Block() != hb {
			return false, "loop does not range over a slice made with the entry count"
		}
		unit, zero := true, false
		for i, e := range cp.Edges {
			if hb.Dominates(hb.Preds[i]) {
				p2, k3, ok := affineInPhi(e)
				if !ok || p2 != cp || k3 != 1 {
					unit = false
				}
			} else if c0, ok := cInt(e); ok && c0 == 0 {
				zero = true
			}
		}
		if !unit || !zero {
			return false, "loop does not range over a slice made with the entry count"
		}
		n = c.Y
	}
	// the count is len(data)/step itself: step*(len/step) <= len needs no guard (the counter must advance by one per
	// round, in step with the offset)
	if q, ok := canonConv(n).(*ssa.BinOp); ok && q.Op == token.QUO && init == 0 {
		if k2, ok := cInt(q.Y); ok && k2 == step {
			if lx, isLen := isLenOf(q.X); isLen && sameValue(lx, data) {
				if cp, ok := canonConv(c.X).(*ssa.Phi); ok && cp.Block() == hb {
					unit, zero := true, false
					for i, e := range cp.Edges {
						if hb.Dominates(hb.Preds[i]) {
							p2, k3, ok := affineInPhi(e)
							if !ok || p2 != cp || k3 != 1 {
								unit = false
							}
						} else if c0, ok := cInt(e); ok && c0 == 0 {
							zero = true
						}
					}
					if unit && zero {
						return true, fmt.Sprintf("stride loop over len(data)/%d entries, offset advanced by %d per round; read of %d at +%d", step, step, need, k)
					}
				}
			}
		}
	}
	// exact-length guard: len(data[init:]) == step * n  (operands in either order, conversions ignored)
	for _, b := range f.Blocks {
		if len(b.Instrs) == 0 {
			continue
		}
		g, ok := b.Instrs[len(b.Instrs)-1].(*ssa.If)
		if !ok {
			continue
		}
		bo, ok := g.Cond.(*ssa.BinOp)
		if !ok {
			continue
		}
		for pi, pair := range [][2]ssa.Value{{bo.X, bo.Y}, {bo.Y, bo.X}} {
			lx, isLen := isLenOf(pair[0])
			subInit := int64(-1)
			if !isLen {
				// len(data) - init, the same quantity as len(data[init:]) once init <= len(data) is known
				if sb, ok := canonConv(pair[0]).(*ssa.BinOp); ok && sb.Op == token.SUB {
					if k, isK := cInt(sb.Y); isK {
						if l2, ok := isLenOf(sb.X); ok {
							lx, isLen, subInit = l2, true, k
						}
					}
				}
			}
			if !isLen {
				continue
			}
			// which edge establishes len >= stride*n (exact or lower bound)?
			op := bo.Op
			if pi == 1 { // operands swapped: E op len  ==>  len op' E
				switch op {
				case token.LSS:
					op = token.GTR
				case token.GTR:
					op = token.LSS
				case token.LEQ:
					op = token.GEQ
				case token.GEQ:
					op = token.LEQ
				}
			}
			edge := -1
			switch op {
			case token.NEQ, token.LSS:
				edge = 1
			case token.EQL, token.GEQ:
				edge = 0
			}
			if edge < 0 || !edgeDominates(b, edge, hb) {
				continue
			}
			// lx is data[init:] or data itself with init == 0
			base, lo := canon(lx), int64(0)
			if sl, ok := base.(*ssa.Slice); ok && sl.High == nil {
				if sl.Low != nil {
					l, ok := cInt((sl.Low))
					if !ok {
						continue
					}
					lo = l
				}
				base = canon(sl.X)
			}
			if subInit >= 0 {
				// needs init <= len(data): a dominating length fact
				c0 := &lbCtx{p: nil, busy: map[string]bool{}}
				if !(sameValue(canon(lx), data) && subInit == init && c0.guardLBOnly(f, data, b) >= init) {
					continue
				}
			} else if !(sameValue(canon(lx), data) && init == 0) && (!sameValue(base, data) || lo != init) {
				continue
			}
			// pair[1] == step * n
			m, ok := canonConv(pair[1]).(*ssa.BinOp)
			if !ok || m.Op != token.MUL {
				continue
			}
			for _, mp := range [][2]ssa.Value{{m.X, m.Y}, {m.Y, m.X}} {
				s, ok := cInt((mp[0]))
				if ok && s == step && sameValue(canonConv(mp[1]), canonConv(n)) {
					// the product must be computed in a type that holds stride * (largest count): a product taken
					// in the count's own narrow type wraps, and the guard then accepts registers that are too short
					if !productFits(m, mp[1], step) {
						return false, fmt.Sprintf("the expected length %d*n is computed in %s, which cannot hold the product for every decoded count: it wraps, and a register much shorter than %d*n passes the length check", step, m.Type().String(), step)
					}
					return true, fmt.Sprintf("stride loop: len(data[%d:]) == %d*n guards n iterations of stride %d; read of %d at +%d", init, step, step, need, k)
				}
			}
		}
	}
	return false, "no exact-length guard len(data[init:]) == stride*n dominates the loop"
}

// mulIndexOffset: off = idx*S + k where idx is the index of a counting loop (0, 1, 2, ... one step per iteration:
// a header phi starting at -1 that is used incremented, as range loops are lowered, or a phi starting at 0 that is
// used as is) and S, k are constants. Returns the loop header, S and k.
func mulIndexOffset(off ssa.Value) (*ssa.BasicBlock, int64, int64, bool) {
	k := int64(0)
	v := canonConv(off)
	for depth := 0; depth < 6; depth++ {
		bo, ok := v.(*ssa.BinOp)
		if !ok {
			return nil, 0, 0, false
		}
		if bo.Op == token.ADD {
			if c, ok := cInt(bo.Y); ok {
				k += c
				v = canonConv(bo.X)
				continue
			}
			return nil, 0, 0, false
		}
		if bo.Op != token.MUL {
			return nil, 0, 0, false
		}
		for _, pr := range [][2]ssa.Value{{bo.X, bo.Y}, {bo.Y, bo.X}} {
			s, ok := cInt(pr[1])
			if !ok || s <= 0 {
				continue
			}
			phi, ki, ok := affineInPhi(pr[0])
			if !ok {
				continue
			}
			hb := phi.Block()
			start, okStart, okStep := int64(0), false, true
			for i, e := range phi.Edges {
				if hb.Dominates(hb.Preds[i]) {
					p2, k2, ok := affineInPhi(e)
					if !ok || p2 != phi || k2 != 1 {
						okStep = false
					}
				} else if c, ok := cInt(e); ok {
					start, okStart = c, true
				}
			}
			if okStart && okStep && start+ki == 0 {
				return hb, s, k, true
			}
		}
		return nil, 0, 0, false
	}
	return nil, 0, 0, false
}

// chunkProven: idiom B. off = i*K with i ranging over make([]T, len(b)/K); need <= K.
// equalByGuard lists the values that a dominating equality test (the equal edge of `a == b` / `a != b`)
// makes equal to v in block at, v itself first.
func equalByGuard(f *ssa.Function, v ssa.Value, at *ssa.BasicBlock) []ssa.Value {
	out := []ssa.Value{v}
	cv := canonConv(v)
	for _, b := range f.Blocks {
		if len(b.Instrs) == 0 {
			continue
		}
		ifi, ok := b.Instrs[len(b.Instrs)-1].(*ssa.If)
		if !ok {
			continue
		}
		bo, ok := ifi.Cond.(*ssa.BinOp)
		if !ok || (bo.Op != token.EQL && bo.Op != token.NEQ) {
			continue
		}
		eq := 0
		if bo.Op == token.NEQ {
			eq = 1
		}
		if !edgeDominates(b, eq, at) {
			continue
		}
		switch {
		case sameValue(canonConv(bo.X), cv):
			out = append(out, bo.Y)
		case sameValue(canonConv(bo.Y), cv):
			out = append(out, bo.X)
		}
	}
	return out
}

func chunkProven(f *ssa.Function, data, off ssa.Value, need int64, at *ssa.BasicBlock) (bool, string) {
	m, ok := canonConv(off).(*ssa.BinOp)
	if !ok || m.Op != token.MUL {
		return false, ""
	}
	for _, mp := range [][2]ssa.Value{{m.X, m.Y}, {m.Y, m.X}} {
		K, ok := cInt((mp[1]))
		if !ok || K < need {
			continue
		}
		bound, ok := rangeBound(mp[0], at)
		if !ok {
			continue
		}
		n, ok := makeLenOf(bound)
		if !ok {
			continue
		}
		// the loop count itself, or a count that a dominating check made equal to it
		for _, n2 := range equalByGuard(f, n, at) {
			q, ok := canonConv(n2).(*ssa.BinOp)
			if !ok || q.Op != token.QUO {
				continue
			}
			k2, ok := cInt((q.Y))
			lx, isLen := isLenOf(q.X)
			if ok && isLen && k2 == K && sameValue(lx, data) {
				return true, fmt.Sprintf("chunked read: i < len(data)/%d, read of %d at i*%d", K, need, K)
			}
		}
	}
	return false, ""
}

var boundsAllow = map[string]string{}

// P3 length lower bounds.
func ruleP3(p *Prog, r *Report) {
	const R = "P3"
	scope, _ := p.decodeScope()
	c := &lbCtx{p: p, busy: map[string]bool{}}
	nSites, nGuards := 0, 0
	for _, f := range sortedFuncs(p, scope) {
		if isErrorCtorFunc(TopLevel(f)) {
			continue
		}
		eachInstr(f, func(in ssa.Instruction) {
			switch x := in.(type) {
			case *ssa.Slice:
				if _, isArr := derefArray(x.X.Type()); isArr {
					// array operand with constant bounds is checked by the compiler; variable bounds need a guard
					if (x.Low == nil || isConstV(x.Low)) && (x.High == nil || isConstV(x.High)) {
						return
					}
				}
				if _, isStr := x.X.Type().Underlying().(*types.Basic); isStr {
					return
				}
				nSites++
				cons := "slice:" + p.Name(f)
				lb := c.lenLB(f, x.X, x.Block())
				need := int64(0)
				sym := ssa.Value(nil)
				for _, bnd := range []ssa.Value{x.Low, x.High} {
					if bnd == nil {
						continue
					}
					if k, ok := cInt((bnd)); ok {
						if k > need {
							need = k
						}
					} else {
						sym = bnd
					}
				}
				if sym == nil {
					if lb >= need {
						if need > 0 {
							nGuards++
						}
						r.Ok(R, cons, p.InstrPos(in), fmt.Sprintf("len >= %d proven, %d needed", lb, need))
					} else {
						r.Bad(R, cons, p.InstrPos(in), fmt.Sprintf("slice bound %d is not covered by a dominating length check (proven len >= %d): hostile short input would panic", need, lb))
					}
					return
				}
				// symbolic bound: guard `sym <= len(x)`, or loop idioms
				if symGuarded(f, sym, x.X, x.Block()) {
					nGuards++
					r.Ok(R, cons, p.InstrPos(in), "variable bound guarded by a dominating comparison with the length")
					return
				}
				if ok, why := strideProven(f, canon(x.X), sym, 0, x.Block()); ok {
					r.Ok(R, cons, p.InstrPos(in), why)
					return
				}
				if ok, why := chunkProven(f, canon(x.X), sym, 0, x.Block()); ok {
					r.Ok(R, cons, p.InstrPos(in), why)
					return
				}
				if why, ok := p.allowedBound(f, x); ok {
					r.Ok(R, cons, p.InstrPos(in), why)
					return
				}
				// xs[:i+1] with i a valid index of xs here
				if x.Low == nil || isConstV(x.Low) {
					if bo, ok := canonConv(sym).(*ssa.BinOp); ok && bo.Op == token.ADD {
						if one, isOne := cInt(bo.Y); isOne && one == 1 && (need <= 1) {
							i := bo.X
							valid := indexGuarded(f, i, x.X, x.Block())
							if b, ok := rangeBound(i, x.Block()); ok && !valid {
								if a, isLen := isLenOf(b); isLen && sameValue(a, x.X) {
									valid = true
								}
							}
							if valid {
								nGuards++
								r.Ok(R, cons, p.InstrPos(in), "upper bound is one past an index that is valid for this slice here")
								return
							}
						}
					}
				}
				r.Bad(R, cons, p.InstrPos(in), "slice with a variable bound that no dominating check or recognised loop idiom relates to the length")
			case *ssa.IndexAddr, *ssa.Index:
				var xs, idx ssa.Value
				if ia, ok := x.(*ssa.IndexAddr); ok {
					xs, idx = ia.X, ia.Index
				} else {
					ix := x.(*ssa.Index)
					xs, idx = ix.X, ix.Index
				}
				if arr, isArr := derefArray(xs.Type()); isArr {
					if k, ok := cInt((idx)); ok && k < arr.Len() {
						return
					}
					// a masked index into a table that covers the whole range of the mask
					if bo, ok := canonConv(idx).(*ssa.BinOp); ok && bo.Op == token.AND {
						for _, side := range []ssa.Value{bo.X, bo.Y} {
							if m, ok := cInt(side); ok && m >= 0 && m < arr.Len() {
								return
							}
						}
					}
				}
				if _, isStr := xs.Type().Underlying().(*types.Basic); isStr {
					return
				}
				// varargs backing arrays etc.
				if rootOfAddr(xs) == "fresh" {
					if _, isArr := derefArray(xs.Type()); isArr {
						return
					}
				}
				nSites++
				cons := "index:" + p.Name(f)
				if k, ok := cInt((idx)); ok {
					lb := c.lenLB(f, xs, in.Block())
					if lb >= k+1 {
						nGuards++
						r.Ok(R, cons, p.InstrPos(in), fmt.Sprintf("len >= %d proven for constant index %d", lb, k))
					} else {
						r.Bad(R, cons, p.InstrPos(in), fmt.Sprintf("constant index %d not covered by a length check (proven len >= %d)", k, lb))
					}
					return
				}
				if b, ok := rangeBound(idx, in.Block()); ok {
					if a, isLen := isLenOf(b); isLen {
						if sameValue(a, xs) || sameLenSlices(a, xs) {
							r.Ok(R, cons, p.InstrPos(in), "index is the range variable of a loop over this slice")
							return
						}
						// a = make([]T, len(xs)): the loop runs over a slice made as long as the one indexed
						if mk, ok := canon(a).(*ssa.MakeSlice); ok {
							if a2, ok := isLenOf(mk.Len); ok && sameValue(a2, xs) {
								r.Ok(R, cons, p.InstrPos(in), "index ranges over a slice that was made with the length of this one")
								return
							}
						}
						// xs = make([]T, len(a))
						if mk, ok := canon(xs).(*ssa.MakeSlice); ok {
							if a2, ok := isLenOf(mk.Len); ok && sameValue(a2, a) {
								r.Ok(R, cons, p.InstrPos(in), "index ranges over a slice of the same length as the one this slice was made with")
								return
							}
						}
						// both made with counts that a dominating check made equal
						if m1, ok := makeLenOf(a); ok {
							if m2, ok := makeLenOf(xs); ok {
								eqv := false
								for _, e := range equalByGuard(f, m1, in.Block()) {
									if sameValue(canonConv(e), canonConv(m2)) {
										eqv = true
									}
								}
								if eqv {
									nGuards++
									r.Ok(R, cons, p.InstrPos(in), "index ranges over a slice whose length was checked equal to the length of this one")
									return
								}
							}
						}
						// a = make([]T, m) and a dominating guard says m == len(xs)
						if m, ok := makeLenOf(a); ok && equalLenGuard(f, m, xs, in.Block()) {
							nGuards++
							r.Ok(R, cons, p.InstrPos(in), "loop count was checked equal to len of this slice")
							return
						}
					}
				}
				if indexGuarded(f, idx, xs, in.Block()) {
					nGuards++
					r.Ok(R, cons, p.InstrPos(in), "index guarded by a dominating idx < len check")
					return
				}
				// `for j := range m` (rotated form: every edge into the counter is taken only when its value is below m)
				// with m itself below (or at) the length here
				if m, ok := edgeBoundedPhi(idx); ok && (indexGuarded(f, m, xs, in.Block()) || symGuarded(f, m, xs, in.Block())) {
					nGuards++
					r.Ok(R, cons, p.InstrPos(in), "index is the counter of a loop below a bound that a dominating check keeps within the length")
					return
				}
				r.Bad(R, cons, p.InstrPos(in), "index derived from input is not guarded by a dominating comparison with the length")
			case *ssa.Call:
				g := x.Call.StaticCallee()
				if g == nil || !strings.Contains(g.String(), "encoding/binary.bigEndian)") {
					return
				}
				w := int64(0)
				switch g.Name() {
				case "Uint16", "PutUint16":
					w = 2
				case "Uint32", "PutUint32":
					w = 4
				case "Uint64", "PutUint64":
					w = 8
				default:
					return
				}
				nSites++
				cons := "fixed-read:" + p.Name(f)
				b := x.Call.Args[1]
				lb := c.lenLB(f, b, x.Block())
				if lb >= w {
					nGuards++
					r.Ok(R, cons, p.InstrPos(in), fmt.Sprintf("len >= %d proven for a %d-byte read", lb, w))
					return
				}
				if sl, ok := canon(b).(*ssa.Slice); ok && sl.Low != nil && sl.High == nil {
					if ok, why := strideProven(f, canon(sl.X), sl.Low, w, x.Block()); ok {
						r.Ok(R, cons, p.InstrPos(in), why)
						return
					}
					if ok, why := chunkProven(f, canon(sl.X), sl.Low, w, x.Block()); ok {
						r.Ok(R, cons, p.InstrPos(in), why)
						return
					}
				}
				r.Bad(R, cons, p.InstrPos(in), fmt.Sprintf("%d-byte read not covered by a length fact (proven len >= %d)", w, lb))
			}
		})
	}
	r.Floor(R, "slice/index/fixed-width sites examined", 40, nSites)
	r.Floor(R, "sites discharged by a dominating guard", 10, nGuards)
}

func isConstV(v ssa.Value) bool { _, ok := cInt((v)); return ok }

// symGuarded: a dominating edge establishes sym <= len(x).
func symGuarded(f *ssa.Function, sym, x ssa.Value, at *ssa.BasicBlock) bool {
	for _, b := range f.Blocks {
		if len(b.Instrs) == 0 {
			continue
		}
		ifi, ok := b.Instrs[len(b.Instrs)-1].(*ssa.If)
		if !ok {
			continue
		}
		bo, ok := ifi.Cond.(*ssa.BinOp)
		if !ok {
			continue
		}
		isS := func(v ssa.Value) bool { return sameValue(canonConv(v), canonConv(sym)) }
		isL := func(v ssa.Value) bool { a, ok := isLenOf(v); return ok && sameValue(a, x) }
		switch {
		case (bo.Op == token.LEQ || bo.Op == token.LSS) && isS(bo.X) && isL(bo.Y) && edgeDominates(b, 0, at):
			return true
		case (bo.Op == token.GTR) && isS(bo.X) && isL(bo.Y) && edgeDominates(b, 1, at):
			return true
		case (bo.Op == token.LSS) && isL(bo.X) && isS(bo.Y) && edgeDominates(b, 1, at):
			return true
		case (bo.Op == token.GEQ || bo.Op == token.GTR) && isL(bo.X) && isS(bo.Y) && edgeDominates(b, 0, at):
			return true
		}
	}
	// the guard lives in a private predicate: `if isX(xs) { ... xs[len(G):] }` where isX(p) can only answer true
	// when len(p) > len(G) (or >=) held
	for _, b := range f.Blocks {
		if len(b.Instrs) == 0 {
			continue
		}
		ifi, ok := b.Instrs[len(b.Instrs)-1].(*ssa.If)
		if !ok {
			continue
		}
		cond, trueEdge := ifi.Cond, 0
		if u, ok := cond.(*ssa.UnOp); ok && u.Op == token.NOT {
			cond, trueEdge = u.X, 1
		}
		call, ok := cond.(*ssa.Call)
		if !ok || !edgeDominates(b, trueEdge, at) {
			continue
		}
		g := call.Call.StaticCallee()
		if g == nil || len(g.Blocks) == 0 || g.Pkg == nil || f.Pkg == nil || g.Pkg != f.Pkg || g.Signature.Results().Len() != 1 {
			continue
		}
		for i, a := range call.Call.Args {
			if i < len(g.Params) && sameValue(a, x) && predicateImpliesLen(g, g.Params[i], sym) {
				return true
			}
		}
	}
	return false
}

// predicateImpliesLen: the bool function g can only return true when `S <= len(prm)` held, where S is the callee's
// view of the caller's bound sym (a constant, or the length of a package-level variable).
func predicateImpliesLen(g *ssa.Function, prm *ssa.Parameter, sym ssa.Value) bool {
	sameBound := func(v ssa.Value) bool {
		if k1, ok1 := cInt(v); ok1 {
			k2, ok2 := cInt(sym)
			return ok2 && k1 == k2
		}
		a, ok1 := isLenOf(v)
		b, ok2 := isLenOf(sym)
		if !ok1 || !ok2 {
			return false
		}
		ga, ok1 := globalLoaded(a)
		gb, ok2 := globalLoaded(b)
		return ok1 && ok2 && ga == gb
	}
	isGuard := func(v ssa.Value) bool {
		bo, ok := v.(*ssa.BinOp)
		if !ok {
			return false
		}
		isL := func(v ssa.Value) bool { a, ok := isLenOf(v); return ok && canon(a) == ssa.Value(prm) }
		switch bo.Op {
		case token.GTR, token.GEQ:
			return isL(bo.X) && sameBound(bo.Y)
		case token.LSS, token.LEQ:
			return sameBound(bo.X) && isL(bo.Y)
		}
		return false
	}
	rets := returnsOf(g)
	if len(rets) == 0 {
		return false
	}
	for _, ret := range rets {
		if len(ret.Results) != 1 {
			return false
		}
		v := ret.Results[0]
		if c, ok := v.(*ssa.Const); ok && c.Value != nil && c.Value.String() == "false" {
			continue
		}
		if isGuard(v) {
			continue
		}
		ph, ok := v.(*ssa.Phi)
		if !ok {
			return false
		}
		for i, e := range ph.Edges {
			if c, ok := e.(*ssa.Const); ok && c.Value != nil && c.Value.String() == "false" {
				continue
			}
			if isGuard(e) {
				continue
			}
			// the edge is taken only after a guard answered true
			pred := ph.Block().Preds[i]
			okEdge := false
			for _, b := range g.Blocks {
				ifi, isIf := b.Instrs[len(b.Instrs)-1].(*ssa.If)
				if isIf && isGuard(ifi.Cond) && (edgeDominates(b, 0, pred) || (b == pred && pred.Succs[0] == ph.Block() && pred.Succs[1] != ph.Block())) {
					okEdge = true
				}
			}
			if !okEdge {
				return false
			}
		}
	}
	return true
}

func globalLoaded(v ssa.Value) (*ssa.Global, bool) {
	u, ok := canon(v).(*ssa.UnOp)
	if !ok || u.Op != token.MUL {
		return nil, false
	}
	g, ok := u.X.(*ssa.Global)
	return g, ok
}

// sameLenSlices: a and b are both created by make with the same length value.
func sameLenSlices(a, b ssa.Value) bool {
	ma, ok1 := canon(a).(*ssa.MakeSlice)
	mb, ok2 := canon(b).(*ssa.MakeSlice)
	return ok1 && ok2 && sameValue(canonConv(ma.Len), canonConv(mb.Len))
}

// allowedBound: library contracts that bound a variable slice index.
func (p *Prog) allowedBound(f *ssa.Function, s *ssa.Slice) (string, bool) {
	if s.Low != nil && s.High == nil {
		if c, ok := canonConv(s.Low).(*ssa.Call); ok {
			if g := c.Call.StaticCallee(); g != nil && g.Name() == "NumBytesDecoded" {
				return "library contract: cbor StreamDecoder.NumBytesDecoded() <= len(input) (A-CBOR)", true
			}
		}
	}
	return "", false
}

// cInt evaluates constant integer expressions built from constants with + - * and conversions
// (go/ssa does not fold `offset += 8` chains that start from a constant).
func cInt(v ssa.Value) (int64, bool) {
	return cIntD(v, 0)
}

func cIntD(v ssa.Value, depth int) (int64, bool) {
	if depth > 16 {
		return 0, false
	}
	v = canonConv(v)
	if k, ok := constInt(v); ok {
		return k, true
	}
	if bo, ok := v.(*ssa.BinOp); ok {
		a, ok1 := cIntD(bo.X, depth+1)
		b, ok2 := cIntD(bo.Y, depth+1)
		if ok1 && ok2 {
			switch bo.Op {
			case token.ADD:
				return a + b, true
			case token.SUB:
				return a - b, true
			case token.MUL:
				return a * b, true
			}
		}
	}
	return 0, false
}

// successLB: on every success return of g, len(param j) >= the returned bound (from g's own guards).
func (c *lbCtx) successLB(g *ssa.Function, j int) int64 {
	if j >= len(g.Params) || len(g.Blocks) == 0 {
		return 0
	}
	m := int64(-1)
	for _, ret := range returnsOf(g) {
		if cl, _ := classifyReturn(ret); cl == retError {
			continue
		}
		l, _ := c.guardLB(g, g.Params[j], ret.Block())
		if m < 0 || l < m {
			m = l
		}
	}
	if m < 0 {
		return 0
	}
	return m
}

// callFactsLB: v was passed to an in-package function that succeeded (its error is known nil at `at`).
func (c *lbCtx) callFactsLB(f *ssa.Function, v ssa.Value, at *ssa.BasicBlock) int64 {
	best := int64(0)
	eachInstr(f, func(in ssa.Instruction) {
		call, ok := in.(*ssa.Call)
		if !ok {
			return
		}
		g := call.Call.StaticCallee()
		if g == nil || g.Pkg != c.p.RootSSA {
			return
		}
		for j, a := range call.Call.Args {
			if _, isSlice := a.Type().Underlying().(*types.Slice); !isSlice || !sameValue(a, v) {
				continue
			}
			// error result
			var ev ssa.Value
			if isErrorType(call.Type()) {
				ev = call
			} else if rs := call.Referrers(); rs != nil {
				for _, ref := range *rs {
					if ex, ok := ref.(*ssa.Extract); ok && isErrorType(ex.Type()) {
						ev = ex
					}
				}
			}
			if ev == nil || !knownNil(ev, at) {
				continue
			}
			if l := c.successLB(g, j); l > best {
				best = l
			}
		}
	})
	return best
}

// equalLenGuard: a dominating edge establishes m == len(x) (m possibly converted).
func equalLenGuard(f *ssa.Function, m, x ssa.Value, at *ssa.BasicBlock) bool {
	for _, b := range f.Blocks {
		if len(b.Instrs) == 0 {
			continue
		}
		ifi, ok := b.Instrs[len(b.Instrs)-1].(*ssa.If)
		if !ok {
			continue
		}
		bo, ok := ifi.Cond.(*ssa.BinOp)
		if !ok || (bo.Op != token.NEQ && bo.Op != token.EQL) {
			continue
		}
		edge := 1
		if bo.Op == token.EQL {
			edge = 0
		}
		if !edgeDominates(b, edge, at) {
			continue
		}
		for _, pr := range [][2]ssa.Value{{bo.X, bo.Y}, {bo.Y, bo.X}} {
			if !sameValue(canonConv(pr[0]), canonConv(m)) {
				continue
			}
			if a, ok := isLenOf(pr[1]); ok && sameValue(a, x) {
				return true
			}
		}
	}
	return false
}

func intBits(t types.Type) int {
	b, ok := t.Underlying().(*types.Basic)
	if !ok || b.Info()&types.IsInteger == 0 {
		return 0
	}
	switch b.Kind() {
	case types.Int8, types.Uint8:
		return 8
	case types.Int16, types.Uint16:
		return 16
	case types.Int32, types.Uint32:
		return 32
	}
	return 64
}

// productFits: the multiplication m = step * count is carried out in a type wide enough for step times the
// largest value of the narrowest type the count has passed through.
func productFits(m *ssa.BinOp, count ssa.Value, step int64) bool {
	have := intBits(m.Type())
	if have == 0 {
		return false
	}
	if b, ok := m.Type().Underlying().(*types.Basic); ok && b.Info()&types.IsUnsigned == 0 {
		have-- // sign bit
	}
	nb := 64
	v := count
	for d := 0; d < 6; d++ {
		if w := intBits(v.Type()); w != 0 && w < nb {
			nb = w
		}
		cv, ok := canon(v).(*ssa.Convert)
		if !ok {
			if w := intBits(canon(v).Type()); w != 0 && w < nb {
				nb = w
			}
			break
		}
		v = cv.X
	}
	sb := 0
	for x := step; x > 0; x >>= 1 {
		sb++
	}
	return nb+sb <= have || have >= 63
}

// guardLBOnly: the lower bound of len(v) that dominating guards alone establish at block at.
func (c *lbCtx) guardLBOnly(f *ssa.Function, v ssa.Value, at *ssa.BasicBlock) int64 {
	lb, _ := c.guardLB(f, v, at)
	return lb
}

// edgeBoundedPhi: idx is a phi each of whose incoming edges is the true edge of a test `value-on-that-edge < m` for
// one common m (the rotated form of `for j := range m` / `for j := 0; j < m; j++`): inside the loop idx < m.
func edgeBoundedPhi(idx ssa.Value) (ssa.Value, bool) {
	phi, ok := canonConv(idx).(*ssa.Phi)
	if !ok {
		return nil, false
	}
	var m ssa.Value
	for i, e := range phi.Edges {
		pred := phi.Block().Preds[i]
		ifi, ok := pred.Instrs[len(pred.Instrs)-1].(*ssa.If)
		if !ok || pred.Succs[0] != phi.Block() || pred.Succs[1] == phi.Block() {
			return nil, false
		}
		bo, ok := ifi.Cond.(*ssa.BinOp)
		if !ok || bo.Op != token.LSS {
			return nil, false
		}
		if k, isK := cInt(e); isK {
			k2, isK2 := cInt(bo.X)
			if !isK2 || k2 != k {
				return nil, false
			}
		} else if bo.X != e && !sameValue(canonConv(bo.X), canonConv(e)) {
			return nil, false
		}
		if m == nil {
			m = bo.Y
		} else if m != bo.Y {
			return nil, false
		}
	}
	return m, m != nil
}
