package main

import (
	"encoding/json"
	"flag"
	"fmt"
	"os"
	"path/filepath"
	"runtime/debug"
	"runtime/pprof"
	"sort"
	"strings"
	"time"
)

type Rule struct {
	ID  string
	Doc string
	Run func(p *Prog, r *Report)
}

var ruleTable = map[string]*Rule{}

func reg(id, doc string, run func(p *Prog, r *Report)) {
	ruleTable[id] = &Rule{id, doc, run}
}

type PropSpec struct {
	ID          string
	Rules       []string
	Explanation string // what the rules decide (goes to evidence and MANIFEST level text)
	NotDecided  string // what remains behavioural and is not claimed
	Technique   string
}

var propTable = map[string]*PropSpec{}

type KnownFinding struct {
	Property string `json:"property"`
	Key      string `json:"key"`
	Status   string `json:"status"` // open | fixed
	Commit   string `json:"commit,omitempty"`
	What     string `json:"what"`
}

func loadKnown(path string) ([]KnownFinding, error) {
	b, err := os.ReadFile(path)
	if err != nil {
		if os.IsNotExist(err) {
			return nil, nil
		}
		return nil, err
	}
	var out struct {
		Findings []KnownFinding `json:"findings"`
	}
	if err := json.Unmarshal(b, &out); err != nil {
		return nil, err
	}
	return out.Findings, nil
}

type overlayFlag map[string]string

func (o overlayFlag) String() string { return "" }
func (o overlayFlag) Set(s string) error {
	i := strings.Index(s, "=")
	if i < 0 {
		return fmt.Errorf("overlay must be file=replacement")
	}
	o[s[:i]] = s[i+1:]
	return nil
}

func main() {
	var (
		prop     = flag.String("prop", "", "property id (C01..C20), or 'all'")
		rulesF   = flag.String("rules", "", "comma-separated rule ids to run instead of a property's rules")
		tier     = flag.String("tier", "quick", "quick|thorough")
		repo     = flag.String("repo", "/repo", "repository root")
		verif    = flag.String("verif", "/verif", "verif root (evidence, known findings)")
		tags     = flag.String("tags", "", "build tags")
		goarch   = flag.String("goarch", "", "GOARCH")
		noEvid   = flag.Bool("no-evidence", false, "do not write the evidence file")
		listOnly = flag.Bool("list", false, "list rules and properties")
		verbose  = flag.Bool("v", false, "print every obligation")
		jsonOut  = flag.String("json", "", "write obligations as JSON to this file (selftest)")
		seedsF   = flag.String("selftest", "", "run seeded self-validation from this seeds file")
		replay   = flag.String("replay", "", "replay file: re-evaluate and print the obligations it names")
		manifest = flag.Bool("manifest", false, "print MANIFEST.json generated from the property table")
	)
	cpuprof := flag.String("cpuprofile", "", "write cpu profile")
	ov := overlayFlag{}
	flag.Var(ov, "overlay", "file=replacement (repeatable)")
	flag.Parse()
	registerAll()
	if *cpuprof != "" {
		f, _ := os.Create(*cpuprof)
		pprof.StartCPUProfile(f)
		defer pprof.StopCPUProfile()
	}

	if *manifest {
		emitManifest()
		return
	}
	if *listOnly {
		var ids []string
		for id := range propTable {
			ids = append(ids, id)
		}
		sort.Strings(ids)
		for _, id := range ids {
			fmt.Printf("%s: %s\n", id, strings.Join(propTable[id].Rules, " "))
		}
		return
	}
	if *seedsF != "" {
		os.Exit(runSelftest(*seedsF, *repo, *verif, *prop, *rulesF))
	}
	if *prop == "" && *rulesF == "" {
		fmt.Fprintln(os.Stderr, "need -prop or -rules")
		os.Exit(2)
	}
	overlay := map[string][]byte{}
	for f, rep := range ov {
		b, err := os.ReadFile(rep)
		if err != nil {
			fmt.Fprintln(os.Stderr, "overlay:", err)
			os.Exit(2)
		}
		if !filepath.IsAbs(f) {
			f = filepath.Join(*repo, f)
		}
		overlay[f] = b
	}
	code := runCheck(*prop, *rulesF, *tier, *repo, *verif, *tags, *goarch, overlay, !*noEvid, *verbose, *jsonOut, *replay)
	pprof.StopCPUProfile()
	os.Exit(code)
}

type configResult struct {
	Cfg    string
	Report *Report
	Funcs  int
	Err    string
}

func runRules(cfg LoadConfig, rules []string) (res configResult) {
	res.Cfg = cfg.String()
	res.Report = NewReport()
	defer func() {
		if e := recover(); e != nil {
			res.Err = fmt.Sprintf("analyzer panic: %v\n%s", e, debug.Stack())
		}
	}()
	p, err := Load(cfg)
	if err != nil {
		res.Err = err.Error()
		return
	}
	res.Funcs = len(p.Funcs)
	for _, id := range rules {
		rl := ruleTable[id]
		if rl == nil {
			res.Err = "unknown rule " + id
			return
		}
		func() {
			defer func() {
				if e := recover(); e != nil {
					res.Report.Unk(id, "panic", "-", fmt.Sprintf("analyzer panic in rule: %v\n%s", e, debug.Stack()))
				}
			}()
			rl.Run(p, res.Report)
		}()
	}
	delete(cidx, p)
	return
}

func runCheck(prop, rulesF, tier, repo, verif, tags, goarch string, overlay map[string][]byte, writeEvidence, verbose bool, jsonOut, replay string) int {
	t0 := time.Now()
	var rules []string
	spec := propTable[prop]
	if rulesF != "" {
		rules = strings.Split(rulesF, ",")
	} else {
		if spec == nil {
			fmt.Fprintf(os.Stderr, "unknown property %q\n", prop)
			return 2
		}
		rules = spec.Rules
	}
	if prop == "" {
		prop = "adhoc"
	}
	known, err := loadKnown(filepath.Join(verif, "known_findings.json"))
	if err != nil {
		fmt.Fprintln(os.Stderr, "known findings:", err)
		return 2
	}

	var cfgs []LoadConfig
	base := LoadConfig{Repo: repo, Tags: tags, GOARCH: goarch, Overlay: overlay}
	cfgs = append(cfgs, base)
	if tier == "thorough" && tags == "" && goarch == "" {
		cfgs = append(cfgs,
			LoadConfig{Repo: repo, Tags: "verif", Overlay: overlay},
			LoadConfig{Repo: repo, GOARCH: "arm64", Overlay: overlay},
			LoadConfig{Repo: repo, Tests: true, Overlay: overlay},
		)
	}
	var results []configResult
	for _, c := range cfgs {
		results = append(results, runRules(c, rules))
	}

	// merge obligations over configurations: keyed by Key; worst verdict wins
	merged := map[string]*Obligation{}
	var order []string
	var hardErrs []string
	funcs := 0
	for i, res := range results {
		if res.Err != "" {
			hardErrs = append(hardErrs, fmt.Sprintf("[%s] %s", res.Cfg, res.Err))
			continue
		}
		if i == 0 {
			funcs = res.Funcs
		}
		for _, o := range res.Report.Obls {
			if m, ok := merged[o.Key]; ok {
				if o.Verdict > m.Verdict {
					cp := *o
					cp.ConfigTag = res.Cfg
					merged[o.Key] = &cp
				}
			} else {
				cp := *o
				if i > 0 {
					cp.ConfigTag = res.Cfg
				}
				merged[o.Key] = &cp
				order = append(order, o.Key)
			}
		}
	}
	var obls []*Obligation
	for _, k := range order {
		obls = append(obls, merged[k])
	}

	// known findings
	knownOpen := map[string]KnownFinding{}
	for _, k := range known {
		if k.Status == "open" && (k.Property == prop || rulesF != "") {
			knownOpen[k.Key] = k
		}
	}
	var failing, knownHit []*Obligation
	nOK := 0
	for _, o := range obls {
		if o.Verdict == OK {
			nOK++
			continue
		}
		if kf, ok := knownOpen[o.Key]; ok && o.Verdict == Violated {
			o.Known = true
			knownHit = append(knownHit, o)
			_ = kf
			continue
		}
		failing = append(failing, o)
	}

	if replay != "" {
		return doReplay(replay, obls)
	}

	for _, o := range knownHit {
		fmt.Printf("KNOWN-FINDING: property=%s %s at %s: %s\n", prop, o.Key, o.Pos, o.Detail)
	}
	for _, e := range hardErrs {
		fmt.Printf("ERROR %s\n", e)
	}
	for _, o := range failing {
		fmt.Printf("%s %s [%s] %s: %s\n", o.Pos, o.Rule, o.VerdictS, o.Key, o.Detail)
	}
	if verbose {
		for _, o := range obls {
			if o.Verdict == OK {
				fmt.Printf("  ok %s %s: %s\n", o.Pos, o.Key, o.Detail)
			}
		}
	}

	nViol := len(failing) + len(hardErrs)
	replayPath := ""
	if nViol > 0 {
		replayPath = filepath.Join(verif, "replay", prop+".json")
		os.MkdirAll(filepath.Dir(replayPath), 0o755)
		type rp struct {
			Property string        `json:"property"`
			Errors   []string      `json:"errors,omitempty"`
			Failing  []*Obligation `json:"failing"`
		}
		b, _ := json.MarshalIndent(rp{prop, hardErrs, failing}, "", " ")
		os.WriteFile(replayPath, b, 0o644)
	}

	if jsonOut != "" {
		type jo struct {
			Errors []string      `json:"errors,omitempty"`
			Obls   []*Obligation `json:"obligations"`
		}
		b, _ := json.MarshalIndent(jo{hardErrs, obls}, "", " ")
		os.WriteFile(jsonOut, b, 0o644)
	}

	var st map[string]any
	if tier == "thorough" && spec != nil && rulesF == "" && len(overlay) == 0 {
		if seeds, err := loadSeeds(filepath.Join(verif, "selftest", "seeds.json")); err == nil {
			only := map[string]bool{}
			for _, rl := range spec.Rules {
				only[rl] = true
			}
			res := runSeeds(seeds, repo, only)
			counts := map[string]int{}
			var blind, detected []string
			for _, sr := range res {
				if sr.Status == "skipped" && strings.HasPrefix(sr.Detail, "no rule") {
					continue
				}
				counts[sr.Status]++
				switch sr.Status {
				case "BLIND", "FALSE-ALARM", "invalid":
					blind = append(blind, sr.ID+": "+sr.Status+" "+sr.Detail)
					fmt.Printf("SELFTEST-%s seed=%s rules=%s %s\n", sr.Status, sr.ID, sr.Rules, sr.Detail)
				case "detected", "silent":
					detected = append(detected, sr.ID)
				}
			}
			st = map[string]any{"counts": counts, "detected_or_silent": detected, "blind_or_invalid": blind,
				"note": "seeded source mutants applied through go/packages overlays; each must make the named rule fail on the named construct (benign seeds must stay silent). Measures the checker, never produces a VIOLATION."}
			fmt.Printf("selftest: %v\n", counts)
		}
	}
	if writeEvidence && spec != nil && rulesF == "" {
		writeEvidenceFile(verif, spec, tier, obls, results, funcs, nOK, nViol, len(knownHit), time.Since(t0).Seconds(), st)
	}

	fmt.Printf("atreelint property=%s tier=%s rules=%s obligations=%d discharged=%d known=%d failing=%d configs=%d wall=%.1fs\n",
		prop, tier, strings.Join(rules, ","), len(obls), nOK, len(knownHit), nViol, len(results), time.Since(t0).Seconds())
	if nViol > 0 {
		fmt.Printf("VIOLATION property=%s replay=%s\n", prop, replayPath)
		return 1
	}
	return 0
}

func doReplay(path string, obls []*Obligation) int {
	b, err := os.ReadFile(path)
	if err != nil {
		fmt.Fprintln(os.Stderr, err)
		return 2
	}
	var rp struct {
		Failing []*Obligation `json:"failing"`
	}
	if err := json.Unmarshal(b, &rp); err != nil {
		fmt.Fprintln(os.Stderr, err)
		return 2
	}
	cur := map[string]*Obligation{}
	for _, o := range obls {
		cur[o.Key] = o
	}
	bad := 0
	for _, f := range rp.Failing {
		o := cur[f.Key]
		if o == nil {
			fmt.Printf("replay %s: obligation no longer enumerated\n", f.Key)
			continue
		}
		fmt.Printf("replay %s at %s: %s: %s\n", o.Key, o.Pos, o.VerdictS, o.Detail)
		if o.Verdict != OK {
			bad++
		}
	}
	if bad > 0 {
		return 1
	}
	return 0
}

func writeEvidenceFile(verif string, spec *PropSpec, tier string, obls []*Obligation, results []configResult, funcs, nOK, nViol, nKnown int, wall float64, selftest map[string]any) {
	ruleInst := map[string]int{}
	distinct := map[string]bool{}
	for _, o := range obls {
		ruleInst[o.Rule]++
		if o.NonTriv {
			distinct[o.Key] = true
		}
	}
	// samples: up to 3 per rule
	perRule := map[string]int{}
	var samples []any
	for _, o := range obls {
		if !o.NonTriv || perRule[o.Rule] >= 3 {
			continue
		}
		perRule[o.Rule]++
		samples = append(samples, map[string]any{"rule": o.Rule, "obligation": o.Key, "at": o.Pos, "verdict": o.VerdictS, "why": o.Detail})
	}
	var floors []Floor
	var observations []string
	var cfgs []string
	for i, r := range results {
		cfgs = append(cfgs, r.Cfg)
		if i == 0 && r.Report != nil {
			floors = r.Report.Floors
			observations = r.Report.Observations
		}
	}
	var ruleDocs []string
	for _, id := range spec.Rules {
		if rl := ruleTable[id]; rl != nil {
			ruleDocs = append(ruleDocs, id+": "+rl.Doc)
		}
	}
	seed := 0
	fmt.Sscanf(os.Getenv("VERIF_SEED"), "%d", &seed)
	ev := map[string]any{
		"property_id": spec.ID,
		"tier":        tier,
		"seed":        seed,
		"level":       "other",
		"coverage": map[string]any{
			"explanation":         spec.Explanation + " NOT decided by this check: " + spec.NotDecided,
			"rule":                "obligations are enumerated per rule x construct (function, call site, loop, field, type switch) from the type-checked SSA form of /repo's current working tree; an obligation is non-trivial when deciding it needed a path query, a dataflow query or a table lookup (everything except 'no path to a register write' style vacuous entries); distinct = distinct rule+construct keys",
			"obligations":         len(obls),
			"discharged":          nOK,
			"evaluations":         len(obls),
			"distinct_nontrivial": len(distinct),
			"samples":             samples,
			"functions_analysed":  funcs,
			"rule_instances":      ruleInst,
			"rules":               ruleDocs,
			"floors":              floors,
			"configs":             cfgs,
			"known_findings_hit":  nKnown,
			"observations":        observations,
			"exhaustive":          true,
			"checker_cmd":         "./check.sh " + spec.ID + " " + tier,
			"trusted_base":        []string{"go/types and go/ssa (x/tools v0.50.0)", "fxamacker/cbor stream decoder (A-CBOR)", "client implementations of Value/Storable/TypeInfo/BaseStorage/Ledger honour their contracts (A-CLIENT)"},
		},
		"assumptions": []string{
			"static analysis of source only: nothing in /repo is executed",
			"A-CBOR: the CBOR library validates well-formedness and bounds counts by input length",
			"A-CLIENT: client-supplied interfaces honour their documented contracts; their bodies are not analysed",
			"calls through func values and client interfaces are opaque; weak updates on slab collections; see DESIGN.md section 9",
			"not decided: " + spec.NotDecided,
		},
		"wall_s":     wall,
		"violations": nViol,
	}
	if selftest != nil {
		ev["coverage"].(map[string]any)["selftest"] = selftest
	}
	dir := filepath.Join(verif, "evidence")
	os.MkdirAll(dir, 0o755)
	b, _ := json.MarshalIndent(ev, "", " ")
	os.WriteFile(filepath.Join(dir, spec.ID+".json"), b, 0o644)
}

// notApplicable lists properties not claimed in this revision, with the reason.
var notApplicable = map[string]string{}

func emitManifest() {
	var ids []string
	for i := 1; i <= 20; i++ {
		ids = append(ids, fmt.Sprintf("C%02d", i))
	}
	var checks []any
	na := []any{}
	for _, id := range ids {
		spec := propTable[id]
		if spec == nil {
			reason := notApplicable[id]
			if reason == "" {
				reason = "no sound structural necessary condition implemented for this property in this revision of the static analyzer; the behaviour quantifies over runtime values"
			}
			na = append(na, map[string]any{"property_id": id, "reason": reason})
			continue
		}
		checks = append(checks, map[string]any{
			"property_id":         id,
			"quick_cmd":           "./check.sh " + id + " quick",
			"thorough_cmd":        "./check.sh " + id + " thorough",
			"evidence_file":       "evidence/" + id + ".json",
			"replay_cmd_template": "./check.sh " + id + " replay {path}",
			"engine":              "atreelint",
			"level_claimed": map[string]any{
				"category":   "other",
				"text":       "Static decision of structural necessary conditions (rules " + strings.Join(spec.Rules, ", ") + ") over all CFG paths and all call-graph paths of the current source: " + spec.Explanation + " This is the right level because these clauses are visible in the shape of the code on every path, including error paths and schedules the test suite cannot execute; the functional behaviour itself is not decided.",
				"design_ref": "DESIGN.md sections 4 and 5 (" + id + ")",
			},
			"level_note": "Trusted: go/types + go/ssa (x/tools v0.50.0), the CBOR library (A-CBOR), client interface contracts (A-CLIENT). Not decided: " + spec.NotDecided,
			"technique":  spec.Technique,
		})
	}
	m := map[string]any{
		"version":   1,
		"setup_cmd": "./setup.sh",
		"hooks": map[string]any{
			"guard":            "verif",
			"enable":           "none needed: the analysis reads source only; the thorough tier additionally loads /repo with -tags verif so that a tagged file cannot hide a violating writer",
			"baseline_off_cmd": "cd /repo && go test -vet=off -count=1 -timeout 25m ./...",
			"source_commits":   []string{},
			"add_only":         true,
		},
		"engines": []any{map[string]any{
			"name": "atreelint", "path": "tool/", "serves_properties": idsOfChecks(checks),
			"kind_free_text": "repository-specific static analyzer over go/packages + go/ssa (x/tools v0.50.0): CFG path rules, call-graph reachability, field-write ownership, typestate/effect summaries, abstract interpretation of comparators and size arithmetic; never executes /repo",
		}},
		"checks":         checks,
		"not_applicable": na,
		"notes":          "All checks are static analyses of /repo's current working tree (no test is run, no path is executed or solved). Quick = default build configuration; thorough = configuration matrix (tags verif, GOARCH 386/arm64, tests-on load) plus seeded self-validation of the rules through go/packages overlays. See DESIGN.md.",
	}
	b, _ := json.MarshalIndent(m, "", " ")
	fmt.Println(string(b))
}

func idsOfChecks(checks []any) []string {
	var out []string
	for _, c := range checks {
		out = append(out, c.(map[string]any)["property_id"].(string))
	}
	return out
}
