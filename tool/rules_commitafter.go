package main

// E6 the result of a fallible call is committed to the object only after its error was found nil.
//
// `x.f, err = call(...)` assigns the field before err is looked at: when the call fails
// the request is rejected - and the object has already lost its old field value (Go
// returns the zero value beside a non-nil error). The library's idiom is a local
// (`v, err := call(); if err != nil { return }; x.f = v`). Obligation per store of a
// call's value result into a field of an existing object, where the same call also
// returns an error: the store is dominated by the err == nil edge of a test of that
// error.

import (
	"fmt"

	"golang.org/x/tools/go/ssa"
)

func ruleE6(p *Prog, r *Report) {
	const R = "E6"
	n := 0
	count := map[string]int{}
	for _, top := range p.TopFuncs() {
		if p.IsTestFile(top.Pos()) {
			continue
		}
		eachInstrDeep(top, func(fn *ssa.Function, in ssa.Instruction) {
			st, ok := in.(*ssa.Store)
			if !ok {
				return
			}
			fr, ok := asFieldAddr(st.Addr)
			if !ok || fr.Owner == nil || isFreshBase(fr.Base) {
				return
			}
			ex, ok := canon(stripIface(st.Val)).(*ssa.Extract)
			if !ok {
				return
			}
			call, ok := ex.Tuple.(*ssa.Call)
			if !ok || call.Referrers() == nil {
				return
			}
			var errv *ssa.Extract
			for _, ref := range *call.Referrers() {
				if e2, ok := ref.(*ssa.Extract); ok && isErrorType(e2.Type()) {
					errv = e2
				}
			}
			if errv == nil || isErrorType(ex.Type()) {
				return
			}
			n++
			count[p.Name(fn)]++
			cons := fmt.Sprintf("store-after-error-check:%s#%d", p.Name(fn), count[p.Name(fn)])
			okStore := knownNil(errv, in.Block())
			if !okStore && fieldKnownZeroBefore(st, fr, call) {
				// the field holds nil on every path to the store: the zero value a failing call leaves there is
				// the value it had
				okStore = true
			}
			r.Decide(okStore, R, cons, p.InstrPos(in),
				"the field receives the call's result on the err == nil edge",
				"field "+fr.Field+" receives the result of a fallible call before the call's error is tested: when the call fails the request is rejected but the object has already lost the old value of the field (a zero value sits there), so a failed request leaves a trace")
		})
	}
	r.Floor(R, "fields assigned from fallible calls", 5, n)
}

// fieldKnownZeroBefore: on every path to the store the same field was assigned nil, or the path comes from the
// nil edge of a test of that field.
func fieldKnownZeroBefore(st *ssa.Store, fr fieldRef, skipCall ssa.Value) bool {
	sameField := func(a ssa.Value) bool {
		f2, ok := asFieldAddr(a)
		return ok && f2.Field == fr.Field && f2.Owner == fr.Owner && sameValue(f2.Base, fr.Base)
	}
	seen := map[*ssa.BasicBlock]bool{}
	var back func(b *ssa.BasicBlock, before ssa.Instruction, depth int) bool
	back = func(b *ssa.BasicBlock, before ssa.Instruction, depth int) bool {
		if depth > 12 {
			return false
		}
		idx := len(b.Instrs)
		if before != nil {
			for i, x := range b.Instrs {
				if x == before {
					idx = i
				}
			}
		}
		for i := idx - 1; i >= 0; i-- {
			if s2, ok := b.Instrs[i].(*ssa.Store); ok && sameField(s2.Addr) {
				return isNilConst(stripTrivial(s2.Val))
			}
			if _, isCall := b.Instrs[i].(*ssa.Call); isCall {
				// a call could assign the field: give up on this path
				c := b.Instrs[i].(*ssa.Call)
				if ssa.Value(c) == skipCall {
					continue // the fallible call itself
				}
				if c.Call.StaticCallee() == nil || c.Call.StaticCallee().Pkg == st.Parent().Pkg {
					return false
				}
			}
		}
		if len(b.Preds) == 0 || seen[b] {
			return false
		}
		seen[b] = true
		for _, pr := range b.Preds {
			if ifi, ok := pr.Instrs[len(pr.Instrs)-1].(*ssa.If); ok {
				if v, nn, ok := nilTestOf(ifi); ok {
					if fl, ok := asLoadedField(v); ok && fl.Field == fr.Field && fl.Owner == fr.Owner && pr.Succs[1-nn] == b {
						continue
					}
				}
			}
			if !back(pr, nil, depth+1) {
				return false
			}
		}
		return true
	}
	return back(st.Block(), st, 0)
}
