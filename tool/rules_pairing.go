package main

// S12 identifier / payload pairing through worker messages and local maps.
//
// The parallel routines hand (id, payload) pairs from the launcher to workers and back:
// the preload sends (id, register bytes) and receives (id, decoded slab), the commits
// receive (id, encoded bytes) and apply them under that id. What reaches the cache or
// the ledger under identifier K must be the payload that was derived from the same K:
//
//	cache[K] = V        needs  V = DecodeSlab(K, D)  with  D = ledger.Retrieve(K)
//	ledger.Store(K, D)  needs  D = EncodeSlab(S)     with  S = deltas[K]      (or D = nil: nothing to store)
//
// where every step may be transported - through a message (both sides are fields of
// one received message: the relation is then demanded of every send into that channel,
// with the received fields replaced by what the sender put into them) or through a
// local map (the relation is demanded of every update of the map, and the lookup key
// must be K). Identifiers are compared as terms (values, elements ids[i] of the same
// slice at the same index, message fields), so an id that is re-derived on the other
// side of a channel from something that is not the position of the payload (a running
// job counter instead of the index of the id) does not match.

import (
	"fmt"
	"go/token"
	"go/types"

	"golang.org/x/tools/go/ssa"
)

type pterm struct {
	kind  string // val, elem, msg
	v     ssa.Value
	s, i  *pterm
	recv  *ssa.UnOp
	field string
}

type plit struct {
	fn    *ssa.Function
	cell  ssa.Value // struct cell (local or heap) whose fields were stored; nil for whole-value messages
	whole ssa.Value
}

type pairCtx struct {
	p     *Prog
	sends map[ssa.Value][]*ssa.Send // channel root -> sends
	steps int
	why   string
}

func stripChanConv(v ssa.Value) ssa.Value {
	for {
		switch x := v.(type) {
		case *ssa.ChangeType:
			v = x.X
		case *ssa.MakeInterface:
			v = x.X
		default:
			return v
		}
	}
}

// chanRoot resolves a channel value to the MakeChan that created it (through direction conversions,
// captured cells, and parameters of goroutine bodies / called closures).
func (c *pairCtx) chanRoot(v ssa.Value, depth int) ssa.Value {
	for d := depth; d < 8; d++ {
		v = stripChanConv(v)
		switch x := v.(type) {
		case *ssa.MakeChan:
			return x
		case *ssa.UnOp:
			if x.Op != token.MUL {
				return v
			}
			st := singleStoreTo(x.X)
			if st == nil {
				return v
			}
			v = st
		case *ssa.Parameter:
			fn := x.Parent()
			idx := -1
			for i, q := range fn.Params {
				if q == x {
					idx = i
				}
			}
			var arg ssa.Value
			for _, g := range goStatements(c.p) {
				if c.p.goCallee(g) == fn && idx >= 0 && idx < len(g.Call.Args) {
					arg = g.Call.Args[idx]
				}
			}
			if arg == nil {
				return v
			}
			v = arg
		default:
			return v
		}
	}
	return v
}

// recvOf: v is a value received from a channel (plain receive, or the value of a comma-ok receive as
// produced by `for x := range ch`), possibly spilled into a local cell.
func recvOf(v ssa.Value) *ssa.UnOp {
	for d := 0; d < 4; d++ {
		switch x := v.(type) {
		case *ssa.UnOp:
			if x.Op == token.ARROW {
				return x
			}
			if x.Op == token.MUL {
				if al, ok := x.X.(*ssa.Alloc); ok {
					if st := singleStoreTo(al); st != nil {
						v = st
						continue
					}
				}
			}
			return nil
		case *ssa.Extract:
			if u, ok := x.Tuple.(*ssa.UnOp); ok && u.Op == token.ARROW && x.Index == 0 {
				return u
			}
			return nil
		default:
			return nil
		}
	}
	return nil
}

// msgFieldOf: v is a field of a received message ("" = the whole message).
func msgFieldOf(v ssa.Value) (*ssa.UnOp, string, bool) {
	if r := recvOf(v); r != nil {
		return r, "", true
	}
	switch x := v.(type) {
	case *ssa.Field:
		if r := recvOf(x.X); r != nil {
			_, nm := structFieldName(x.X.Type(), x.Field)
			return r, nm, true
		}
	case *ssa.UnOp:
		if x.Op != token.MUL {
			return nil, "", false
		}
		fa, ok := x.X.(*ssa.FieldAddr)
		if !ok {
			return nil, "", false
		}
		_, nm := structFieldName(fa.X.Type(), fa.Field)
		// pointer message
		if r := recvOf(fa.X); r != nil {
			return r, nm, true
		}
		// struct message spilled into a local cell
		if al, ok := fa.X.(*ssa.Alloc); ok {
			if st := singleStoreTo(al); st != nil {
				if r := recvOf(st); r != nil {
					return r, nm, true
				}
			}
		}
	}
	return nil, "", false
}

func (c *pairCtx) litOfSend(s *ssa.Send) plit {
	fn := s.Parent()
	x := s.X
	if u, ok := x.(*ssa.UnOp); ok && u.Op == token.MUL {
		if al, ok := u.X.(*ssa.Alloc); ok {
			if _, isStruct := al.Type().(*types.Pointer).Elem().Underlying().(*types.Struct); isStruct {
				return plit{fn: fn, cell: al}
			}
		}
	}
	if al, ok := x.(*ssa.Alloc); ok {
		return plit{fn: fn, cell: al}
	}
	return plit{fn: fn, whole: x}
}

func (l plit) field(name string) ssa.Value {
	if name == "" {
		return l.whole
	}
	if l.cell == nil {
		return nil
	}
	if v := litField(l.fn, l.cell, name); v != nil {
		return v
	}
	// a field the literal does not mention holds the zero value
	if st, ok := l.cell.Type().(*types.Pointer).Elem().Underlying().(*types.Struct); ok {
		for i := 0; i < st.NumFields(); i++ {
			if st.Field(i).Name() == name {
				written := false
				eachInstr(l.fn, func(in ssa.Instruction) {
					if fa, ok := in.(*ssa.FieldAddr); ok && fa.X == l.cell && fa.Field == i {
						written = true
					}
				})
				if !written {
					return ssa.NewConst(nil, st.Field(i).Type())
				}
			}
		}
	}
	return nil
}

func (c *pairCtx) term(v ssa.Value, env map[*ssa.UnOp]plit, depth int) *pterm {
	if v == nil || depth > 10 {
		return &pterm{kind: "val", v: v}
	}
	v = canonConv(v)
	if r, f, ok := msgFieldOf(v); ok {
		if lit, has := env[r]; has {
			if fv := lit.field(f); fv != nil {
				return c.term(fv, env, depth+1)
			}
		}
		return &pterm{kind: "msg", recv: r, field: f}
	}
	if u, ok := v.(*ssa.UnOp); ok && u.Op == token.MUL {
		switch a := u.X.(type) {
		case *ssa.IndexAddr:
			return &pterm{kind: "elem", s: c.term(a.X, env, depth+1), i: c.term(a.Index, env, depth+1)}
		case *ssa.Alloc, *ssa.FreeVar:
			if st := singleStoreTo(a); st != nil {
				return c.term(st, env, depth+1)
			}
		}
	}
	if ix, ok := v.(*ssa.Index); ok {
		return &pterm{kind: "elem", s: c.term(ix.X, env, depth+1), i: c.term(ix.Index, env, depth+1)}
	}
	return &pterm{kind: "val", v: v}
}

func ptermEq(a, b *pterm) bool {
	if a == nil || b == nil || a.kind != b.kind {
		return false
	}
	switch a.kind {
	case "val":
		return a.v != nil && b.v != nil && (a.v == b.v || sameValue(a.v, b.v))
	case "elem":
		return ptermEq(a.s, b.s) && ptermEq(a.i, b.i)
	case "msg":
		return a.recv == b.recv && a.field == b.field
	}
	return false
}

func (t *pterm) String() string {
	switch t.kind {
	case "elem":
		return t.s.String() + "[" + t.i.String() + "]"
	case "msg":
		if t.field == "" {
			return "<received>"
		}
		return "<received>." + t.field
	}
	if t.v == nil {
		return "?"
	}
	return t.v.Name()
}

func (c *pairCtx) fail(format string, args ...any) bool {
	if c.why == "" {
		c.why = fmt.Sprintf(format, args...)
	}
	return false
}

// rel decides the relation kind(K, V): slabOf, bytesOf, encOf, deltaOf.
func (c *pairCtx) rel(kind string, K, V ssa.Value, env map[*ssa.UnOp]plit, depth int) bool {
	c.steps++
	if depth > 12 || c.steps > 400 {
		return c.fail("derivation too deep")
	}
	V = canonConv(V)
	pos := func(v ssa.Value) string {
		if in, ok := v.(ssa.Instruction); ok {
			return c.p.InstrPos(in)
		}
		return "?"
	}
	// transported in a message
	if r, f, ok := msgFieldOf(V); ok {
		if lit, has := env[r]; has {
			fv := lit.field(f)
			if fv == nil {
				return c.fail("field %q of the message sent in %s is not visible", f, lit.fn.Name())
			}
			return c.rel(kind, K, fv, env, depth+1)
		}
		root := c.chanRoot(r.X, 0)
		sends := c.sends[root]
		if len(sends) == 0 {
			return c.fail("no send found into the channel received from at %s", pos(r))
		}
		for _, s := range sends {
			env2 := map[*ssa.UnOp]plit{}
			for k, v := range env {
				env2[k] = v
			}
			lit := c.litOfSend(s)
			env2[r] = lit
			fv := lit.field(f)
			if fv == nil {
				return c.fail("field %q of the message sent at %s is not visible", f, c.p.InstrPos(s))
			}
			if !c.rel(kind, K, fv, env2, depth+1) {
				return c.fail("for the message sent at %s", c.p.InstrPos(s))
			}
		}
		return true
	}
	// handed to a private helper: the relation is demanded of every call
	if vp, ok := V.(*ssa.Parameter); ok {
		kp, ok2 := canonConv(K).(*ssa.Parameter)
		fn := vp.Parent()
		if !ok2 || kp.Parent() != fn || fn.Object() == nil || fn.Object().Exported() {
			return c.fail("%s is a parameter of %s and the identifier is not", vp.Name(), fn.Name())
		}
		vi, ki := -1, -1
		for i, q := range fn.Params {
			if q == vp {
				vi = i
			}
			if q == kp {
				ki = i
			}
		}
		sites := c.p.CallersOf(fn)
		if len(sites) == 0 || vi < 0 || ki < 0 {
			return c.fail("no call of %s found", fn.Name())
		}
		for _, cs := range sites {
			a := cs.Instr.Common().Args
			if cs.Instr.Common().IsInvoke() || len(a) != len(fn.Params) {
				return c.fail("call of %s at %s not resolved", fn.Name(), c.p.InstrPos(cs.Instr.(ssa.Instruction)))
			}
			if !c.rel(kind, a[ki], a[vi], env, depth+1) {
				return c.fail("for the call at %s", c.p.InstrPos(cs.Instr.(ssa.Instruction)))
			}
		}
		return true
	}
	// every way a joined value can arise
	if phi, ok := V.(*ssa.Phi); ok {
		for _, e := range phi.Edges {
			if !c.rel(kind, K, e, env, depth+1) {
				return false
			}
		}
		return true
	}
	// transported in a local map
	var lk *ssa.Lookup
	if l, ok := V.(*ssa.Lookup); ok {
		lk = l
	} else if ex, ok := V.(*ssa.Extract); ok && ex.Index == 0 {
		if l, ok := ex.Tuple.(*ssa.Lookup); ok {
			lk = l
		}
	}
	if lk != nil {
		mapv := canon(lk.X)
		var mapOwner *ssa.Function // where the map is filled when it was handed to this function as a parameter
		if prm, isPrm := mapv.(*ssa.Parameter); isPrm && prm.Parent().Object() != nil && !prm.Parent().Object().Exported() {
			idx := -1
			for i, q := range prm.Parent().Params {
				if q == prm {
					idx = i
				}
			}
			for _, cs := range c.p.CallersOf(prm.Parent()) {
				if a := cs.Instr.Common().Args; idx >= 0 && idx < len(a) {
					if m2, ok := canon(a[idx]).(*ssa.MakeMap); ok {
						mapv, mapOwner = m2, TopLevel(cs.Caller)
					}
				}
			}
		}
		if mm, ok := mapv.(*ssa.MakeMap); ok {
			if !ptermEq(c.term(K, env, 0), c.term(lk.Index, env, 0)) {
				return c.fail("the local map is read at %s under %s, not under the identifier %s", pos(lk), c.term(lk.Index, env, 0), c.term(K, env, 0))
			}
			n := 0
			okAll := true
			fillFn := TopLevel(lk.Parent())
			if mapOwner != nil {
				fillFn = mapOwner
			}
			eachInstrDeep(fillFn, func(_ *ssa.Function, in ssa.Instruction) {
				mu, ok := in.(*ssa.MapUpdate)
				if !ok || canon(mu.Map) != ssa.Value(mm) {
					return
				}
				n++
				if okAll && !c.rel(kind, mu.Key, mu.Value, env, depth+1) {
					okAll = false
					c.fail("for the map update at %s", c.p.InstrPos(mu))
				}
			})
			if n == 0 {
				return c.fail("the local map read at %s is never filled", pos(lk))
			}
			return okAll
		}
		if kind == "deltaOf" {
			if fr, ok := asLoadedField(lk.X); ok && fr.is(storageT, "deltas") {
				if ptermEq(c.term(K, env, 0), c.term(lk.Index, env, 0)) {
					return true
				}
				return c.fail("the slab is read from the write set at %s under %s, not under the identifier %s", pos(lk), c.term(lk.Index, env, 0), c.term(K, env, 0))
			}
		}
	}
	if isNilConst(V) && kind == "encOf" {
		return true // nothing to store: the register is deleted instead
	}
	ex, _ := V.(*ssa.Extract)
	var call *ssa.Call
	if ex != nil && ex.Index == 0 {
		call, _ = ex.Tuple.(*ssa.Call)
	}
	if call == nil {
		return c.fail("%s at %s is not derived from the identifier by a recognised step", V.Name(), pos(V))
	}
	// derived inside a private helper: the relation is demanded of every successful return of the helper
	if g := call.Call.StaticCallee(); g != nil && g.Pkg == c.p.RootSSA && !call.Call.IsInvoke() && g.Object() != nil && !g.Object().Exported() && len(g.Blocks) > 0 && calleeName(call) != "DecodeSlab" && calleeName(call) != "EncodeSlab" {
		kt := c.term(K, env, 0)
		pi := -1
		for i, a := range call.Call.Args {
			if i < len(g.Params) && ptermEq(kt, c.term(a, env, 0)) {
				pi = i
			}
		}
		if pi < 0 {
			return c.fail("the helper %s called at %s is not handed the identifier %s", g.Name(), pos(call), kt)
		}
		n := 0
		for _, ret := range returnsOf(g) {
			if cl, _ := classifyReturn(ret); cl == retError || ex.Index >= len(ret.Results) {
				continue
			}
			rv := canon(ret.Results[ex.Index])
			if isNilConst(rv) {
				continue // the not-found answer
			}
			n++
			if !c.rel(kind, g.Params[pi], rv, map[*ssa.UnOp]plit{}, depth+1) {
				return c.fail("in the helper %s", g.Name())
			}
		}
		if n == 0 {
			return c.fail("the helper %s has no successful return with a value", g.Name())
		}
		return true
	}
	args := callArgs(call)
	switch kind {
	case "slabOf":
		if calleeName(call) == "DecodeSlab" && len(args) >= 2 {
			if !ptermEq(c.term(K, env, 0), c.term(args[0], env, 0)) {
				return c.fail("the slab is decoded at %s under %s but filed under %s", pos(call), c.term(args[0], env, 0), c.term(K, env, 0))
			}
			return c.rel("bytesOf", K, args[1], env, depth+1)
		}
	case "bytesOf":
		if calleeName(call) == "Retrieve" && call.Call.IsInvoke() && len(args) >= 1 {
			if ptermEq(c.term(K, env, 0), c.term(args[0], env, 0)) {
				return true
			}
			return c.fail("the bytes are read from the ledger at %s under %s but used under %s", pos(call), c.term(args[0], env, 0), c.term(K, env, 0))
		}
	case "encOf":
		if calleeName(call) == "EncodeSlab" && len(args) >= 1 {
			return c.rel("deltaOf", K, args[0], env, depth+1)
		}
	}
	return c.fail("%s at %s is not derived from the identifier by a recognised step", V.Name(), pos(V))
}

func ruleS12(p *Prog, r *Report) {
	const R = "S12"
	c := &pairCtx{p: p, sends: map[ssa.Value][]*ssa.Send{}}
	for _, top := range p.TopFuncs() {
		if p.IsTestFile(top.Pos()) {
			continue
		}
		eachInstrDeep(top, func(_ *ssa.Function, in ssa.Instruction) {
			if s, ok := in.(*ssa.Send); ok {
				root := c.chanRoot(s.Chan, 0)
				c.sends[root] = append(c.sends[root], s)
			}
		})
	}
	nCache, nStore := 0, 0
	count := map[string]int{}
	bw := p.baseWriteFuncs()
	for _, top := range p.TopFuncs() {
		if p.IsTestFile(top.Pos()) || recvName(top) != storageT {
			continue
		}
		_, isCommit := bw[top]
		// a retire helper that only commit routines call is judged with them: its cache write is the "after the register
		// write, the cache receives the write-set object / the tombstone" step S3 checks at each call site
		if !isCommit && p.deltaHelperWrites(top) != nil {
			callers := p.CallersOf(top)
			all := len(callers) > 0
			for _, cs := range callers {
				if _, ok := bw[TopLevel(cs.Caller)]; !ok {
					all = false
				}
			}
			if all {
				isCommit = true
			}
		}
		eachInstrDeep(top, func(fn *ssa.Function, in ssa.Instruction) {
			// cache fills outside commit routines: the slab decoded from the register of the same id
			if fw, ok := fieldWriteOf(in); ok && fw.Ref.is(storageT, "cache") && fw.Kind == "mapupdate" && !isCommit {
				nCache++
				count["c"+p.Name(top)]++
				cons := fmt.Sprintf("cache-fill-pairs:%s#%d", p.Name(top), count["c"+p.Name(top)])
				c.why, c.steps = "", 0
				ok := c.rel("slabOf", fw.Key, fw.Val, map[*ssa.UnOp]plit{}, 0)
				r.Decide(ok, R, cons, p.InstrPos(in), "the cached slab is DecodeSlab(id, ledger.Retrieve(id)) for the id it is cached under, through every message it travels in",
					"the read cache can receive under one identifier a slab that was read or decoded under another: "+c.why+"; reads served from the preloaded cache then differ from reads decoded on demand")
				return
			}
			// register stores: the encoding of the write-set slab of the same id
			if call, idv, kind, ok := p.registerWrite(in); ok && kind == "Store" {
				args := call.Common().Args
				var data ssa.Value
				for _, a := range args {
					if sl, ok := a.Type().Underlying().(*types.Slice); ok {
						if b, ok := sl.Elem().Underlying().(*types.Basic); ok && b.Kind() == types.Byte {
							data = a
						}
					}
				}
				if data == nil {
					return
				}
				nStore++
				count["s"+p.Name(top)]++
				cons := fmt.Sprintf("register-store-pairs:%s#%d", p.Name(top), count["s"+p.Name(top)])
				c.why, c.steps = "", 0
				ok := c.rel("encOf", idv, data, map[*ssa.UnOp]plit{}, 0)
				r.Decide(ok, R, cons, p.InstrPos(in), "the bytes stored under an id are EncodeSlab(deltas[id]) for that id, through every message and local map they travel in",
					"a register can be written under one identifier with bytes that were encoded from the write-set slab of another: "+c.why)
			}
		})
	}
	r.Floor(R, "cache fills outside commit routines", 2, nCache)
	r.Floor(R, "register stores in commit routines", 3, nStore)
}
